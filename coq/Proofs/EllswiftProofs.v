(* Lemmas about Model/Ecdh.v and Model/Ellswift.v (property C18).
   What is proved needs no field theory: the exact failure set and failure masking of ecdh and xdh, that a
   decoded point is on the curve (soundness of the final square-root check), and the structure of the
   inverse map and of the encoding search.  NOT proved (needs p prime and field reasoning): that decode
   never hits its final check (one of x1, x2, x3 is always on the curve) and that every t returned by
   the inverse map decodes back to x; the model carries run-time checks for both (#-96). *)
From Coq Require Import ZArith List Bool Lia.
Require Import Spec.Params Spec.Field Spec.Curve Spec.Bytes Spec.Sha256 Model.Base Model.Ecdh Model.Ellswift.
Import ListNotations.
Local Open Scope Z_scope.

(* ------------------------------------------------------------------ modular helpers *)
Lemma mpow_range : forall m a e, 0 < m -> 0 <= mpow m a e < m.
Proof.
  intros m a e Hm. destruct e as [|e|e]; simpl.
  - apply Z.mod_pos_bound. exact Hm.
  - destruct e; simpl; apply Z.mod_pos_bound; exact Hm.
  - lia.
Qed.

Lemma mneg_sq : forall m y, 0 < m -> (mneg m y * mneg m y) mod m = (y * y) mod m.
Proof.
  intros m y Hm. unfold mneg. rewrite <- Z.mul_mod by lia. f_equal. ring.
Qed.

Section EcdhProofs.
Variable P : Params.
Hypothesis n_pos : 0 < cn P.

(* ------------------------------------------------------------------ ECDH *)
Lemma ecdh_scalar_valid : forall seckey, 1 <= be_val seckey < cn P ->
  ecdh_scalar P seckey = (be_val seckey, false).
Proof.
  intros k H. unfold ecdh_scalar, sc_of_b32. cbv zeta.
  rewrite Z.mod_small by lia.
  replace (cn P <=? be_val k) with false by (symmetry; apply Z.leb_gt; lia).
  replace (be_val k =? 0) with false by (symmetry; apply Z.eqb_neq; lia).
  reflexivity.
Qed.

Lemma ecdh_scalar_invalid : forall seckey, be_val seckey = 0 \/ cn P <= be_val seckey ->
  ecdh_scalar P seckey = (1, true).
Proof.
  intros k H. unfold ecdh_scalar, sc_of_b32. cbv zeta. destruct H as [H|H].
  - rewrite H. rewrite Z.mod_0_l by lia. rewrite Z.eqb_refl, orb_true_r. reflexivity.
  - replace (cn P <=? be_val k) with true by (symmetry; apply Z.leb_le; lia). reflexivity.
Qed.

(* exact result of secp256k1_ecdh for every hash function h and every loadable key object *)
Theorem ecdh_exact : forall (h : ecdh_hashfn) obj seckey Q,
  pk_load obj = Some Q ->
  let v := be_val seckey in
  (1 <= v < cn P ->
     let R := pmul P v Q in
     let hr := h (fe_to_b32 (px R)) (fe_to_b32 (py R)) in
     ecdh P h obj seckey = [AInt (b2z (negb (fst hr =? 0))); ABytes (snd hr)])
  /\ (v = 0 \/ cn P <= v ->
     ecdh P h obj seckey = [AInt 0; ABytes (snd (h (fe_to_b32 (px Q)) (fe_to_b32 (py Q))))]).
Proof.
  intros h obj k Q HQ v. unfold ecdh. rewrite HQ. unfold ecdh_pt. split; intros H.
  - rewrite ecdh_scalar_valid by exact H. fold v. cbv zeta.
    destruct (h _ _) as [hret out]. cbn [fst snd]. rewrite andb_true_r. reflexivity.
  - rewrite ecdh_scalar_invalid by exact H.
    change (pmul P 1 Q) with Q. destruct (h _ _) as [hret out]. cbn [fst snd]. rewrite andb_false_r. reflexivity.
Qed.

(* with the library hash: succeeds exactly for 1 <= secret < n, output = SHA256(compressed s*Q) *)
Theorem ecdh_default_exact : forall obj seckey Q,
  pk_load obj = Some Q ->
  let v := be_val seckey in 0 <= v ->
  exists out, ecdh P ecdh_hash_sha256 obj seckey = [AInt (b2z ((1 <=? v) && (v <? cn P))); ABytes out] /\
    (1 <= v < cn P -> let R := pmul P v Q in
       out = sha256 (Z.lor (Z.land (last (fe_to_b32 (py R)) 0) 1) 2 :: fe_to_b32 (px R))).
Proof.
  intros obj k Q HQ v Hv. destruct (ecdh_exact ecdh_hash_sha256 obj k Q HQ) as [E1 E2]. fold v in E1, E2.
  destruct (Z_lt_le_dec v 1) as [L|L].
  - eexists. split.
    + rewrite E2 by lia. replace (1 <=? v) with false by (symmetry; apply Z.leb_gt; lia). reflexivity.
    + intros. lia.
  - destruct (Z_lt_le_dec v (cn P)) as [L2|L2].
    + eexists. split.
      * rewrite E1 by lia. cbn [ecdh_hash_sha256 fst snd].
        replace (1 <=? v) with true by (symmetry; apply Z.leb_le; lia).
        replace (v <? cn P) with true by (symmetry; apply Z.ltb_lt; lia). reflexivity.
      * intros. reflexivity.
    + eexists. split.
      * rewrite E2 by lia. replace (v <? cn P) with false by (symmetry; apply Z.ltb_ge; lia).
        rewrite andb_false_r. reflexivity.
      * intros. lia.
Qed.

(* ------------------------------------------------------------------ xdh *)
Definition xdh_remote_x (ell_a ell_b : bytes) (party : Z) : Z :=
  let theirs := if party =? 0 then ell_b else ell_a in
  let fr := xswiftec_frac P (be_val (firstn 32 theirs) mod cp P) (be_val (skipn 32 theirs) mod cp P) in
  mmul (cp P) (fst fr) (minv (cp P) (snd fr)).

Theorem xdh_exact : forall (h : xdh_hashfn) ell_a ell_b seckey party x y,
  lift_x P (xdh_remote_x ell_a ell_b party) false = Some (x, y) ->
  let v := be_val seckey in
  let Q := Some (x, y) in
  (1 <= v < cn P ->
     let hr := h (fe_to_b32 (px (pmul P v Q))) ell_a ell_b in
     ellswift_xdh P h ell_a ell_b seckey party = [AInt (b2z (negb (fst hr =? 0))); ABytes (snd hr)])
  /\ (v = 0 \/ cn P <= v ->
     ellswift_xdh P h ell_a ell_b seckey party = [AInt 0; ABytes (snd (h (fe_to_b32 x) ell_a ell_b))]).
Proof.
  intros h a b k party x y HL v Q. unfold xdh_remote_x in HL. unfold ellswift_xdh.
  cbv zeta in *. destruct (xswiftec_frac P _ _) as [xn xd]. cbn [fst snd] in HL. unfold fmul. rewrite HL.
  unfold sc_of_b32. cbv zeta. fold v. split; intros H.
  - rewrite Z.mod_small by lia.
    replace (cn P <=? v) with false by (symmetry; apply Z.leb_gt; lia).
    replace (v =? 0) with false by (symmetry; apply Z.eqb_neq; lia). cbn [orb].
    destruct (h _ _ _) as [hret out]. cbn [fst snd]. rewrite andb_true_r. reflexivity.
  - assert (E : (cn P <=? v) || (v mod cn P =? 0) = true).
    { destruct H as [H|H]; [rewrite H, Z.mod_0_l by lia; rewrite Z.eqb_refl; apply orb_true_r |
                            replace (cn P <=? v) with true by (symmetry; apply Z.leb_le; lia); reflexivity]. }
    rewrite E. change (px (pmul P 1 (Some (x, y)))) with x.
    destruct (h _ _ _) as [hret out]. cbn [fst snd]. rewrite andb_false_r. reflexivity.
Qed.

(* the two library hashes never fail: xdh fails exactly for an invalid secret (or a failed model check) *)
Theorem xdh_ret_bip324 : forall ell_a ell_b seckey party x y,
  lift_x P (xdh_remote_x ell_a ell_b party) false = Some (x, y) ->
  let v := be_val seckey in 0 <= v ->
  exists out, ellswift_xdh P xdh_hash_bip324 ell_a ell_b seckey party = [AInt (b2z ((1 <=? v) && (v <? cn P))); ABytes out].
Proof.
  intros a b k party x y HL v Hv.
  destruct (xdh_exact xdh_hash_bip324 a b k party x y HL) as [E1 E2]. fold v in E1, E2.
  destruct (Z_lt_le_dec v 1) as [L|L]; [|destruct (Z_lt_le_dec v (cn P)) as [L2|L2]]; eexists.
  - rewrite E2 by lia. replace (1 <=? v) with false by (symmetry; apply Z.leb_gt; lia). reflexivity.
  - rewrite E1 by lia. cbn [xdh_hash_bip324 fst snd].
    replace (1 <=? v) with true by (symmetry; apply Z.leb_le; lia).
    replace (v <? cn P) with true by (symmetry; apply Z.ltb_lt; lia). reflexivity.
  - rewrite E2 by lia. replace (v <? cn P) with false by (symmetry; apply Z.ltb_ge; lia).
    rewrite andb_false_r. reflexivity.
Qed.
End EcdhProofs.

(* ------------------------------------------------------------------ ElligatorSwift *)
Section EllswiftProofs.
Variable P : Params.
Hypothesis p_pos : 0 < cp P.

Lemma lift_x_on_curve : forall x odd Q, lift_x P x odd = Some Q -> on_curve P (Some Q) = true.
Proof.
  intros x odd Q H. unfold lift_x in H.
  destruct ((x <? 0) || (cp P <=? x)) eqn:Hr; [discriminate|].
  apply orb_false_iff in Hr. destruct Hr as [H0 H1]. apply Z.ltb_ge in H0. apply Z.leb_gt in H1.
  unfold msqrt in H. cbv zeta in H.
  set (r := mpow (cp P) ((x * x * x + cb P) mod cp P) ((cp P + 1) / 4)) in *.
  destruct ((r * r) mod cp P =? ((x * x * x + cb P) mod cp P) mod cp P) eqn:Hs; [|discriminate].
  apply Z.eqb_eq in Hs. rewrite Z.mod_mod in Hs by lia.
  assert (Hrr : 0 <= r < cp P) by (apply mpow_range; exact p_pos).
  assert (Ok : forall y, 0 <= y < cp P -> (y * y) mod cp P = (x * x * x + cb P) mod cp P -> on_curve P (Some (x, y)) = true).
  { intros y Hy Hy2. unfold on_curve. rewrite Hy2, Z.eqb_refl.
    replace (0 <=? x) with true by (symmetry; apply Z.leb_le; lia).
    replace (x <? cp P) with true by (symmetry; apply Z.ltb_lt; lia).
    replace (0 <=? y) with true by (symmetry; apply Z.leb_le; lia).
    replace (y <? cp P) with true by (symmetry; apply Z.ltb_lt; lia). reflexivity. }
  destruct (Bool.eqb (Z.odd r) odd); inversion H; subst Q.
  - apply Ok; assumption.
  - apply Ok.
    + unfold mneg. apply Z.mod_pos_bound. exact p_pos.
    + rewrite mneg_sq by exact p_pos. exact Hs.
Qed.

(* decode: always returns 1 with an on-curve point, unless the model's final check fails *)
Theorem decode_total_on_curve_partial : forall ell64,
  ellswift_decode P ell64 = model_check_failed \/
  exists x y, decode_pt P ell64 = Some (x, y) /\
              ellswift_decode P ell64 = [AInt 1; ABytes (pk_obj (Some (x, y)))] /\
              on_curve P (Some (x, y)) = true.
Proof.
  intros ell. unfold ellswift_decode. destruct (decode_pt P ell) as [[x y]|] eqn:E; [right | left; reflexivity].
  exists x, y. repeat split. unfold decode_pt, swiftec in E. eapply lift_x_on_curve. exact E.
Qed.

Lemma point_eqb_eq : forall A B, point_eqb A B = true -> A = B.
Proof.
  intros [[a b]|] [[c d]|] H; simpl in H; try discriminate; [|reflexivity].
  apply andb_true_iff in H. destruct H as [H1 H2]. apply Z.eqb_eq in H1, H2. subst. reflexivity.
Qed.

Lemma ell_finish_roundtrip : forall Q tag pre ell,
  ell_finish P Q tag pre = [AInt 1; ABytes ell] -> decode_pt P ell = Q.
Proof.
  intros Q tag pre ell H. unfold ell_finish in H. destruct (elligatorswift P Q tag pre) as [e|]; [|discriminate].
  destruct (point_eqb (decode_pt P e) Q) eqn:E; [|discriminate].
  inversion H; subst. apply point_eqb_eq. exact E.
Qed.

(* every encoding the model outputs for a key object decodes back to that key (by the model's check) *)
Theorem encode_decode_partial : forall obj rnd32 ell,
  ellswift_encode P obj rnd32 = [AInt 1; ABytes ell] ->
  exists x y, pk_load obj = Some (Some (x, y)) /\ ellswift_decode P ell = [AInt 1; ABytes (pk_obj (Some (x, y)))].
Proof.
  intros obj rnd ell H. unfold ellswift_encode in H. destruct (pk_load obj) as [Q|] eqn:EL; [|discriminate].
  unfold pk_load in EL. cbv zeta in EL. destruct (be_val (firstn 32 obj) =? 0); [discriminate EL|]. inversion EL as [EQ]. rewrite <- EQ in H.
  apply ell_finish_roundtrip in H.
  do 2 eexists. split; [reflexivity|]. unfold ellswift_decode. rewrite H. reflexivity.
Qed.

(* create: fails (0, 64 zero bytes) exactly for an invalid secret key; an encoding it outputs decodes to d*G *)
Theorem create_exact_partial : forall seckey32 aux,
  (seckey_of_b32 P seckey32 = None -> ellswift_create P seckey32 aux = [AInt 0; ABytes (zeros 64)]) /\
  (forall d, seckey_of_b32 P seckey32 = Some d ->
     ellswift_create P seckey32 aux = abstain \/ ellswift_create P seckey32 aux = model_check_failed \/
     exists ell, ellswift_create P seckey32 aux = [AInt 1; ABytes ell] /\ decode_pt P ell = pmul P d (G P)).
Proof.
  intros sk aux. unfold ellswift_create. split.
  - intros H. rewrite H. reflexivity.
  - intros d H. rewrite H. unfold ell_finish.
    destruct (elligatorswift P _ _ _) as [e|]; [|left; reflexivity].
    destruct (point_eqb _ _) eqn:E; [|right; left; reflexivity].
    right; right. exists e. split; [reflexivity|]. apply point_eqb_eq. exact E.
Qed.

(* the search only ever returns what the inverse map returned for a PRNG-drawn u and a 3-bit branch value *)
Theorem search_uses_inverse : forall fuel x tag pre cnt nleft pool u32 t,
  xelligatorswift P fuel x tag pre cnt nleft pool = Some (u32, t) ->
  exists c k, 0 <= c < 8 /\ u32 = ell_prng tag pre k /\ xswiftec_inv P x (be_val u32 mod cp P) c = Some t.
Proof.
  induction fuel as [|f IH]; intros x tag pre cnt nleft pool u32 t H; [discriminate|].
  cbn [xelligatorswift] in H.
  destruct (if nleft =? 0 then (cnt + 1, 64, ell_prng tag pre cnt) else (cnt, nleft, pool)) as [[cnt' left'] pool'].
  cbv zeta in H.
  set (c := Z.land (Z.shiftr (nth (Z.to_nat ((left' - 1) / 2)) pool' 0) (4 * ((left' - 1) mod 2))) 7) in *.
  destruct (xswiftec_inv P x (be_val (ell_prng tag pre cnt') mod cp P) c) as [t0|] eqn:E.
  - inversion H; subst. exists c, cnt'. repeat split; try assumption.
    + unfold c. apply Z.land_nonneg. right. lia.
    + unfold c. change 7 with (Z.ones 3). rewrite Z.land_ones by lia. apply Z.mod_pos_bound. lia.
  - eapply IH. exact H.
Qed.

(* structure of the inverse map: what a successful branch has checked *)
Theorem inverse_branch_conditions : forall x u c t,
  xswiftec_inv P x u c = Some t ->
  (Z.land c 2 = 0 ->
     x_on_curve P ((- (u + x)) mod cp P) = false /\
     fis_square P (fmul P ((- (((- (u + x)) mod cp P) * ((- (u + x)) mod cp P)) + u * x) mod cp P) ((u * u * u + cb P) mod cp P)) = true)
  /\ (Z.land c 2 <> 0 ->
     fis_square P ((x - u) mod cp P) = true /\ (x - u) mod cp P <> 0 /\
     fis_square P ((- (((x - u) mod cp P) * (4 * (u * u * u + cb P) + 3 * ((x - u) mod cp P) * u * u))) mod cp P) = true).
Proof.
  intros x u c t H. unfold xswiftec_inv in H. cbv zeta in H. split; intros Hc.
  - rewrite Hc in H. cbn [Z.eqb] in H.
    destruct (x_on_curve P _) eqn:E1; [discriminate|].
    destruct (fis_square P _) eqn:E2; [|discriminate]. split; reflexivity.
  - replace (Z.land c 2 =? 0) with false in H by (symmetry; apply Z.eqb_neq; exact Hc).
    destruct (fis_square P ((x - u) mod cp P)) eqn:E1; [|discriminate]. cbn [negb] in H.
    destruct (fis_square P ((- _) mod cp P)) eqn:E2; [|discriminate]. cbn [negb] in H.
    destruct (_ && _); [discriminate|].
    destruct ((x - u) mod cp P =? 0) eqn:E3; [discriminate|]. apply Z.eqb_neq in E3.
    repeat split; try assumption; reflexivity.
Qed.

(* the sign fix-up of elligatorswift_var gives t the parity of y (p odd), except for t = 0 *)
Lemma sign_fix_parity : forall t (yodd : bool), Z.odd (cp P) = true -> 0 < t < cp P ->
  Z.odd (if Bool.eqb (Z.odd t) yodd then t else fneg P t) = yodd.
Proof.
  intros t yodd Hp Ht. destruct (Bool.eqb (Z.odd t) yodd) eqn:E.
  - apply eqb_prop in E. exact E.
  - unfold fneg, mneg. replace ((- t) mod cp P) with (cp P - t).
    + rewrite Z.odd_sub, Hp. apply eqb_false_iff in E. destruct (Z.odd t), yodd; try reflexivity; congruence.
    + apply Z.mod_unique with (q := -1); lia.
Qed.
End EllswiftProofs.

Example premises_c18_secp256k1 : 0 < cn secp256k1 /\ 0 < cp secp256k1 /\ Z.odd (cp secp256k1) = true.
Proof. repeat split; vm_compute; reflexivity. Qed.
