(* The streaming SHA-256 object computes the specification hash for every split of the input into writes. *)
From Coq Require Import ZArith List Bool Lia Arith.
Require Import Spec.Bytes Spec.Sha256 Model.Sha256Stream Proofs.BytesLemmas.
Import ListNotations.
Local Open Scope Z_scope.
Ltac Zify.zify_post_hook ::= Z.div_mod_to_equations.

(* canonical form of block absorption: fuel = length always suffices *)
Definition sb (s : sha_state) (bs : bytes) : sha_state := sha_blocks (length bs) s bs.

Lemma div64_small n : (n < 64 -> n / 64 = 0)%nat. Proof. intros. apply Nat.div_small. assumption. Qed.
Lemma div64_ge n : (64 <= n -> 1 <= n / 64)%nat. Proof. intros. apply Nat.div_le_lower_bound; lia. Qed.
Lemma div64_sub n : (64 <= n -> (n - 64) / 64 = n / 64 - 1)%nat.
Proof. intros H. replace n with ((n - 64) + 1 * 64)%nat at 2 by lia. rewrite Nat.div_add by lia. lia. Qed.

Lemma sha_blocks_fuel2 f : forall g s bs, (length bs / 64 <= f)%nat -> (length bs / 64 <= g)%nat ->
  sha_blocks f s bs = sha_blocks g s bs.
Proof.
  induction f as [|f IH]; intros g s bs Hf Hg.
  - assert (Hl : (length bs < 64)%nat) by (destruct (Nat.ltb_spec (length bs) 64); [assumption|pose proof (div64_ge _ H); lia]).
    destruct g; [reflexivity|]. cbn [sha_blocks]. apply Nat.ltb_lt in Hl. rewrite Hl. reflexivity.
  - cbn [sha_blocks]. destruct (Nat.ltb_spec (length bs) 64) as [Hl|Hl].
    + destruct g; [reflexivity|]. cbn [sha_blocks]. apply Nat.ltb_lt in Hl. rewrite Hl. reflexivity.
    + pose proof (div64_ge _ Hl) as H1. destruct g; [lia|]. cbn [sha_blocks].
      replace (length bs <? 64)%nat with false by (symmetry; apply Nat.ltb_ge; lia).
      apply IH; rewrite skipn_length, div64_sub by lia; lia.
Qed.
Lemma sha_blocks_fuel f s bs : (length bs / 64 <= f)%nat -> sha_blocks f s bs = sb s bs.
Proof. intros H. unfold sb. apply sha_blocks_fuel2; [assumption|]. apply Nat.div_le_upper_bound; lia. Qed.

(* a tail shorter than a block is ignored *)
Lemma sb_short s bs : (length bs < 64)%nat -> sb s bs = s.
Proof. intros H. unfold sb. destruct bs as [|b t]; [reflexivity|]. cbn [sha_blocks length]. apply Nat.ltb_lt in H. cbn [length] in H. rewrite H. reflexivity. Qed.

Lemma firstn_len_app {A} (a b : list A) n : length a = n -> firstn n (a ++ b) = a.
Proof. intros <-. apply firstn_app_len. Qed.
Lemma skipn_len_app {A} (a b : list A) n : length a = n -> skipn n (a ++ b) = b.
Proof. intros <-. apply skipn_app_len. Qed.

Lemma sha_blocks_step f s bs : (64 <= length bs)%nat ->
  sha_blocks (S f) s bs = sha_blocks f (sha_compress s (firstn 64 bs)) (skipn 64 bs).
Proof. intros H. cbn [sha_blocks]. replace (length bs <? 64)%nat with false by (symmetry; apply Nat.ltb_ge; lia). reflexivity. Qed.

(* one whole block in front *)
Lemma sb_block s blk rest : length blk = 64%nat -> sb s (blk ++ rest) = sb (sha_compress s blk) rest.
Proof.
  intros H. unfold sb at 1. rewrite app_length, H.
  change (64 + length rest)%nat with (S (63 + length rest)).
  rewrite sha_blocks_step by (rewrite app_length; lia).
  rewrite (firstn_len_app blk rest 64 H), (skipn_len_app blk rest 64 H).
  apply sha_blocks_fuel. apply Nat.div_le_upper_bound; lia.
Qed.

(* absorption distributes over a prefix made of whole blocks *)
Lemma sb_app s a b : (length a mod 64 = 0)%nat -> sb s (a ++ b) = sb (sb s a) b.
Proof.
  remember (length a) as n eqn:En. revert s a En. induction n as [n IH] using lt_wf_ind. intros s a En Hm.
  destruct (Nat.ltb_spec n 64) as [Hl|Hl].
  - assert (n = 0)%nat by (rewrite Nat.mod_small in Hm by assumption; assumption). subst n.
    destruct a; [|simpl in H; lia]. cbn [app]. rewrite (sb_short s []) by (simpl; lia). reflexivity.
  - remember (firstn 64 a) as h eqn:Eh. remember (skipn 64 a) as t eqn:Et.
    assert (Ea : a = h ++ t) by (subst h t; symmetry; apply firstn_skipn).
    assert (Hh : length h = 64%nat) by (subst h; rewrite firstn_length; lia).
    assert (Ht : length t = (n - 64)%nat) by (subst t; rewrite skipn_length; lia).
    clear Eh Et. subst a. rewrite <- app_assoc. rewrite (sb_block s h (t ++ b) Hh), (sb_block s h t Hh).
    apply (IH (n - 64)%nat); [lia|lia|]. clear IH.
    apply Nat.mod_divides in Hm; [|lia]. destruct Hm as [c Hc].
    apply Nat.mod_divides; [lia|]. exists (c - 1)%nat. lia.
Qed.

Lemma sb_one s blk : length blk = 64%nat -> sha_compress s blk = sb s blk.
Proof. intros H. rewrite <- (app_nil_r blk) at 2. rewrite sb_block by assumption. rewrite sb_short by (simpl; lia). reflexivity. Qed.

Lemma whole_rest (d : bytes) : let nb := (length d / 64)%nat in
  d = firstn (nb * 64) d ++ skipn (nb * 64) d /\ (length (firstn (nb * 64) d) mod 64 = 0)%nat /\
  (length (skipn (nb * 64) d) < 64)%nat /\ (length (firstn (nb * 64) d) / 64 <= length d)%nat.
Proof.
  cbv zeta. set (nb := (length d / 64)%nat).
  assert (Hle : (nb * 64 <= length d)%nat) by (unfold nb; rewrite Nat.mul_comm; apply Nat.mul_div_le; lia).
  assert (Hlt : (length d < nb * 64 + 64)%nat).
  { unfold nb. pose proof (Nat.div_mod (length d) 64 ltac:(lia)). pose proof (Nat.mod_upper_bound (length d) 64 ltac:(lia)). lia. }
  split; [symmetry; apply firstn_skipn|]. rewrite firstn_length_le by lia. rewrite skipn_length.
  split; [apply Nat.mod_mul; lia|]. split; [lia|]. rewrite Nat.div_mul by lia. unfold nb. apply Nat.div_le_upper_bound; lia.
Qed.

(* the invariant: the state has absorbed a prefix W made of whole blocks; the buffer holds the rest *)
Definition Inv (c : sha_ctx) (msg : bytes) : Prop :=
  exists W, (length W mod 64 = 0)%nat /\ msg = W ++ sbuf c /\ (length (sbuf c) < 64)%nat /\
            sst c = sb sha_iv W /\ sbytes c = Z.of_nat (length msg).

Lemma inv_init : Inv sha_initialize [].
Proof. exists []. cbn. repeat split; try reflexivity; lia. Qed.

Lemma inv_write c msg data : Inv c msg -> Inv (sha_write c data) (msg ++ data).
Proof.
  intros [W [HW [Hmsg [Hp [Hst Hb]]]]]. unfold sha_write.
  set (p := sbuf c) in *. set (k := (64 - length p)%nat).
  assert (Hbytes : sbytes c + Z.of_nat (length data) = Z.of_nat (length (msg ++ data))) by (rewrite app_length; lia).
  destruct (negb (length p =? 0)%nat && (k <=? length data)%nat) eqn:C1.
  - apply andb_true_iff in C1. destruct C1 as [C1a C1b]. apply negb_true_iff, Nat.eqb_neq in C1a. apply Nat.leb_le in C1b.
    set (blk := p ++ firstn k data). set (d1 := skipn k data).
    assert (Hblk : length blk = 64%nat) by (unfold blk; rewrite app_length, firstn_length_le by lia; unfold k; lia).
    assert (Hs1 : sha_compress (sst c) blk = sb sha_iv (W ++ blk)) by (rewrite Hst, sb_one, <- sb_app by assumption; reflexivity).
    assert (HWb : (length (W ++ blk) mod 64 = 0)%nat).
    { rewrite app_length, Hblk. apply Nat.mod_divides in HW; [|lia]. destruct HW as [q Hq]. apply Nat.mod_divides; [lia|]. exists (q + 1)%nat. lia. }
    assert (Hdata : data = firstn k data ++ d1) by (unfold d1; symmetry; apply firstn_skipn).
    destruct (64 <=? length d1)%nat eqn:C2.
    + destruct (whole_rest d1) as [E1 [E2 [E3 E4]]]. set (wd := firstn (length d1 / 64 * 64) d1) in *. set (rd := skipn (length d1 / 64 * 64) d1) in *.
      exists (W ++ blk ++ wd). cbn [sst sbuf sbytes]. rewrite Hs1.
      split; [|split; [|split; [|split]]].
      * rewrite app_assoc, app_length. apply Nat.mod_divides in HWb; [|lia]. destruct HWb as [q Hq]. apply Nat.mod_divides in E2; [|lia]. destruct E2 as [q2 Hq2].
        apply Nat.mod_divides; [lia|]. exists (q + q2)%nat. lia.
      * cbn [app]. rewrite Hmsg. rewrite Hdata at 1. rewrite E1 at 1. unfold blk. rewrite <- !app_assoc. reflexivity.
      * cbn [app]. exact E3.
      * rewrite sha_blocks_fuel by exact E4. rewrite (app_assoc W blk wd). rewrite <- sb_app by exact HWb. reflexivity.
      * exact Hbytes.
    + apply Nat.leb_gt in C2. exists (W ++ blk). cbn [sst sbuf sbytes app]. rewrite Hs1.
      split; [exact HWb|]. split; [rewrite Hmsg; rewrite Hdata at 1; unfold blk; rewrite <- !app_assoc; reflexivity|].
      split; [exact C2|]. split; [reflexivity|exact Hbytes].
  - (* the pending block is not completed by this write *)
    destruct (64 <=? length data)%nat eqn:C2.
    + apply Nat.leb_le in C2.
      assert (Hp0 : length p = 0%nat).
      { apply andb_false_iff in C1. destruct C1 as [C1|C1]; [apply negb_false_iff, Nat.eqb_eq in C1; exact C1|].
        apply Nat.leb_gt in C1. unfold k in C1. lia. }
      assert (Ep : p = []) by (destruct p; [reflexivity|simpl in Hp0; lia]).
      destruct (whole_rest data) as [E1 [E2 [E3 E4]]]. set (wd := firstn (length data / 64 * 64) data) in *. set (rd := skipn (length data / 64 * 64) data) in *.
      exists (W ++ wd). cbn [sst sbuf sbytes]. rewrite Ep in *. cbn [app].
      split; [|split; [|split; [|split]]].
      * rewrite app_length. apply Nat.mod_divides in HW; [|lia]. destruct HW as [q Hq]. apply Nat.mod_divides in E2; [|lia]. destruct E2 as [q2 Hq2].
        apply Nat.mod_divides; [lia|]. exists (q + q2)%nat. lia.
      * rewrite Hmsg, app_nil_r. rewrite E1 at 1. rewrite <- app_assoc. reflexivity.
      * exact E3.
      * rewrite sha_blocks_fuel by exact E4. rewrite Hst. rewrite <- sb_app by exact HW. reflexivity.
      * exact Hbytes.
    + apply Nat.leb_gt in C2. exists W. cbn [sst sbuf sbytes].
      split; [exact HW|]. split; [rewrite Hmsg, <- app_assoc; reflexivity|].
      split; [|split; [exact Hst|exact Hbytes]].
      rewrite app_length. apply andb_false_iff in C1. destruct C1 as [C1|C1].
      * apply negb_false_iff, Nat.eqb_eq in C1. lia.
      * apply Nat.leb_gt in C1. unfold k in C1. lia.
Qed.

Lemma inv_fold chunks : forall c msg, Inv c msg -> Inv (fold_left sha_write chunks c) (msg ++ concat chunks).
Proof.
  induction chunks as [|d ds IH]; intros c msg H; cbn [fold_left concat].
  - rewrite app_nil_r. exact H.
  - rewrite app_assoc. apply IH. apply inv_write. exact H.
Qed.

Lemma firstn_repeat0 k m : (k <= m)%nat -> firstn k (repeat 0 m) = repeat 0 k.
Proof. revert m. induction k; intros m H; [reflexivity|]. destruct m; [lia|]. cbn. f_equal. apply IHk. lia. Qed.

Lemma be_enc_mod len x : be_enc len (x mod 256 ^ Z.of_nat len) = be_enc len x.
Proof.
  revert x. induction len as [|l IH]; intros x; [reflexivity|]. cbn [be_enc].
  assert (Hp : 0 < 256 ^ Z.of_nat l) by (apply Z.pow_pos_nonneg; lia).
  replace (Z.of_nat (S l)) with (Z.succ (Z.of_nat l)) by lia. rewrite Z.pow_succ_r by lia.
  rewrite Z.rem_mul_r by lia. set (k := (x / 256) mod 256 ^ Z.of_nat l).
  assert (E1 : (x mod 256 + 256 * k) mod 256 = x mod 256).
  { replace (x mod 256 + 256 * k) with (x mod 256 + k * 256) by ring. rewrite Z.mod_add by lia. apply Z.mod_mod. lia. }
  assert (E2 : (x mod 256 + 256 * k) / 256 = k).
  { replace (x mod 256 + 256 * k) with (x mod 256 + k * 256) by ring. rewrite Z.div_add by lia. rewrite (Z.div_small (x mod 256)) by (apply Z.mod_pos_bound; lia). lia. }
  rewrite E1, E2. unfold k. rewrite IH. reflexivity.
Qed.

Lemma be_enc_split a b x : be_enc (a + b) x = be_enc a (x / 256 ^ Z.of_nat b) ++ be_enc b x.
Proof.
  revert x. induction b as [|b IH]; intros x.
  - rewrite Nat.add_0_r. cbn [be_enc Z.of_nat]. rewrite Z.pow_0_r, Z.div_1_r, app_nil_r. reflexivity.
  - replace (a + S b)%nat with (S (a + b)) by lia. cbn [be_enc]. rewrite IH, <- app_assoc. f_equal.
    f_equal. replace (Z.of_nat (S b)) with (Z.succ (Z.of_nat b)) by lia. rewrite Z.pow_succ_r by lia.
    rewrite Z.div_div by (try lia; apply Z.pow_pos_nonneg; lia). reflexivity.
Qed.

(* the two 4-byte halves written by finalize are the 8-byte bit length *)
Lemma size_desc L : 0 <= L < 2 ^ 61 ->
  be_enc 4 ((L / 2 ^ 29) mod 2 ^ 32) ++ be_enc 4 ((L * 8) mod 2 ^ 32) = be_enc 8 (L * 8).
Proof.
  intros HL. change 8%nat with (4 + 4)%nat. rewrite (be_enc_split 4 4 (L * 8)). f_equal.
  - change (256 ^ Z.of_nat 4) with (2 ^ 32). change (2 ^ 32) with (256 ^ Z.of_nat 4) at 1. rewrite be_enc_mod.
    f_equal. change (256 ^ Z.of_nat 4) with (2^32). lia.
  - change (2 ^ 32) with (256 ^ Z.of_nat 4). apply be_enc_mod.
Qed.

Theorem sha256_stream_correct chunks : Z.of_nat (length (concat chunks)) < 2 ^ 61 ->
  sha256_stream chunks = sha256 (concat chunks).
Proof.
  intros Hlen. unfold sha256_stream.
  pose proof (inv_fold chunks sha_initialize [] inv_init) as HI. cbn [app] in HI.
  set (c := fold_left sha_write chunks sha_initialize) in *. set (msg := concat chunks) in *.
  assert (Hb : sbytes c = Z.of_nat (length msg)) by (destruct HI as [W [_ [_ [_ [_ H]]]]]; exact H).
  unfold sha_finalize. rewrite Hb. set (L := Z.of_nat (length msg)) in *.
  assert (HL : 0 <= L) by (unfold L; lia).
  set (padz := (119 - L mod 64) mod 64).
  assert (Hpz : 0 <= padz < 64) by (unfold padz; apply Z.mod_pos_bound; lia).
  set (pad1 := firstn (Z.to_nat (1 + padz)) (128 :: zeros 63)).
  assert (Epad1 : pad1 = [128] ++ repeat 0 (Z.to_nat padz)).
  { unfold pad1. replace (Z.to_nat (1 + padz)) with (S (Z.to_nat padz)) by lia. cbn [firstn app]. f_equal.
    unfold zeros. apply firstn_repeat0. lia. }
  rewrite size_desc by lia.
  pose proof (inv_write _ _ pad1 HI) as H1. pose proof (inv_write _ _ (be_enc 8 (L * 8)) H1) as H2.
  set (c2 := sha_write (sha_write c pad1) (be_enc 8 (L * 8))) in *.
  destruct H2 as [W [HW [Htot [Hbuf [Hst _]]]]].
  assert (Htotal : ((length ((msg ++ pad1) ++ be_enc 8 (L * 8))) mod 64 = 0)%nat).
  { rewrite !app_length, be_enc_length, Epad1, app_length, repeat_length. cbn [length].
    apply Nat2Z.inj. rewrite Nat2Z.inj_mod. rewrite !Nat2Z.inj_add. fold L. rewrite Z2Nat.id by lia. unfold padz. simpl Z.of_nat. lia. }
  assert (Ebuf : sbuf c2 = []).
  { rewrite Htot in Htotal. rewrite app_length in Htotal.
    apply Nat.mod_divides in HW; [|lia]. destruct HW as [q Hq]. rewrite Hq in Htotal.
    rewrite Nat.add_comm, Nat.mul_comm, Nat.mod_add in Htotal by lia. rewrite Nat.mod_small in Htotal by assumption.
    destruct (sbuf c2); [reflexivity|simpl in Htotal; lia]. }
  rewrite Ebuf, app_nil_r in Htot. rewrite Hst, <- Htot.
  unfold sha256, sha256_from, sb, sha_pad. rewrite Z.add_0_l. fold L.
  rewrite Epad1. fold padz. rewrite <- !app_assoc. reflexivity.
Qed.
