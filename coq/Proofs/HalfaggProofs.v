(* Lemmas about Model/Halfagg.v (property C17).  None of them needs a fact about the curve: they are
   statements about the control and data flow of aggregation and about the rejection clauses of
   verification.  The only premise on the constants is 0 < n <= 2^256 (a scalar fits its 32 bytes). *)
From Coq Require Import ZArith List Bool Lia.
Require Import Spec.Params Spec.Field Spec.Curve Spec.Bytes Spec.Sha256 Model.Base Model.Schnorr Model.Halfagg.
Import ListNotations.
Local Open Scope Z_scope.

(* ------------------------------------------------------------------ bytes *)
Lemma be_val_snoc : forall a b, be_val (a ++ [b]) = be_val a * 256 + b.
Proof. intros. unfold be_val. rewrite fold_left_app. reflexivity. Qed.

Lemma be_enc_length : forall len x, length (be_enc len x) = len.
Proof. induction len; intros; simpl; [reflexivity|]. rewrite app_length, IHlen. simpl. lia. Qed.

Lemma be_val_enc : forall len x, 0 <= x -> be_val (be_enc len x) = x mod 256 ^ Z.of_nat len.
Proof.
  induction len; intros x Hx.
  - simpl. rewrite Z.mod_1_r. reflexivity.
  - cbn [be_enc]. rewrite be_val_snoc, IHlen by (apply Z.div_pos; lia).
    rewrite Nat2Z.inj_succ, Z.pow_succ_r by lia.
    rewrite (Z.rem_mul_r x 256 (256 ^ Z.of_nat len)) by (try lia; apply Z.pow_pos_nonneg; lia).
    lia.
Qed.

Lemma be_val_enc32 : forall s, 0 <= s < 2 ^ 256 -> be_val (be_enc 32 s) = s.
Proof.
  intros s Hs. rewrite be_val_enc by lia. change (256 ^ Z.of_nat 32) with (2 ^ 256). apply Z.mod_small; lia.
Qed.

Lemma firstn_app_exact : forall {A} (a b : list A) k, length a = k -> firstn k (a ++ b) = a.
Proof. intros. subst. rewrite firstn_app, Nat.sub_diag, firstn_all. simpl. apply app_nil_r. Qed.

Lemma skipn_app_exact : forall {A} (a b : list A) k, length a = k -> skipn k (a ++ b) = b.
Proof. intros. subst. rewrite skipn_app, Nat.sub_diag, skipn_all. reflexivity. Qed.

Lemma skipn_skipn : forall {A} (l : list A) a b, skipn a (skipn b l) = skipn (b + a) l.
Proof.
  intros A l a b. revert l. induction b; intros l; simpl; [reflexivity|].
  destruct l; simpl; [apply skipn_nil | apply IHb].
Qed.

(* ------------------------------------------------------------------ the aggregation loop *)
Definition item_bytes (it : item) : bytes := let '(r, pk, m, _) := it in r ++ pk ++ m.
Definition wf_item (it : item) : Prop := length (item_r it) = 32%nat.

Section HalfaggProofs.
Variable P : Params.
Hypothesis n_pos : 0 < cn P.
Hypothesis n_fits : cn P <= 2 ^ 256.

Lemma sc_of_b32_range : forall b, 0 <= fst (sc_of_b32 P b) < cn P.
Proof. intros. unfold sc_of_b32. cbv zeta. cbn [fst]. apply Z.mod_pos_bound. exact n_pos. Qed.

Lemma sc_add_range : forall a b, 0 <= sc_add P a b < cn P.
Proof. intros. unfold sc_add, madd. apply Z.mod_pos_bound. exact n_pos. Qed.

Lemma sc_roundtrip : forall s, 0 <= s < cn P -> fst (sc_of_b32 P (sc_to_b32 s)) = s.
Proof.
  intros s Hs. unfold sc_of_b32, sc_to_b32. cbv zeta. cbn [fst]. rewrite be_val_enc32 by lia. apply Z.mod_small. exact Hs.
Qed.

Lemma sc_to_b32_length : forall s, length (sc_to_b32 s) = 32%nat.
Proof. intros. apply be_enc_length. Qed.

(* the fold accumulates the hashed bytes and the index independently of the scalar *)
Lemma agg_fold_shape : forall l pre i s,
  fst (agg_fold P l (pre, i, s)) = (pre ++ flat_map item_bytes l, i + Z.of_nat (length l)).
Proof.
  induction l as [|it l IH]; intros pre i s.
  - simpl. rewrite app_nil_r. f_equal. lia.
  - unfold agg_fold in *. cbn [fold_left]. destruct it as [[[r pk] m] sb].
    cbn [agg_step]. rewrite IH. cbn [flat_map item_bytes length].
    rewrite <- !app_assoc. f_equal. lia.
Qed.

Lemma agg_fold_app : forall l1 l2 st, agg_fold P (l1 ++ l2) st = agg_fold P l2 (agg_fold P l1 st).
Proof. intros. unfold agg_fold. apply fold_left_app. Qed.

Lemma agg_fold_range : forall l pre i s, 0 <= s < cn P -> 0 <= snd (agg_fold P l (pre, i, s)) < cn P.
Proof.
  induction l as [|it l IH]; intros pre i s Hs.
  - exact Hs.
  - unfold agg_fold in *. cbn [fold_left]. destruct it as [[[r pk] m] sb]. cbn [agg_step].
    apply IH. apply sc_add_range.
Qed.

(* ------------------------------------------------------------------ prefix bytes *)
Lemma prefix_bytes_app : forall k1 k2 agg,
  prefix_bytes agg (k1 ++ k2) = prefix_bytes agg k1 ++ prefix_bytes (skipn (32 * length k1) agg) k2.
Proof.
  induction k1 as [|[pk m] k1 IH]; intros k2 agg.
  - reflexivity.
  - cbn [app prefix_bytes length]. rewrite IH. rewrite skipn_skipn.
    replace (32 + 32 * length k1)%nat with (32 * S (length k1))%nat by lia.
    rewrite <- !app_assoc. reflexivity.
Qed.

Lemma prefix_bytes_ext : forall k a b, (32 * length k <= length a)%nat ->
  prefix_bytes (a ++ b) k = prefix_bytes a k.
Proof.
  induction k as [|[pk m] k IH]; intros a b H.
  - reflexivity.
  - cbn [prefix_bytes]. cbn [length] in H.
    rewrite firstn_app. replace (32 - length a)%nat with 0%nat by lia. simpl firstn at 2. rewrite app_nil_r.
    rewrite skipn_app. replace (32 - length a)%nat with 0%nat by lia. simpl skipn at 2.
    rewrite IH; [reflexivity|]. rewrite skipn_length. lia.
Qed.

Lemma prefix_bytes_items : forall l rest, Forall wf_item l ->
  prefix_bytes (flat_map item_r l ++ rest) (map item_km l) = flat_map item_bytes l.
Proof.
  induction l as [|it l IH]; intros rest H.
  - reflexivity.
  - inversion H as [|? ? H1 H2]; subst. destruct it as [[[r pk] m] sb]. unfold wf_item in H1. cbn in H1.
    cbn [flat_map map item_r item_km item_bytes prefix_bytes].
    rewrite <- app_assoc. rewrite (firstn_app_exact r _ 32 H1), (skipn_app_exact r _ 32 H1).
    rewrite IH by assumption. rewrite <- !app_assoc. reflexivity.
Qed.

Lemma flat_r_length : forall l, Forall wf_item l -> length (flat_map item_r l) = (32 * length l)%nat.
Proof.
  induction l as [|it l IH]; intros H; [reflexivity|].
  inversion H; subst. cbn [flat_map length]. rewrite app_length, IH by assumption.
  unfold wf_item in *. lia.
Qed.

(* ------------------------------------------------------------------ exact length *)
Lemma inc_items_length : forall agg before new, Forall wf_item new ->
  (32 * (length before + length new + 1) <= length agg)%nat ->
  length (inc_items P agg before new) = length agg.
Proof.
  intros agg before new Hwf Hlen. unfold inc_items.
  rewrite !app_length, firstn_length, flat_r_length, sc_to_b32_length, skipn_length by assumption. lia.
Qed.

(* ------------------------------------------------------------------ incremental = one-shot *)
Definition s_start (agg : bytes) (nb : nat) : Z :=
  if Nat.eqb nb 0 then 0 else fst (sc_of_b32 P (slice (32 * nb) 32 agg)).

Lemma s_start_range : forall agg nb, 0 <= s_start agg nb < cn P.
Proof. intros. unfold s_start. destruct (Nat.eqb nb 0); [lia | apply sc_of_b32_range]. Qed.

Theorem inc_items_assoc : forall agg b0 l1 l2,
  Forall wf_item l1 ->
  (32 * (length b0 + length l1 + 1) <= length agg)%nat ->
  inc_items P (inc_items P agg b0 l1) (b0 ++ map item_km l1) l2 = inc_items P agg b0 (l1 ++ l2).
Proof.
  intros agg b0 l1 l2 Hwf Hlen.
  set (nb := length b0). set (n1 := length l1).
  (* the first call *)
  assert (E1 : inc_items P agg b0 l1 =
               (firstn (32 * nb) agg ++ flat_map item_r l1) ++ sc_to_b32 (snd (agg_fold P l1 (prefix_bytes agg b0, Z.of_nat nb, s_start agg nb)))
                 ++ skipn (32 * (nb + n1 + 1)) agg).
  { unfold inc_items, s_start. fold nb. fold n1. rewrite <- !app_assoc. reflexivity. }
  set (st1 := agg_fold P l1 (prefix_bytes agg b0, Z.of_nat nb, s_start agg nb)) in *.
  set (head := firstn (32 * nb) agg ++ flat_map item_r l1) in *.
  assert (Hhead : length head = (32 * (nb + n1))%nat).
  { unfold head. rewrite app_length, firstn_length, flat_r_length by assumption. fold n1. unfold nb, n1 in *. lia. }
  assert (Hs1 : 0 <= snd st1 < cn P) by (apply agg_fold_range, s_start_range).
  (* ingredients of the second call *)
  assert (Lnb : length (b0 ++ map item_km l1) = (nb + n1)%nat) by (rewrite app_length, map_length; reflexivity).
  assert (Ffirst : firstn (32 * (nb + n1)) (inc_items P agg b0 l1) = head).
  { rewrite E1. apply firstn_app_exact. exact Hhead. }
  assert (Fpre : prefix_bytes (inc_items P agg b0 l1) (b0 ++ map item_km l1) = fst (fst st1)).
  { rewrite E1. rewrite prefix_bytes_ext by (rewrite Lnb, Hhead; lia).
    unfold head. rewrite prefix_bytes_app. fold nb.
    rewrite prefix_bytes_ext by (rewrite firstn_length; unfold nb, n1 in *; lia).
    rewrite (skipn_app_exact (firstn (32 * nb) agg)) by (rewrite firstn_length; unfold nb, n1 in *; lia).
    rewrite <- (app_nil_r (flat_map item_r l1)), prefix_bytes_items by assumption.
    unfold st1. rewrite agg_fold_shape. cbn [fst].
    f_equal.
    (* prefix over the untouched head of the buffer *)
    rewrite <- (firstn_skipn (32 * nb) agg) at 2. symmetry. apply prefix_bytes_ext.
    rewrite firstn_length. unfold nb, n1 in *. lia. }
  assert (Fidx : Z.of_nat (nb + n1) = snd (fst st1)).
  { unfold st1. rewrite agg_fold_shape. cbn [snd]. fold n1. lia. }
  assert (Fs : s_start (inc_items P agg b0 l1) (nb + n1) = snd st1).
  { unfold s_start. destruct (Nat.eqb (nb + n1) 0) eqn:E0.
    - apply Nat.eqb_eq in E0. assert (nb = 0%nat) by lia. assert (l1 = []) by (destruct l1; [reflexivity | unfold n1 in *; simpl in *; lia]).
      subst l1. unfold st1. simpl. unfold s_start. rewrite H. reflexivity.
    - rewrite E1. unfold slice. rewrite (skipn_app_exact head) by exact Hhead.
      rewrite firstn_app_exact by apply sc_to_b32_length. apply sc_roundtrip. exact Hs1. }
  assert (Ftail : skipn (32 * (nb + n1 + length l2 + 1)) (inc_items P agg b0 l1) = skipn (32 * (nb + (n1 + length l2) + 1)) agg).
  { rewrite E1. rewrite app_assoc.
    replace (32 * (nb + n1 + length l2 + 1))%nat with (32 * (nb + n1 + 1) + 32 * length l2)%nat by lia.
    rewrite <- skipn_skipn. rewrite skipn_app_exact by (rewrite app_length, Hhead, sc_to_b32_length; lia).
    rewrite skipn_skipn. f_equal. lia. }
  (* put together *)
  unfold inc_items at 1. rewrite Lnb. fold (s_start (inc_items P agg b0 l1) (nb + n1)).
  rewrite Ffirst, Fpre, Fidx, Fs, Ftail.
  replace (fst (fst st1), snd (fst st1), snd st1) with st1 by (destruct st1 as [[? ?] ?]; reflexivity).
  unfold inc_items. fold nb. fold (s_start agg nb). rewrite agg_fold_app. fold st1.
  rewrite app_length. fold n1. unfold head. rewrite flat_map_app, <- !app_assoc. reflexivity.
Qed.

(* any split: a chain of incremental calls, each one started on the buffer left by the previous one *)
Fixpoint inc_chain (agg : bytes) (done : list (bytes * bytes)) (parts : list (list item)) : bytes :=
  match parts with
  | [] => agg
  | l :: t => inc_chain (inc_items P agg done l) (done ++ map item_km l) t
  end.

Theorem inc_chain_eq_oneshot : forall parts agg b0 l0,
  Forall wf_item l0 -> Forall (Forall wf_item) parts ->
  (32 * (length b0 + length l0 + length (concat parts) + 1) <= length agg)%nat ->
  inc_chain (inc_items P agg b0 l0) (b0 ++ map item_km l0) parts = inc_items P agg b0 (l0 ++ concat parts).
Proof.
  induction parts as [|l t IH]; intros agg b0 l0 H0 Hp Hlen.
  - simpl. rewrite app_nil_r. reflexivity.
  - inversion Hp; subst. cbn [inc_chain concat] in *. rewrite app_length in Hlen.
    rewrite inc_items_assoc by (try assumption; lia).
    rewrite <- app_assoc, <- map_app.
    rewrite IH; try assumption.
    + rewrite <- app_assoc. reflexivity.
    + apply Forall_app. split; assumption.
    + rewrite app_length. lia.
Qed.

(* ------------------------------------------------------------------ closed form of the aggregate *)
(* sum_i z_i * s_i over the items, z_0 = 1 and z_i = H_tag(r_0||pk_0||m_0|| ... ||r_i||pk_i||m_i) mod n *)
Fixpoint agg_sum (l : list item) (pre : bytes) (i : Z) : Z :=
  match l with
  | [] => 0
  | (r, pk, m, sb) :: t =>
    let pre' := pre ++ r ++ pk ++ m in
    (if i =? 0 then 1 else hz P pre') * be_val sb + agg_sum t pre' (i + 1)
  end.

Lemma agg_fold_sum : forall l pre i s,
  snd (agg_fold P l (pre, i, s)) mod cn P = (s + agg_sum l pre i) mod cn P.
Proof.
  induction l as [|it l IH]; intros pre i s.
  - simpl. rewrite Z.add_0_r. reflexivity.
  - unfold agg_fold in *. cbn [fold_left]. destruct it as [[[r pk] m] sb]. cbn [agg_step agg_sum].
    rewrite IH. unfold sc_add, madd, sc_mul, mmul, sc_of_b32. cbv zeta. cbn [fst].
    rewrite Z.add_mod_idemp_l by lia.
    set (A := agg_sum l (pre ++ r ++ pk ++ m) (i + 1)). set (hh := hz P (pre ++ r ++ pk ++ m)).
    destruct (i =? 0).
    + replace (s + be_val sb mod cn P + A) with (be_val sb mod cn P + (s + A)) by lia.
      rewrite Z.add_mod_idemp_l by lia. f_equal. lia.
    + replace (s + (be_val sb mod cn P * hh) mod cn P + A) with ((be_val sb mod cn P * hh) mod cn P + (s + A)) by lia.
      rewrite Z.add_mod_idemp_l by lia.
      rewrite <- Z.add_mod_idemp_l by lia. rewrite Z.mul_mod_idemp_l by lia. rewrite Z.add_mod_idemp_l by lia.
      f_equal. lia.
Qed.

Theorem aggregate_bytes_spec : forall agg new,
  inc_items P agg [] new =
  flat_map item_r new ++ sc_to_b32 (agg_sum new [] 0 mod cn P) ++ skipn (32 * (length new + 1)) agg.
Proof.
  intros agg new. unfold inc_items. cbn [length Nat.eqb prefix_bytes Nat.mul firstn app Z.of_nat Nat.add].
  replace (32 * 0)%nat with 0%nat by lia. cbn [firstn app]. do 2 f_equal.
  f_equal. pose proof (agg_fold_sum new [] 0 0) as E. rewrite Z.add_0_l in E.
  rewrite Z.mod_small in E by (apply agg_fold_range; lia). exact E.
Qed.

(* ------------------------------------------------------------------ the API function on well-formed input *)
Definition trip := (bytes * bytes * bytes)%type.      (* key object, message, signature *)
Definition t_pk (t : trip) : bytes := fst (fst t).
Definition t_msg (t : trip) : bytes := snd (fst t).
Definition t_sig (t : trip) : bytes := snd t.
Definition ser_of (o : bytes) : bytes := match xonly_ser o with Some k => k | None => [] end.
Definition t_km (t : trip) : bytes * bytes := (ser_of (t_pk t), t_msg t).
Definition t_item (t : trip) : item := mk_item (t_km t, t_sig t).
(* the key object loads (x <> 0) and the signature has its 32 bytes of r *)
Definition wf_trip (t : trip) : Prop := xonly_ser (t_pk t) <> None /\ (32 <= length (t_sig t))%nat.

Lemma item_km_t_item : forall t, item_km (t_item t) = t_km t.
Proof. intros [[o m] sg]. reflexivity. Qed.

Lemma wf_item_t_item : forall t, wf_trip t -> wf_item (t_item t).
Proof.
  intros [[o m] sg] [_ H]. unfold wf_item, t_item, mk_item, t_km, item_r, t_sig in *.
  cbv beta iota. cbn [fst snd] in *. rewrite firstn_length. lia.
Qed.

Lemma Forall_wf_items : forall l, Forall wf_trip l -> Forall wf_item (map t_item l).
Proof. intros l H. apply Forall_map. eapply Forall_impl; [|exact H]. apply wf_item_t_item. Qed.

Lemma all_some_ser : forall l, Forall wf_trip l ->
  all_some (map xonly_ser (map t_pk l)) = Some (map (fun t => ser_of (t_pk t)) l).
Proof.
  induction l as [|t l IH]; intros H; [reflexivity|].
  inversion H as [|? ? [H1 _] H2]; subst. cbn [map all_some].
  unfold ser_of at 1. destruct (xonly_ser (t_pk t)) eqn:E; [|congruence].
  rewrite IH by assumption. reflexivity.
Qed.

Lemma combine_map2 : forall {A B C} (f : A -> B) (g : A -> C) l,
  combine (map f l) (map g l) = map (fun x => (f x, g x)) l.
Proof. induction l; simpl; [reflexivity | rewrite IHl; reflexivity]. Qed.

Lemma firstn_len_app : forall {A} (a b : list A), firstn (length a) (a ++ b) = a.
Proof. intros. apply firstn_app_exact. reflexivity. Qed.
Lemma skipn_len_app : forall {A} (a b : list A), skipn (length a) (a ++ b) = b.
Proof. intros. apply skipn_app_exact. reflexivity. Qed.

Lemma halfagg_inc_ok : forall agg len (d w : list trip),
  Forall wf_trip d -> Forall wf_trip w ->
  Z.of_nat (length d + length w) < size_max ->
  32 * (Z.of_nat (length d + length w) + 1) <= len ->
  halfagg_inc P (Some agg) (Some len) (Some (map t_pk (d ++ w))) (Some (map t_msg (d ++ w))) (Some (map t_sig w))
              (Z.of_nat (length d)) (Z.of_nat (length w))
  = [AInt 1; AInt (32 * (Z.of_nat (length d + length w) + 1));
     ABytes (inc_items P agg (map t_km d) (map t_item w))].
Proof.
  intros agg len d w Hd Hw Hsz Hlen. unfold halfagg_inc.
  assert (En : (Z.of_nat (length d) + Z.of_nat (length w)) mod size_max = Z.of_nat (length d + length w)).
  { rewrite <- Nat2Z.inj_add. apply Z.mod_small. lia. }
  rewrite En. cbv zeta.
  replace (Z.of_nat (length d + length w) <? Z.of_nat (length d)) with false by (symmetry; apply Z.ltb_ge; lia).
  assert (Hdiv : Z.of_nat (length d + length w) + 1 <= len / 32) by (apply Z.div_le_lower_bound; lia).
  replace (len / 32 <=? 0) with false by (symmetry; apply Z.leb_gt; lia).
  replace (len / 32 - 1 <? Z.of_nat (length d + length w)) with false by (symmetry; apply Z.ltb_ge; lia).
  cbn [orb]. rewrite !Nat2Z.id.
  assert (EL : (length d + length w)%nat = length (d ++ w)) by (rewrite app_length; reflexivity).
  assert (F1 : firstn (length d + length w) (map t_pk (d ++ w)) = map t_pk (d ++ w))
    by (rewrite EL, <- (map_length t_pk); apply firstn_all).
  assert (F2 : firstn (length d + length w) (map t_msg (d ++ w)) = map t_msg (d ++ w))
    by (rewrite EL, <- (map_length t_msg); apply firstn_all).
  rewrite F1, F2.
  rewrite all_some_ser by (apply Forall_app; split; assumption).
  rewrite combine_map2. change (fun x : trip => (ser_of (t_pk x), t_msg x)) with t_km.
  rewrite map_app.
  assert (F3 : skipn (length d) (map t_km d ++ map t_km w) = map t_km w)
    by (apply skipn_app_exact, map_length).
  assert (F4 : firstn (length d) (map t_km d ++ map t_km w) = map t_km d)
    by (apply firstn_app_exact, map_length).
  rewrite F3, F4.
  rewrite combine_map2. rewrite map_map. reflexivity.
Qed.

Lemma halfagg_aggregate_ok : forall agg len (w : list trip),
  Forall wf_trip w -> Z.of_nat (length w) < size_max -> 32 * (Z.of_nat (length w) + 1) <= len ->
  halfagg_aggregate P (Some agg) (Some len) (Some (map t_pk w)) (Some (map t_msg w)) (Some (map t_sig w)) (Z.of_nat (length w))
  = [AInt 1; AInt (32 * (Z.of_nat (length w) + 1)); ABytes (inc_items P agg [] (map t_item w))].
Proof.
  intros agg len w Hw Hsz Hlen. unfold halfagg_aggregate.
  exact (halfagg_inc_ok agg len [] w (Forall_nil _) Hw Hsz Hlen).
Qed.

(* exact length: on success the new *aggsig_len is 32*(n+1) and nothing else; on failure length and
   buffer are untouched *)
Definition ret_of (l : list arg) : Z := get_int (hd ANone l).

Theorem aggregate_length : forall aggsig alen pks msgs sigs nb nn,
  let r := halfagg_inc P aggsig alen pks msgs sigs nb nn in
  let n := (nb + nn) mod size_max in
  (ret_of r = 1 /\ exists agg len out, aggsig = Some agg /\ alen = Some len /\ 32 * (n + 1) <= len /\
                     r = [AInt 1; AInt (32 * (n + 1)); ABytes out])
  \/ (ret_of r = 0 /\ exists tl, r = AInt 0 :: match alen with Some l => AInt l | None => ANone end
                                        :: match aggsig with Some a => ABytes a | None => ANone end :: tl).
Proof.
  intros. subst r n. unfold halfagg_inc.
  destruct aggsig as [agg|]; [destruct alen as [len|]|]; try (right; split; [reflexivity | eexists; reflexivity]).
  cbv zeta.
  repeat match goal with
  | |- context [if ?c then _ else _] => destruct c eqn:?; try (right; split; [reflexivity | eexists; reflexivity])
  end.
  destruct (all_some _); [|right; split; [reflexivity | eexists; reflexivity]].
  left. split; [reflexivity|]. do 3 eexists. repeat split; try reflexivity.
  apply orb_false_iff in Heqb3. destruct Heqb3 as [H1 H2]. apply Z.leb_gt in H1. apply Z.ltb_ge in H2.
  assert (len = 32 * (len / 32) + len mod 32) by (apply Z.div_mod; lia).
  assert (0 <= len mod 32 < 32) by (apply Z.mod_pos_bound; lia). lia.
Qed.

Theorem aggregate_bytes_length : forall agg len (d w : list trip),
  Forall wf_trip d -> Forall wf_trip w ->
  Z.of_nat (length d + length w) < size_max ->
  32 * (Z.of_nat (length d + length w) + 1) <= len -> len <= Z.of_nat (length agg) ->
  exists out, halfagg_inc P (Some agg) (Some len) (Some (map t_pk (d ++ w))) (Some (map t_msg (d ++ w))) (Some (map t_sig w))
                          (Z.of_nat (length d)) (Z.of_nat (length w))
              = [AInt 1; AInt (32 * (Z.of_nat (length d + length w) + 1)); ABytes out]
              /\ length out = length agg.
Proof.
  intros. eexists. split; [apply halfagg_inc_ok; assumption|].
  apply inc_items_length; [apply Forall_wf_items; assumption|]. rewrite !map_length. lia.
Qed.

(* incremental aggregation of w on top of a one-shot aggregate of d = one-shot aggregation of d ++ w *)
Theorem inc_aggregate_assoc2 : forall agg len len2 (d w : list trip) l1 out1,
  Forall wf_trip d -> Forall wf_trip w ->
  Z.of_nat (length d + length w) < size_max ->
  32 * (Z.of_nat (length d + length w) + 1) <= len -> len <= Z.of_nat (length agg) ->
  32 * (Z.of_nat (length d + length w) + 1) <= len2 ->
  halfagg_aggregate P (Some agg) (Some len) (Some (map t_pk d)) (Some (map t_msg d)) (Some (map t_sig d)) (Z.of_nat (length d))
    = [AInt 1; AInt l1; ABytes out1] ->
  halfagg_inc P (Some out1) (Some len2) (Some (map t_pk (d ++ w))) (Some (map t_msg (d ++ w))) (Some (map t_sig w))
              (Z.of_nat (length d)) (Z.of_nat (length w))
  = halfagg_aggregate P (Some agg) (Some len) (Some (map t_pk (d ++ w))) (Some (map t_msg (d ++ w))) (Some (map t_sig (d ++ w)))
                      (Z.of_nat (length (d ++ w))).
Proof.
  intros agg len len2 d w l1 out1 Hd Hw Hsz Hlen Hcap Hlen2 H1.
  rewrite halfagg_aggregate_ok in H1 by (try assumption; lia). inversion H1; subst out1 l1. clear H1.
  rewrite halfagg_inc_ok by assumption.
  rewrite halfagg_aggregate_ok; [| apply Forall_app; split; assumption | rewrite app_length; lia | rewrite app_length; lia].
  rewrite app_length. do 3 f_equal.
  rewrite map_app, <- inc_items_assoc.
  - cbn [app]. rewrite map_map.
    replace (map (fun x : trip => item_km (t_item x)) d) with (map t_km d); [reflexivity|].
    apply map_ext. intros. symmetry. apply item_km_t_item.
  - apply Forall_wf_items. assumption.
  - cbn [length]. rewrite map_length. lia.
Qed.

(* any split: every call is given the whole capacity [cap] of the buffer as *aggsig_len *)
Fixpoint api_chain (cap : Z) (buf : bytes) (done : list trip) (parts : list (list trip)) : option bytes :=
  match parts with
  | [] => Some buf
  | w :: t =>
    match halfagg_inc P (Some buf) (Some cap) (Some (map t_pk (done ++ w))) (Some (map t_msg (done ++ w))) (Some (map t_sig w))
                      (Z.of_nat (length done)) (Z.of_nat (length w)) with
    | [AInt 1; AInt _; ABytes buf'] => api_chain cap buf' (done ++ w) t
    | _ => None
    end
  end.

Lemma api_chain_core : forall parts cap buf done,
  Forall wf_trip done -> Forall (Forall wf_trip) parts ->
  Z.of_nat (length done + length (concat parts)) < size_max ->
  32 * (Z.of_nat (length done + length (concat parts)) + 1) <= cap ->
  api_chain cap buf done parts = Some (inc_chain buf (map t_km done) (map (map t_item) parts)).
Proof.
  induction parts as [|w t IH]; intros cap buf done Hd Hp Hsz Hcap.
  - reflexivity.
  - inversion Hp; subst. cbn [api_chain concat map inc_chain] in *. rewrite app_length in *.
    rewrite halfagg_inc_ok by (try assumption; lia).
    rewrite IH.
    + rewrite map_app, map_map.
      replace (map (fun x : trip => item_km (t_item x)) w) with (map t_km w); [reflexivity|].
      apply map_ext. intros. symmetry. apply item_km_t_item.
    + apply Forall_app. split; assumption.
    + assumption.
    + rewrite app_length. lia.
    + rewrite app_length. lia.
Qed.

Theorem inc_aggregate_assoc : forall parts (w0 : list trip) agg cap,
  let all := w0 ++ concat parts in
  Forall wf_trip w0 -> Forall (Forall wf_trip) parts ->
  Z.of_nat (length all) < size_max ->
  32 * (Z.of_nat (length all) + 1) <= cap -> cap <= Z.of_nat (length agg) ->
  exists out,
    api_chain cap agg [] (w0 :: parts) = Some out /\
    halfagg_aggregate P (Some agg) (Some cap) (Some (map t_pk all)) (Some (map t_msg all)) (Some (map t_sig all))
                      (Z.of_nat (length all))
      = [AInt 1; AInt (32 * (Z.of_nat (length all) + 1)); ABytes out] /\
    length out = length agg.
Proof.
  intros parts w0 agg cap all H0 Hp Hsz Hcap Hbuf. subst all.
  assert (Hall : Forall wf_trip (w0 ++ concat parts)).
  { apply Forall_app. split; [assumption|]. apply Forall_concat. assumption. }
  exists (inc_items P agg [] (map t_item (w0 ++ concat parts))). repeat split.
  - rewrite api_chain_core; try (constructor; assumption); try constructor;
      cbn [length concat Nat.add]; try assumption.
    cbn [map inc_chain app]. f_equal.
    replace (map item_km (map t_item w0)) with ([] ++ map item_km (map t_item w0)) by reflexivity.
    rewrite inc_chain_eq_oneshot.
    + rewrite map_app, concat_map. reflexivity.
    + apply Forall_wf_items. assumption.
    + apply Forall_map. eapply Forall_impl; [|exact Hp]. apply Forall_wf_items.
    + cbn [length]. rewrite map_length, <- concat_map, map_length. rewrite app_length in *. lia.
  - apply halfagg_aggregate_ok; assumption.
  - apply inc_items_length; [apply Forall_wf_items; assumption|]. cbn [length]. rewrite map_length. lia.
Qed.

(* ------------------------------------------------------------------ verification: rejection clauses *)
Definition r_ok (r : bytes) : bool :=
  match fe_of_b32 P r with
  | Some rx => match ge_set_xo P rx false with None => false | _ => true end
  | None => false
  end.

Lemma aggv_loop_inl : forall its pre i rhs res, aggv_loop P its pre i rhs = inl res -> ret_of res = 0.
Proof.
  induction its as [|[[pko m] r] t IH]; intros pre i rhs res H; cbn [aggv_loop] in H; [discriminate|].
  destruct (pk_load pko); [|inversion H; reflexivity].
  destruct (fe_of_b32 P r); [|inversion H; reflexivity].
  destruct (ge_set_xo P z false) eqn:E; [|inversion H; reflexivity].
  eapply IH. exact H.
Qed.

Lemma aggv_loop_bad_r : forall its pre i rhs,
  Exists (fun it => r_ok (snd it) = false) its -> exists res, aggv_loop P its pre i rhs = inl res.
Proof.
  induction its as [|[[pko m] r] t IH]; intros pre i rhs H; [inversion H|].
  cbn [aggv_loop]. destruct (pk_load pko); [|eexists; reflexivity].
  inversion H as [? ? Hh|? ? Ht]; subst.
  - cbn [snd] in Hh. unfold r_ok in Hh. destruct (fe_of_b32 P r); [|eexists; reflexivity].
    destruct (ge_set_xo P z false); [discriminate | eexists; reflexivity].
  - destruct (fe_of_b32 P r); [|eexists; reflexivity].
    destruct (ge_set_xo P z false) eqn:E; [|eexists; reflexivity].
    apply IH. exact Ht.
Qed.

Lemma chunks32_length : forall k b, length (chunks32 k b) = k.
Proof. induction k; intros; simpl; [reflexivity | rewrite IHk; reflexivity]. Qed.

Lemma nth_chunks32 : forall k i b, (i < k)%nat -> nth i (chunks32 k b) [] = slice (32 * i) 32 b.
Proof.
  induction k; intros i b H; [lia|]. destruct i.
  - reflexivity.
  - cbn [chunks32 nth]. rewrite IHk by lia. unfold slice. rewrite skipn_skipn. do 2 f_equal. lia.
Qed.

Lemma Exists_combine_snd : forall {A B} (Q : B -> Prop) (c : list B) (x : list A),
  (length c <= length x)%nat -> Exists Q c -> Exists (fun it => Q (snd it)) (combine x c).
Proof.
  induction c as [|b c IH]; intros x Hl H; [inversion H|].
  destruct x as [|a x]; [simpl in Hl; lia|]. cbn [combine].
  inversion H; subst; [left; assumption | right; apply IH; [simpl in Hl; lia | assumption]].
Qed.

Lemma aggverify_bad_chunk : forall pks msgs n agg len i,
  (i < Z.to_nat n)%nat -> (Z.to_nat n <= length pks)%nat -> (Z.to_nat n <= length msgs)%nat ->
  r_ok (slice (32 * i) 32 agg) = false ->
  ret_of (halfagg_aggverify P (Some pks) (Some msgs) n (Some agg) len) = 0.
Proof.
  intros pks msgs n agg len i Hi Hp Hm Hbad. unfold halfagg_aggverify.
  destruct (_ || _ || _); [reflexivity|]. cbv zeta.
  set (its := combine _ _).
  destruct (aggv_loop_bad_r its [] 0 None) as [res Hres].
  - unfold its. apply (Exists_combine_snd (fun r => r_ok r = false)).
    + rewrite chunks32_length, combine_length, !firstn_length. lia.
    + apply Exists_exists. exists (slice (32 * i) 32 agg). split; [|exact Hbad].
      rewrite <- (nth_chunks32 (Z.to_nat n)) by exact Hi. apply nth_In. rewrite chunks32_length. exact Hi.
  - rewrite Hres. eapply aggv_loop_inl. exact Hres.
Qed.

Theorem aggverify_rejects_length : forall pks msgs n aggsig len,
  len <> 32 * (n + 1) -> ret_of (halfagg_aggverify P pks msgs n aggsig len) = 0.
Proof.
  intros pks msgs n aggsig len H. unfold halfagg_aggverify.
  destruct (match pks with None => _ | _ => _ end); [reflexivity|].
  destruct (match msgs with None => _ | _ => _ end); [reflexivity|].
  destruct aggsig as [agg|]; [|reflexivity].
  destruct (_ || _ || _) eqn:E; [reflexivity|]. exfalso.
  apply orb_false_iff in E. destruct E as [E E3]. apply orb_false_iff in E. destruct E as [E1 E2].
  apply negb_false_iff in E2, E3. apply Z.eqb_eq in E2, E3.
  assert (len = 32 * (len / 32) + len mod 32) by (apply Z.div_mod; lia). lia.
Qed.

Theorem aggverify_rejects_r_ge_p : forall pks msgs n agg len i,
  (i < Z.to_nat n)%nat -> (Z.to_nat n <= length pks)%nat -> (Z.to_nat n <= length msgs)%nat ->
  cp P <= be_val (slice (32 * i) 32 agg) ->
  ret_of (halfagg_aggverify P (Some pks) (Some msgs) n (Some agg) len) = 0.
Proof.
  intros. eapply aggverify_bad_chunk; try eassumption.
  unfold r_ok, fe_of_b32. cbv zeta. replace (_ <? _) with false by (symmetry; apply Z.ltb_ge; assumption). reflexivity.
Qed.

Theorem aggverify_rejects_offcurve : forall pks msgs n agg len i,
  (i < Z.to_nat n)%nat -> (Z.to_nat n <= length pks)%nat -> (Z.to_nat n <= length msgs)%nat ->
  lift_x P (be_val (slice (32 * i) 32 agg)) false = None ->
  ret_of (halfagg_aggverify P (Some pks) (Some msgs) n (Some agg) len) = 0.
Proof.
  intros pks msgs n agg len i Hi Hp Hm Hoff. eapply aggverify_bad_chunk; try eassumption.
  unfold r_ok, fe_of_b32. cbv zeta. destruct (_ <? _); [|reflexivity].
  unfold ge_set_xo. rewrite Hoff. reflexivity.
Qed.

Theorem aggverify_rejects_s_ge_n : forall pks msgs n aggsig len,
  (forall agg, aggsig = Some agg -> cn P <= be_val (slice (32 * Z.to_nat n) 32 agg)) ->
  ret_of (halfagg_aggverify P pks msgs n aggsig len) = 0.
Proof.
  intros pks msgs n aggsig len H. unfold halfagg_aggverify.
  destruct (match pks with None => _ | _ => _ end); [reflexivity|].
  destruct (match msgs with None => _ | _ => _ end); [reflexivity|].
  destruct aggsig as [agg|]; [|reflexivity].
  destruct (_ || _ || _); [reflexivity|]. cbv zeta.
  destruct (aggv_loop _ _ _ _ _) as [res|rhs] eqn:E; [eapply aggv_loop_inl; exact E|].
  unfold sc_of_b32. cbv zeta.
  replace (cn P <=? _) with true by (symmetry; apply Z.leb_le; apply H; reflexivity). reflexivity.
Qed.

(* ---- verification returns 1 EXACTLY when the specification holds ---- *)
(* T_i' = z_i * (e_i*P_i + lift_x(r_i)), computed without any check (defaults where a check would fail) *)
Definition spec_term (pre' : bytes) (i : Z) (pko m r : bytes) : point :=
  let Q := match pk_load pko with Some Q => Q | None => None end in
  let R := ge_set_xo P (match fe_of_b32 P r with Some rx => rx | None => 0 end) false in
  let T := padd P (pmul P (challenge P r m (fe_to_b32 (px Q))) Q) R in
  if i =? 0 then T else pmul P (hz P pre') T.
Fixpoint spec_rhs (its : list (bytes * bytes * bytes)) (pre : bytes) (i : Z) (rhs : point) : point :=
  match its with
  | [] => rhs
  | (pko, m, r) :: t =>
    let pk32 := fe_to_b32 (px (match pk_load pko with Some Q => Q | None => None end)) in
    let pre' := pre ++ r ++ pk32 ++ m in
    spec_rhs t pre' (i + 1) (padd P rhs (spec_term pre' i pko m r))
  end.
Definition item_ok (it : bytes * bytes * bytes) : Prop :=
  pk_load (fst (fst it)) <> None /\ r_ok (snd it) = true.

Lemma aggv_loop_spec : forall its pre i rhs X,
  aggv_loop P its pre i rhs = inr X <-> (Forall item_ok its /\ X = spec_rhs its pre i rhs).
Proof.
  induction its as [|[[pko m] r] t IH]; intros pre i rhs X.
  - cbn. split; [intros H; inversion H; split; [constructor | reflexivity] | intros [_ ->]; reflexivity].
  - cbn [aggv_loop spec_rhs]. unfold item_ok at 1, spec_term, r_ok.
    destruct (pk_load pko) as [Q|] eqn:EQ.
    2:{ split; [discriminate | intros [H _]; inversion H as [|? ? [H1 _] _]; cbn in H1; rewrite EQ in H1; congruence]. }
    destruct (fe_of_b32 P r) as [rx|] eqn:Er.
    2:{ split; [discriminate | intros [H _]; inversion H as [|? ? [_ H2] _]; cbn in H2; unfold r_ok in H2; rewrite Er in H2; discriminate]. }
    destruct (ge_set_xo P rx false) as [R|] eqn:ER.
    2:{ split; [discriminate | intros [H _]; inversion H as [|? ? [_ H2] _]; cbn in H2; unfold r_ok in H2; rewrite Er, ER in H2; discriminate]. }
    rewrite IH. split.
    + intros [H1 H2]. split; [|exact H2]. constructor; [|exact H1]. split; cbn; [rewrite EQ; discriminate | unfold r_ok; rewrite Er, ER; reflexivity].
    + intros [H1 H2]. split; [inversion H1; assumption | exact H2].
Qed.

Theorem aggverify_eq_spec : forall pks msgs n agg len,
  let nn := Z.to_nat n in
  let its := combine (combine (firstn nn pks) (firstn nn msgs)) (chunks32 nn agg) in
  let sv := be_val (slice (32 * nn) 32 agg) in
  ret_of (halfagg_aggverify P (Some pks) (Some msgs) n (Some agg) len) = 1 <->
  (len = 32 * (n + 1) /\ 0 <= n /\ Forall item_ok its /\ sv < cn P /\
   padd P (pneg P (pmul P (sv mod cn P) (G P))) (spec_rhs its [] 0 None) = None).
Proof.
  intros pks msgs n agg len nn its sv. unfold halfagg_aggverify.
  destruct ((len / 32 <=? 0) || negb (len / 32 - 1 =? n) || negb (len mod 32 =? 0)) eqn:EL.
  - split; [discriminate|]. intros (Hlen & Hn & _). exfalso.
    subst len. replace (32 * (n + 1)) with ((n + 1) * 32) in EL by lia.
    rewrite Z.div_mul, Z.mod_mul in EL by lia.
    replace (n + 1 <=? 0) with false in EL by (symmetry; apply Z.leb_gt; lia).
    replace (n + 1 - 1 =? n) with true in EL by (symmetry; apply Z.eqb_eq; lia). discriminate.
  - apply orb_false_iff in EL. destruct EL as [EL E3]. apply orb_false_iff in EL. destruct EL as [E1 E2].
    apply negb_false_iff in E2, E3. apply Z.eqb_eq in E2, E3. apply Z.leb_gt in E1.
    assert (Hlen : len = 32 * (n + 1) /\ 0 <= n).
    { assert (len = 32 * (len / 32) + len mod 32) by (apply Z.div_mod; lia). lia. }
    cbv zeta. fold nn. fold its.
    destruct (aggv_loop P its [] 0 None) as [res|rhs] eqn:EV.
    + split.
      * intros H. pose proof (aggv_loop_inl _ _ _ _ _ EV) as H0. rewrite H0 in H. discriminate.
      * intros (_ & _ & Hok & _). exfalso.
        assert (aggv_loop P its [] 0 None = inr (spec_rhs its [] 0 None)) by (apply aggv_loop_spec; split; [exact Hok | reflexivity]).
        congruence.
    + apply aggv_loop_spec in EV. destruct EV as [Hok ->].
      unfold sc_of_b32. cbv zeta. fold sv.
      destruct (cn P <=? sv) eqn:Eo.
      * apply Z.leb_le in Eo. split; [discriminate | intros (_ & _ & _ & H & _); lia].
      * apply Z.leb_gt in Eo.
        destruct (padd P (pneg P (pmul P (sv mod cn P) (G P))) (spec_rhs its [] 0 None)) eqn:EP; cbn.
        -- split; [discriminate | intros (_ & _ & _ & _ & H); discriminate].
        -- split; [intros _; repeat split; try tauto; assumption | reflexivity].
Qed.

(* verification never returns anything but 0 or 1 *)
Theorem aggverify_ret_bool : forall pks msgs n aggsig len,
  let r := ret_of (halfagg_aggverify P pks msgs n aggsig len) in r = 0 \/ r = 1.
Proof.
  intros. subst r. unfold halfagg_aggverify.
  destruct (match pks with None => _ | _ => _ end); [left; reflexivity|].
  destruct (match msgs with None => _ | _ => _ end); [left; reflexivity|].
  destruct aggsig as [agg|]; [|left; reflexivity].
  destruct (_ || _ || _); [left; reflexivity|]. cbv zeta.
  destruct (aggv_loop _ _ _ _ _) as [res|rhs] eqn:E; [left; eapply aggv_loop_inl; exact E|].
  destruct (sc_of_b32 _ _) as [s ov]. destruct ov; [left; reflexivity|].
  destruct (is_inf _); [right | left]; reflexivity.
Qed.
End HalfaggProofs.

(* the premises are satisfiable: secp256k1 and the order-13 group of the repository *)
Example premises_secp256k1 : 0 < cn secp256k1 /\ cn secp256k1 <= 2 ^ 256.
Proof. split; vm_compute; [reflexivity | discriminate]. Qed.
Example premises_order13 : 0 < 13 /\ 13 <= 2 ^ 256.
Proof. split; vm_compute; [reflexivity | discriminate]. Qed.
(* a well-formed triple exists: any key object with x <> 0, any 64-byte signature *)
Example wf_trip_inhabited : wf_trip (be_enc 32 1 ++ be_enc 32 2, zeros 32, zeros 64).
Proof. split; [vm_compute; discriminate | vm_compute; lia]. Qed.
