(* Numeric facts about the secp256k1 constants, by computation. *)
From Coq Require Import ZArith List Bool Lia.
Require Import Spec.Params Spec.Field Spec.Curve Proofs.EcdsaProofs Proofs.Toy.
Local Open Scope Z_scope.
Lemma secp_p_pos : 0 < cp secp256k1. Proof. reflexivity. Qed.
Lemma secp_n_pos : 0 < cn secp256k1. Proof. reflexivity. Qed.
Lemma secp_n_lt_p : cn secp256k1 < cp secp256k1. Proof. reflexivity. Qed.
Lemma secp_p_lt_2n : cp secp256k1 < 2 * cn secp256k1. Proof. reflexivity. Qed.
Lemma secp_n_odd : cn secp256k1 mod 2 = 1. Proof. reflexivity. Qed.
Lemma secp_p_3mod4 : cp secp256k1 mod 4 = 3. Proof. reflexivity. Qed.
Lemma secp_G_inr : inr secp256k1 (G secp256k1). Proof. vm_compute. intuition discriminate. Qed.
Lemma secp_G_on_curve : on_curve secp256k1 (G secp256k1) = true. Proof. vm_compute. reflexivity. Qed.
Lemma secp_n_lt_2_256 : cn secp256k1 < 2 ^ 256. Proof. reflexivity. Qed.
Lemma secp_p_lt_2_256 : cp secp256k1 < 2 ^ 256. Proof. reflexivity. Qed.
Lemma toy_p_pos : 0 < cp toy. Proof. reflexivity. Qed.
Lemma toy_n_lt_p : cn toy < cp toy. Proof. reflexivity. Qed.
Lemma toy_p_lt_2n : cp toy < 2 * cn toy. Proof. reflexivity. Qed.
Lemma toy_G_inr : inr toy (G toy). Proof. vm_compute. intuition discriminate. Qed.
