(* Big-endian codec lemmas. *)
From Coq Require Import ZArith List Bool Lia.
Require Import Spec.Bytes.
Import ListNotations.
Local Open Scope Z_scope.
Ltac Zify.zify_post_hook ::= Z.div_mod_to_equations.

Definition bytes_okP (bs : bytes) : Prop := Forall (fun x => 0 <= x < 256) bs.

Lemma bytes_ok_iff bs : bytes_ok bs = true <-> bytes_okP bs.
Proof.
  unfold bytes_ok, bytes_okP. rewrite forallb_forall, Forall_forall.
  split; intros H x Hx; specialize (H x Hx); lia.
Qed.

Lemma be_fold_acc bs acc :
  fold_left (fun a b => a * 256 + b) bs acc = acc * 256 ^ Z.of_nat (length bs) + be_val bs.
Proof.
  unfold be_val. revert acc. induction bs as [|b bs IH]; intros acc; cbn [fold_left length].
  - simpl. lia.
  - rewrite IH. rewrite (IH (0 * 256 + b)). rewrite Nat2Z.inj_succ, Z.pow_succ_r by lia. ring.
Qed.

Lemma be_val_cons b bs : be_val (b :: bs) = b * 256 ^ Z.of_nat (length bs) + be_val bs.
Proof. unfold be_val at 1. cbn [fold_left]. rewrite be_fold_acc. ring. Qed.

Lemma be_val_app a b : be_val (a ++ b) = be_val a * 256 ^ Z.of_nat (length b) + be_val b.
Proof.
  induction a as [|x a IH]; cbn [app].
  - unfold be_val at 2. simpl. lia.
  - rewrite !be_val_cons, IH, app_length, Nat2Z.inj_add, Z.pow_add_r by lia. ring.
Qed.

Lemma be_val_nil : be_val [] = 0. Proof. reflexivity. Qed.
Lemma be_val_single b : be_val [b] = b. Proof. unfold be_val. simpl. lia. Qed.

Lemma be_val_bound bs : bytes_okP bs -> 0 <= be_val bs < 256 ^ Z.of_nat (length bs).
Proof.
  induction 1 as [|b bs Hb Hbs IH]; [rewrite be_val_nil; simpl; lia|].
  rewrite be_val_cons. cbn [length]. rewrite Nat2Z.inj_succ, Z.pow_succ_r by lia. nia.
Qed.

Lemma be_enc_length len x : length (be_enc len x) = len.
Proof. revert x. induction len; intros x; simpl; [reflexivity|]. rewrite app_length, IHlen. simpl. lia. Qed.

Lemma be_enc_ok len x : bytes_okP (be_enc len x).
Proof.
  revert x. induction len; intros x; simpl; [constructor|].
  apply Forall_app. split; [apply IHlen|]. constructor; [|constructor]. lia.
Qed.

Lemma be_val_enc len x : 0 <= x < 256 ^ Z.of_nat len -> be_val (be_enc len x) = x.
Proof.
  revert x. induction len; intros x Hx.
  - simpl in *. rewrite be_val_nil. lia.
  - cbn [be_enc]. rewrite be_val_app, be_val_single. cbn [length].
    rewrite Nat2Z.inj_succ, Z.pow_succ_r in Hx by lia.
    rewrite IHlen by lia. change (256 ^ Z.of_nat 1) with 256. lia.
Qed.

Lemma be_val_enc_mod len x : be_val (be_enc len x) = x mod 256 ^ Z.of_nat len.
Proof.
  revert x. induction len; intros x.
  - simpl. rewrite be_val_nil, Z.mod_1_r. reflexivity.
  - cbn [be_enc]. rewrite be_val_app, be_val_single. cbn [length]. rewrite IHlen.
    change (256 ^ Z.of_nat 1) with 256.
    replace (Z.of_nat (S len)) with (Z.succ (Z.of_nat len)) by lia. rewrite Z.pow_succ_r by lia.
    assert (0 < 256 ^ Z.of_nat len) by (apply Z.pow_pos_nonneg; lia).
    rewrite Z.rem_mul_r by lia. lia.
Qed.

Lemma be_enc_val bs : bytes_okP bs -> be_enc (length bs) (be_val bs) = bs.
Proof.
  induction bs as [|b bs IH] using rev_ind; intros H; [reflexivity|].
  apply Forall_app in H. destruct H as [H1 H2]. inversion H2; subst.
  rewrite app_length. cbn [length]. rewrite Nat.add_1_r. cbn [be_enc].
  rewrite be_val_app, be_val_single. change (256 ^ Z.of_nat (length [b])) with 256.
  replace ((be_val bs * 256 + b) / 256) with (be_val bs) by lia.
  replace ((be_val bs * 256 + b) mod 256) with b by lia.
  rewrite IH by assumption. reflexivity.
Qed.

Lemma pow256_32 : 256 ^ Z.of_nat 32 = 2 ^ 256. Proof. reflexivity. Qed.

Lemma zeros_val k : be_val (zeros k) = 0.
Proof. unfold zeros. induction k; [reflexivity|]. cbn [repeat]. rewrite be_val_cons, IHk. lia. Qed.
Lemma zeros_length k : length (zeros k) = k. Proof. apply repeat_length. Qed.
Lemma be_enc_0 k : be_enc k 0 = zeros k.
Proof.
  induction k; [reflexivity|]. cbn [be_enc]. rewrite Z.div_0_l, Z.mod_0_l, IHk by lia.
  unfold zeros. change [0] with (repeat 0 1). rewrite <- repeat_app. f_equal. lia.
Qed.

Lemma okP_firstn k bs : bytes_okP bs -> bytes_okP (firstn k bs).
Proof. revert bs. induction k; intros bs H; [constructor|]. destruct bs; [constructor|]. inversion H; subst. simpl. constructor; auto. apply IHk; assumption. Qed.
Lemma okP_skipn k bs : bytes_okP bs -> bytes_okP (skipn k bs).
Proof. revert bs. induction k; intros bs H; [exact H|]. destruct bs; [constructor|]. inversion H; subst. simpl. apply IHk; assumption. Qed.
Lemma okP_app a b : bytes_okP a -> bytes_okP b -> bytes_okP (a ++ b).
Proof. intros. apply Forall_app; auto. Qed.
Lemma firstn_app_len {A} (a b : list A) : firstn (length a) (a ++ b) = a.
Proof. rewrite firstn_app, Nat.sub_diag, firstn_O, app_nil_r. apply firstn_all. Qed.
Lemma skipn_app_len {A} (a b : list A) : skipn (length a) (a ++ b) = b.
Proof. rewrite skipn_app, Nat.sub_diag, skipn_all, skipn_O. reflexivity. Qed.
Lemma firstn_be_enc k x (y : bytes) : firstn k (be_enc k x ++ y) = be_enc k x.
Proof. rewrite <- (be_enc_length k x) at 1. apply firstn_app_len. Qed.
Lemma skipn_be_enc k x (y : bytes) : skipn k (be_enc k x ++ y) = y.
Proof. rewrite <- (be_enc_length k x) at 1. apply skipn_app_len. Qed.
