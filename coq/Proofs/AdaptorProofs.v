(* Lemmas about Model/Adaptor.v (property C14).  None of them needs a premise about the curve: they are
   statements about which inputs the model accepts and what it outputs on failure. *)
From Coq Require Import ZArith List Bool Lia.
Require Import Spec.Params Spec.Field Spec.Curve Spec.Bytes Spec.Sha256.
Require Import Model.Base Model.Der Model.Adaptor.
Import ListNotations.
Local Open Scope Z_scope.

(* return code of a result line *)
Definition ret_of (l : list arg) : Z := get_int (nth_arg 0 l).

(* ------------------------------------------------------------------ hard-coded midstates *)
Lemma midstates_correct :
  tagged_midstate tag_adaptor_non = midstate_adaptor_non /\
  tagged_midstate tag_adaptor_aux = midstate_adaptor_aux /\
  tagged_midstate tag_dleq = midstate_dleq.
Proof. repeat split; vm_compute; reflexivity. Qed.

(* so the state chosen by the nonce function is always the BIP-340 tagged-hash state of its algo argument *)
Lemma bytes_eqb_eq : forall a b, bytes_eqb a b = true -> a = b.
Proof.
  induction a as [|x a IH]; destruct b as [|y b]; simpl; intros H; try discriminate; try reflexivity.
  apply andb_true_iff in H. destruct H as [H H']. apply Z.eqb_eq in H. subst y. f_equal. apply IH. exact H'.
Qed.

Lemma adaptor_tag_state_is_tagged : forall algo, adaptor_tag_state algo = tagged_midstate algo.
Proof.
  intro algo. unfold adaptor_tag_state.
  destruct (bytes_eqb algo tag_adaptor_non) eqn:Ea.
  - apply bytes_eqb_eq in Ea. subst algo. symmetry. exact (proj1 midstates_correct).
  - destruct (bytes_eqb algo tag_dleq) eqn:Ed; [|reflexivity].
    apply bytes_eqb_eq in Ed. subst algo. symmetry. exact (proj2 (proj2 midstates_correct)).
Qed.

(* ------------------------------------------------------------------ tagged hashes and midstates *)
Lemma length_be_enc : forall len x, length (be_enc len x) = len.
Proof. induction len; intros; simpl; auto. rewrite app_length, IHlen. simpl. lia. Qed.

Lemma sha_round_len8 : forall s kw, length s = 8%nat -> length (sha_round s kw) = 8%nat.
Proof.
  intros s kw H. do 9 (destruct s as [|? s]; try discriminate). destruct kw. reflexivity.
Qed.
Lemma sha_rounds_len8 : forall l s, length s = 8%nat -> length (fold_left sha_round l s) = 8%nat.
Proof. induction l; intros; simpl; auto. apply IHl, sha_round_len8; auto. Qed.
Lemma sha_compress_len8 : forall s b, length s = 8%nat -> length (sha_compress s b) = 8%nat.
Proof.
  intros. unfold sha_compress. rewrite map_length, combine_length, sha_rounds_len8 by auto. rewrite H. reflexivity.
Qed.
Lemma sha_blocks_len8 : forall f s bs, length s = 8%nat -> length (sha_blocks f s bs) = 8%nat.
Proof.
  induction f; intros; simpl; auto. destruct (Nat.ltb (length bs) 64); auto. apply IHf, sha_compress_len8; auto.
Qed.
Lemma length_sha_out : forall s, length (sha_out s) = (4 * length s)%nat.
Proof.
  unfold sha_out. induction s; cbn [flat_map]; [reflexivity|]. rewrite app_length, IHs, length_be_enc. cbn [length]. lia.
Qed.
Lemma length_sha256_from : forall s pre bs, length s = 8%nat -> length (sha256_from s pre bs) = 32%nat.
Proof. intros. unfold sha256_from. rewrite length_sha_out, sha_blocks_len8; auto. Qed.
Lemma length_sha256 : forall bs, length (sha256 bs) = 32%nat.
Proof. intros. apply length_sha256_from. reflexivity. Qed.

(* the fuel of sha_blocks does not matter once it covers the input *)
Lemma sha_blocks_fuel2 : forall f1 f2 s bs, (length bs <= f1)%nat -> (length bs <= f2)%nat ->
  sha_blocks f1 s bs = sha_blocks f2 s bs.
Proof.
  induction f1; intros f2 s bs H1 H2.
  - destruct bs; [|simpl in H1; lia]. destruct f2; reflexivity.
  - destruct f2.
    + destruct bs; [|simpl in H2; lia]. reflexivity.
    + cbn [sha_blocks]. destruct (Nat.ltb (length bs) 64) eqn:E; [reflexivity|].
      apply Nat.ltb_ge in E. apply IHf1; rewrite skipn_length; lia.
Qed.
Lemma sha_blocks_fuel : forall f s bs, (length bs <= f)%nat -> sha_blocks f s bs = sha_blocks (length bs) s bs.
Proof. intros. apply sha_blocks_fuel2; lia. Qed.

(* absorbing one whole block first = starting from the state after that block *)
Lemma sha256_from_block : forall s blk rest pre,
  length blk = 64%nat ->
  sha256_from s pre (blk ++ rest) = sha256_from (sha_compress s blk) (pre + 64) rest.
Proof.
  intros s blk rest pre Hb. unfold sha256_from.
  assert (Ep : pre + Z.of_nat (length (blk ++ rest)) = pre + 64 + Z.of_nat (length rest)).
  { rewrite app_length, Hb, Nat2Z.inj_add. change (Z.of_nat 64) with 64. ring. }
  rewrite Ep. set (pad := sha_pad _). rewrite <- app_assoc. set (tl := rest ++ pad).
  f_equal.
  assert (El : length (blk ++ tl) = S (63 + length tl)) by (rewrite app_length, Hb; reflexivity).
  rewrite El. cbn [sha_blocks]. rewrite El.
  assert (E : Nat.ltb (S (63 + length tl)) 64 = false) by (apply Nat.ltb_ge; lia). rewrite E.
  assert (F : firstn 64 (blk ++ tl) = blk).
  { rewrite firstn_app, Hb, Nat.sub_diag, firstn_O, app_nil_r. rewrite <- Hb. apply firstn_all. }
  assert (K : skipn 64 (blk ++ tl) = tl).
  { rewrite skipn_app, Hb, Nat.sub_diag. rewrite <- Hb. rewrite skipn_all. reflexivity. }
  rewrite F, K. apply sha_blocks_fuel. lia.
Qed.

(* BIP-340 tagged hash = hashing from the tag's midstate with 64 bytes already absorbed *)
Lemma tagged_hash_from_midstate : forall tag msg,
  tagged_hash tag msg = sha256_from (tagged_midstate tag) 64 msg.
Proof.
  intros. unfold tagged_hash, tagged_midstate, sha256. rewrite app_assoc.
  rewrite sha256_from_block by (rewrite app_length, !length_sha256; reflexivity). reflexivity.
Qed.

Section AdaptorProofs.
Variable P : Params.
Let n := cn P.
Notation G := (Curve.G P).
Notation pmul := (Curve.pmul P).
Notation padd := (Curve.padd P).

(* ------------------------------------------------------------------ codec *)
(* which of the five fields are range-checked, and how:
   R, R'  : valid 33-byte compressed points (eckey_pubkey_parse);
   sigr   : x bytes of R reduced mod n silently, must be non-zero;
   s'     : 0 < value < n, no reduction;
   e      : reduced mod n silently, no check;
   s      : value < n (overflow rejected). *)
Lemma codec_exact : forall b R sigr Rp sp e s,
  adaptor_sig_deserialize_full P b = Some (R, sigr, Rp, sp, e, s) <->
  ( eckey_pubkey_parse P (slice 0 33 b) = Some R /\
    sigr = be_val (slice 1 32 b) mod n /\ sigr <> 0 /\
    eckey_pubkey_parse P (slice 33 33 b) = Some Rp /\
    sp = be_val (slice 66 32 b) /\ 0 < sp < n /\
    e = be_val (slice 98 32 b) mod n /\
    s = be_val (slice 130 32 b) mod n /\ be_val (slice 130 32 b) < n ).
Proof.
  intros. unfold adaptor_sig_deserialize_full, seckey_of_b32, sc_of_b32. fold n. cbn [fst].
  destruct (eckey_pubkey_parse P (slice 0 33 b)) as [R0|]; [|split; [discriminate|intros (H & _); discriminate]].
  destruct (be_val (slice 1 32 b) mod n =? 0) eqn:Ez.
  { apply Z.eqb_eq in Ez. split; [discriminate|]. intros (_ & H1 & H2 & _). congruence. }
  apply Z.eqb_neq in Ez.
  destruct (eckey_pubkey_parse P (slice 33 33 b)) as [Rp0|]; [|split; [discriminate|intros (_ & _ & _ & H & _); discriminate]].
  destruct ((0 <? be_val (slice 66 32 b)) && (be_val (slice 66 32 b) <? n)) eqn:Es.
  2:{ split; [discriminate|]. intros (_ & _ & _ & _ & H1 & H2 & _). subst sp.
      apply andb_false_iff in Es. destruct Es as [Es|Es]; [apply Z.ltb_ge in Es|apply Z.ltb_ge in Es]; lia. }
  apply andb_true_iff in Es. destruct Es as [Es1 Es2]. apply Z.ltb_lt in Es1. apply Z.ltb_lt in Es2.
  destruct (n <=? be_val (slice 130 32 b)) eqn:Eo.
  { apply Z.leb_le in Eo. split; [discriminate|]. intros (_ & _ & _ & _ & _ & _ & _ & _ & H). lia. }
  apply Z.leb_gt in Eo.
  split.
  - intros H. inversion H; subst. repeat split; auto.
  - intros (H1 & H2 & H3 & H4 & H5 & H6 & H7 & H8 & H9). congruence.
Qed.

(* the same function as decrypt and recover call it (only sigr and s' requested): R, R', e, s are not looked at *)
Lemma codec_part_exact : forall b sigr sp,
  adaptor_sig_deserialize_part P b = Some (sigr, sp) <->
  ( sigr = be_val (slice 1 32 b) mod n /\ sigr <> 0 /\ sp = be_val (slice 66 32 b) /\ 0 < sp < n ).
Proof.
  intros. unfold adaptor_sig_deserialize_part, seckey_of_b32, sc_of_b32. fold n. cbn [fst].
  destruct (be_val (slice 1 32 b) mod n =? 0) eqn:Ez.
  { apply Z.eqb_eq in Ez. split; [discriminate|]. intros (H1 & H2 & _). congruence. }
  apply Z.eqb_neq in Ez.
  destruct ((0 <? be_val (slice 66 32 b)) && (be_val (slice 66 32 b) <? n)) eqn:Es.
  - apply andb_true_iff in Es. destruct Es as [Es1 Es2]. apply Z.ltb_lt in Es1. apply Z.ltb_lt in Es2.
    split; [intros H; inversion H; subst; repeat split; auto|intros (H1 & H2 & H3 & H4); congruence].
  - split; [discriminate|]. intros (_ & _ & H1 & H2). subst sp.
    apply andb_false_iff in Es. destruct Es as [Es|Es]; apply Z.ltb_ge in Es; lia.
Qed.

Lemma codec_full_implies_part : forall b R sigr Rp sp e s,
  adaptor_sig_deserialize_full P b = Some (R, sigr, Rp, sp, e, s) ->
  adaptor_sig_deserialize_part P b = Some (sigr, sp).
Proof.
  intros. apply codec_exact in H. apply codec_part_exact. tauto.
Qed.

(* a 33-byte point encoding is accepted exactly when: tag 2 or 3, x < p, x^3 + b has a square root *)
Lemma parse33_exact : forall tag xs R, length xs = 32%nat ->
  (eckey_pubkey_parse P (tag :: xs) = Some R <->
   ((tag = 2 \/ tag = 3) /\ be_val xs < cp P /\ lift_x P (be_val xs) (tag =? 3) = R /\ R <> None)).
Proof.
  intros tag xs R Hl. unfold eckey_pubkey_parse, fe_of_b32, ge_set_xo.
  change (length (tag :: xs)) with (S (length xs)). rewrite Hl.
  change (Nat.eqb 33 33) with true. change (Nat.eqb 33 65) with false. rewrite !andb_true_l, andb_false_l.
  destruct ((tag =? 2) || (tag =? 3)) eqn:Et.
  - assert (Ht : tag = 2 \/ tag = 3).
    { apply orb_true_iff in Et. destruct Et as [E|E]; apply Z.eqb_eq in E; auto. }
    destruct (be_val xs <? cp P) eqn:Ex.
    + apply Z.ltb_lt in Ex.
      destruct (lift_x P (be_val xs) (tag =? 3)) as [q|] eqn:El.
      * split; [intros H; inversion H; subst; repeat split; auto; discriminate|intros (_ & _ & H & _); subst R; reflexivity].
      * split; [discriminate|intros (_ & _ & H & H'); congruence].
    + apply Z.ltb_ge in Ex. split; [discriminate|intros (_ & H & _); lia].
  - apply orb_false_iff in Et. destruct Et as [E2 E3]. apply Z.eqb_neq in E2. apply Z.eqb_neq in E3.
    split; [discriminate|intros ([H|H] & _); congruence].
Qed.

(* ------------------------------------------------------------------ verify = specification *)
(* the specification of adaptor verification (DLC adaptor-signature spec): the five fields parse,
   the DLEQ proof (s, e) shows log_G R' = log_Y R, and R' = s'^-1 (m*G + R.x*X) (not the point at infinity) *)
Definition adaptor_verify_spec (sig162 : bytes) (X : point) (m : Z) (Y : point) : bool :=
  match adaptor_sig_deserialize_full P sig162 with
  | None => false
  | Some (R, sigr, Rp, sp, e, s) =>
    dleq_verify P s e Rp Y R &&
    (let D := padd (pmul (sc_mul P (sc_inv P sp) sigr) X) (pmul (sc_mul P (sc_inv P sp) m) G) in
     negb (is_inf D) && point_eqb D Rp)
  end.

Lemma verify_eq_spec : forall sig162 pkobj msg32 encobj X Y,
  pk_load pkobj = Some X -> pk_load encobj = Some Y ->
  adaptor_verify P sig162 pkobj msg32 encobj =
  [AInt (b2z (adaptor_verify_spec sig162 X (fst (sc_of_b32 P msg32)) Y))].
Proof.
  intros sig162 pkobj msg32 encobj X Y HX HY. unfold adaptor_verify, adaptor_verify_spec.
  destruct (adaptor_sig_deserialize_full P sig162) as [[[[[[R sigr] Rp] sp] e] s]|]; [|reflexivity].
  rewrite HY, HX.
  destruct (dleq_verify P s e Rp Y R); simpl; [|reflexivity].
  destruct (is_inf _); reflexivity.
Qed.

(* objects that do not load: the encryption key is looked at first (one illegal callback), the public key
   only after the DLEQ proof has been accepted *)
Lemma verify_bad_enckey : forall sig162 pkobj msg32 encobj,
  pk_load encobj = None ->
  adaptor_verify P sig162 pkobj msg32 encobj =
  match adaptor_sig_deserialize_full P sig162 with None => [AInt 0] | Some _ => [AInt 0; AIll 1] end.
Proof.
  intros. unfold adaptor_verify.
  destruct (adaptor_sig_deserialize_full P sig162) as [[[[[[R sigr] Rp] sp] e] s]|]; [|reflexivity].
  rewrite H. reflexivity.
Qed.

Lemma verify_ret_01 : forall sig162 pkobj msg32 encobj,
  ret_of (adaptor_verify P sig162 pkobj msg32 encobj) = 0 \/ ret_of (adaptor_verify P sig162 pkobj msg32 encobj) = 1.
Proof.
  intros. unfold adaptor_verify.
  destruct (adaptor_sig_deserialize_full P sig162) as [[[[[[R sigr] Rp] sp] e] s]|]; [|left; reflexivity].
  destruct (pk_load encobj); [|left; reflexivity].
  destruct (negb _); [left; reflexivity|].
  destruct (pk_load pkobj); [|left; reflexivity].
  destruct (is_inf _); [left; reflexivity|].
  destruct (point_eqb _ _); [right|left]; reflexivity.
Qed.

(* ------------------------------------------------------------------ named rejections of verify *)
Lemma verify_rejects_undeserializable : forall sig162 pkobj msg32 encobj,
  adaptor_sig_deserialize_full P sig162 = None ->
  adaptor_verify P sig162 pkobj msg32 encobj = [AInt 0].
Proof. intros. unfold adaptor_verify. rewrite H. reflexivity. Qed.

Lemma deser_none_intro : forall b,
  (forall R sigr Rp sp e s, adaptor_sig_deserialize_full P b <> Some (R, sigr, Rp, sp, e, s)) ->
  adaptor_sig_deserialize_full P b = None.
Proof.
  intros b H. destruct (adaptor_sig_deserialize_full P b) as [[[[[[R sigr] Rp] sp] e] s]|]; auto.
  exfalso. eapply H. reflexivity.
Qed.

Lemma verify_rejects_zero_sp : forall sig162 pkobj msg32 encobj,
  be_val (slice 66 32 sig162) = 0 -> adaptor_verify P sig162 pkobj msg32 encobj = [AInt 0].
Proof.
  intros. apply verify_rejects_undeserializable, deser_none_intro. intros R sigr Rp sp e s E.
  apply codec_exact in E. lia.
Qed.

Lemma verify_rejects_sp_ge_n : forall sig162 pkobj msg32 encobj,
  n <= be_val (slice 66 32 sig162) -> adaptor_verify P sig162 pkobj msg32 encobj = [AInt 0].
Proof.
  intros. apply verify_rejects_undeserializable, deser_none_intro. intros R sigr Rp sp e s E.
  apply codec_exact in E. lia.
Qed.

Lemma verify_rejects_dleq_s_ge_n : forall sig162 pkobj msg32 encobj,
  n <= be_val (slice 130 32 sig162) -> adaptor_verify P sig162 pkobj msg32 encobj = [AInt 0].
Proof.
  intros. apply verify_rejects_undeserializable, deser_none_intro. intros R sigr Rp sp e s E.
  apply codec_exact in E. lia.
Qed.

Lemma verify_rejects_zero_sigr : forall sig162 pkobj msg32 encobj,
  be_val (slice 1 32 sig162) mod n = 0 -> adaptor_verify P sig162 pkobj msg32 encobj = [AInt 0].
Proof.
  intros. apply verify_rejects_undeserializable, deser_none_intro. intros R sigr Rp sp e s E.
  apply codec_exact in E. destruct E as (_ & E1 & E2 & _). congruence.
Qed.

Lemma verify_rejects_invalid_R : forall sig162 pkobj msg32 encobj,
  eckey_pubkey_parse P (slice 0 33 sig162) = None -> adaptor_verify P sig162 pkobj msg32 encobj = [AInt 0].
Proof.
  intros. apply verify_rejects_undeserializable, deser_none_intro. intros R sigr Rp sp e s E.
  apply codec_exact in E. destruct E as (E & _). congruence.
Qed.

Lemma verify_rejects_invalid_Rp : forall sig162 pkobj msg32 encobj,
  eckey_pubkey_parse P (slice 33 33 sig162) = None -> adaptor_verify P sig162 pkobj msg32 encobj = [AInt 0].
Proof.
  intros. apply verify_rejects_undeserializable, deser_none_intro. intros R sigr Rp sp e s E.
  apply codec_exact in E. destruct E as (_ & _ & _ & E & _). congruence.
Qed.

(* what "invalid point" means for a 33-byte field: wrong tag byte, x >= p, or x not on the curve *)
Lemma parse33_rejects : forall tag xs, length xs = 32%nat ->
  (tag <> 2 /\ tag <> 3) \/ cp P <= be_val xs \/ lift_x P (be_val xs) (tag =? 3) = None ->
  eckey_pubkey_parse P (tag :: xs) = None.
Proof.
  intros tag xs Hl H. destruct (eckey_pubkey_parse P (tag :: xs)) as [R|] eqn:E; auto.
  apply parse33_exact in E; auto. destruct E as (E1 & E2 & E3 & E4). exfalso.
  destruct H as [[H H']|[H|H]]; [destruct E1; congruence|lia|congruence].
Qed.

Lemma verify_rejects_bad_dleq : forall sig162 pkobj msg32 encobj R sigr Rp sp e s Y,
  adaptor_sig_deserialize_full P sig162 = Some (R, sigr, Rp, sp, e, s) ->
  pk_load encobj = Some Y -> dleq_verify P s e Rp Y R = false ->
  adaptor_verify P sig162 pkobj msg32 encobj = [AInt 0].
Proof. intros. unfold adaptor_verify. rewrite H, H0, H1. reflexivity. Qed.

(* DLEQ verification: what is checked *)
Lemma dleq_verify_exact : forall s e p1 gen2 p2,
  dleq_verify P s e p1 gen2 p2 = true <->
  (let r1 := padd (pmul (sc_neg P e) p1) (pmul s G) in
   let r2 := padd (pmul s gen2) (pmul (sc_neg P e) p2) in
   r1 <> None /\ r2 <> None /\ sc_add P (dleq_challenge P gen2 r1 r2 p1 p2) (sc_neg P e) = 0).
Proof.
  intros. unfold dleq_verify. cbv zeta.
  set (r1 := padd _ _). set (r2 := padd _ (pmul _ p2)).
  destruct r1 as [q1|]; simpl.
  - destruct r2 as [q2|]; simpl.
    + rewrite Z.eqb_eq. split; [intros H; repeat split; auto; discriminate|tauto].
    + split; [discriminate|intros (_ & H & _); congruence].
  - split; [discriminate|intros (H & _); congruence].
Qed.

(* ------------------------------------------------------------------ decrypt *)
Lemma decrypt_failure_zeroes : forall deckey32 sig162,
  adaptor_decrypt P deckey32 sig162 = [AInt 0; ABytes (zeros 64)] \/
  exists sigr s, adaptor_decrypt P deckey32 sig162 = [AInt 1; ABytes (sig_obj sigr s)].
Proof.
  intros. unfold adaptor_decrypt. destruct (sc_of_b32 P deckey32) as [dk ov].
  destruct (adaptor_sig_deserialize_part P sig162) as [[sigr sp]|]; [|left; reflexivity].
  destruct (negb ov && negb (dk =? 0)); [right; eauto|left; reflexivity].
Qed.

Lemma decrypt_rejects_bad_sig : forall deckey32 sig162,
  adaptor_sig_deserialize_part P sig162 = None ->
  adaptor_decrypt P deckey32 sig162 = [AInt 0; ABytes (zeros 64)].
Proof. intros. unfold adaptor_decrypt. destruct (sc_of_b32 P deckey32). rewrite H. reflexivity. Qed.

Lemma decrypt_rejects_zero_deckey : forall deckey32 sig162,
  be_val deckey32 mod n = 0 -> adaptor_decrypt P deckey32 sig162 = [AInt 0; ABytes (zeros 64)].
Proof.
  intros. unfold adaptor_decrypt, sc_of_b32. fold n. rewrite H.
  destruct (adaptor_sig_deserialize_part P sig162) as [[sigr sp]|]; [|reflexivity].
  rewrite andb_false_r. reflexivity.
Qed.

Lemma decrypt_rejects_deckey_ge_n : forall deckey32 sig162,
  n <= be_val deckey32 -> adaptor_decrypt P deckey32 sig162 = [AInt 0; ABytes (zeros 64)].
Proof.
  intros. unfold adaptor_decrypt, sc_of_b32. fold n. apply Z.leb_le in H. rewrite H.
  destruct (adaptor_sig_deserialize_part P sig162) as [[sigr sp]|]; reflexivity.
Qed.

(* success: the signature is (R.x mod n, s) with s = s' / y normalised to the lower half *)
Lemma decrypt_success : forall deckey32 sig162 sigr sp,
  adaptor_sig_deserialize_part P sig162 = Some (sigr, sp) ->
  be_val deckey32 < n -> be_val deckey32 mod n <> 0 ->
  adaptor_decrypt P deckey32 sig162 =
    [AInt 1; ABytes (sig_obj sigr (let s := sc_mul P (sc_inv P (be_val deckey32 mod n)) sp in
                                   if sc_is_high P s then sc_neg P s else s))].
Proof.
  intros. unfold adaptor_decrypt, sc_of_b32. fold n. rewrite H.
  apply Z.leb_gt in H0. rewrite H0. apply Z.eqb_neq in H1. rewrite H1. reflexivity.
Qed.

Lemma low_s_normalised : 0 < n -> forall a b,
  let s := sc_mul P a b in sc_is_high P (if sc_is_high P s then sc_neg P s else s) = false.
Proof.
  intros Hn a b s. assert (Hs : 0 <= s < n) by (apply Z.mod_pos_bound; exact Hn).
  destruct (sc_is_high P s) eqn:E; [|exact E].
  unfold sc_is_high in E |- *. fold n in E. fold n. apply Z.ltb_lt in E. apply Z.ltb_ge.
  unfold sc_neg, mneg. fold n.
  assert (s <> 0) by (intro; subst s; pose proof (Z.div_pos n 2); lia).
  replace (- s) with (n - s + (-1) * n) by ring. rewrite Z.mod_add by lia. rewrite Z.mod_small by lia.
  pose proof (Z.div_mod n 2). pose proof (Z.mod_pos_bound n 2). lia.
Qed.

(* ------------------------------------------------------------------ recover *)
(* an ECDSA signature whose r differs from the adaptor's R.x mod n is refused, whatever else holds *)
Lemma recover_rejects_unrelated : forall sigobj sig162 encobj,
  be_val (slice 1 32 sig162) mod n <> be_val (firstn 32 sigobj) mod n ->
  ret_of (adaptor_recover P sigobj sig162 encobj) = 0.
Proof.
  intros. unfold adaptor_recover.
  destruct (adaptor_sig_deserialize_part P sig162) as [[sigr sp]|] eqn:E; [|reflexivity].
  apply codec_part_exact in E. destruct E as (E1 & _).
  unfold sc_of_b32 at 1 2. fold n. cbn [fst].
  assert (Er : (sigr =? be_val (firstn 32 sigobj) mod n) = false) by (apply Z.eqb_neq; congruence).
  rewrite Er. cbn [andb].
  destruct (pk_load encobj); [|reflexivity].
  destruct (negb _); reflexivity.
Qed.

Lemma recover_rejects_zero_s : forall sigobj sig162 encobj,
  be_val (skipn 32 sigobj) mod n = 0 -> ret_of (adaptor_recover P sigobj sig162 encobj) = 0.
Proof.
  intros. unfold adaptor_recover.
  destruct (adaptor_sig_deserialize_part P sig162) as [[sigr sp]|] eqn:E; [|reflexivity].
  unfold sc_of_b32. fold n. cbn [fst]. rewrite H. simpl (negb (0 =? 0)). rewrite andb_false_r.
  destruct (pk_load encobj); [|reflexivity].
  destruct (negb _); reflexivity.
Qed.

Lemma recover_rejects_bad_sig : forall sigobj sig162 encobj,
  adaptor_sig_deserialize_part P sig162 = None -> adaptor_recover P sigobj sig162 encobj = [AInt 0].
Proof. intros. unfold adaptor_recover. rewrite H. reflexivity. Qed.

(* the implied encryption key (s^-1 s')*G must have the x coordinate of the given encryption key *)
Lemma recover_rejects_wrong_enckey : forall sigobj sig162 encobj sigr sp Y,
  adaptor_sig_deserialize_part P sig162 = Some (sigr, sp) -> pk_load encobj = Some Y ->
  px (pmul (sc_mul P (sc_inv P (be_val (skipn 32 sigobj) mod n)) sp) G) <> px Y ->
  adaptor_recover P sigobj sig162 encobj = [AInt 0].
Proof.
  intros. unfold adaptor_recover. rewrite H, H0. unfold sc_of_b32. fold n. cbn [fst].
  apply Z.eqb_neq in H1. rewrite H1. reflexivity.
Qed.

(* success returns +-(s^-1 s'), the sign chosen so that its public key has the parity of the encryption key *)
Lemma recover_success_form : forall sigobj sig162 encobj dk,
  adaptor_recover P sigobj sig162 encobj = [AInt 1; ABytes dk] ->
  exists sigr sp Y,
    adaptor_sig_deserialize_part P sig162 = Some (sigr, sp) /\ pk_load encobj = Some Y /\
    sigr = be_val (firstn 32 sigobj) mod n /\ be_val (skipn 32 sigobj) mod n <> 0 /\
    let y := sc_mul P (sc_inv P (be_val (skipn 32 sigobj) mod n)) sp in
    px (pmul y G) = px Y /\
    dk = sc_to_b32 (if Bool.eqb (Z.odd (py (pmul y G))) (Z.odd (py Y)) then y else sc_neg P y).
Proof.
  intros sigobj sig162 encobj dk. unfold adaptor_recover.
  destruct (adaptor_sig_deserialize_part P sig162) as [[sigr sp]|]; [|discriminate].
  unfold sc_of_b32. fold n. cbn [fst].
  destruct (pk_load encobj) as [Y|]; [|discriminate].
  destruct (px _ =? px Y) eqn:Ex; cbn [negb]; cbv iota; [|discriminate].
  destruct (sigr =? _) eqn:Er; cbn [andb]; [|discriminate].
  destruct (be_val (skipn 32 sigobj) mod n =? 0) eqn:Es; cbn [negb]; cbv iota; [discriminate|].
  intros H. inversion H. exists sigr, sp, Y.
  apply Z.eqb_eq in Er. apply Z.eqb_eq in Ex. apply Z.eqb_neq in Es. repeat split; auto.
Qed.

(* ------------------------------------------------------------------ encrypt *)
Lemma length_ser33 : forall Q, length (ser33 Q) = 33%nat.
Proof. destruct Q as [[x y]|]; [|reflexivity]. unfold ser33, fe_to_b32. cbn [length]. rewrite length_be_enc. reflexivity. Qed.
Lemma length_adaptor_sig_serialize : forall R Rp sp e s, length (adaptor_sig_serialize R Rp sp e s) = 162%nat.
Proof.
  intros. unfold adaptor_sig_serialize, sc_to_b32. rewrite !app_length, !length_ser33, !length_be_enc. reflexivity.
Qed.

(* every failure of encrypt after the argument checks leaves 162 zero bytes; success leaves 162 bytes *)
Lemma encrypt_failure_zeroes : forall kind seckey32 encobj msg32 ndata,
  adaptor_encrypt P kind seckey32 encobj msg32 ndata = [AInt 0; AIll 1] /\ pk_load encobj = None \/
  adaptor_encrypt P kind seckey32 encobj msg32 ndata = [AInt 0; ABytes (zeros 162)] \/
  exists sig, adaptor_encrypt P kind seckey32 encobj msg32 ndata = [AInt 1; ABytes sig] /\ length sig = 162%nat.
Proof.
  intros. unfold adaptor_encrypt.
  destruct (pk_load encobj) as [Y|]; [|left; split; reflexivity]. right.
  destruct (match adaptor_nonce_fn kind msg32 seckey32 (ser33 Y) tag_adaptor_non ndata with Some nb => (true, nb) | None => (false, zeros 32) end) as [ret1 nonce32].
  cbv zeta.
  destruct (dleq_prove P kind _ _ Y _ ndata) as [[ds de]|]; [|left; reflexivity].
  match goal with |- context [if ?c then [AInt 1; _] else _] => destruct c end.
  - right. eexists. split; [reflexivity|apply length_adaptor_sig_serialize].
  - left. reflexivity.
Qed.

(* named causes of failure *)
Lemma encrypt_rejects_invalid_seckey : forall kind seckey32 encobj msg32 ndata,
  seckey_of_b32 P seckey32 = None ->
  ret_of (adaptor_encrypt P kind seckey32 encobj msg32 ndata) = 0.
Proof.
  intros. unfold adaptor_encrypt. rewrite H.
  destruct (pk_load encobj) as [Y|]; [|reflexivity].
  destruct (match adaptor_nonce_fn kind msg32 seckey32 (ser33 Y) tag_adaptor_non ndata with Some nb => (true, nb) | None => (false, zeros 32) end) as [ret1 nonce32].
  cbv zeta.
  destruct (dleq_prove P kind _ _ Y _ ndata) as [[ds de]|]; [|reflexivity].
  rewrite andb_false_r. reflexivity.
Qed.

Lemma encrypt_rejects_failing_nonce_fn : forall kind seckey32 encobj msg32 ndata Y,
  pk_load encobj = Some Y ->
  adaptor_nonce_fn kind msg32 seckey32 (ser33 Y) tag_adaptor_non ndata = None ->
  adaptor_encrypt P kind seckey32 encobj msg32 ndata = [AInt 0; ABytes (zeros 162)].
Proof.
  intros. unfold adaptor_encrypt. rewrite H, H0. cbv zeta. cbn [andb]. cbv iota.
  destruct (dleq_prove P kind _ _ Y _ ndata) as [[ds de]|]; reflexivity.
Qed.

Lemma encrypt_rejects_zero_nonce : forall kind seckey32 encobj msg32 ndata Y nb,
  pk_load encobj = Some Y ->
  adaptor_nonce_fn kind msg32 seckey32 (ser33 Y) tag_adaptor_non ndata = Some nb ->
  be_val nb mod n = 0 ->
  adaptor_encrypt P kind seckey32 encobj msg32 ndata = [AInt 0; ABytes (zeros 162)].
Proof.
  intros. assert (E : fst (sc_of_b32 P nb) = 0) by (unfold sc_of_b32; fold n; cbn [fst]; exact H1).
  unfold adaptor_encrypt. rewrite H, H0. cbv zeta. rewrite !E. change (0 =? 0) with true. cbn [negb andb].
  destruct (dleq_prove P kind _ _ Y _ ndata) as [[ds de]|]; reflexivity.
Qed.

(* the nonce function: BIP-340 style tagged hash of (key xor H_aux(aux)) || pk33 || msg32 *)
Lemma nonce_function_eq_tagged : forall msg32 key32 pk33 algo data,
  nonce_function_ecdsa_adaptor msg32 key32 pk33 (Some algo) data =
  Some (tagged_hash algo ((match data with
                           | Some d => xor_bytes (tagged_hash tag_adaptor_aux d) key32
                           | None => key32 end) ++ pk33 ++ msg32)).
Proof.
  intros. unfold nonce_function_ecdsa_adaptor. rewrite adaptor_tag_state_is_tagged.
  rewrite <- (proj1 (proj2 midstates_correct)). rewrite <- tagged_hash_from_midstate.
  destruct data; [rewrite <- tagged_hash_from_midstate|]; reflexivity.
Qed.

Lemma nonce_function_null_algo : forall msg32 key32 pk33 data,
  nonce_function_ecdsa_adaptor msg32 key32 pk33 None data = None.
Proof. reflexivity. Qed.
End AdaptorProofs.
