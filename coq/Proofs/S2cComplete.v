(* Completeness of sign-to-contract under the group premises: the signature produced by s2c_sign commits,
   for verify_commit, to the data it was made with (property C15). *)
From Coq Require Import ZArith List Bool Lia Znumtheory.
Require Import Spec.Params Spec.Field Spec.Curve Spec.Bytes Spec.Sha256.
Require Import Model.Base Model.Keys Model.Der Model.Ecdsa Model.S2c.
Require Import Proofs.MathFacts Proofs.GroupLemmas Proofs.BytesLemmas Proofs.EcdsaProofs Proofs.EcdsaComplete Proofs.AdaptorProofs Proofs.S2cProofs.
Import ListNotations.
Local Open Scope Z_scope.

Section S2cComplete.
Variable P : Params.
Hypothesis MF : MathFacts P.
Notation n := (cn P).
Notation p := (cp P).
Notation G := (Curve.G P).
Notation pmul := (Curve.pmul P).
Notation padd := (Curve.padd P).

Lemma seckey_of_b32_range b k : seckey_of_b32 P b = Some k -> 0 < k < n.
Proof.
  unfold seckey_of_b32. destruct ((0 <? be_val b) && (be_val b <? n)) eqn:E; [|discriminate].
  intros H. inversion H. subst k. apply andb_true_iff in E. destruct E as [E1 E2].
  apply Z.ltb_lt in E1. apply Z.ltb_lt in E2. lia.
Qed.

(* loop level: the opening Q and the signature's r satisfy the commitment equation *)
Lemma s2c_loop_commits : forall fuel counter msg32 seckey ndata data32 d m r s Q,
  s2c_sign_loop P fuel counter msg32 seckey ndata data32 d m = S2cOk r s Q ->
  exists x y, ec_commit P midstate_s2c_point Q data32 = Some (Some (x, y)) /\ r = x mod n /\ oc P (Some (x, y)).
Proof.
  pose proof (n_pos P MF) as Hn.
  induction fuel; intros counter msg32 seckey ndata data32 d m r s Q; cbn [s2c_sign_loop]; [discriminate|].
  destruct (seckey_of_b32 P (nonce_rfc6979 P msg32 seckey None (Some ndata) counter)) as [k|] eqn:Ek; [|apply IHfuel].
  apply seckey_of_b32_range in Ek.
  unfold ec_commit_seckey, ec_commit.
  destruct (ec_commit_tweak midstate_s2c_point (pmul k G) data32) as [tw|] eqn:Et; [|discriminate].
  unfold seckey_tweak_add_helper, pubkey_tweak_add_helper.
  destruct (sc_of_b32 P tw) as [t ov] eqn:Esc.
  assert (Ht : 0 <= t < n).
  { unfold sc_of_b32 in Esc. inversion Esc. apply Z.mod_pos_bound. exact Hn. }
  destruct ov; cbn [negb andb]; [discriminate|].
  destruct (sc_add P k t =? 0) eqn:Ez; cbn [negb]; [discriminate|].
  unfold sig_sign.
  destruct (pmul (sc_add P k t) G) as [[x y]|] eqn:EkG; [|discriminate].
  match goal with |- context [if ?c then S2cOk _ _ _ else _] => destruct c eqn:Eok end; [|discriminate].
  intros H. inversion H. subst Q. clear H.
  rewrite Et, Esc.
  assert (E : padd (pmul k G) (pmul t G) = Some (x, y)).
  { rewrite <- (pmul_madd P MF) by lia. exact EkG. }
  rewrite E. exists x, y. split; [reflexivity|]. split; [reflexivity|].
  unfold oc. rewrite <- EkG. apply (oc_pmul P MF), (oc_G P MF).
Qed.

Hypothesis Hp256 : p <= 2 ^ 256.
Hypothesis Hnp : n < p.

(* API level: the triple (signature, data, opening) returned by s2c_sign passes verify_commit, provided the opening
   object loads back as the point it was saved from (true for every curve point with x <> 0) *)
Lemma s2c_sign_commit_verifies_fuel : forall fuel msg32 seckey data32 sig opening,
  ecdsa_s2c_sign_fuel P fuel msg32 seckey data32 true = [AInt 1; ABytes sig; ABytes opening] ->
  exists Q, opening = pk_obj Q /\
    (pk_load opening = Some Q -> ecdsa_s2c_verify_commit P sig data32 opening = [AInt 1]).
Proof.
  pose proof (n_pos P MF) as Hn.
  intros fuel msg32 seckey data32 sig opening. unfold ecdsa_s2c_sign_fuel, s2c_sign_inner_fuel.
  destruct (s2c_sign_loop P fuel 0 msg32 seckey (s2c_data_hash data32) data32 _ _) as [r s Q|o| |] eqn:EL; try discriminate.
  destruct (seckey_of_b32 P seckey); [|discriminate]. cbn [app]. intros H. inversion H. clear H.
  exists Q. split; [reflexivity|]. intros HL.
  apply s2c_loop_commits in EL. destruct EL as (x & y & EC & Er & Hoc).
  unfold ecdsa_s2c_verify_commit. rewrite HL, EC. cbn [px].
  assert (Hx : 0 <= x < p).
  { unfold oc, on_curve in Hoc. destruct (0 <=? x) eqn:A, (x <? p) eqn:B; cbn [andb] in Hoc; try discriminate.
    apply Z.leb_le in A. apply Z.ltb_lt in B. lia. }
  assert (Hr : 0 <= r < n) by (subst r; apply Z.mod_pos_bound; exact Hn).
  unfold sc_of_b32, sig_obj, sc_to_b32, fe_to_b32. cbn [fst].
  rewrite firstn_app, be_enc_length, Nat.sub_diag, firstn_O, app_nil_r.
  rewrite firstn_all2 by (rewrite be_enc_length; lia).
  rewrite !be_val_enc by (rewrite pow256_32; lia).
  rewrite (Z.mod_small r) by lia. rewrite Er, Z.eqb_refl. reflexivity.
Qed.

(* a saved point loads back *)
Lemma pk_load_pk_obj : forall x y, oc P (Some (x, y)) -> x <> 0 -> pk_load (pk_obj (Some (x, y))) = Some (Some (x, y)).
Proof.
  intros x y Hoc Hx0. unfold oc, on_curve in Hoc.
  destruct (0 <=? x) eqn:A, (x <? p) eqn:B, (0 <=? y) eqn:C, (y <? p) eqn:D; cbn [andb] in Hoc; try discriminate.
  apply Z.leb_le in A. apply Z.ltb_lt in B. apply Z.leb_le in C. apply Z.ltb_lt in D.
  unfold pk_load, pk_obj, fe_to_b32.
  rewrite firstn_app, be_enc_length, Nat.sub_diag, firstn_O, app_nil_r.
  rewrite firstn_all2 by (rewrite be_enc_length; lia).
  rewrite skipn_app, be_enc_length, Nat.sub_diag. rewrite skipn_all2 by (rewrite be_enc_length; lia). cbn [skipn app].
  rewrite !be_val_enc by (rewrite pow256_32; lia).
  destruct (x =? 0) eqn:E; [apply Z.eqb_eq in E; contradiction|reflexivity].
Qed.

(* the signature itself is a valid ECDSA signature for the key d*G (the ECDSA equation holds for the tweaked nonce) *)
Hypothesis IF : InvFacts P.
Hypothesis Hp2n : p < 2 * n.
Hypothesis HGr : inr P G.
Lemma s2c_loop_sig_valid : forall fuel counter msg32 seckey ndata data32 d m r s Q,
  0 < d < n -> 0 <= m < n ->
  s2c_sign_loop P fuel counter msg32 seckey ndata data32 d m = S2cOk r s Q ->
  sig_verify P r s (pmul d G) m = true.
Proof.
  pose proof (n_pos P MF) as Hn.
  induction fuel; intros counter msg32 seckey ndata data32 d m r s Q Hd Hm; cbn [s2c_sign_loop]; [discriminate|].
  destruct (seckey_of_b32 P (nonce_rfc6979 P msg32 seckey None (Some ndata) counter)) as [k|] eqn:Ek; [|apply IHfuel; assumption].
  destruct (ec_commit_seckey P midstate_s2c_point k (pmul k G) data32) as [k'|] eqn:Ec; [|discriminate].
  assert (Hk' : 0 < k' < n).
  { unfold ec_commit_seckey in Ec. destruct (ec_commit_tweak _ _ _); [|discriminate].
    unfold seckey_tweak_add_helper in Ec. destruct (sc_of_b32 P b) as [t ov].
    destruct (negb ov && negb (sc_add P k t =? 0)) eqn:E; [|discriminate]. inversion Ec.
    apply andb_true_iff in E. destruct E as [_ E]. apply negb_true_iff, Z.eqb_neq in E.
    pose proof (Z.mod_pos_bound (k + t) n Hn). unfold sc_add, madd in *. lia. }
  destruct (sig_sign P d m k') as [[[ok r0] s0] recid] eqn:Es. destruct ok; [|discriminate].
  intros H. inversion H. subst r0 s0.
  exact (sign_verifies P MF IF Hnp Hp2n HGr d m k' r s recid Hd Hm Hk' Es).
Qed.
End S2cComplete.
