(* A toy curve y^2 = x^3 + 7 over F_43 (prime group order 31, 31 < 43 < 62) on which every
   mathematical premise (MathFacts, InvFacts) is PROVED by exhaustive computation.  Used to show that
   theorems stated under those premises are not vacuous. *)
From Coq Require Import ZArith List Bool Lia Znumtheory.
Require Import Spec.Params Spec.Field Spec.Curve Proofs.MathFacts.
Import ListNotations.
Local Open Scope Z_scope.

Definition toy : Params := {| cp := 43; cb := 7; cn := 31; cgx := 2; cgy := 12 |}.

Definition zrange (k : Z) : list Z := map Z.of_nat (seq 0 (Z.to_nat k)).
Lemma zrange_In k x : 0 <= x < k -> In x (zrange k).
Proof.
  intros H. unfold zrange. apply in_map_iff. exists (Z.to_nat x). split; [lia|].
  apply in_seq. lia.
Qed.

Definition toy_points : list point := Eval vm_compute in
  None :: filter (on_curve toy) (flat_map (fun x => map (fun y => Some (x, y)) (zrange 43)) (zrange 43)).

Definition peq (A B : point) : bool := point_eqb A B.
Lemma peq_eq A B : peq A B = true -> A = B.
Proof.
  destruct A as [[a b]|], B as [[c d]|]; simpl; try discriminate; auto.
  intros H. apply andb_true_iff in H. destruct H as [H1 H2]. f_equal. f_equal; lia.
Qed.

Lemma toy_points_complete Q : oc toy Q -> In Q toy_points.
Proof.
  destruct Q as [[x y]|]; [|intros _; left; reflexivity].
  intros H. unfold oc in H.
  assert (R : (0 <= x < 43) /\ (0 <= y < 43)).
  { unfold on_curve in H. apply andb_true_iff in H. destruct H as [H _].
    apply andb_true_iff in H. destruct H as [H H4]. apply andb_true_iff in H. destruct H as [H H3].
    apply andb_true_iff in H. destruct H as [H1 H2].
    apply Z.leb_le in H1. apply Z.ltb_lt in H2. apply Z.leb_le in H3. apply Z.ltb_lt in H4.
    change (cp toy) with 43 in *. lia. }
  destruct R as [Rx Ry].
  assert (C : forallb (fun x => forallb (fun y => implb (on_curve toy (Some (x, y)))
                (existsb (peq (Some (x, y))) toy_points)) (zrange 43)) (zrange 43) = true) by (vm_compute; reflexivity).
  rewrite forallb_forall in C. specialize (C x (zrange_In 43 x Rx)). cbv beta in C.
  rewrite forallb_forall in C. specialize (C y (zrange_In 43 y Ry)). cbv beta in C.
  rewrite H in C. cbn [implb] in C. apply existsb_exists in C. destruct C as [Q' [HIn Heq]].
  apply peq_eq in Heq. subst Q'. exact HIn.
Qed.

Lemma forall_points (f : point -> bool) : forallb f toy_points = true -> forall A, oc toy A -> f A = true.
Proof. intros H A HA. rewrite forallb_forall in H. apply H. apply toy_points_complete. exact HA. Qed.

Lemma toy_closed A B : oc toy A -> oc toy B -> oc toy (padd toy A B).
Proof.
  intros HA HB.
  assert (H : forallb (fun A => forallb (fun B => on_curve toy (padd toy A B)) toy_points) toy_points = true) by (vm_compute; reflexivity).
  pose proof (forall_points _ H A HA) as H1. cbv beta in H1.
  exact (forall_points _ H1 B HB).
Qed.

Lemma toy_assoc A B C : oc toy A -> oc toy B -> oc toy C -> padd toy (padd toy A B) C = padd toy A (padd toy B C).
Proof.
  intros HA HB HC.
  assert (H : forallb (fun A => forallb (fun B => forallb (fun C =>
      peq (padd toy (padd toy A B) C) (padd toy A (padd toy B C))) toy_points) toy_points) toy_points = true) by (vm_compute; reflexivity).
  pose proof (forall_points _ H A HA) as H1. cbv beta in H1.
  pose proof (forall_points _ H1 B HB) as H2. cbv beta in H2.
  pose proof (forall_points _ H2 C HC) as H3. cbv beta in H3. apply peq_eq. exact H3.
Qed.

Lemma toy_comm A B : oc toy A -> oc toy B -> padd toy A B = padd toy B A.
Proof.
  intros HA HB.
  assert (H : forallb (fun A => forallb (fun B => peq (padd toy A B) (padd toy B A)) toy_points) toy_points = true) by (vm_compute; reflexivity).
  pose proof (forall_points _ H A HA) as H1. cbv beta in H1.
  pose proof (forall_points _ H1 B HB) as H2. apply peq_eq. exact H2.
Qed.

Lemma toy_neg_oc A : oc toy A -> oc toy (pneg toy A).
Proof.
  intros HA. assert (H : forallb (fun A => on_curve toy (pneg toy A)) toy_points = true) by (vm_compute; reflexivity).
  exact (forall_points _ H A HA).
Qed.
Lemma toy_neg A : oc toy A -> padd toy A (pneg toy A) = None.
Proof.
  intros HA. assert (H : forallb (fun A => peq (padd toy A (pneg toy A)) None) toy_points = true) by (vm_compute; reflexivity).
  apply peq_eq. exact (forall_points _ H A HA).
Qed.

(* primality by trial division *)
Lemma prime_by_trial q : 1 < q -> forallb (fun d => negb (q mod d =? 0)) (map (fun d => d + 2) (zrange (q - 2))) = true -> prime q.
Proof.
  intros Hq H. apply prime_alt. split; [assumption|]. intros d Hd [k Hk].
  rewrite forallb_forall in H. specialize (H d).
  assert (In d (map (fun d => d + 2) (zrange (q - 2)))).
  { apply in_map_iff. exists (d - 2). split; [lia|apply zrange_In; lia]. }
  specialize (H H0). subst q. rewrite Z.mod_mul in H by lia. discriminate.
Qed.
Lemma prime_43 : prime 43. Proof. apply prime_by_trial; [lia|vm_compute; reflexivity]. Qed.
Lemma prime_31 : prime 31. Proof. apply prime_by_trial; [lia|vm_compute; reflexivity]. Qed.

Theorem toy_MathFacts : MathFacts toy.
Proof.
  constructor.
  - exact prime_43.
  - exact prime_31.
  - reflexivity.
  - simpl; lia.
  - exact toy_closed.
  - exact toy_assoc.
  - exact toy_comm.
  - exact toy_neg_oc.
  - exact toy_neg.
  - split; [reflexivity|discriminate].
  - vm_compute. reflexivity.
  - intros Q HQ. assert (H : forallb (fun A => peq (pmul toy 31 A) None) toy_points = true) by (vm_compute; reflexivity).
    apply peq_eq. exact (forall_points _ H Q HQ).
Qed.

Theorem toy_InvFacts : InvFacts toy.
Proof.
  constructor; intros a Ha.
  - assert (H : forallb (fun a => (minv 31 a * a) mod 31 =? 1) (map (fun d => d + 1) (zrange 30)) = true) by (vm_compute; reflexivity).
    rewrite forallb_forall in H. specialize (H a). simpl in Ha.
    assert (In a (map (fun d => d + 1) (zrange 30))) by (apply in_map_iff; exists (a - 1); split; [lia|apply zrange_In; lia]).
    apply H in H0. simpl. lia.
  - assert (H : forallb (fun a => (minv 43 a * a) mod 43 =? 1) (map (fun d => d + 1) (zrange 42)) = true) by (vm_compute; reflexivity).
    rewrite forallb_forall in H. specialize (H a). simpl in Ha.
    assert (In a (map (fun d => d + 1) (zrange 42))) by (apply in_map_iff; exists (a - 1); split; [lia|apply zrange_In; lia]).
    apply H in H0. simpl. lia.
Qed.
Print Assumptions toy_MathFacts.
