(* Lemmas about the DER / compact signature codec model (Model/Der.v). *)
From Coq Require Import ZArith List Bool Lia.
Require Import Spec.Params Spec.Field Spec.Curve Spec.Bytes.
Require Import Model.Base Model.Der Model.Ecdsa Proofs.BytesLemmas Proofs.EcdsaProofs.
Import ListNotations.
Local Open Scope Z_scope.
Ltac Zify.zify_post_hook ::= Z.div_mod_to_equations.

(* ---------- der_int: minimal two's-complement content bytes of a non-negative integer ---------- *)
Definition hd_small (b : bytes) : Prop := match b with x :: _ => 0 <= x < 0x80 | [] => False end.
Definition der_minimal (b : bytes) : Prop := match b with 0 :: x :: _ => 0x80 <= x | _ => True end.

Lemma der_strip_spec fuel : forall b, bytes_okP b -> hd_small b -> (length b <= S fuel)%nat ->
  let b' := der_strip fuel b in
  bytes_okP b' /\ hd_small b' /\ der_minimal b' /\ be_val b' = be_val b /\ (1 <= length b' <= length b)%nat.
Proof.
  induction fuel as [|f IH]; intros b Hok Hh Hl; cbv zeta; cbn [der_strip].
  - destruct b as [|x [|y t]]; simpl in *; try contradiction; try lia.
    repeat split; auto; simpl; try lia. destruct (Z.eq_dec x 0); subst; simpl; auto. destruct x; auto; destruct p; auto.
  - destruct b as [|x t]; [contradiction|].
    destruct (Z.eq_dec x 0) as [->|Hx].
    + destruct t as [|y t'].
      * repeat split; auto; simpl; lia.
      * destruct (y <? 0x80) eqn:Ey.
        -- inversion Hok as [|? ? _ Hok']; subst.
           assert (Hy : hd_small (y :: t')) by (inversion Hok'; subst; simpl; lia).
           destruct (IH (y :: t') Hok' Hy ltac:(simpl in *; lia)) as [A [B [C [D E]]]]. cbv zeta in *.
           repeat split; auto; try (rewrite D, (be_val_cons 0); lia); simpl in *; lia.
        -- apply Z.ltb_ge in Ey. repeat split; auto; simpl; try lia.
    + assert (E : der_strip (S f) (x :: t) = x :: t) by (cbn [der_strip]; destruct x; [congruence|reflexivity|reflexivity]).
      cbn [der_strip] in E. rewrite E.
      repeat split; auto; simpl in *; try lia. destruct x; auto; try congruence; try lia.
Qed.

Local Opaque der_strip be_enc.

Section DerProofs.
Variable P : Params.
Notation n := (cn P).
Hypothesis Hn : 0 < n.
Hypothesis Hn256 : n <= 2 ^ 256.

Lemma der_int_spec v : 0 <= v < 2 ^ 256 ->
  let b := der_int v in
  bytes_okP b /\ hd_small b /\ der_minimal b /\ be_val b = v /\ (1 <= length b <= 33)%nat.
Proof.
  intros Hv. unfold der_int, sc_to_b32.
  assert (Hok : bytes_okP (0 :: be_enc 32 v)) by (constructor; [lia|apply be_enc_ok]).
  assert (Hh : hd_small (0 :: be_enc 32 v)) by (simpl; lia).
  assert (Hl : Nat.le (length (0 :: be_enc 32 v)) 33) by (cbn [length]; rewrite be_enc_length; unfold Nat.le; lia).
  destruct (der_strip_spec 32 _ Hok Hh Hl) as [A [B [C [D E]]]].
  cbv zeta in *. cbn [length] in E. rewrite be_enc_length in E.
  split; [exact A|split; [exact B|split; [exact C|split]]].
  - rewrite D, be_val_cons, be_val_enc by (rewrite pow256_32; lia). lia.
  - lia.
Qed.

(* parsing the integer that the serializer writes gives the value back and consumes exactly it *)
Lemma der_parse_integer_der_int v rest : 0 <= v < n ->
  der_parse_integer P (0x02 :: Z.of_nat (length (der_int v)) :: der_int v ++ rest) = Some (v, rest).
Proof.
  intros Hv. destruct (der_int_spec v ltac:(lia)) as [Hok [Hh [Hmin [Hval Hlen]]]].
  set (b := der_int v) in *. set (L := Z.of_nat (length b)).
  assert (HL : 1 <= L <= 33) by (unfold L; lia).
  unfold der_parse_integer. cbn [der_read_len].
  replace (L =? 0xFF) with false by (symmetry; apply Z.eqb_neq; lia).
  assert (EL : Z.land L 0x80 = 0).
  { assert (X : forallb (fun k => Z.land k 0x80 =? 0) (map Z.of_nat (seq 0 128)) = true) by (vm_compute; reflexivity).
    rewrite forallb_forall in X. specialize (X L). apply Z.eqb_eq. apply X.
    apply in_map_iff. exists (length b). split; [reflexivity|apply in_seq; lia]. }
  rewrite EL. cbn [Z.eqb]. 
  replace (L =? 0) with false by (symmetry; apply Z.eqb_neq; lia).
  rewrite app_length. replace (Z.of_nat (length b + length rest) <? L) with false by (symmetry; apply Z.ltb_ge; unfold L; lia).
  cbn [orb].
  destruct b as [|b0 bt] eqn:Eb; [simpl in Hh; contradiction|].
  cbn [app nth]. simpl in Hh.
  (* padding checks *)
  assert (Epad0 : (b0 =? 0) && (1 <? L) && (Z.land (nth 0 (bt ++ rest) 0) 0x80 =? 0) = false).
  { destruct (b0 =? 0) eqn:E0; [|reflexivity]. apply Z.eqb_eq in E0. subst b0.
    destruct (1 <? L) eqn:E1; [|reflexivity]. cbn [andb].
    destruct bt as [|b1 bt']; [unfold L in E1; cbn [length] in E1; discriminate|].
    cbn [nth app]. simpl in Hmin.
    inversion Hok as [|? ? _ Hok1]; subst. inversion Hok1 as [|? ? Hb1 _]; subst.
    apply Z.eqb_neq. intros X.
    assert (Y : forallb (fun k => implb (Z.land k 0x80 =? 0) (k <? 0x80)) (map Z.of_nat (seq 0 256)) = true) by (vm_compute; reflexivity).
    rewrite forallb_forall in Y. specialize (Y b1).
    assert (In b1 (map Z.of_nat (seq 0 256))) by (apply in_map_iff; exists (Z.to_nat b1); split; [lia|apply in_seq; lia]).
    apply Y in H. rewrite X in H. simpl in H. lia. }
  rewrite Epad0.
  replace (b0 =? 0xFF) with false by (symmetry; apply Z.eqb_neq; lia). cbn [andb].
  assert (Eneg : Z.land b0 0x80 =? 0x80 = false).
  { apply Z.eqb_neq. intros X.
    assert (Y : forallb (fun k => negb (Z.land k 0x80 =? 0x80)) (map Z.of_nat (seq 0 128)) = true) by (vm_compute; reflexivity).
    rewrite forallb_forall in Y. specialize (Y b0).
    assert (In b0 (map Z.of_nat (seq 0 128))) by (apply in_map_iff; exists (Z.to_nat b0); split; [lia|apply in_seq; lia]).
    apply Y in H. rewrite X in H. discriminate. }
  rewrite Eneg. cbn [orb].
  destruct (b0 =? 0) eqn:E0.
  - (* leading zero byte skipped *)
    apply Z.eqb_eq in E0. subst b0. cbn [tl].
    assert (Elen : Z.to_nat (L - 1) = length bt) by (unfold L; cbn [length]; lia).
    rewrite Elen, firstn_app, Nat.sub_diag, firstn_all, firstn_O, app_nil_r.
    rewrite skipn_app, Nat.sub_diag, skipn_all, skipn_O. cbn [app].
    replace (32 <? L - 1) with false by (symmetry; apply Z.ltb_ge; lia).
    unfold sc_of_b32. rewrite be_val_cons in Hval. replace (be_val bt) with v by lia.
    replace (n <=? v) with false by (symmetry; apply Z.leb_gt; lia). rewrite Z.mod_small by lia. reflexivity.
  - assert (Elen : Z.to_nat L = length (b0 :: bt)) by (unfold L; lia).
    rewrite Elen.
    change (b0 :: bt ++ rest) with ((b0 :: bt) ++ rest).
    rewrite firstn_app, Nat.sub_diag, firstn_all, firstn_O, app_nil_r.
    rewrite skipn_app, Nat.sub_diag, skipn_all, skipn_O. cbn [app].
    (* a 33-byte encoding always starts with 0, so here L <= 32 *)
    assert (HL32 : L <= 32).
    { destruct (Z.eq_dec L 33) as [E33|]; [|lia]. exfalso.
      apply Z.eqb_neq in E0. unfold L in E33.
      assert (Hb : be_val (b0 :: bt) = v) by exact Hval.
      rewrite be_val_cons in Hb. inversion Hok as [|? ? Hb0 Hokt]; subst.
      pose proof (be_val_bound bt Hokt) as Bt. simpl in E33.
      assert (length bt = 32%nat) by lia. rewrite H in *. change (256 ^ Z.of_nat 32) with (2 ^ 256) in *. nia. }
    replace (32 <? L) with false by (symmetry; apply Z.ltb_ge; lia).
    unfold sc_of_b32. rewrite Hval.
    replace (n <=? v) with false by (symmetry; apply Z.leb_gt; lia). rewrite Z.mod_small by lia. reflexivity.
Qed.

(* round trip: what the serializer writes (given a large enough buffer), the parser accepts as the same pair *)
Lemma der_serialize_parse r s size : 0 <= r < n -> 0 <= s < n ->
  let '(ret, need, out) := ecdsa_sig_serialize size r s in
  need = 6 + Z.of_nat (length (der_int r)) + Z.of_nat (length (der_int s)) /\ need <= 72 /\
  (ret = 1 <-> need <= size) /\ (ret = 0 \/ ret = 1) /\
  (ret = 1 -> Z.of_nat (length out) = need /\ ecdsa_sig_parse P out = Some (r, s)).
Proof.
  intros Hr Hs. unfold ecdsa_sig_serialize.
  destruct (der_int_spec r ltac:(lia)) as [_ [_ [_ [_ HlR]]]].
  destruct (der_int_spec s ltac:(lia)) as [_ [_ [_ [_ HlS]]]].
  set (rb := der_int r) in *. set (sb := der_int s) in *.
  set (lenR := Z.of_nat (length rb)). set (lenS := Z.of_nat (length sb)).
  destruct (size <? 6 + lenS + lenR) eqn:Esz.
  - apply Z.ltb_lt in Esz. repeat split; try lia; try (intros; discriminate).
  - apply Z.ltb_ge in Esz. repeat split; try lia.
    + rewrite !app_length. cbn [length]. unfold lenR, lenS. lia.
    + (* parse *)
      cbn [app]. unfold ecdsa_sig_parse. cbn [der_read_len].
      set (T := 4 + lenS + lenR). assert (HT : 6 <= T <= 70) by (unfold T, lenS, lenR; lia).
      replace (T =? 0xFF) with false by (symmetry; apply Z.eqb_neq; lia).
      assert (ET : Z.land T 0x80 = 0).
      { assert (X : forallb (fun k => Z.land k 0x80 =? 0) (map Z.of_nat (seq 0 128)) = true) by (vm_compute; reflexivity).
        rewrite forallb_forall in X. specialize (X T). apply Z.eqb_eq. apply X.
        apply in_map_iff. exists (Z.to_nat T). split; [lia|apply in_seq; lia]. }
      rewrite ET. cbn [Z.eqb].
      assert (Elen : T =? Z.of_nat (length (2 :: lenR :: rb ++ 2 :: lenS :: sb)) = true).
      { apply Z.eqb_eq. cbn [length]. rewrite !app_length. cbn [length]. unfold T, lenS, lenR. lia. }
      rewrite Elen. cbn [negb].
      unfold lenR, lenS, rb, sb. rewrite (der_parse_integer_der_int r _ Hr).
      replace (2 :: Z.of_nat (length (der_int s)) :: der_int s) with (2 :: Z.of_nat (length (der_int s)) :: der_int s ++ []) by (rewrite app_nil_r; reflexivity).
      rewrite (der_parse_integer_der_int s [] Hs). reflexivity.
Qed.

(* compact parser: exact acceptance, zeroed object on rejection *)
Lemma compact_parse_exact input64 :
  let r := be_val (firstn 32 input64) in let s := be_val (skipn 32 input64) in
  (r < n /\ s < n -> ecdsa_signature_parse_compact P input64 = [AInt 1; ABytes (sig_obj (r mod n) (s mod n))]) /\
  (~ (r < n /\ s < n) -> ecdsa_signature_parse_compact P input64 = [AInt 0; ABytes (zeros 64)]).
Proof.
  cbv zeta. unfold ecdsa_signature_parse_compact, sc_of_b32.
  destruct (n <=? be_val (firstn 32 input64)) eqn:A, (n <=? be_val (skipn 32 input64)) eqn:B; cbn [orb]; split; intros H; try reflexivity; try lia.
Qed.

(* the DER parser either fails with a zeroed object or returns scalars below n *)
Lemma der_parse_outcomes input :
  ecdsa_signature_parse_der P input = [AInt 0; ABytes (zeros 64)] \/
  exists r s, ecdsa_signature_parse_der P input = [AInt 1; ABytes (sig_obj r s)] /\ 0 <= r < n /\ 0 <= s < n.
Proof.
  unfold ecdsa_signature_parse_der. destruct (ecdsa_sig_parse P input) as [[r s]|] eqn:E; [right|left; reflexivity].
  exists r, s. split; [reflexivity|].
  assert (Hint : forall inp v rest, der_parse_integer P inp = Some (v, rest) -> 0 <= v < n).
  { intros inp v rest H. unfold der_parse_integer in H.
    destruct inp as [|t inp']; [discriminate|].
    destruct t; try discriminate. repeat (destruct p; try discriminate).
    destruct (der_read_len inp') as [[rlen body]|]; [|discriminate].
    destruct ((rlen =? 0) || _); [discriminate|].
    destruct (_ && _ && _); [discriminate|]. destruct (_ && _ && _); [discriminate|].
    destruct (sc_of_b32 P _) as [v0 ov2] eqn:Esc. inversion H; subst.
    unfold sc_of_b32 in Esc. inversion Esc; subst.
    destruct (_ || _ || _); [lia|]. apply Z.mod_pos_bound; lia. }
  unfold ecdsa_sig_parse in E.
  destruct input as [|t inp]; [discriminate|]. destruct t; try discriminate. repeat (destruct p; try discriminate).
  destruct (der_read_len inp) as [[rlen body]|]; [|discriminate].
  destruct (negb _); [discriminate|].
  destruct (der_parse_integer P body) as [[r' rest1]|] eqn:E1; [|discriminate].
  destruct (der_parse_integer P rest1) as [[s' rest2]|] eqn:E2; [|discriminate].
  destruct rest2; [|discriminate]. inversion E; subst. split; eauto.
Qed.
End DerProofs.
