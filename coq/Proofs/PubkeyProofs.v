(* Lemmas about the public-key codec model (Model/Base.v, Model/Keys.v). *)
From Coq Require Import ZArith List Bool Lia.
Require Import Spec.Params Spec.Field Spec.Curve Spec.Bytes.
Require Import Model.Base Model.Keys Proofs.BytesLemmas.
Import ListNotations.
Local Open Scope Z_scope.
Ltac Zify.zify_post_hook ::= Z.div_mod_to_equations.
Local Opaque be_enc.

Lemma mpow_pos_range m a e : 0 < m -> 0 <= mpow_pos m a e < m.
Proof. intros Hm. destruct e; simpl; apply Z.mod_pos_bound; lia. Qed.
Lemma mpow_range m a e : 0 < m -> 0 <= e -> 0 <= mpow m a e < m.
Proof. intros Hm He. destruct e; simpl; try lia; try (apply Z.mod_pos_bound; lia); apply mpow_pos_range; lia. Qed.

Section PubkeyProofs.
Variable P : Params.
Notation p := (cp P).
Hypothesis Hp : 0 < p.
Hypothesis Hp256 : p <= 2 ^ 256.

Lemma sq_neg_mod y : ((- y) mod p * ((- y) mod p)) mod p = (y * y) mod p.
Proof. rewrite <- Z.mul_mod by lia. f_equal. ring. Qed.

(* lift_x only ever returns points that satisfy the curve equation with reduced coordinates *)
Lemma lift_x_on_curve x odd Q : lift_x P x odd = Some Q -> on_curve P (Some Q) = true /\ fst Q = x.
Proof.
  unfold lift_x. destruct ((x <? 0) || (p <=? x)) eqn:Er; [discriminate|].
  apply orb_false_iff in Er. destruct Er as [E1 E2]. apply Z.ltb_ge in E1. apply Z.leb_gt in E2.
  unfold msqrt. set (a := (x * x * x + cb P) mod p). set (r := mpow p a ((p + 1) / 4)).
  destruct ((r * r) mod p =? a mod p) eqn:Es; [|discriminate]. apply Z.eqb_eq in Es.
  assert (Ha : a mod p = a) by (unfold a; apply Z.mod_mod; lia). rewrite Ha in Es.
  assert (Hr : 0 <= r < p).
  { unfold r. apply mpow_range; [lia|]. apply Z.div_pos; lia. }
  destruct (Bool.eqb (Z.odd r) odd); intros H; inversion H; subst Q; cbn [fst]; split; try reflexivity; unfold on_curve.
  - replace (0 <=? x) with true by (symmetry; apply Z.leb_le; lia).
    replace (x <? p) with true by (symmetry; apply Z.ltb_lt; lia).
    replace (0 <=? r) with true by (symmetry; apply Z.leb_le; lia).
    replace (r <? p) with true by (symmetry; apply Z.ltb_lt; lia). cbn [andb]. apply Z.eqb_eq. exact Es.
  - assert (Hm : 0 <= mneg p r < p) by (unfold mneg; apply Z.mod_pos_bound; lia).
    replace (0 <=? x) with true by (symmetry; apply Z.leb_le; lia).
    replace (x <? p) with true by (symmetry; apply Z.ltb_lt; lia).
    replace (0 <=? mneg p r) with true by (symmetry; apply Z.leb_le; lia).
    replace (mneg p r <? p) with true by (symmetry; apply Z.ltb_lt; lia). cbn [andb]. apply Z.eqb_eq.
    unfold mneg. rewrite sq_neg_mod. exact Es.
Qed.

(* everything the parser accepts is a finite point on the curve; the shape of accepted strings *)
Lemma pubkey_parse_sound b Q : eckey_pubkey_parse P b = Some Q ->
  Q <> None /\ on_curve P Q = true /\
  ((length b = 33%nat /\ (nth 0 b 0 = 2 \/ nth 0 b 0 = 3)) \/
   (length b = 65%nat /\ (nth 0 b 0 = 4 \/ nth 0 b 0 = 6 \/ nth 0 b 0 = 7))).
Proof.
  unfold eckey_pubkey_parse. destruct b as [|tag rest]; [discriminate|].
  destruct ((length (tag :: rest) =? 33)%nat && ((tag =? 2) || (tag =? 3))) eqn:E33.
  - apply andb_true_iff in E33. destruct E33 as [EL Et]. apply Nat.eqb_eq in EL.
    destruct (fe_of_b32 P rest) as [x|]; [|discriminate]. unfold ge_set_xo.
    destruct (lift_x P x (tag =? 3)) as [Q'|] eqn:El; [|discriminate].
    intros H; inversion H; subst Q. apply lift_x_on_curve in El. destruct El as [El _].
    split; [discriminate|split; [exact El|left]]. split; [exact EL|]. cbn [nth].
    apply orb_true_iff in Et. destruct Et as [Et|Et]; apply Z.eqb_eq in Et; auto.
  - destruct ((length (tag :: rest) =? 65)%nat && ((tag =? 4) || (tag =? 6) || (tag =? 7))) eqn:E65; [|discriminate].
    apply andb_true_iff in E65. destruct E65 as [EL Et]. apply Nat.eqb_eq in EL.
    destruct (fe_of_b32 P (firstn 32 rest)) as [x|]; [|discriminate].
    destruct (fe_of_b32 P (skipn 32 rest)) as [y|]; [|discriminate].
    destruct (((tag =? 6) || (tag =? 7)) && negb (Bool.eqb (Z.odd y) (tag =? 7))); [discriminate|].
    destruct (on_curve P (Some (x, y))) eqn:Eo; [|discriminate].
    intros H; inversion H; subst Q. split; [discriminate|split; [exact Eo|right]]. split; [exact EL|]. cbn [nth].
    apply orb_true_iff in Et. destruct Et as [Et|Et]; [apply orb_true_iff in Et; destruct Et as [Et|Et]|]; apply Z.eqb_eq in Et; auto.
Qed.

(* uncompressed and hybrid encodings of an on-curve point parse back to that point *)
Lemma on_curve_range x y : on_curve P (Some (x, y)) = true -> 0 <= x < p /\ 0 <= y < p.
Proof.
  unfold on_curve. intros H. apply andb_true_iff in H. destruct H as [H _].
  apply andb_true_iff in H. destruct H as [H H4]. apply andb_true_iff in H. destruct H as [H H3].
  apply andb_true_iff in H. destruct H as [H1 H2]. lia.
Qed.

Lemma fe_roundtrip x : 0 <= x < p -> fe_of_b32 P (fe_to_b32 x) = Some x.
Proof.
  intros Hx. unfold fe_of_b32, fe_to_b32. rewrite be_val_enc by (rewrite pow256_32; lia).
  replace (x <? p) with true by (symmetry; apply Z.ltb_lt; lia). reflexivity.
Qed.

Lemma parse_tagged65 tag x y : on_curve P (Some (x, y)) = true -> (tag = 4 \/ tag = 6 \/ tag = 7) ->
  eckey_pubkey_parse P (tag :: fe_to_b32 x ++ fe_to_b32 y) =
    if ((tag =? 6) || (tag =? 7)) && negb (Bool.eqb (Z.odd y) (tag =? 7)) then None else Some (Some (x, y)).
Proof.
  intros Ho Ht. destruct (on_curve_range x y Ho) as [Hx Hy].
  unfold eckey_pubkey_parse.
  assert (EL : length (tag :: fe_to_b32 x ++ fe_to_b32 y) = 65%nat) by (cbn [length]; rewrite app_length; unfold fe_to_b32; rewrite !be_enc_length; reflexivity).
  rewrite EL. cbn [Nat.eqb andb].
  replace ((tag =? 2) || (tag =? 3)) with false by (destruct Ht as [->|[->| ->]]; reflexivity).
  replace ((tag =? 4) || (tag =? 6) || (tag =? 7)) with true by (destruct Ht as [->|[->| ->]]; reflexivity).
  cbn [andb].
  assert (L32 : length (fe_to_b32 x) = 32%nat) by (unfold fe_to_b32; apply be_enc_length).
  replace 32%nat with (length (fe_to_b32 x)) by exact L32. rewrite firstn_app_len, skipn_app_len.
  rewrite !fe_roundtrip by assumption. rewrite Ho. reflexivity.
Qed.

Lemma uncompressed_roundtrip x y : on_curve P (Some (x, y)) = true ->
  eckey_pubkey_parse P (ser65 (Some (x, y))) = Some (Some (x, y)).
Proof. intros Ho. unfold ser65. rewrite parse_tagged65 by auto. reflexivity. Qed.

(* buffer-length contract of ec_pubkey_serialize: too small a buffer is an illegal-argument call that
   writes nothing; otherwise the length is set to 33/65 exactly and the rest of the buffer is zeroed *)
Lemma serialize_contract outlen obj flags :
  let need := if Z.testbit flags 8 then 33 else 65 in
  (outlen < need -> ec_pubkey_serialize outlen obj flags = [AInt 0; AInt outlen; AIll 1]) /\
  (need <= outlen -> Z.land flags 255 = 2 -> forall Q, pk_load obj = Some Q ->
     exists s, ec_pubkey_serialize outlen obj flags = [AInt 1; AInt need; ABytes (s ++ zeros (Z.to_nat outlen - length s))]
               /\ s = (if Z.testbit flags 8 then ser33 Q else ser65 Q)).
Proof.
  cbv zeta. unfold ec_pubkey_serialize. split.
  - intros H. replace (outlen <? (if Z.testbit flags 8 then 33 else 65)) with true by (symmetry; apply Z.ltb_lt; lia). reflexivity.
  - intros H Hf Q HQ. replace (outlen <? (if Z.testbit flags 8 then 33 else 65)) with false by (symmetry; apply Z.ltb_ge; lia).
    rewrite Hf. cbn [Z.eqb negb]. rewrite HQ. eexists. split; reflexivity.
Qed.
End PubkeyProofs.
