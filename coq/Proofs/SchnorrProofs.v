(* The Schnorr model equals BIP-340 (Spec/Bip340.v). *)
From Coq Require Import ZArith List Bool Lia Znumtheory.
Require Import Spec.Params Spec.Field Spec.Curve Spec.Bytes Spec.Sha256 Spec.Bip340.
Require Import Model.Base Model.Keys Model.Schnorr Proofs.BytesLemmas Proofs.MathFacts Proofs.GroupLemmas Proofs.PubkeyProofs Proofs.EcdsaProofs.
Import ListNotations.
Local Open Scope Z_scope.
Ltac Zify.zify_post_hook ::= Z.div_mod_to_equations.
Local Opaque be_enc tagged_hash.

Section SchnorrProofs.
Variable P : Params.
Notation p := (cp P).
Notation n := (cn P).
Notation G := (Curve.G P).
Notation pmul := (Curve.pmul P).
Notation padd := (Curve.padd P).
Notation pneg := (Curve.pneg P).

(* premise-free: non-canonical r or s is rejected, whatever the rest *)
Lemma verify_rejects_r_ge_p sig64 msg xobj : p <= be_val (firstn 32 sig64) -> schnorrsig_verify P sig64 msg xobj = [AInt 0].
Proof.
  intros H. unfold schnorrsig_verify, fe_of_b32.
  replace (be_val (firstn 32 sig64) <? p) with false by (symmetry; apply Z.ltb_ge; lia). reflexivity.
Qed.
Lemma verify_rejects_s_ge_n sig64 msg xobj : n <= be_val (skipn 32 sig64) -> schnorrsig_verify P sig64 msg xobj = [AInt 0].
Proof.
  intros H. unfold schnorrsig_verify. destruct (fe_of_b32 P (firstn 32 sig64)); [|reflexivity].
  unfold sc_of_b32. replace (n <=? be_val (skipn 32 sig64)) with true by (symmetry; apply Z.leb_le; lia). reflexivity.
Qed.
(* return value is always 0 or 1 and no callback fires for a loadable key *)
Lemma verify_outcomes sig64 msg xobj Q : pk_load xobj = Some Q ->
  schnorrsig_verify P sig64 msg xobj = [AInt 0] \/ schnorrsig_verify P sig64 msg xobj = [AInt 1].
Proof.
  intros HL. unfold schnorrsig_verify. destruct (fe_of_b32 P _); auto.
  destruct (sc_of_b32 P _) as [s ov]. destruct ov; auto. rewrite HL.
  destruct (padd _ _) as [[x y]|]; auto. destruct (negb (Z.odd y) && (x =? z)); auto.
Qed.
(* absent auxiliary randomness behaves as 32 zero bytes *)
Lemma aux_none_eq_zero_aux msg32 kp : schnorrsig_sign32 P msg32 kp None = schnorrsig_sign32 P msg32 kp (Some (zeros 32)).
Proof. reflexivity. Qed.

Hypothesis MF : MathFacts P.
Hypothesis Hp256 : p <= 2 ^ 256.
Hypothesis Hn256 : n <= 2 ^ 256.

Lemma npos' : 0 < n. Proof. apply (n_pos P MF). Qed.

(* verification on the object of an x-only key = BIP-340 Verify on the key's 32-byte encoding *)
Theorem verify_eq_bip340 x Q sig64 msg :
  lift_x P x false = Some Q -> x <> 0 ->
  bytes_okP sig64 -> length sig64 = 64%nat ->
  schnorrsig_verify P sig64 msg (pk_obj (Some Q)) = [AInt (b2z (bip340_verify P (be_enc 32 x) msg sig64))].
Proof.
  intros HL Hx0 Hok Hlen. pose proof npos' as Hn.
  assert (Hp : 0 < p) by (pose proof (prime_ge_2 _ (mf_p_prime P MF)); lia).
  destruct (lift_x_on_curve P Hp x false Q HL) as [Hoc Hfst].
  destruct Q as [qx qy]. cbn [fst] in Hfst. subst qx.
  destruct (on_curve_range P x qy Hoc) as [Hxr Hyr].
  unfold schnorrsig_verify, bip340_verify.
  rewrite be_val_enc by (rewrite pow256_32; lia). rewrite HL.
  unfold fe_of_b32, sc_of_b32.
  set (r := be_val (firstn 32 sig64)). set (s := be_val (skipn 32 sig64)).
  destruct (r <? p) eqn:Er.
  2:{ replace (p <=? r) with true by (symmetry; apply Z.leb_le; apply Z.ltb_ge in Er; lia). reflexivity. }
  replace (p <=? r) with false by (symmetry; apply Z.leb_gt; apply Z.ltb_lt in Er; lia).
  destruct (n <=? s) eqn:Es; [reflexivity|]. apply Z.leb_gt in Es.
  (* loading the object *)
  unfold pk_load, pk_obj, fe_to_b32.
  rewrite firstn_be_enc, skipn_be_enc, !be_val_enc by (rewrite pow256_32; lia).
  replace (x =? 0) with false by (symmetry; apply Z.eqb_neq; assumption).
  cbn [px].
  (* the challenge: same hash input *)
  assert (Hf : bytes_okP (firstn 32 sig64)) by (apply okP_firstn; assumption).
  assert (Er32 : be_enc 32 r = firstn 32 sig64).
  { unfold r. rewrite <- (be_enc_val (firstn 32 sig64) Hf) at 2. rewrite firstn_length, Hlen. reflexivity. }
  unfold challenge, sc_of_b32, fe_to_b32. cbn [fst]. rewrite Er32.
  set (e := be_val (tagged_hash _ _) mod n).
  assert (He : 0 <= e < n) by (unfold e; apply Z.mod_pos_bound; lia).
  assert (HsN : 0 <= s).
  { unfold s. apply be_val_bound. apply okP_skipn; assumption. }
  (* the group computation *)
  assert (HocQ : oc P (Some (x, qy))) by exact Hoc.
  rewrite Z.mod_small by lia.
  unfold sc_neg. rewrite (pmul_mneg_Q P MF) by (auto; lia).
  rewrite (padd_comm P MF) by (auto using oc_neg, oc_pmul, oc_G).
  destruct (padd (pmul s G) (pneg (pmul e (Some (x, qy))))) as [[rx ry]|]; [|reflexivity].
  rewrite <- Z.negb_odd. reflexivity.
Qed.
End SchnorrProofs.

(* Signing with a consistent keypair object = BIP-340 default signing, byte for byte. *)
Section SignEq.
Variable P : Params.
Notation n := (cn P).
Hypothesis Hn : 0 < n.
Hypothesis Hn256 : n <= 2 ^ 256.
Hypothesis Hp : 0 < cp P.
Hypothesis Hp256 : cp P <= 2 ^ 256.
(* G has order n (derivable from MathFacts: GroupLemmas.pmul_G_nonzero) *)
Hypothesis HGord : forall k, 0 < k < n -> pmul P k (G P) <> None.

Lemma sign_eq_bip340_default d0 xP yP msg aux :
  0 < d0 < n -> pmul P d0 (G P) = Some (xP, yP) -> 0 < xP < cp P -> 0 <= yP < cp P ->
  schnorrsig_sign_internal P msg (keypair_obj d0 (Some (xP, yP))) 0 aux =
    match bip340_sign P (be_enc 32 d0) msg (match aux with Some a => a | None => zeros 32 end) with
    | Some sig => [AInt 1; ABytes sig]
    | None => [AInt 0; ABytes (zeros 64)]
    end.
Proof.
  intros Hd HQ Hx Hy.
  unfold schnorrsig_sign_internal, bip340_sign, keypair_load, keypair_obj, sc_to_b32, pk_obj, fe_to_b32.
  rewrite skipn_be_enc, firstn_be_enc.
  unfold pk_load. rewrite firstn_be_enc, skipn_be_enc, !be_val_enc by (rewrite pow256_32; lia).
  replace (xP =? 0) with false by (symmetry; apply Z.eqb_neq; lia).
  unfold seckey_of_b32. rewrite be_val_enc by (rewrite pow256_32; lia).
  replace (0 <? d0) with true by (symmetry; apply Z.ltb_lt; lia).
  replace (d0 <? n) with true by (symmetry; apply Z.ltb_lt; lia). cbn [andb].
  replace (d0 =? 0) with false by (symmetry; apply Z.eqb_neq; lia).
  replace (n <=? d0) with false by (symmetry; apply Z.leb_gt; lia). cbn [orb].
  rewrite HQ. cbn [py px].
  assert (Ed : (if Z.odd yP then sc_neg P d0 else d0) = (if Z.even yP then d0 else n - d0)).
  { rewrite <- Z.negb_odd. destruct (Z.odd yP); cbn [negb]; [|reflexivity].
    unfold sc_neg, mneg. rewrite Z_mod_nz_opp_full by (rewrite Z.mod_small; lia). rewrite Z.mod_small by lia. reflexivity. }
  rewrite Ed. set (d := if Z.even yP then d0 else n - d0).
  unfold schnorr_nonce. cbn [Z.eqb orb]. unfold nonce_bip340, sc_to_b32.
  change tag_bip340_aux with tag_aux. change tag_bip340_nonce with tag_nonce.
  set (rand := tagged_hash tag_nonce _).
  unfold sc_of_b32. cbn [fst].
  destruct (be_val rand mod n =? 0) eqn:Ek; [reflexivity|].
  set (k' := be_val rand mod n) in *.
  assert (Hk : 0 < k' < n) by (apply Z.eqb_neq in Ek; pose proof (Z.mod_pos_bound (be_val rand) n Hn); unfold k'; lia).
  destruct (pmul P k' (G P)) as [[xR yR]|] eqn:ER.
  2:{ exfalso. exact (HGord k' Hk ER). }
  cbn [py px].
  assert (Ekk : (if Z.odd yR then sc_neg P k' else k') = (if Z.even yR then k' else n - k')).
  { rewrite <- Z.negb_odd. destruct (Z.odd yR); cbn [negb]; [|reflexivity].
    unfold sc_neg, mneg. rewrite Z_mod_nz_opp_full by (rewrite Z.mod_small; lia). rewrite Z.mod_small by lia. reflexivity. }
  rewrite Ekk. unfold challenge, sc_of_b32, sc_add, sc_mul, madd, mmul. cbn [fst].
  change tag_bip340_challenge with tag_challenge.
  rewrite Zplus_mod_idemp_l. rewrite (Z.add_comm (_ * d)). reflexivity.
Qed.
End SignEq.
