(* ECDH symmetry under the group premises [MathFacts]: both parties of an exchange on multiples of G derive
   the same result, for every hash function. *)
From Coq Require Import ZArith List Bool Lia.
Require Import Spec.Params Spec.Field Spec.Curve Spec.Bytes Model.Base Model.Ecdh.
Require Import Proofs.MathFacts Proofs.GroupLemmas Proofs.EllswiftProofs.
Import ListNotations.
Local Open Scope Z_scope.

Section EcdhComplete.
Variable P : Params.
Hypothesis MF : MathFacts P.

(* A holds ka and receives B = kb*G; B holds kb and receives A = ka*G *)
Theorem ecdh_symmetric : forall (h : ecdh_hashfn) ka kb,
  1 <= be_val ka < cn P -> 1 <= be_val kb < cn P ->
  ecdh_pt P h (pmul P (be_val kb) (G P)) ka = ecdh_pt P h (pmul P (be_val ka) (G P)) kb.
Proof.
  intros h ka kb Ha Hb. unfold ecdh_pt.
  rewrite !(ecdh_scalar_valid P) by assumption.
  rewrite <- !(pmul_mul P MF) by (try (apply oc_G; exact MF); lia).
  rewrite Z.mul_comm. reflexivity.
Qed.
End EcdhComplete.

Require Import Proofs.Toy.
Example ecdh_symmetric_toy : forall h ka kb, 1 <= be_val ka < 31 -> 1 <= be_val kb < 31 ->
  ecdh_pt toy h (pmul toy (be_val kb) (G toy)) ka = ecdh_pt toy h (pmul toy (be_val ka) (G toy)) kb.
Proof. exact (ecdh_symmetric toy toy_MathFacts). Qed.
