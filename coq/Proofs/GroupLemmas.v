(* Module laws of scalar multiplication derived from the group premises [MathFacts]. *)
From Coq Require Import ZArith List Bool Lia Znumtheory.
Require Import Spec.Params Spec.Field Spec.Curve Proofs.MathFacts.
Local Open Scope Z_scope.

Section GroupLemmas.
Variable P : Params.
Hypothesis MF : MathFacts P.
Notation padd := (padd P).
Notation pneg := (pneg P).
Notation pdbl := (pdbl P).
Notation pmul := (pmul P).
Notation G := (G P).
Notation oc := (oc P).
Let n := cn P.

Lemma oc_None : oc None. Proof. reflexivity. Qed.
Lemma padd_None_l Q : padd None Q = Q. Proof. reflexivity. Qed.
Lemma padd_None_r Q : padd Q None = Q. Proof. destruct Q as [[x y]|]; reflexivity. Qed.
Lemma pdbl_padd Q : pdbl Q = padd Q Q.
Proof. destruct Q as [[x y]|]; [|reflexivity]. unfold Curve.padd. rewrite !Z.eqb_refl. reflexivity. Qed.

Lemma oc_add A B : oc A -> oc B -> oc (padd A B). Proof. apply (mf_closed P MF). Qed.
Lemma oc_neg A : oc A -> oc (pneg A). Proof. apply (mf_neg_oc P MF). Qed.
Lemma oc_G : oc G. Proof. apply (mf_G P MF). Qed.
Lemma padd_assoc A B C : oc A -> oc B -> oc C -> padd (padd A B) C = padd A (padd B C).
Proof. apply (mf_assoc P MF). Qed.
Lemma padd_comm A B : oc A -> oc B -> padd A B = padd B A. Proof. apply (mf_comm P MF). Qed.
Lemma padd_neg A : oc A -> padd A (pneg A) = None. Proof. apply (mf_neg P MF). Qed.

(* uniqueness of inverses, negation is a homomorphism *)
Lemma inv_unique A B : oc A -> oc B -> padd A B = None -> B = pneg A.
Proof.
  intros HA HB H.
  assert (E : padd (pneg A) (padd A B) = pneg A) by (rewrite H; apply padd_None_r).
  rewrite <- padd_assoc in E by auto using oc_neg.
  rewrite (padd_comm (pneg A) A) in E by auto using oc_neg.
  rewrite padd_neg in E by auto. exact E.
Qed.
Lemma pneg_add A B : oc A -> oc B -> pneg (padd A B) = padd (pneg A) (pneg B).
Proof.
  intros HA HB. symmetry. apply inv_unique; auto using oc_add, oc_neg.
  rewrite (padd_comm (pneg A) (pneg B)) by auto using oc_neg.
  rewrite padd_assoc by auto using oc_add, oc_neg.
  rewrite <- (padd_assoc B (pneg B) (pneg A)) by auto using oc_neg.
  rewrite padd_neg by auto. rewrite padd_None_l. apply padd_neg; auto.
Qed.
Lemma pneg_None : pneg None = None. Proof. reflexivity. Qed.
Lemma pneg_involutive A : oc A -> pneg (pneg A) = A.
Proof.
  intros HA. symmetry. apply inv_unique; auto using oc_neg.
  rewrite padd_comm by auto using oc_neg. apply padd_neg; auto.
Qed.

(* unary scalar multiplication *)
Fixpoint nmul (k : nat) (Q : point) : point :=
  match k with O => None | S k' => padd Q (nmul k' Q) end.
Lemma oc_nmul k Q : oc Q -> oc (nmul k Q).
Proof. intros HQ. induction k; simpl; auto using oc_None, oc_add. Qed.
Lemma nmul_add a b Q : oc Q -> nmul (a + b) Q = padd (nmul a Q) (nmul b Q).
Proof.
  intros HQ. induction a; simpl; [reflexivity|].
  rewrite IHa. rewrite padd_assoc; auto using oc_nmul.
Qed.
Lemma nmul_None k : nmul k None = None. Proof. induction k; simpl; auto. Qed.
Lemma nmul_mul a b Q : oc Q -> nmul (a * b) Q = nmul a (nmul b Q).
Proof.
  intros HQ. induction a; simpl; [reflexivity|].
  rewrite nmul_add by auto. rewrite IHa. reflexivity.
Qed.
Lemma nmul_neg k Q : oc Q -> nmul k (pneg Q) = pneg (nmul k Q).
Proof.
  intros HQ. induction k; simpl; [reflexivity|].
  rewrite IHk. rewrite pneg_add; auto using oc_nmul.
Qed.

Lemma pmul_pos_nmul k Q : oc Q -> pmul_pos P k Q = nmul (Pos.to_nat k) Q.
Proof.
  intros HQ. induction k; simpl pmul_pos.
  - rewrite IHk, pdbl_padd, <- nmul_add by auto.
    replace (Pos.to_nat k~1) with (S (Pos.to_nat k + Pos.to_nat k)) by lia. reflexivity.
  - rewrite IHk, pdbl_padd, <- nmul_add by auto.
    replace (Pos.to_nat k~0) with (Pos.to_nat k + Pos.to_nat k)%nat by lia. reflexivity.
  - simpl. rewrite padd_None_r. reflexivity.
Qed.
Lemma pmul_nmul k Q : oc Q -> 0 <= k -> pmul k Q = nmul (Z.to_nat k) Q.
Proof.
  intros HQ Hk. destruct k; try lia; simpl; [reflexivity|]. apply pmul_pos_nmul; auto.
Qed.
Lemma oc_pmul k Q : oc Q -> oc (pmul k Q).
Proof.
  intros HQ. destruct k; simpl; [reflexivity| |]; rewrite pmul_pos_nmul; auto using oc_nmul, oc_neg.
Qed.
Lemma pmul_add a b Q : oc Q -> 0 <= a -> 0 <= b -> pmul (a + b) Q = padd (pmul a Q) (pmul b Q).
Proof.
  intros HQ Ha Hb. rewrite !pmul_nmul by (auto; lia). rewrite Z2Nat.inj_add by lia. apply nmul_add; auto.
Qed.
Lemma pmul_mul a b Q : oc Q -> 0 <= a -> 0 <= b -> pmul (a * b) Q = pmul a (pmul b Q).
Proof.
  intros HQ Ha Hb.
  rewrite (pmul_nmul (a * b)) by (auto; nia).
  rewrite (pmul_nmul b Q) by auto.
  rewrite (pmul_nmul a) by auto using oc_nmul.
  rewrite Z2Nat.inj_mul by lia. apply nmul_mul; auto.
Qed.
Lemma pmul_0 Q : pmul 0 Q = None. Proof. reflexivity. Qed.
Lemma pmul_1 Q : pmul 1 Q = Q. Proof. reflexivity. Qed.
Lemma pmul_None k : pmul k None = None.
Proof. destruct k; simpl; auto; rewrite pmul_pos_nmul by reflexivity; apply nmul_None. Qed.
Lemma pmul_pneg k Q : oc Q -> 0 <= k -> pmul k (pneg Q) = pneg (pmul k Q).
Proof. intros HQ Hk. rewrite !pmul_nmul by auto using oc_neg. apply nmul_neg; auto. Qed.

(* scalars act modulo n on multiples of G *)
Lemma n_pos : 0 < n.
Proof. pose proof (prime_ge_2 _ (mf_n_prime P MF)). unfold n. lia. Qed.
Lemma pmul_n_G : pmul n G = None. Proof. apply (mf_ord P MF). Qed.
Lemma pmul_n_Q Q : oc Q -> pmul n Q = None. Proof. apply (mf_cofactor P MF). Qed.
Lemma pmul_mod_n_Q k Q : oc Q -> 0 <= k -> pmul (k mod n) Q = pmul k Q.
Proof.
  intros HQ Hk. pose proof n_pos as Hn.
  rewrite (Z.div_mod k n) at 2 by lia.
  assert (0 <= k / n) by (apply Z.div_pos; lia).
  assert (0 <= k mod n) by (apply Z.mod_pos_bound; lia).
  rewrite pmul_add by (auto; nia).
  rewrite (Z.mul_comm n), pmul_mul by (auto; lia).
  rewrite pmul_n_Q, pmul_None by auto. reflexivity.
Qed.
Lemma pmul_mod_n k : 0 <= k -> pmul (k mod n) G = pmul k G.
Proof. intros. apply pmul_mod_n_Q; auto using oc_G. Qed.
Lemma pmul_madd_Q a b Q : oc Q -> 0 <= a -> 0 <= b -> pmul (madd n a b) Q = padd (pmul a Q) (pmul b Q).
Proof. intros. unfold madd. rewrite pmul_mod_n_Q by (auto; lia). apply pmul_add; auto. Qed.
Lemma pmul_mmul_Q a b Q : oc Q -> 0 <= a -> 0 <= b -> pmul (mmul n a b) Q = pmul a (pmul b Q).
Proof. intros. unfold mmul. rewrite pmul_mod_n_Q by (auto; nia). apply pmul_mul; auto. Qed.
Lemma pmul_mneg_Q a Q : oc Q -> 0 <= a < n -> pmul (mneg n a) Q = pneg (pmul a Q).
Proof.
  intros HQ Ha. unfold mneg.
  assert (E : padd (pmul a Q) (pmul ((- a) mod n) Q) = None).
  { rewrite <- pmul_add by (auto; try lia; apply Z.mod_pos_bound; lia).
    rewrite <- pmul_mod_n_Q by (auto; pose proof (Z.mod_pos_bound (-a) n); lia).
    rewrite Zplus_mod_idemp_r. replace (a + - a) with 0 by lia. rewrite Z.mod_0_l by lia. reflexivity. }
  apply inv_unique in E; auto using oc_pmul.
Qed.
Lemma pmul_madd a b : 0 <= a -> 0 <= b -> pmul (madd n a b) G = padd (pmul a G) (pmul b G).
Proof. intros. apply pmul_madd_Q; auto using oc_G. Qed.
Lemma pmul_mmul a b : 0 <= a -> 0 <= b -> pmul (mmul n a b) G = pmul a (pmul b G).
Proof. intros. apply pmul_mmul_Q; auto using oc_G. Qed.
Lemma pmul_mneg a : 0 <= a < n -> pmul (mneg n a) G = pneg (pmul a G).
Proof. intros. apply pmul_mneg_Q; auto using oc_G. Qed.

(* G has exact order n: no smaller positive multiple is the point at infinity *)
Lemma pmul_G_nonzero k : 0 < k < n -> pmul k G <> None.
Proof.
  intros Hk H. pose proof n_pos as Hn.
  assert (R : rel_prime k n) by (apply rel_prime_le_prime; [apply (mf_n_prime P MF)|lia]).
  apply rel_prime_bezout in R. destruct R as [u v E].
  assert (E1 : ((u mod n) * k) mod n = 1 mod n).
  { rewrite Z.mul_mod_idemp_l by lia. rewrite <- E. rewrite Z.mod_add by lia. reflexivity. }
  assert (Hu : 0 <= u mod n < n) by (apply Z.mod_pos_bound; lia).
  assert (X : pmul (((u mod n) * k) mod n) G = None).
  { rewrite pmul_mod_n by nia. rewrite pmul_mul by (auto using oc_G; lia). rewrite H. apply pmul_None. }
  rewrite E1 in X. rewrite pmul_mod_n in X by lia. rewrite pmul_1 in X.
  destruct (mf_G P MF) as [_ HG]. contradiction.
Qed.
End GroupLemmas.
