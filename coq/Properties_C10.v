(* C10 - range-proof verification accepts exactly the specified proofs (consensus-exact).
   Only statements here; proofs are in Proofs/RangeproofProofs.v.  Model: Model/Rangeproof.v
   ([rangeproof_verify_impl], tied to the C code by the correspondence check of ./check C10, which is
   driven by an adversarial prover).  Every theorem holds for ALL byte strings, commitments, generators
   and extra data; none needs a premise about the curve.  "Accepted" = the model returns [ROk v]. *)
From Coq Require Import ZArith List Bool Lia.
Require Import Spec.Params Spec.Field Spec.Curve Spec.Bytes.
Require Import Model.Base Model.Pedersen Model.Borromean Model.Rangeproof.
Require Import Proofs.BytesLemmas Proofs.RangeproofProofs.
Import ListNotations.
Local Open Scope Z_scope.
Notation S := secp256k1.

Theorem rejects_short_proof :
  forall nonce mcap commit proof extra genp, Z.of_nat (length proof) < 65 ->
    rangeproof_verify_impl S nonce mcap commit proof extra genp = RFail.
Proof. exact (rejects_short S). Qed.
Print Assumptions rejects_short_proof.

Theorem rejects_reserved_header_bit :
  forall nonce mcap commit proof extra genp, Z.land (nth 0 proof 0) 128 <> 0 ->
    rangeproof_verify_impl S nonce mcap commit proof extra genp = RFail.
Proof. exact (rejects_reserved_header_bit S). Qed.
Print Assumptions rejects_reserved_header_bit.

Theorem rejects_exp_above_18 :
  forall nonce mcap commit proof extra genp,
    Z.land (nth 0 proof 0) 64 <> 0 -> 18 < Z.land (nth 0 proof 0) 31 ->
    rangeproof_verify_impl S nonce mcap commit proof extra genp = RFail.
Proof. exact (rejects_exp_above_18 S). Qed.
Print Assumptions rejects_exp_above_18.

Theorem rejects_mantissa_above_64 :
  forall nonce mcap commit proof extra genp,
    Z.land (nth 0 proof 0) 64 <> 0 -> 64 < nth 1 proof 0 + 1 ->
    rangeproof_verify_impl S nonce mcap commit proof extra genp = RFail.
Proof. exact (rejects_mantissa_above_64 S). Qed.
Print Assumptions rejects_mantissa_above_64.

(* an accepted proof reports min <= max <= 2^64-1 with max = min + (2^mantissa - 1) * 10^exp computed over the
   integers: a header whose range would wrap around 2^64 is rejected *)
Theorem rejects_range_overflow :
  forall nonce mcap commit proof extra genp v, bytes_okP proof ->
    rangeproof_verify_impl S nonce mcap commit proof extra genp = ROk v ->
    exists h, getheader proof = Some h /\
      0 <= v_min v /\ v_min v <= v_max v /\ v_max v <= U64MAX /\
      v_max v = v_min v + (if h_mantissa h =? 0 then 0 else (2 ^ h_mantissa h - 1) * 10 ^ (Z.max 0 (h_exp h))).
Proof. exact (rejects_range_overflow S). Qed.
Print Assumptions rejects_range_overflow.

(* every ring scalar of an accepted proof is < n, so the re-encoding s + n of any scalar is rejected *)
Theorem rejects_scalar_ge_n :
  forall nonce mcap commit proof extra genp v,
    rangeproof_verify_impl S nonce mcap commit proof extra genp = ROk v ->
    exists h, getheader proof = Some h /\
      let rsizes := verify_layout (h_mantissa h) in
      let rings := Z.of_nat (length rsizes) in
      let soff := (Z.to_nat (h_offset h) + Z.to_nat (Z.shiftr (rings + 6) 3) + 32 * Z.to_nat (rings - 1) + 32)%nat in
      forall k, (k < sum_nat rsizes)%nat -> be_val (slice (soff + 32 * k) 32 proof) < cn S.
Proof. exact (rejects_scalar_ge_n S). Qed.
Print Assumptions rejects_scalar_ge_n.

(* every transmitted digit commitment of an accepted proof has x < p and x^3 + 7 a square *)
Theorem rejects_x_ge_p_or_offcurve :
  forall nonce mcap commit proof extra genp v,
    rangeproof_verify_impl S nonce mcap commit proof extra genp = ROk v ->
    exists h, getheader proof = Some h /\
      let rings := Z.of_nat (length (verify_layout (h_mantissa h))) in
      let xoff := (Z.to_nat (h_offset h) + Z.to_nat (Z.shiftr (rings + 6) 3))%nat in
      forall k, (k < Z.to_nat (rings - 1))%nat ->
        be_val (slice (xoff + 32 * k) 32 proof) < cp S /\ x_on_curve S (be_val (slice (xoff + 32 * k) 32 proof)) = true.
Proof. exact (rejects_x_ge_p_or_offcurve S). Qed.
Print Assumptions rejects_x_ge_p_or_offcurve.

(* the sign bits that correspond to no digit commitment are zero in an accepted proof *)
Theorem rejects_spare_sign_bits :
  forall nonce mcap commit proof extra genp v,
    rangeproof_verify_impl S nonce mcap commit proof extra genp = ROk v ->
    exists h, getheader proof = Some h /\
      let rings := Z.of_nat (length (verify_layout (h_mantissa h))) in
      let nsign := Z.to_nat (Z.shiftr (rings + 6) 3) in
      Z.land (rings - 1) 7 <> 0 ->
      Z.shiftr (nth (Nat.pred nsign) (slice (Z.to_nat (h_offset h)) nsign proof) 0) (Z.land (rings - 1) 7) = 0.
Proof. exact (rejects_spare_sign_bits S). Qed.
Print Assumptions rejects_spare_sign_bits.

(* the length of an accepted proof is exactly the one its header dictates ... *)
Theorem accepted_length_exact :
  forall nonce mcap commit proof extra genp v,
    rangeproof_verify_impl S nonce mcap commit proof extra genp = ROk v ->
    exists h, getheader proof = Some h /\ Z.of_nat (length proof) = expected_len h.
Proof. exact (accepted_length_exact S). Qed.
Print Assumptions accepted_length_exact.

(* ... hence an accepted proof followed by any non-empty byte string is rejected, and so is every proper prefix *)
Theorem rejects_trailing_bytes :
  forall commit proof extra genp v t,
    rangeproof_verify_impl S None None commit proof extra genp = ROk v -> t <> [] ->
    rangeproof_verify_impl S None None commit (proof ++ t) extra genp = RFail.
Proof. exact (rejects_trailing_bytes S). Qed.
Print Assumptions rejects_trailing_bytes.

Theorem rejects_truncated :
  forall commit proof extra genp v t,
    rangeproof_verify_impl S None None commit (proof ++ t) extra genp = ROk v -> t <> [] ->
    rangeproof_verify_impl S None None commit proof extra genp = RFail.
Proof. exact (rejects_truncated S). Qed.
Print Assumptions rejects_truncated.

(* the range reported by verification is the one rangeproof_info reports *)
Theorem verify_range_eq_info :
  forall nonce mcap commit proof extra genp v,
    rangeproof_verify_impl S nonce mcap commit proof extra genp = ROk v ->
    exists e m, rangeproof_info proof = [AInt 1; AInt e; AInt m; AInt (v_min v); AInt (v_max v)].
Proof. exact (verify_range_eq_info S). Qed.
Print Assumptions verify_range_eq_info.

(* plain verification always gives a verdict (the model never abstains on it) *)
Theorem verify_never_abstains :
  forall mcap commit proof extra genp, rangeproof_verify_impl S None mcap commit proof extra genp <> RFuel.
Proof. exact (verify_no_fuel S). Qed.
Print Assumptions verify_never_abstains.

(* non-vacuity of the premise "accepted": the exact-value header of a 65-byte string parses *)
Example header_parses : exists h, getheader (32 :: zeros 64) = Some h /\ expected_len h = 73.
Proof. eexists. split; [vm_compute; reflexivity|vm_compute; reflexivity]. Qed.
