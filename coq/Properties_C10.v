(* C10 - stub, replaced once Proofs/RangeproofProofs.v is in place *)
From Coq Require Import ZArith.
Theorem c10_stub : (0 = 0)%Z. Proof. exact eq_refl. Qed.
Print Assumptions c10_stub.
