(* C13 - placeholder while the proofs are being built; replaced below *)
From Coq Require Import ZArith Lia.
Local Open Scope Z_scope.
Theorem placeholder_c13 : 1 + 1 = 2.
Proof. reflexivity. Qed.
Print Assumptions placeholder_c13.
