(* C13 - a MuSig secret nonce signs at most once, whatever happens.
   Theorems about the history machine Model/MusigNonceSM.v (step : state -> op -> state * out) and the
   functions of Model/Musig.v it is built from.  No premises: nothing here depends on the curve. *)
From Coq Require Import ZArith List Bool.
Require Import Spec.Params Spec.Curve Spec.Bytes Model.Base Model.Keys Model.Musig Model.MusigNonceSM.
Require Import Proofs.BytesLemmas Proofs.MusigProofs.
Import ListNotations.
Local Open Scope Z_scope.

(* For every state and EVERY outcome (success; failure of any check after the load: NULL output, NULL or
   invalid keypair, key mismatch, invalid cache, invalid session; failure of the load itself) the named
   secret-nonce object is all-zero after a partial_sign step. *)
Theorem partial_sign_always_wipes : forall P s k want_sig keypair cache session,
  (k < length (slots s))%nat ->
  nth_error (slots (fst (step P s (OSign (Some k) want_sig keypair cache session)))) k = Some (zeros 132).
Proof. exact partial_sign_always_wipes_stmt. Qed.
Print Assumptions partial_sign_always_wipes.

Theorem partial_sign_api_always_wipes : forall P sec want_sig keypair cache session,
  snd (partial_sign P (Some sec) want_sig keypair cache session) = Some (zeros 132).
Proof. exact partial_sign_api_wipes_stmt. Qed.
Print Assumptions partial_sign_api_always_wipes.

Theorem zero_nonce_never_signs : forall P s k want_sig keypair cache session,
  nth_error (slots s) k = Some (zeros 132) ->
  let r := step P s (OSign (Some k) want_sig keypair cache session) in
  o_ret (snd r) = 0 /\ o_ill (snd r) = 1 /\ siglog (fst r) = siglog s /\
  o_sig (snd r) = (if want_sig then Some (zeros 36) else None).
Proof. exact zero_nonce_never_signs_stmt. Qed.
Print Assumptions zero_nonce_never_signs.

(* after a partial_sign step on object k (whatever its outcome) and any further operations that do not
   refill k (no nonce_gen / nonce_gen_counter / caller overwrite on k), partial_sign on k signs nothing *)
Theorem used_nonce_never_signs : forall P s k w1 kp1 c1 se1 ops w2 kp2 c2 se2,
  (k < length (slots s))%nat ->
  forallb (fun o => negb (refills k o)) ops = true ->
  let s1 := fst (step P s (OSign (Some k) w1 kp1 c1 se1)) in
  let s2 := final P s1 ops in
  let r := step P s2 (OSign (Some k) w2 kp2 c2 se2) in
  o_ret (snd r) = 0 /\ siglog (fst r) = siglog s2 /\ o_sig (snd r) = (if w2 then Some (zeros 36) else None).
Proof. exact used_nonce_never_signs_stmt. Qed.
Print Assumptions used_nonce_never_signs.

(* the nonce/key binding compares the whole point: a keypair whose public key differs from the stored one
   in x OR in y (e.g. the keypair of the negated key) gets no signature, one callback, and the nonce is gone *)
Theorem foreign_key_never_signs : forall P s k sec k1 k2 pk want_sig kp d kpk cache session,
  nth_error (slots s) k = Some sec ->
  secnonce_load P sec = Some (k1, k2, pk) -> keypair_load P kp = Some (d, kpk) -> pk <> kpk ->
  let r := step P s (OSign (Some k) want_sig (Some kp) cache session) in
  o_ret (snd r) = 0 /\ o_ill (snd r) = 1 /\ siglog (fst r) = siglog s /\
  o_sig (snd r) = (if want_sig then Some (zeros 36) else None) /\
  nth_error (slots (fst r)) k = Some (zeros 132).
Proof. exact foreign_key_never_signs_stmt. Qed.
Print Assumptions foreign_key_never_signs.

Theorem negated_key_is_foreign : forall x y y' : Z, y <> y' -> Some (x, y) <> Some (x, y').
Proof. exact negated_key_is_foreign. Qed.
Print Assumptions negated_key_is_foreign.

(* History invariant, by induction over the operation list: the ghost log of (generation event, signature)
   pairs never holds two signatures for the same generation event. *)
Theorem at_most_one_signature : forall P slots0 rands0 ops,
  NoDup (map fst (siglog (fold_left (fun st o => fst (step P st o)) ops (init_state slots0 rands0)))).
Proof. exact at_most_one_signature_fold. Qed.
Print Assumptions at_most_one_signature.

(* ... and the ghost log is faithful to what the steps output *)
Theorem signature_is_logged : forall P s k sec want_sig keypair cache session,
  nth_error (slots s) k = Some sec ->
  let r := step P s (OSign (Some k) want_sig keypair cache session) in
  (o_ret (snd r) = 1 ->
     exists v, siglog (fst r) = (slot_id s k, v) :: siglog s /\ o_sig (snd r) = Some (psig_save v)) /\
  (o_ret (snd r) <> 1 -> siglog (fst r) = siglog s /\ (o_sig (snd r) = None \/ o_sig (snd r) = Some (zeros 36))).
Proof. exact signature_is_logged_stmt. Qed.
Print Assumptions signature_is_logged.

Theorem only_partial_sign_logs : forall P s o,
  match o with OSign _ _ _ _ _ => True | _ => siglog (fst (step P s o)) = siglog s end.
Proof. exact only_sign_logs_stmt. Qed.
Print Assumptions only_partial_sign_logs.

Theorem nonce_gen_contract : forall P s k want_pubnonce ri seckey pubkey msg32 cache extra32,
  (k < length (slots s))%nat ->
  let r := step P s (OGen (Some k) want_pubnonce ri seckey pubkey msg32 cache extra32) in
  (o_ret (snd r) <> 1 -> nth_error (slots (fst r)) k = Some (zeros 132)) /\
  (forall rb, get_rand s ri = Some rb -> is_zero_bytes rb = true ->
        o_ret (snd r) = 0 /\ o_ill (snd r) = 0 /\ nth_error (slots (fst r)) k = Some (zeros 132)) /\
  (o_ret (snd r) = 1 -> forall i, ri = Some i -> nth_error (rands (fst r)) i = Some (zeros 32)) /\
  (o_ret (snd r) = 1 -> exists k1 k2 pk obj, pubkey = Some obj /\ pk_load obj = Some pk /\
        nth_error (slots (fst r)) k = Some (secnonce_save k1 k2 pk) /\ skipn 68 (secnonce_save k1 k2 pk) = pk_obj pk).
Proof. exact nonce_gen_contract_stmt. Qed.
Print Assumptions nonce_gen_contract.

(* the stored public key bytes ARE the supplied object when that object is canonical *)
Theorem stored_pubkey_is_supplied : forall o pk, length o = 64%nat -> bytes_okP o -> pk_load o = Some pk -> pk_obj pk = o.
Proof. exact stored_pubkey_is_supplied_stmt. Qed.
Print Assumptions stored_pubkey_is_supplied.

Theorem nonce_gen_counter_contract : forall P before want_pubnonce cnt keypair msg32 cache extra32,
  let o := nonce_gen_counter_sec P true before want_pubnonce cnt keypair msg32 cache extra32 in
  (ng_r o = false -> ng_sec o = zeros 132) /\
  (ng_r o = true -> exists k1 k2 pk kpb, keypair = Some kpb /\ pk_load (skipn 32 kpb) = Some pk /\
                    seckey_of_b32 P (firstn 32 kpb) <> None /\
                    ng_sec o = secnonce_save k1 k2 pk /\ skipn 68 (ng_sec o) = pk_obj pk).
Proof. exact nonce_gen_counter_contract_stmt. Qed.
Print Assumptions nonce_gen_counter_contract.

(* the premises of foreign_key_never_signs are satisfiable: a nonce bound to G, the keypair of -G (secret n-1) *)
Example foreign_key_premises :
  let sec := magic_secnonce ++ be_enc 32 1 ++ be_enc 32 2 ++ pk_obj (G secp256k1) in
  let kp := be_enc 32 (cn secp256k1 - 1) ++ pk_obj (pneg secp256k1 (G secp256k1)) in
  secnonce_load secp256k1 sec = Some (1, 2, G secp256k1) /\
  keypair_load secp256k1 kp = Some (cn secp256k1 - 1, pneg secp256k1 (G secp256k1)) /\
  G secp256k1 <> pneg secp256k1 (G secp256k1).
Proof. vm_compute. repeat split; discriminate. Qed.
