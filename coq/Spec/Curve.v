(* Affine short-Weierstrass curve y^2 = x^3 + b over F_p, textbook chord-and-tangent law. *)
From Coq Require Import ZArith List Bool.
Require Import Spec.Params Spec.Field.
Local Open Scope Z_scope.

Definition point := option (Z * Z).   (* None = point at infinity *)

Section Curve.
Variable P : Params.
Let p := cp P.

Definition on_curve (Q : point) : bool :=
  match Q with
  | None => true
  | Some (x, y) => (0 <=? x) && (x <? p) && (0 <=? y) && (y <? p) &&
                   ((y * y) mod p =? (x * x * x + cb P) mod p)
  end.

Definition pneg (Q : point) : point :=
  match Q with None => None | Some (x, y) => Some (x, mneg p y) end.

Definition pdbl (Q : point) : point :=
  match Q with
  | None => None
  | Some (x, y) =>
    if y =? 0 then None else
    let l := mmul p (mmul p 3 (mmul p x x)) (minv p (mmul p 2 y)) in
    let x3 := msub p (mmul p l l) (madd p x x) in
    let y3 := msub p (mmul p l (msub p x x3)) y in
    Some (x3, y3)
  end.

Definition padd (Q R : point) : point :=
  match Q, R with
  | None, _ => R
  | _, None => Q
  | Some (x1, y1), Some (x2, y2) =>
    if x1 =? x2 then
      (if y1 =? y2 then pdbl Q else None)
    else
      let l := mmul p (msub p y2 y1) (minv p (msub p x2 x1)) in
      let x3 := msub p (msub p (mmul p l l) x1) x2 in
      let y3 := msub p (mmul p l (msub p x1 x3)) y1 in
      Some (x3, y3)
  end.

Fixpoint pmul_pos (k : positive) (Q : point) : point :=
  match k with
  | xH => Q
  | xO k' => pdbl (pmul_pos k' Q)
  | xI k' => padd Q (pdbl (pmul_pos k' Q))
  end.

(* scalar multiplication by any integer k >= 0 (negative k: by |k| of the negation) *)
Definition pmul (k : Z) (Q : point) : point :=
  match k with
  | Z0 => None
  | Zpos k' => pmul_pos k' Q
  | Zneg k' => pmul_pos k' (pneg Q)
  end.

Definition G : point := Some (cgx P, cgy P).

(* x |-> the point with that x and even (odd = false) / odd y, if x^3+b is a square *)
Definition lift_x (x : Z) (odd : bool) : point :=
  if (x <? 0) || (p <=? x) then None else
  match msqrt p ((x * x * x + cb P) mod p) with
  | None => None
  | Some y => if Bool.eqb (Z.odd y) odd then Some (x, y) else Some (x, mneg p y)
  end.

Definition px (Q : point) : Z := match Q with Some (x, _) => x | None => 0 end.
Definition py (Q : point) : Z := match Q with Some (_, y) => y | None => 0 end.
Definition is_inf (Q : point) : bool := match Q with None => true | _ => false end.
Definition point_eqb (Q R : point) : bool :=
  match Q, R with
  | None, None => true
  | Some (a, b), Some (c, d) => (a =? c) && (b =? d)
  | _, _ => false
  end.

Definition psum (l : list point) : point := fold_left padd l None.
End Curve.
