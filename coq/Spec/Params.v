(* Curve parameters.  Everything in Spec/ and Model/ is parameterised by a [Params] record so that
   the same definitions run on secp256k1, on the repository's EXHAUSTIVE_TEST_ORDER small groups
   and on toy curves used for non-vacuity examples. *)
From Coq Require Import ZArith List.
Local Open Scope Z_scope.

Record Params := mkParams {
  cp : Z;      (* field prime *)
  cb : Z;      (* curve constant: y^2 = x^3 + cb *)
  cn : Z;      (* order of the generator *)
  cgx : Z; cgy : Z   (* generator *)
}.

Definition secp256k1 : Params := {|
  cp := 0xFFFFFFFFFFFFFFFFFFFFFFFFFFFFFFFFFFFFFFFFFFFFFFFFFFFFFFFEFFFFFC2F;
  cb := 7;
  cn := 0xFFFFFFFFFFFFFFFFFFFFFFFFFFFFFFFEBAAEDCE6AF48A03BBFD25E8CD0364141;
  cgx := 0x79BE667EF9DCBBAC55A06295CE870B07029BFCDB2DCE28D959F2815B16F81798;
  cgy := 0x483ADA7726A3C4655DA4FBFC0E1108A8FD17B448A68554199C47D08FFB10D4B8 |}.
