(* SHA-256 (FIPS 180-4) on byte lists, HMAC-SHA-256 (RFC 2104), the RFC 6979 HMAC-DRBG as used by the
   library, and BIP-340 tagged hashes.  Pure specification: no buffering, no streaming. *)
From Coq Require Import ZArith List Bool.
Require Import Spec.Bytes.
Import ListNotations.
Local Open Scope Z_scope.

Definition w32 x := x mod 2^32.
Definition rotr n x := Z.lor (Z.shiftr x n) (w32 (Z.shiftl x (32 - n))).
Definition Ch x y z := Z.lxor z (Z.land x (Z.lxor y z)).
Definition Maj x y z := Z.lor (Z.land x y) (Z.land z (Z.lor x y)).
Definition S0 x := Z.lxor (Z.lxor (rotr 2 x) (rotr 13 x)) (rotr 22 x).
Definition S1 x := Z.lxor (Z.lxor (rotr 6 x) (rotr 11 x)) (rotr 25 x).
Definition s0 x := Z.lxor (Z.lxor (rotr 7 x) (rotr 18 x)) (Z.shiftr x 3).
Definition s1 x := Z.lxor (Z.lxor (rotr 17 x) (rotr 19 x)) (Z.shiftr x 10).
Definition K256 : list Z := [0x428a2f98;0x71374491;0xb5c0fbcf;0xe9b5dba5;0x3956c25b;0x59f111f1;0x923f82a4;0xab1c5ed5;0xd807aa98;0x12835b01;0x243185be;0x550c7dc3;0x72be5d74;0x80deb1fe;0x9bdc06a7;0xc19bf174;0xe49b69c1;0xefbe4786;0x0fc19dc6;0x240ca1cc;0x2de92c6f;0x4a7484aa;0x5cb0a9dc;0x76f988da;0x983e5152;0xa831c66d;0xb00327c8;0xbf597fc7;0xc6e00bf3;0xd5a79147;0x06ca6351;0x14292967;0x27b70a85;0x2e1b2138;0x4d2c6dfc;0x53380d13;0x650a7354;0x766a0abb;0x81c2c92e;0x92722c85;0xa2bfe8a1;0xa81a664b;0xc24b8b70;0xc76c51a3;0xd192e819;0xd6990624;0xf40e3585;0x106aa070;0x19a4c116;0x1e376c08;0x2748774c;0x34b0bcb5;0x391c0cb3;0x4ed8aa4a;0x5b9cca4f;0x682e6ff3;0x748f82ee;0x78a5636f;0x84c87814;0x8cc70208;0x90befffa;0xa4506ceb;0xbef9a3f7;0xc67178f2].

Fixpoint words (bs : list Z) : list Z :=
  match bs with a::b::c::d::r => (a*2^24 + b*2^16 + c*2^8 + d) :: words r | _ => [] end.

(* message schedule: extend 16 words to 64, list kept newest-first *)
Fixpoint sched (n : nat) (rev_w : list Z) : list Z :=
  match n with O => rev_w | S m =>
    match rev_w with
    | w1::w2::_::_::_::_::w7::_::_::_::_::_::_::_::w15::w16::_ =>
        sched m (w32 (s1 w2 + w7 + s0 w15 + w16) :: rev_w)
    | _ => rev_w end end.

Definition sha_state := list Z.  (* 8 words *)

Definition sha_round (s : sha_state) (kw : Z*Z) : sha_state :=
  match s with
  | [a;b;c;d;e;f;g;h] =>
    let '(k,w) := kw in
    let t1 := h + S1 e + Ch e f g + k + w in let t2 := S0 a + Maj a b c in
    [w32 (t1 + t2); a; b; c; w32 (d + t1); e; f; g]
  | _ => s end.

(* compression function: state (8 words), 64-byte block *)
Definition sha_compress (s : sha_state) (block : bytes) : sha_state :=
  let w := rev (sched 48 (rev (words block))) in
  map (fun xy => w32 (fst xy + snd xy)) (combine s (fold_left sha_round (combine K256 w) s)).

Definition sha_iv : sha_state :=
  [0x6a09e667;0xbb67ae85;0x3c6ef372;0xa54ff53a;0x510e527f;0x9b05688c;0x1f83d9ab;0x5be0cd19].

(* absorb all complete 64-byte blocks of bs (fuel = length suffices) *)
Fixpoint sha_blocks (fuel : nat) (s : sha_state) (bs : bytes) : sha_state :=
  match fuel with O => s | S f =>
    if Nat.ltb (length bs) 64 then s
    else sha_blocks f (sha_compress s (firstn 64 bs)) (skipn 64 bs) end.

Definition sha_pad (total_len : Z) : bytes :=
  [0x80] ++ repeat 0 (Z.to_nat ((119 - total_len mod 64) mod 64)) ++ be_enc 8 (total_len * 8).

Definition sha_out (s : sha_state) : bytes := flat_map (be_enc 4) s.

(* hash starting from an arbitrary midstate that has already absorbed [pre_len] bytes
   (pre_len a multiple of 64) *)
Definition sha256_from (s : sha_state) (pre_len : Z) (bs : bytes) : bytes :=
  let m := bs ++ sha_pad (pre_len + Z.of_nat (length bs)) in
  sha_out (sha_blocks (length m) s m).

Definition sha256 (bs : bytes) : bytes := sha256_from sha_iv 0 bs.

(* HMAC *)
Definition hmac_key_block (key : bytes) : bytes :=
  if Nat.leb (length key) 64 then key ++ zeros (64 - length key)
  else let h := sha256 key in h ++ zeros 32.
Definition hmac_sha256 (key msg : bytes) : bytes :=
  let kb := hmac_key_block key in
  let ipad := map (fun x => Z.lxor x 0x36) kb in
  let opad := map (fun x => Z.lxor x 0x5c) kb in
  sha256 (opad ++ sha256 (ipad ++ msg)).

(* RFC 6979 section 3.2 HMAC-DRBG as instantiated by secp256k1_rfc6979_hmac_sha256_*:
   initialize with seed material, then every generate call yields 32 bytes;
   between successive generate calls the state is re-keyed (retry step h.3). *)
Definition drbg := (bytes * bytes * bool)%type.   (* V, K, retry *)
Definition drbg_init (seed : bytes) : drbg :=
  let v := repeat 1 32 in let k := zeros 32 in
  let k := hmac_sha256 k (v ++ [0] ++ seed) in
  let v := hmac_sha256 k v in
  let k := hmac_sha256 k (v ++ [1] ++ seed) in
  let v := hmac_sha256 k v in
  (v, k, false).
Definition drbg_gen32 (d : drbg) : bytes * drbg :=
  let '(v, k, retry) := d in
  let '(v, k) := if retry then
                   let k' := hmac_sha256 k (v ++ [0]) in (hmac_sha256 k' v, k')
                 else (v, k) in
  let v := hmac_sha256 k v in
  (v, (v, k, true)).
(* n-th 32-byte output (n = 0 is the first) *)
Fixpoint drbg_nth (n : nat) (d : drbg) : bytes :=
  match n with O => fst (drbg_gen32 d) | S m => drbg_nth m (snd (drbg_gen32 d)) end.

(* BIP-340 tagged hash *)
Definition tagged_hash (tag msg : bytes) : bytes :=
  let th := sha256 tag in sha256 (th ++ th ++ msg).
Definition tagged_midstate (tag : bytes) : sha_state :=
  let th := sha256 tag in sha_compress sha_iv (th ++ th).

Definition ascii (s : list Z) : bytes := s.
