(* BIP-327 (MuSig2), transcribed from the "Algorithms" section of the BIP.  Conventions of this
   transcription (the only liberties taken):
   - individual public keys are handled as curve POINTS P_i (the BIP's cpoint(pk_i) has already been applied);
     everything that the BIP hashes uses cbytes(P_i) = the 33-byte plain public key, as in the BIP;
   - the sign factors g, gacc are kept as residues mod n exactly as in the BIP (1 or n-1); "g . Q" for
     g in {1, n-1} is written [gmul g Q] = Q or -Q (the BIP's scalar multiplication by -1 mod n);
   - "fail" is [None].
   No proofs in this file. *)
From Coq Require Import ZArith List Bool.
Require Import Spec.Params Spec.Field Spec.Curve Spec.Bytes Spec.Sha256.
Import ListNotations.
Local Open Scope Z_scope.

Definition bip_tag_keyagg_list : bytes := [75;101;121;65;103;103;32;108;105;115;116].
Definition bip_tag_keyagg_coef : bytes := [75;101;121;65;103;103;32;99;111;101;102;102;105;99;105;101;110;116].
Definition bip_tag_aux : bytes := [77;117;83;105;103;47;97;117;120].
Definition bip_tag_nonce : bytes := [77;117;83;105;103;47;110;111;110;99;101].
Definition bip_tag_noncecoef : bytes := [77;117;83;105;103;47;110;111;110;99;101;99;111;101;102].
Definition bip_tag_challenge : bytes := [66;73;80;48;51;52;48;47;99;104;97;108;108;101;110;103;101].

(* bytes(k, x): k-byte big-endian encoding *)
Definition bytes_k (k : nat) (x : Z) : bytes := be_enc k x.
Definition int_of (b : bytes) : Z := be_val b.
Definition blen (b : bytes) : Z := Z.of_nat (length b).

Section Bip327.
Variable P : Params.
Let n := cn P.
Notation G := (Curve.G P).
Notation pmul := (Curve.pmul P).
Notation padd := (Curve.padd P).
Notation pneg := (Curve.pneg P).

Definition has_even_y (Q : point) : bool := negb (Z.odd (py Q)).
Definition xbytes (Q : point) : bytes := bytes_k 32 (px Q).
Definition cbytes (Q : point) : bytes := (if has_even_y Q then 2 else 3) :: xbytes Q.
Definition cbytes_ext (Q : point) : bytes := match Q with None => zeros 33 | _ => cbytes Q end.
Definition gmul (g : Z) (Q : point) : point := if g =? 1 then Q else pneg Q.

(* ---- Key aggregation *)
Definition hash_keys (pks : list bytes) : bytes := tagged_hash bip_tag_keyagg_list (concat pks).

(* GetSecondKey(pk_1..u): the first key different from pk_1, or bytes(33, 0) *)
Fixpoint get_second_key_from (pk1 : bytes) (pks : list bytes) : bytes :=
  match pks with
  | [] => zeros 33
  | pk :: r => if negb (bytes_eqb pk pk1) then pk else get_second_key_from pk1 r
  end.
Definition get_second_key (pks : list bytes) : bytes :=
  match pks with [] => zeros 33 | pk1 :: _ => get_second_key_from pk1 pks end.

(* KeyAggCoeffInternal(pk_1..u, pk', pk2) *)
Definition key_agg_coeff_internal (pks : list bytes) (pk' pk2 : bytes) : Z :=
  let L := hash_keys pks in
  if bytes_eqb pk' pk2 then 1
  else int_of (tagged_hash bip_tag_keyagg_coef (L ++ pk')) mod n.

Record keyagg_ctx := mkCtx { ctx_Q : point; ctx_gacc : Z; ctx_tacc : Z }.

(* KeyAgg(pk_1..u) with P_i = cpoint(pk_i) given *)
Definition key_agg (pts : list point) : option keyagg_ctx :=
  let pks := map cbytes pts in
  let pk2 := get_second_key pks in
  let Q := fold_left padd (map (fun Pi => pmul (key_agg_coeff_internal pks (cbytes Pi) pk2) Pi) pts) None in
  match Q with
  | None => None
  | _ => Some (mkCtx Q 1 0)
  end.

(* ApplyTweak(keyagg_ctx, tweak, is_xonly_t) *)
Definition apply_tweak (ctx : keyagg_ctx) (tweak : bytes) (is_xonly_t : bool) : option keyagg_ctx :=
  let g := if is_xonly_t && negb (has_even_y (ctx_Q ctx)) then (-1) mod n else 1 in
  let t := int_of tweak in
  if n <=? t then None else
  match padd (gmul g (ctx_Q ctx)) (pmul t G) with
  | None => None
  | Q' => Some (mkCtx Q' ((g * ctx_gacc ctx) mod n) ((t + g * ctx_tacc ctx) mod n))
  end.

Fixpoint apply_tweaks (ctx : keyagg_ctx) (tw : list (bytes * bool)) : option keyagg_ctx :=
  match tw with
  | [] => Some ctx
  | (t, x) :: r => match apply_tweak ctx t x with Some c => apply_tweaks c r | None => None end
  end.

(* ---- Nonce generation: the scalars k_1, k_2 (i = 1, 2) of NonceGen *)
Definition opt_len_prefixed (k : nat) (o : option bytes) : bytes :=
  match o with Some b => bytes_k k (blen b) ++ b | None => bytes_k k 0 end.
Definition nonce_gen_k (rand' : bytes) (sk : option bytes) (pk : bytes) (aggpk m extra_in : option bytes) (i : Z) : Z :=
  let rand := match sk with Some s => xor_bytes s (tagged_hash bip_tag_aux rand') | None => rand' end in
  let msg_prefixed := match m with None => bytes_k 1 0 | Some mm => bytes_k 1 1 ++ bytes_k 8 (blen mm) ++ mm end in
  int_of (tagged_hash bip_tag_nonce
            (rand ++ bytes_k 1 (blen pk) ++ pk ++ opt_len_prefixed 1 aggpk ++ msg_prefixed
                  ++ opt_len_prefixed 4 extra_in ++ bytes_k 1 (i - 1))) mod n.

(* ---- Nonce aggregation: R_j = sum_i R_{i,j}; aggnonce = cbytes_ext(R_1) || cbytes_ext(R_2) *)
Definition nonce_agg (pubnonces : list (point * point)) : point * point :=
  (fold_left padd (map fst pubnonces) None, fold_left padd (map snd pubnonces) None).
Definition aggnonce_bytes (R : point * point) : bytes := cbytes_ext (fst R) ++ cbytes_ext (snd R).

(* ---- Session values (GetSessionValues): b, R, e for an aggregate nonce (R1, R2), key Q, message m *)
Definition session_b (R1 R2 Q : point) (m : bytes) : Z :=
  int_of (tagged_hash bip_tag_noncecoef (aggnonce_bytes (R1, R2) ++ xbytes Q ++ m)) mod n.
Definition session_R (R1 R2 Q : point) (m : bytes) : point :=
  match padd R1 (pmul (session_b R1 R2 Q m) R2) with None => G | R' => R' end.
Definition session_e (R1 R2 Q : point) (m : bytes) : Z :=
  int_of (tagged_hash bip_tag_challenge (xbytes (session_R R1 R2 Q m) ++ xbytes Q ++ m)) mod n.

(* ---- Sign: the partial signature scalar, given the secret nonce scalars k1', k2', secret key d',
        the signer's coefficient a, and the session values *)
Definition sign_s (ctx : keyagg_ctx) (R : point) (b e a k1' k2' d' : Z) : Z :=
  let k1 := if has_even_y R then k1' else n - k1' in
  let k2 := if has_even_y R then k2' else n - k2' in
  let g := if has_even_y (ctx_Q ctx) then 1 else n - 1 in
  let d := (g * ctx_gacc ctx * d') mod n in
  (k1 + b * k2 + e * a * d) mod n.

(* ---- PartialSigVerifyInternal: s . G = Re* + (e . a . g') . P *)
Definition partial_sig_verify_eq (ctx : keyagg_ctx) (R : point) (b e a s : Z) (R1s R2s Pk : point) : bool :=
  let Re' := padd R1s (pmul b R2s) in
  let Re := if has_even_y R then Re' else pneg Re' in
  let g := if has_even_y (ctx_Q ctx) then 1 else n - 1 in
  let g' := (g * ctx_gacc ctx) mod n in
  point_eqb (pmul s G) (padd Re (pmul ((e * a * g') mod n) Pk)).

(* ---- PartialSigAgg *)
Definition partial_sig_agg (ctx : keyagg_ctx) (R : point) (e : Z) (ss : list Z) : bytes :=
  let g := if has_even_y (ctx_Q ctx) then 1 else n - 1 in
  let s := (fold_left Z.add ss 0 + e * g * ctx_tacc ctx) mod n in
  xbytes R ++ bytes_k 32 s.
End Bip327.
