(* Byte strings are [list Z] with every element in [0,256). *)
From Coq Require Import ZArith List Bool.
Import ListNotations.
Local Open Scope Z_scope.

Definition bytes := list Z.

(* big-endian value of a byte string *)
Definition be_val (bs : bytes) : Z := fold_left (fun acc b => acc * 256 + b) bs 0.

(* big-endian encoding of x mod 256^len on len bytes *)
Fixpoint be_enc (len : nat) (x : Z) : bytes :=
  match len with
  | O => []
  | S l => be_enc l (x / 256) ++ [x mod 256]
  end.

Definition le_val (bs : bytes) : Z := be_val (rev bs).
Definition le_enc (len : nat) (x : Z) : bytes := rev (be_enc len x).

Definition zeros (len : nat) : bytes := repeat 0 len.

Fixpoint bytes_eqb (a b : bytes) : bool :=
  match a, b with
  | [], [] => true
  | x :: a', y :: b' => (x =? y) && bytes_eqb a' b'
  | _, _ => false
  end.

Definition is_zero_bytes (a : bytes) : bool := forallb (fun x => x =? 0) a.

Definition slice (off len : nat) (bs : bytes) : bytes := firstn len (skipn off bs).

Definition xor_bytes (a b : bytes) : bytes := map (fun ab => Z.lxor (fst ab) (snd ab)) (combine a b).

(* lexicographic comparison, memcmp-style: -1, 0, 1 (on equal-length inputs) *)
Fixpoint bytes_cmp (a b : bytes) : Z :=
  match a, b with
  | x :: a', y :: b' => if x <? y then -1 else if y <? x then 1 else bytes_cmp a' b'
  | [], [] => 0
  | [], _ => -1
  | _, [] => 1
  end.

Definition bytes_ok (bs : bytes) : bool := forallb (fun x => (0 <=? x) && (x <? 256)) bs.
