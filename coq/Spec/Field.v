(* Arithmetic modulo a prime [m] on Z.  Used with m = p (field) and m = n (scalars). *)
From Coq Require Import ZArith List Bool.
Local Open Scope Z_scope.

Definition madd (m a b : Z) := (a + b) mod m.
Definition msub (m a b : Z) := (a - b) mod m.
Definition mmul (m a b : Z) := (a * b) mod m.
Definition mneg (m a : Z) := (- a) mod m.

Fixpoint mpow_pos (m a : Z) (e : positive) : Z :=
  match e with
  | xH => a mod m
  | xO e' => let r := mpow_pos m a e' in (r * r) mod m
  | xI e' => let r := mpow_pos m a e' in ((r * r) mod m * a) mod m
  end.
Definition mpow (m a e : Z) : Z :=
  match e with Zpos e' => mpow_pos m a e' | Z0 => 1 mod m | Zneg _ => 0 end.

(* inverse by Fermat: correct when m is prime; 0 maps to 0 as in the C code *)
Definition minv (m a : Z) := mpow m a (m - 2).

(* square root for m = 3 mod 4: candidate a^((m+1)/4); Some r iff r^2 = a *)
Definition msqrt (m a : Z) : option Z :=
  let r := mpow m a ((m + 1) / 4) in
  if (r * r) mod m =? a mod m then Some r else None.
Definition mis_square (m a : Z) : bool :=
  match msqrt m a with Some _ => true | None => false end.
