(* BIP-340 verification and default signing, transcribed from the BIP's pseudo-code. *)
From Coq Require Import ZArith List Bool.
Require Import Spec.Params Spec.Field Spec.Curve Spec.Bytes Spec.Sha256.
Import ListNotations.
Local Open Scope Z_scope.

Definition tag_challenge : bytes := [66;73;80;48;51;52;48;47;99;104;97;108;108;101;110;103;101]. (* "BIP0340/challenge" *)
Definition tag_aux : bytes := [66;73;80;48;51;52;48;47;97;117;120].                               (* "BIP0340/aux" *)
Definition tag_nonce : bytes := [66;73;80;48;51;52;48;47;110;111;110;99;101].                     (* "BIP0340/nonce" *)

Section Bip340.
Variable P : Params.
Notation p := (cp P).
Notation n := (cn P).

(* Verify(pk, m, sig) *)
Definition bip340_verify (pk32 msg sig64 : bytes) : bool :=
  match lift_x P (be_val pk32) false with
  | None => false
  | Pt =>
    let r := be_val (firstn 32 sig64) in
    let s := be_val (skipn 32 sig64) in
    if p <=? r then false else
    if n <=? s then false else
    let e := be_val (tagged_hash tag_challenge (be_enc 32 r ++ be_enc 32 (px Pt) ++ msg)) mod n in
    match padd P (pmul P s (G P)) (pneg P (pmul P e Pt)) with
    | None => false
    | Some (x, y) => Z.even y && (x =? r)
    end
  end.

(* Sign(sk, m) with auxiliary random data a (default signing); None = failure *)
Definition bip340_sign (sk32 msg aux32 : bytes) : option bytes :=
  let d' := be_val sk32 in
  if (d' =? 0) || (n <=? d') then None else
  match pmul P d' (G P) with
  | None => None
  | Some (xP, yP) =>
    let d := if Z.even yP then d' else n - d' in
    let t := xor_bytes (be_enc 32 d) (tagged_hash tag_aux aux32) in
    let rand := tagged_hash tag_nonce (t ++ be_enc 32 xP ++ msg) in
    let k' := be_val rand mod n in
    if k' =? 0 then None else
    match pmul P k' (G P) with
    | None => None
    | Some (xR, yR) =>
      let k := if Z.even yR then k' else n - k' in
      let e := be_val (tagged_hash tag_challenge (be_enc 32 xR ++ be_enc 32 xP ++ msg)) mod n in
      Some (be_enc 32 xR ++ be_enc 32 ((k + e * d) mod n))
    end
  end.
End Bip340.
