(* Fast runner: Z/N/positive mapped to zarith big integers. *)
Require Extraction.
Require Import ExtrOcamlBasic ExtrOcamlString ExtrOcamlZBigInt.
From Coq Require Import ZArith.
Extract Constant Z.land => "Big_int_Z.and_big_int".
Extract Constant Z.lor => "Big_int_Z.or_big_int".
Extract Constant Z.lxor => "Big_int_Z.xor_big_int".
