From Coq Require Import ZArith.
Theorem placeholder_C05 : 0 = 0. Proof. reflexivity. Qed.
Print Assumptions placeholder_C05.
