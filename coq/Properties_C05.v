(* C05 - Arithmetic and hashing kernel is mathematically exact on every configuration.
   The theorems below are about Gallina REGENERATED from /repo's C source on every run (tools/c2coq.py ->
   coq/Gen/*.v); proofs in Kernel/Field5x52.v, Kernel/Field5x52Sqr.v, Kernel/CtPrimitives.v.
   For ALL limb values inside the magnitude contract: no 128-bit accumulator wraps, output limbs are in
   range, and the value is the product (square) modulo p.  The rest of the kernel (group law, scalar
   multiplication algorithms, modular inverse, the 10x26 / 8x32 / struct-int128 / asm configurations,
   SHA-256/HMAC/RFC 6979) is tied by the differential correspondence of ./check C05 on a build matrix. *)
From Coq Require Import ZArith List Bool.
Require Import Kernel.CSem Kernel.Field5x52 Kernel.Field5x52Sqr Kernel.CtPrimitives Kernel.FieldNormalize Kernel.Scalar4x64 Kernel.ScalarMul512 Kernel.ScalarSqr512 Kernel.ScalarReduce512 Kernel.Scalar8x32Check Kernel.Scalar8x32Mul512 Kernel.Scalar8x32Reduce512 Kernel.Scalar8x32Mul Kernel.FieldPrims Kernel.ScalarMul4x64 Kernel.ScalarMul Kernel.ScalarAdd Kernel.FieldNormalize2 Kernel.MorePrims Kernel.FieldSetB32 Kernel.Field10x26.
Require Import Gen.fe_mul_inner Gen.fe_sqr_inner Gen.scalar_cmov Gen.fe_impl_cmov Gen.fe_impl_normalize Gen.scalar_check_overflow Gen.scalar_is_high Gen.scalar_mul_512 Gen.scalar_sqr_512 Gen.scalar_reduce_512 Gen.scalar8x32_mul_512 Gen.scalar8x32_sqr_512 Gen.scalar8x32_check_overflow Gen.scalar8x32_reduce_512 Gen.scalar8x32_mul Gen.scalar8x32_sqr Gen.scalar_mul_512b Gen.scalar_sqr_512b Gen.scalar_mul Gen.scalar_sqr Gen.scalar_add Gen.scalar_half Gen.fe_impl_normalize_weak Gen.fe_impl_normalizes_to_zero Gen.fe_impl_mul_int_unchecked Gen.fe_impl_to_storage Gen.fe_impl_from_storage Gen.scalar_cond_negate Gen.fe_impl_set_b32_limit Gen.fe10x26_mul_inner Gen.fe10x26_sqr_inner Gen.fe_impl_add Gen.fe_impl_negate_unchecked Gen.fe_impl_half Gen.scalar_negate.
Import ListNotations.
Local Open Scope Z_scope.

Theorem fe_mul_inner_correct : forall a0 a1 a2 a3 a4 b0 b1 b2 b3 b4,
  0 <= a0 < 2^56 -> 0 <= a1 < 2^56 -> 0 <= a2 < 2^56 -> 0 <= a3 < 2^56 -> 0 <= a4 < 2^52 ->
  0 <= b0 < 2^56 -> 0 <= b1 < 2^56 -> 0 <= b2 < 2^56 -> 0 <= b3 < 2^56 -> 0 <= b4 < 2^52 ->
  fe_mul_inner_k a0 a1 a2 a3 a4 b0 b1 b2 b3 b4 (fun r0 r1 r2 r3 r4 =>
  (0 <= r0 < 2^52 /\ 0 <= r1 < 2^52 /\ 0 <= r2 < 2^52 /\ 0 <= r3 < 2^52 /\ 0 <= r4 < 2^49) /\
  (val5 r0 r1 r2 r3 r4 - val5 a0 a1 a2 a3 a4 * val5 b0 b1 b2 b3 b4) mod P256 = 0).
Proof. exact Kernel.Field5x52.fe_mul_inner_correct. Qed.
Print Assumptions fe_mul_inner_correct.

Theorem fe_sqr_inner_correct : forall a0 a1 a2 a3 a4,
  0 <= a0 < 2^56 -> 0 <= a1 < 2^56 -> 0 <= a2 < 2^56 -> 0 <= a3 < 2^56 -> 0 <= a4 < 2^52 ->
  fe_sqr_inner_k a0 a1 a2 a3 a4 (fun r0 r1 r2 r3 r4 =>
  (0 <= r0 < 2^52 /\ 0 <= r1 < 2^52 /\ 0 <= r2 < 2^52 /\ 0 <= r3 < 2^52 /\ 0 <= r4 < 2^49) /\
  (val5 r0 r1 r2 r3 r4 - val5 a0 a1 a2 a3 a4 * val5 a0 a1 a2 a3 a4) mod P256 = 0).
Proof. exact Kernel.Field5x52Sqr.fe_sqr_inner_correct. Qed.
Print Assumptions fe_sqr_inner_correct.

(* Normalisation returns the canonical representative for every limb vector of magnitude up to 32:
   limbs in range (so value < 2^256) and value = input value mod p, in particular 0 <= value < p. *)
Theorem fe_normalize_correct : forall r0 r1 r2 r3 r4,
  0 <= r0 < 2^58 -> 0 <= r1 < 2^58 -> 0 <= r2 < 2^58 -> 0 <= r3 < 2^58 -> 0 <= r4 < 2^54 ->
  fe_impl_normalize_k r0 r1 r2 r3 r4 (fun t0 t1 t2 t3 t4 =>
    0 <= t0 < 2^52 /\ 0 <= t1 < 2^52 /\ 0 <= t2 < 2^52 /\ 0 <= t3 < 2^52 /\ 0 <= t4 < 2^48 /\
    val5 t0 t1 t2 t3 t4 = (val5 r0 r1 r2 r3 r4) mod P256).
Proof. exact Kernel.FieldNormalize.fe_normalize_correct. Qed.
Print Assumptions fe_normalize_correct.

(* The branch-free range tests of scalars decide exactly value >= n and value > n/2. *)
Theorem scalar_check_overflow_correct : forall d0 d1 d2 d3,
  0 <= d0 < 2^64 -> 0 <= d1 < 2^64 -> 0 <= d2 < 2^64 -> 0 <= d3 < 2^64 ->
  scalar_check_overflow d0 d1 d2 d3 = if N256 <=? val4 d0 d1 d2 d3 then 1 else 0.
Proof. exact Kernel.Scalar4x64.scalar_check_overflow_correct. Qed.
Print Assumptions scalar_check_overflow_correct.
Theorem scalar_is_high_correct : forall d0 d1 d2 d3,
  0 <= d0 < 2^64 -> 0 <= d1 < 2^64 -> 0 <= d2 < 2^64 -> 0 <= d3 < 2^64 ->
  scalar_is_high d0 d1 d2 d3 = if N256 / 2 <? val4 d0 d1 d2 d3 then 1 else 0.
Proof. exact Kernel.Scalar4x64.scalar_is_high_correct. Qed.
Print Assumptions scalar_is_high_correct.
(* Schoolbook 256x256 -> 512 bit multiplication and squaring of scalars (the muladd / muladd2 / sumadd / extract
   macro chains with their 64-bit carry tests): for ALL limb values the eight output limbs are in range and
   their value is the exact integer product.  No carry is ever dropped. *)
Theorem scalar_mul_512_correct : forall a0 a1 a2 a3 b0 b1 b2 b3,
  0 <= a0 < 2^64 -> 0 <= a1 < 2^64 -> 0 <= a2 < 2^64 -> 0 <= a3 < 2^64 ->
  0 <= b0 < 2^64 -> 0 <= b1 < 2^64 -> 0 <= b2 < 2^64 -> 0 <= b3 < 2^64 ->
  scalar_mul_512_k a0 a1 a2 a3 b0 b1 b2 b3 (fun l0 l1 l2 l3 l4 l5 l6 l7 =>
    (0 <= l0 < 2^64 /\ 0 <= l1 < 2^64 /\ 0 <= l2 < 2^64 /\ 0 <= l3 < 2^64 /\ 0 <= l4 < 2^64 /\ 0 <= l5 < 2^64 /\ 0 <= l6 < 2^64 /\ 0 <= l7 < 2^64) /\
    val8 l0 l1 l2 l3 l4 l5 l6 l7 = val4 a0 a1 a2 a3 * val4 b0 b1 b2 b3).
Proof. exact Kernel.ScalarMul512.scalar_mul_512_correct. Qed.
Print Assumptions scalar_mul_512_correct.
Theorem scalar_sqr_512_correct : forall a0 a1 a2 a3,
  0 <= a0 < 2^64 -> 0 <= a1 < 2^64 -> 0 <= a2 < 2^64 -> 0 <= a3 < 2^64 ->
  scalar_sqr_512_k a0 a1 a2 a3 (fun l0 l1 l2 l3 l4 l5 l6 l7 =>
    (0 <= l0 < 2^64 /\ 0 <= l1 < 2^64 /\ 0 <= l2 < 2^64 /\ 0 <= l3 < 2^64 /\ 0 <= l4 < 2^64 /\ 0 <= l5 < 2^64 /\ 0 <= l6 < 2^64 /\ 0 <= l7 < 2^64) /\
    val8 l0 l1 l2 l3 l4 l5 l6 l7 = val4 a0 a1 a2 a3 * val4 a0 a1 a2 a3).
Proof. exact Kernel.ScalarSqr512.scalar_sqr_512_correct. Qed.
Print Assumptions scalar_sqr_512_correct.
(* Reduction of a 512-bit value modulo the group order n (three folding stages with 2^256 = n + N_C, then the
   final conditional subtraction, secp256k1_scalar_reduce translated in place): for ALL limbs the result is the
   canonical residue. Together with scalar_mul_512_correct: scalar multiplication is exact modulo n. *)
Theorem scalar_reduce_512_correct : forall l0 l1 l2 l3 l4 l5 l6 l7,
  0 <= l0 < 2^64 -> 0 <= l1 < 2^64 -> 0 <= l2 < 2^64 -> 0 <= l3 < 2^64 ->
  0 <= l4 < 2^64 -> 0 <= l5 < 2^64 -> 0 <= l6 < 2^64 -> 0 <= l7 < 2^64 ->
  scalar_reduce_512_k l0 l1 l2 l3 l4 l5 l6 l7 (fun r0 r1 r2 r3 =>
    (0 <= r0 < 2^64 /\ 0 <= r1 < 2^64 /\ 0 <= r2 < 2^64 /\ 0 <= r3 < 2^64) /\
    val4 r0 r1 r2 r3 = val8 l0 l1 l2 l3 l4 l5 l6 l7 mod N256).
Proof. exact Kernel.ScalarReduce512.scalar_reduce_512_correct. Qed.
Print Assumptions scalar_reduce_512_correct.
(* The same three functions in the 32-bit-limb implementation (src/scalar_8x32_impl.h, the code compiled on 32-bit targets
   and with USE_FORCE_WIDEMUL_INT64; translated with that macro): exact 512-bit product and square of eight 32-bit limbs,
   exact range test, canonical reduction modulo n - for ALL limb values. *)
Theorem scalar8x32_mul_512_correct : forall a0 a1 a2 a3 a4 a5 a6 a7 b0 b1 b2 b3 b4 b5 b6 b7,
  0 <= a0 < 2^32 -> 0 <= a1 < 2^32 -> 0 <= a2 < 2^32 -> 0 <= a3 < 2^32 -> 0 <= a4 < 2^32 -> 0 <= a5 < 2^32 -> 0 <= a6 < 2^32 -> 0 <= a7 < 2^32 -> 0 <= b0 < 2^32 -> 0 <= b1 < 2^32 -> 0 <= b2 < 2^32 -> 0 <= b3 < 2^32 -> 0 <= b4 < 2^32 -> 0 <= b5 < 2^32 -> 0 <= b6 < 2^32 -> 0 <= b7 < 2^32 ->
  scalar8x32_mul_512_k a0 a1 a2 a3 a4 a5 a6 a7 b0 b1 b2 b3 b4 b5 b6 b7 (fun l0 l1 l2 l3 l4 l5 l6 l7 l8 l9 l10 l11 l12 l13 l14 l15 =>
    (0 <= l0 < 2^32 /\ 0 <= l1 < 2^32 /\ 0 <= l2 < 2^32 /\ 0 <= l3 < 2^32 /\ 0 <= l4 < 2^32 /\ 0 <= l5 < 2^32 /\ 0 <= l6 < 2^32 /\ 0 <= l7 < 2^32 /\ 0 <= l8 < 2^32 /\ 0 <= l9 < 2^32 /\ 0 <= l10 < 2^32 /\ 0 <= l11 < 2^32 /\ 0 <= l12 < 2^32 /\ 0 <= l13 < 2^32 /\ 0 <= l14 < 2^32 /\ 0 <= l15 < 2^32) /\
    val16w l0 l1 l2 l3 l4 l5 l6 l7 l8 l9 l10 l11 l12 l13 l14 l15 = val8w a0 a1 a2 a3 a4 a5 a6 a7 * val8w b0 b1 b2 b3 b4 b5 b6 b7).
Proof. exact Kernel.Scalar8x32Mul512.scalar8x32_mul_512_correct. Qed.
Print Assumptions scalar8x32_mul_512_correct.
Theorem scalar8x32_sqr_512_correct : forall a0 a1 a2 a3 a4 a5 a6 a7,
  0 <= a0 < 2^32 -> 0 <= a1 < 2^32 -> 0 <= a2 < 2^32 -> 0 <= a3 < 2^32 -> 0 <= a4 < 2^32 -> 0 <= a5 < 2^32 -> 0 <= a6 < 2^32 -> 0 <= a7 < 2^32 ->
  scalar8x32_sqr_512_k a0 a1 a2 a3 a4 a5 a6 a7 (fun l0 l1 l2 l3 l4 l5 l6 l7 l8 l9 l10 l11 l12 l13 l14 l15 =>
    (0 <= l0 < 2^32 /\ 0 <= l1 < 2^32 /\ 0 <= l2 < 2^32 /\ 0 <= l3 < 2^32 /\ 0 <= l4 < 2^32 /\ 0 <= l5 < 2^32 /\ 0 <= l6 < 2^32 /\ 0 <= l7 < 2^32 /\ 0 <= l8 < 2^32 /\ 0 <= l9 < 2^32 /\ 0 <= l10 < 2^32 /\ 0 <= l11 < 2^32 /\ 0 <= l12 < 2^32 /\ 0 <= l13 < 2^32 /\ 0 <= l14 < 2^32 /\ 0 <= l15 < 2^32) /\
    val16w l0 l1 l2 l3 l4 l5 l6 l7 l8 l9 l10 l11 l12 l13 l14 l15 = val8w a0 a1 a2 a3 a4 a5 a6 a7 * val8w a0 a1 a2 a3 a4 a5 a6 a7).
Proof. exact Kernel.Scalar8x32Mul512.scalar8x32_sqr_512_correct. Qed.
Print Assumptions scalar8x32_sqr_512_correct.
Theorem scalar8x32_check_overflow_correct : forall d0 d1 d2 d3 d4 d5 d6 d7,
  0 <= d0 < 2^32 -> 0 <= d1 < 2^32 -> 0 <= d2 < 2^32 -> 0 <= d3 < 2^32 -> 0 <= d4 < 2^32 -> 0 <= d5 < 2^32 -> 0 <= d6 < 2^32 -> 0 <= d7 < 2^32 ->
  scalar8x32_check_overflow d0 d1 d2 d3 d4 d5 d6 d7 = if N256 <=? val8w d0 d1 d2 d3 d4 d5 d6 d7 then 1 else 0.
Proof. exact Kernel.Scalar8x32Check.scalar8x32_check_overflow_correct. Qed.
Print Assumptions scalar8x32_check_overflow_correct.
Theorem scalar8x32_reduce_512_correct : forall l0 l1 l2 l3 l4 l5 l6 l7 l8 l9 l10 l11 l12 l13 l14 l15,
  0 <= l0 < 2^32 -> 0 <= l1 < 2^32 -> 0 <= l2 < 2^32 -> 0 <= l3 < 2^32 -> 0 <= l4 < 2^32 -> 0 <= l5 < 2^32 -> 0 <= l6 < 2^32 -> 0 <= l7 < 2^32 -> 0 <= l8 < 2^32 -> 0 <= l9 < 2^32 -> 0 <= l10 < 2^32 -> 0 <= l11 < 2^32 -> 0 <= l12 < 2^32 -> 0 <= l13 < 2^32 -> 0 <= l14 < 2^32 -> 0 <= l15 < 2^32 ->
  scalar8x32_reduce_512_k l0 l1 l2 l3 l4 l5 l6 l7 l8 l9 l10 l11 l12 l13 l14 l15 (fun r0 r1 r2 r3 r4 r5 r6 r7 =>
    (0 <= r0 < 2^32 /\ 0 <= r1 < 2^32 /\ 0 <= r2 < 2^32 /\ 0 <= r3 < 2^32 /\ 0 <= r4 < 2^32 /\ 0 <= r5 < 2^32 /\ 0 <= r6 < 2^32 /\ 0 <= r7 < 2^32) /\
    val8w r0 r1 r2 r3 r4 r5 r6 r7 = val16w l0 l1 l2 l3 l4 l5 l6 l7 l8 l9 l10 l11 l12 l13 l14 l15 mod N256).
Proof. exact Kernel.Scalar8x32Reduce512.scalar8x32_reduce_512_correct. Qed.
Print Assumptions scalar8x32_reduce_512_correct.
(* The default (4x64) configuration: secp256k1_scalar_mul and secp256k1_scalar_sqr translated as calls to the generated mul_512 /
   sqr_512 / reduce_512 and proved by composition: a*b mod n, canonical, for ALL limbs. *)
Theorem scalar_mul_correct : forall a0 a1 a2 a3 b0 b1 b2 b3,
  0 <= a0 < 2^64 -> 0 <= a1 < 2^64 -> 0 <= a2 < 2^64 -> 0 <= a3 < 2^64 ->
  0 <= b0 < 2^64 -> 0 <= b1 < 2^64 -> 0 <= b2 < 2^64 -> 0 <= b3 < 2^64 ->
  forall Q : Z -> Z -> Z -> Z -> Prop,
  (forall r0 r1 r2 r3, (0 <= r0 < 2^64 /\ 0 <= r1 < 2^64 /\ 0 <= r2 < 2^64 /\ 0 <= r3 < 2^64) /\
     val4 r0 r1 r2 r3 = (val4 a0 a1 a2 a3 * val4 b0 b1 b2 b3) mod N256 -> Q r0 r1 r2 r3) ->
  scalar_mul_k a0 a1 a2 a3 b0 b1 b2 b3 Q.
Proof. exact Kernel.ScalarMul.scalar_mul_correct. Qed.
Print Assumptions scalar_mul_correct.
Theorem scalar_sqr_correct : forall a0 a1 a2 a3,
  0 <= a0 < 2^64 -> 0 <= a1 < 2^64 -> 0 <= a2 < 2^64 -> 0 <= a3 < 2^64 ->
  forall Q : Z -> Z -> Z -> Z -> Prop,
  (forall r0 r1 r2 r3, (0 <= r0 < 2^64 /\ 0 <= r1 < 2^64 /\ 0 <= r2 < 2^64 /\ 0 <= r3 < 2^64) /\
     val4 r0 r1 r2 r3 = (val4 a0 a1 a2 a3 * val4 a0 a1 a2 a3) mod N256 -> Q r0 r1 r2 r3) ->
  scalar_sqr_k a0 a1 a2 a3 Q.
Proof. exact Kernel.ScalarMul.scalar_sqr_correct. Qed.
Print Assumptions scalar_sqr_correct.
(* The callers secp256k1_scalar_mul / secp256k1_scalar_sqr of the 32-bit-limb code, translated as CALLS (continuation-passing) to the
   three functions above and proved by composing their theorems (weakest-precondition form: for every continuation Q that holds of all
   canonical residues of the product, the generated code run with Q holds): the result is a*b mod n, canonical, for ALL limbs. *)
Theorem scalar8x32_mul_correct : forall a0 a1 a2 a3 a4 a5 a6 a7 b0 b1 b2 b3 b4 b5 b6 b7,
  0 <= a0 < 2^32 -> 0 <= a1 < 2^32 -> 0 <= a2 < 2^32 -> 0 <= a3 < 2^32 -> 0 <= a4 < 2^32 -> 0 <= a5 < 2^32 -> 0 <= a6 < 2^32 -> 0 <= a7 < 2^32 -> 0 <= b0 < 2^32 -> 0 <= b1 < 2^32 -> 0 <= b2 < 2^32 -> 0 <= b3 < 2^32 -> 0 <= b4 < 2^32 -> 0 <= b5 < 2^32 -> 0 <= b6 < 2^32 -> 0 <= b7 < 2^32 ->
  forall Q : Z -> Z -> Z -> Z -> Z -> Z -> Z -> Z -> Prop,
  (forall r0 r1 r2 r3 r4 r5 r6 r7, (0 <= r0 < 2^32 /\ 0 <= r1 < 2^32 /\ 0 <= r2 < 2^32 /\ 0 <= r3 < 2^32 /\ 0 <= r4 < 2^32 /\ 0 <= r5 < 2^32 /\ 0 <= r6 < 2^32 /\ 0 <= r7 < 2^32) /\ val8w r0 r1 r2 r3 r4 r5 r6 r7 = (val8w a0 a1 a2 a3 a4 a5 a6 a7 * val8w b0 b1 b2 b3 b4 b5 b6 b7) mod N256 -> Q r0 r1 r2 r3 r4 r5 r6 r7) ->
  scalar8x32_mul_k a0 a1 a2 a3 a4 a5 a6 a7 b0 b1 b2 b3 b4 b5 b6 b7 Q.
Proof. exact Kernel.Scalar8x32Mul.scalar8x32_mul_correct. Qed.
Print Assumptions scalar8x32_mul_correct.
Theorem scalar8x32_sqr_correct : forall a0 a1 a2 a3 a4 a5 a6 a7,
  0 <= a0 < 2^32 -> 0 <= a1 < 2^32 -> 0 <= a2 < 2^32 -> 0 <= a3 < 2^32 -> 0 <= a4 < 2^32 -> 0 <= a5 < 2^32 -> 0 <= a6 < 2^32 -> 0 <= a7 < 2^32 ->
  forall Q : Z -> Z -> Z -> Z -> Z -> Z -> Z -> Z -> Prop,
  (forall r0 r1 r2 r3 r4 r5 r6 r7, (0 <= r0 < 2^32 /\ 0 <= r1 < 2^32 /\ 0 <= r2 < 2^32 /\ 0 <= r3 < 2^32 /\ 0 <= r4 < 2^32 /\ 0 <= r5 < 2^32 /\ 0 <= r6 < 2^32 /\ 0 <= r7 < 2^32) /\ val8w r0 r1 r2 r3 r4 r5 r6 r7 = (val8w a0 a1 a2 a3 a4 a5 a6 a7 * val8w a0 a1 a2 a3 a4 a5 a6 a7) mod N256 -> Q r0 r1 r2 r3 r4 r5 r6 r7) ->
  scalar8x32_sqr_k a0 a1 a2 a3 a4 a5 a6 a7 Q.
Proof. exact Kernel.Scalar8x32Mul.scalar8x32_sqr_correct. Qed.
Print Assumptions scalar8x32_sqr_correct.
(* The 10x26 field (src/field_10x26_impl.h, compiled on 32-bit targets and with USE_FORCE_WIDEMUL_INT64): multiplication and squaring,
   for ALL limb values within the magnitude contract: no 64-bit accumulator wraps, output limbs in range, value = product mod p. *)
Theorem fe10x26_mul_inner_correct : forall a0 a1 a2 a3 a4 a5 a6 a7 a8 a9 b0 b1 b2 b3 b4 b5 b6 b7 b8 b9,
  0 <= a0 < 2^30 -> 0 <= a1 < 2^30 -> 0 <= a2 < 2^30 -> 0 <= a3 < 2^30 -> 0 <= a4 < 2^30 -> 0 <= a5 < 2^30 -> 0 <= a6 < 2^30 -> 0 <= a7 < 2^30 -> 0 <= a8 < 2^30 -> 0 <= a9 < 2^26 -> 0 <= b0 < 2^30 -> 0 <= b1 < 2^30 -> 0 <= b2 < 2^30 -> 0 <= b3 < 2^30 -> 0 <= b4 < 2^30 -> 0 <= b5 < 2^30 -> 0 <= b6 < 2^30 -> 0 <= b7 < 2^30 -> 0 <= b8 < 2^30 -> 0 <= b9 < 2^26 ->
  fe10x26_mul_inner_k a0 a1 a2 a3 a4 a5 a6 a7 a8 a9 b0 b1 b2 b3 b4 b5 b6 b7 b8 b9 (fun r0 r1 r2 r3 r4 r5 r6 r7 r8 r9 =>
    (0 <= r0 < 2^26 /\ 0 <= r1 < 2^26 /\ 0 <= r2 < 2^27 /\ 0 <= r3 < 2^26 /\ 0 <= r4 < 2^26 /\ 0 <= r5 < 2^26 /\ 0 <= r6 < 2^26 /\ 0 <= r7 < 2^26 /\ 0 <= r8 < 2^26 /\ 0 <= r9 < 2^22) /\
    (val10 r0 r1 r2 r3 r4 r5 r6 r7 r8 r9 - val10 a0 a1 a2 a3 a4 a5 a6 a7 a8 a9 * val10 b0 b1 b2 b3 b4 b5 b6 b7 b8 b9) mod P256 = 0).
Proof. exact Kernel.Field10x26.fe10x26_mul_inner_correct. Qed.
Print Assumptions fe10x26_mul_inner_correct.
Theorem fe10x26_sqr_inner_correct : forall a0 a1 a2 a3 a4 a5 a6 a7 a8 a9,
  0 <= a0 < 2^30 -> 0 <= a1 < 2^30 -> 0 <= a2 < 2^30 -> 0 <= a3 < 2^30 -> 0 <= a4 < 2^30 -> 0 <= a5 < 2^30 -> 0 <= a6 < 2^30 -> 0 <= a7 < 2^30 -> 0 <= a8 < 2^30 -> 0 <= a9 < 2^26 ->
  fe10x26_sqr_inner_k a0 a1 a2 a3 a4 a5 a6 a7 a8 a9 (fun r0 r1 r2 r3 r4 r5 r6 r7 r8 r9 =>
    (0 <= r0 < 2^26 /\ 0 <= r1 < 2^26 /\ 0 <= r2 < 2^27 /\ 0 <= r3 < 2^26 /\ 0 <= r4 < 2^26 /\ 0 <= r5 < 2^26 /\ 0 <= r6 < 2^26 /\ 0 <= r7 < 2^26 /\ 0 <= r8 < 2^26 /\ 0 <= r9 < 2^22) /\
    (val10 r0 r1 r2 r3 r4 r5 r6 r7 r8 r9 - val10 a0 a1 a2 a3 a4 a5 a6 a7 a8 a9 * val10 a0 a1 a2 a3 a4 a5 a6 a7 a8 a9) mod P256 = 0).
Proof. exact Kernel.Field10x26.fe10x26_sqr_inner_correct. Qed.
Print Assumptions fe10x26_sqr_inner_correct.
(* Parsing a 32-byte big-endian string into a field element with the range check that every public-key / x-only / generator /
   commitment parser relies on: the limbs hold exactly the value, the return value is 1 exactly below p. *)
Theorem fe_set_b32_limit_correct : forall a0 a1 a2 a3 a4 a5 a6 a7 a8 a9 a10 a11 a12 a13 a14 a15 a16 a17 a18 a19 a20 a21 a22 a23 a24 a25 a26 a27 a28 a29 a30 a31,
  0 <= a0 < 256 -> 0 <= a1 < 256 -> 0 <= a2 < 256 -> 0 <= a3 < 256 -> 0 <= a4 < 256 -> 0 <= a5 < 256 -> 0 <= a6 < 256 -> 0 <= a7 < 256 -> 0 <= a8 < 256 -> 0 <= a9 < 256 -> 0 <= a10 < 256 -> 0 <= a11 < 256 -> 0 <= a12 < 256 -> 0 <= a13 < 256 -> 0 <= a14 < 256 -> 0 <= a15 < 256 -> 0 <= a16 < 256 -> 0 <= a17 < 256 -> 0 <= a18 < 256 -> 0 <= a19 < 256 -> 0 <= a20 < 256 -> 0 <= a21 < 256 -> 0 <= a22 < 256 -> 0 <= a23 < 256 -> 0 <= a24 < 256 -> 0 <= a25 < 256 -> 0 <= a26 < 256 -> 0 <= a27 < 256 -> 0 <= a28 < 256 -> 0 <= a29 < 256 -> 0 <= a30 < 256 -> 0 <= a31 < 256 ->
  fe_impl_set_b32_limit_k a0 a1 a2 a3 a4 a5 a6 a7 a8 a9 a10 a11 a12 a13 a14 a15 a16 a17 a18 a19 a20 a21 a22 a23 a24 a25 a26 a27 a28 a29 a30 a31 (fun r0 r1 r2 r3 r4 ret =>
    (0 <= r0 < 2^52 /\ 0 <= r1 < 2^52 /\ 0 <= r2 < 2^52 /\ 0 <= r3 < 2^52 /\ 0 <= r4 < 2^48) /\
    val5 r0 r1 r2 r3 r4 = be32 a0 a1 a2 a3 a4 a5 a6 a7 a8 a9 a10 a11 a12 a13 a14 a15 a16 a17 a18 a19 a20 a21 a22 a23 a24 a25 a26 a27 a28 a29 a30 a31 /\
    ret = (if be32 a0 a1 a2 a3 a4 a5 a6 a7 a8 a9 a10 a11 a12 a13 a14 a15 a16 a17 a18 a19 a20 a21 a22 a23 a24 a25 a26 a27 a28 a29 a30 a31 <? P256 then 1 else 0)).
Proof. exact Kernel.FieldSetB32.fe_set_b32_limit_correct. Qed.
Print Assumptions fe_set_b32_limit_correct.
(* Multiplication by a small integer, the value-preserving re-packing between 5x52 and 4x64 limbs, conditional negation *)
Theorem fe_mul_int_correct : forall r0 r1 r2 r3 r4 a,
  0 <= a < 2^64 -> 0 <= r0 -> 0 <= r1 -> 0 <= r2 -> 0 <= r3 -> 0 <= r4 ->
  r0 * a < 2^64 -> r1 * a < 2^64 -> r2 * a < 2^64 -> r3 * a < 2^64 -> r4 * a < 2^64 ->
  fe_impl_mul_int_unchecked_k r0 r1 r2 r3 r4 a (fun s0 s1 s2 s3 s4 =>
    s0 = r0 * a /\ s1 = r1 * a /\ s2 = r2 * a /\ s3 = r3 * a /\ s4 = r4 * a /\ val5 s0 s1 s2 s3 s4 = val5 r0 r1 r2 r3 r4 * a).
Proof. exact Kernel.MorePrims.fe_mul_int_correct. Qed.
Print Assumptions fe_mul_int_correct.
Theorem fe_to_storage_correct : forall a0 a1 a2 a3 a4,
  0 <= a0 < 2^52 -> 0 <= a1 < 2^52 -> 0 <= a2 < 2^52 -> 0 <= a3 < 2^52 -> 0 <= a4 < 2^48 ->
  fe_impl_to_storage_k a0 a1 a2 a3 a4 (fun s0 s1 s2 s3 =>
    (0 <= s0 < 2^64 /\ 0 <= s1 < 2^64 /\ 0 <= s2 < 2^64 /\ 0 <= s3 < 2^64) /\ val4 s0 s1 s2 s3 = val5 a0 a1 a2 a3 a4).
Proof. exact Kernel.MorePrims.fe_to_storage_correct. Qed.
Print Assumptions fe_to_storage_correct.
Theorem fe_from_storage_correct : forall s0 s1 s2 s3,
  0 <= s0 < 2^64 -> 0 <= s1 < 2^64 -> 0 <= s2 < 2^64 -> 0 <= s3 < 2^64 ->
  fe_impl_from_storage_k s0 s1 s2 s3 (fun a0 a1 a2 a3 a4 =>
    (0 <= a0 < 2^52 /\ 0 <= a1 < 2^52 /\ 0 <= a2 < 2^52 /\ 0 <= a3 < 2^52 /\ 0 <= a4 < 2^48) /\ val5 a0 a1 a2 a3 a4 = val4 s0 s1 s2 s3).
Proof. exact Kernel.MorePrims.fe_from_storage_correct. Qed.
Print Assumptions fe_from_storage_correct.
Theorem scalar_cond_negate_correct : forall a0 a1 a2 a3 flag,
  0 <= a0 < 2^64 -> 0 <= a1 < 2^64 -> 0 <= a2 < 2^64 -> 0 <= a3 < 2^64 -> val4 a0 a1 a2 a3 < N256 -> flag = 0 \/ flag = 1 ->
  scalar_cond_negate_k a0 a1 a2 a3 flag (fun r0 r1 r2 r3 ret =>
    (0 <= r0 < 2^64 /\ 0 <= r1 < 2^64 /\ 0 <= r2 < 2^64 /\ 0 <= r3 < 2^64) /\
    val4 r0 r1 r2 r3 = (if flag =? 0 then val4 a0 a1 a2 a3 else (N256 - val4 a0 a1 a2 a3) mod N256) /\
    ret = (if flag =? 0 then 1 else -1)).
Proof. exact Kernel.MorePrims.scalar_cond_negate_correct. Qed.
Print Assumptions scalar_cond_negate_correct.
(* Weak normalisation and the zero test of the 5x52 field, for every limb vector of magnitude up to 32 *)
Theorem fe_normalize_weak_correct : forall r0 r1 r2 r3 r4,
  0 <= r0 < 2^58 -> 0 <= r1 < 2^58 -> 0 <= r2 < 2^58 -> 0 <= r3 < 2^58 -> 0 <= r4 < 2^54 ->
  fe_impl_normalize_weak_k r0 r1 r2 r3 r4 (fun t0 t1 t2 t3 t4 =>
    0 <= t0 < 2^52 /\ 0 <= t1 < 2^52 /\ 0 <= t2 < 2^52 /\ 0 <= t3 < 2^52 /\ 0 <= t4 < 2^48 + 2^7 /\
    (val5 t0 t1 t2 t3 t4 - val5 r0 r1 r2 r3 r4) mod P256 = 0).
Proof. exact Kernel.FieldNormalize2.fe_normalize_weak_correct. Qed.
Print Assumptions fe_normalize_weak_correct.
Theorem fe_normalizes_to_zero_correct : forall r0 r1 r2 r3 r4,
  0 <= r0 < 2^58 -> 0 <= r1 < 2^58 -> 0 <= r2 < 2^58 -> 0 <= r3 < 2^58 -> 0 <= r4 < 2^54 ->
  fe_impl_normalizes_to_zero r0 r1 r2 r3 r4 = if (val5 r0 r1 r2 r3 r4) mod P256 =? 0 then 1 else 0.
Proof. exact Kernel.FieldNormalize2.fe_normalizes_to_zero_correct. Qed.
Print Assumptions fe_normalizes_to_zero_correct.
(* Scalar addition (with the final reduction translated in place) and halving, modulo n, for all reduced operands *)
Theorem scalar_add_correct : forall a0 a1 a2 a3 b0 b1 b2 b3,
  0 <= a0 < 2^64 -> 0 <= a1 < 2^64 -> 0 <= a2 < 2^64 -> 0 <= a3 < 2^64 ->
  0 <= b0 < 2^64 -> 0 <= b1 < 2^64 -> 0 <= b2 < 2^64 -> 0 <= b3 < 2^64 ->
  val4 a0 a1 a2 a3 < N256 -> val4 b0 b1 b2 b3 < N256 ->
  scalar_add_k a0 a1 a2 a3 b0 b1 b2 b3 (fun r0 r1 r2 r3 ret =>
    (0 <= r0 < 2^64 /\ 0 <= r1 < 2^64 /\ 0 <= r2 < 2^64 /\ 0 <= r3 < 2^64) /\
    val4 r0 r1 r2 r3 = (val4 a0 a1 a2 a3 + val4 b0 b1 b2 b3) mod N256 /\
    ret = (if N256 <=? val4 a0 a1 a2 a3 + val4 b0 b1 b2 b3 then 1 else 0)).
Proof. exact Kernel.ScalarAdd.scalar_add_correct. Qed.
Print Assumptions scalar_add_correct.
Theorem scalar_half_correct : forall a0 a1 a2 a3,
  0 <= a0 < 2^64 -> 0 <= a1 < 2^64 -> 0 <= a2 < 2^64 -> 0 <= a3 < 2^64 -> val4 a0 a1 a2 a3 < N256 ->
  scalar_half_k a0 a1 a2 a3 (fun r0 r1 r2 r3 =>
    (0 <= r0 < 2^64 /\ 0 <= r1 < 2^64 /\ 0 <= r2 < 2^64 /\ 0 <= r3 < 2^64) /\
    2 * val4 r0 r1 r2 r3 = val4 a0 a1 a2 a3 + (a0 mod 2) * N256 /\ val4 r0 r1 r2 r3 < N256).
Proof. exact Kernel.ScalarAdd.scalar_half_correct. Qed.
Print Assumptions scalar_half_correct.
(* Further limb-level primitives, exact for all in-contract inputs: field addition, negation (magnitude m -> m+1), halving
   (branch-free "add p if odd", then a shift across the limbs), scalar negation modulo n. *)
Theorem fe_add_correct : forall r0 r1 r2 r3 r4 a0 a1 a2 a3 a4,
  0 <= r0 -> 0 <= r1 -> 0 <= r2 -> 0 <= r3 -> 0 <= r4 -> 0 <= a0 -> 0 <= a1 -> 0 <= a2 -> 0 <= a3 -> 0 <= a4 ->
  r0 + a0 < 2^64 -> r1 + a1 < 2^64 -> r2 + a2 < 2^64 -> r3 + a3 < 2^64 -> r4 + a4 < 2^64 ->
  fe_impl_add_k r0 r1 r2 r3 r4 a0 a1 a2 a3 a4 (fun s0 s1 s2 s3 s4 =>
    s0 = r0 + a0 /\ s1 = r1 + a1 /\ s2 = r2 + a2 /\ s3 = r3 + a3 /\ s4 = r4 + a4 /\
    val5 s0 s1 s2 s3 s4 = val5 r0 r1 r2 r3 r4 + val5 a0 a1 a2 a3 a4).
Proof. exact Kernel.FieldPrims.fe_add_correct. Qed.
Print Assumptions fe_add_correct.
Theorem fe_negate_correct : forall a0 a1 a2 a3 a4 m,
  0 <= m <= 31 ->
  0 <= a0 <= 2 * m * 4503599627370495 -> 0 <= a1 <= 2 * m * 4503599627370495 -> 0 <= a2 <= 2 * m * 4503599627370495 ->
  0 <= a3 <= 2 * m * 4503599627370495 -> 0 <= a4 <= 2 * m * 281474976710655 ->
  fe_impl_negate_unchecked_k a0 a1 a2 a3 a4 m (fun r0 r1 r2 r3 r4 =>
    (0 <= r0 <= 2 * (m + 1) * 4503599627370495 /\ 0 <= r1 <= 2 * (m + 1) * 4503599627370495 /\ 0 <= r2 <= 2 * (m + 1) * 4503599627370495 /\
     0 <= r3 <= 2 * (m + 1) * 4503599627370495 /\ 0 <= r4 <= 2 * (m + 1) * 281474976710655) /\
    val5 r0 r1 r2 r3 r4 = 2 * (m + 1) * P256 - val5 a0 a1 a2 a3 a4).
Proof. exact Kernel.FieldPrims.fe_negate_correct. Qed.
Print Assumptions fe_negate_correct.
Theorem fe_half_correct : forall t0 t1 t2 t3 t4,
  0 <= t0 < 2^58 -> 0 <= t1 < 2^58 -> 0 <= t2 < 2^58 -> 0 <= t3 < 2^58 -> 0 <= t4 < 2^54 ->
  fe_impl_half_k t0 t1 t2 t3 t4 (fun r0 r1 r2 r3 r4 =>
    (0 <= r0 < 2^58 /\ 0 <= r1 < 2^58 /\ 0 <= r2 < 2^58 /\ 0 <= r3 < 2^58 /\ 0 <= r4 < 2^54) /\
    2 * val5 r0 r1 r2 r3 r4 = val5 t0 t1 t2 t3 t4 + (t0 mod 2) * P256).
Proof. exact Kernel.FieldPrims.fe_half_correct. Qed.
Print Assumptions fe_half_correct.
Theorem scalar_negate_correct : forall a0 a1 a2 a3,
  0 <= a0 < 2^64 -> 0 <= a1 < 2^64 -> 0 <= a2 < 2^64 -> 0 <= a3 < 2^64 -> val4 a0 a1 a2 a3 < N256 ->
  scalar_negate_k a0 a1 a2 a3 (fun r0 r1 r2 r3 =>
    (0 <= r0 < 2^64 /\ 0 <= r1 < 2^64 /\ 0 <= r2 < 2^64 /\ 0 <= r3 < 2^64) /\
    val4 r0 r1 r2 r3 = (N256 - val4 a0 a1 a2 a3) mod N256).
Proof. exact Kernel.FieldPrims.scalar_negate_correct. Qed.
Print Assumptions scalar_negate_correct.
Theorem N256_is_group_order : N256 = 0xFFFFFFFFFFFFFFFFFFFFFFFFFFFFFFFEBAAEDCE6AF48A03BBFD25E8CD0364141.
Proof. reflexivity. Qed.

(* the modulus used above is the secp256k1 field prime *)
Theorem P256_is_field_prime : P256 = 0xFFFFFFFFFFFFFFFFFFFFFFFFFFFFFFFFFFFFFFFFFFFFFFFFFFFFFFFEFFFFFC2F.
Proof. reflexivity. Qed.
Print Assumptions P256_is_field_prime.

(* non-vacuity: a concrete in-contract operand pair *)
Example fe_mul_inner_example : fe_mul_inner 1 0 0 0 0 2 0 0 0 0 = [2; 0; 0; 0; 0].
Proof. vm_compute. reflexivity. Qed.

(* SHA-256 streaming: for EVERY list of writes the streaming object (Model/Sha256Stream.v, mirroring
   sha256_write / sha256_finalize: pending-block completion, direct compression of whole blocks, buffering of
   the rest, padding through write) computes the FIPS 180-4 hash of the concatenation.  The correspondence
   check drives the C object and this model with the same write splits. *)
Require Import Spec.Bytes Spec.Sha256 Model.Sha256Stream Proofs.Sha256StreamProofs.
Theorem sha256_stream_correct : forall chunks, Z.of_nat (length (concat chunks)) < 2 ^ 61 ->
  sha256_stream chunks = sha256 (concat chunks).
Proof. exact Proofs.Sha256StreamProofs.sha256_stream_correct. Qed.
Print Assumptions sha256_stream_correct.

(* ---- 32-byte encodings of field elements and scalars (limb level): serialization of a normalized element, parsing and serialization of a scalar ---- *)
Require Import Kernel.FieldGetB32 Kernel.ScalarB32 Gen.fe_impl_get_b32 Gen.scalar_set_b32 Gen.scalar_get_b32.

Theorem fe_get_b32_correct : forall n0 n1 n2 n3 n4,
  0 <= n0 < 2^52 -> 0 <= n1 < 2^52 -> 0 <= n2 < 2^52 -> 0 <= n3 < 2^52 -> 0 <= n4 < 2^48 ->
  fe_impl_get_b32_k n0 n1 n2 n3 n4 (fun r0 r1 r2 r3 r4 r5 r6 r7 r8 r9 r10 r11 r12 r13 r14 r15 r16 r17 r18 r19 r20 r21 r22 r23 r24 r25 r26 r27 r28 r29 r30 r31 =>
    Forall (fun b => 0 <= b < 256) [r0; r1; r2; r3; r4; r5; r6; r7; r8; r9; r10; r11; r12; r13; r14; r15; r16; r17; r18; r19; r20; r21; r22; r23; r24; r25; r26; r27; r28; r29; r30; r31] /\
    be32 r0 r1 r2 r3 r4 r5 r6 r7 r8 r9 r10 r11 r12 r13 r14 r15 r16 r17 r18 r19 r20 r21 r22 r23 r24 r25 r26 r27 r28 r29 r30 r31 = val5 n0 n1 n2 n3 n4).
Proof. exact Kernel.FieldGetB32.fe_get_b32_correct. Qed.
Print Assumptions fe_get_b32_correct.

Theorem scalar_set_b32_correct : forall a0 a1 a2 a3 a4 a5 a6 a7 a8 a9 a10 a11 a12 a13 a14 a15 a16 a17 a18 a19 a20 a21 a22 a23 a24 a25 a26 a27 a28 a29 a30 a31,
  0 <= a0 < 256 -> 0 <= a1 < 256 -> 0 <= a2 < 256 -> 0 <= a3 < 256 -> 0 <= a4 < 256 -> 0 <= a5 < 256 -> 0 <= a6 < 256 -> 0 <= a7 < 256 -> 0 <= a8 < 256 -> 0 <= a9 < 256 -> 0 <= a10 < 256 -> 0 <= a11 < 256 -> 0 <= a12 < 256 -> 0 <= a13 < 256 -> 0 <= a14 < 256 -> 0 <= a15 < 256 -> 0 <= a16 < 256 -> 0 <= a17 < 256 -> 0 <= a18 < 256 -> 0 <= a19 < 256 -> 0 <= a20 < 256 -> 0 <= a21 < 256 -> 0 <= a22 < 256 -> 0 <= a23 < 256 -> 0 <= a24 < 256 -> 0 <= a25 < 256 -> 0 <= a26 < 256 -> 0 <= a27 < 256 -> 0 <= a28 < 256 -> 0 <= a29 < 256 -> 0 <= a30 < 256 -> 0 <= a31 < 256 ->
  scalar_set_b32_k a0 a1 a2 a3 a4 a5 a6 a7 a8 a9 a10 a11 a12 a13 a14 a15 a16 a17 a18 a19 a20 a21 a22 a23 a24 a25 a26 a27 a28 a29 a30 a31 (fun r0 r1 r2 r3 over =>
    (0 <= r0 < 2^64 /\ 0 <= r1 < 2^64 /\ 0 <= r2 < 2^64 /\ 0 <= r3 < 2^64) /\
    val4 r0 r1 r2 r3 = be32 a0 a1 a2 a3 a4 a5 a6 a7 a8 a9 a10 a11 a12 a13 a14 a15 a16 a17 a18 a19 a20 a21 a22 a23 a24 a25 a26 a27 a28 a29 a30 a31 mod N256 /\
    over = (if N256 <=? be32 a0 a1 a2 a3 a4 a5 a6 a7 a8 a9 a10 a11 a12 a13 a14 a15 a16 a17 a18 a19 a20 a21 a22 a23 a24 a25 a26 a27 a28 a29 a30 a31 then 1 else 0)).
Proof. exact Kernel.ScalarB32.scalar_set_b32_correct. Qed.
Print Assumptions scalar_set_b32_correct.

Theorem scalar_get_b32_correct : forall d0 d1 d2 d3,
  0 <= d0 < 2^64 -> 0 <= d1 < 2^64 -> 0 <= d2 < 2^64 -> 0 <= d3 < 2^64 ->
  scalar_get_b32_k d0 d1 d2 d3 (fun r0 r1 r2 r3 r4 r5 r6 r7 r8 r9 r10 r11 r12 r13 r14 r15 r16 r17 r18 r19 r20 r21 r22 r23 r24 r25 r26 r27 r28 r29 r30 r31 =>
    Forall (fun b => 0 <= b < 256) [r0; r1; r2; r3; r4; r5; r6; r7; r8; r9; r10; r11; r12; r13; r14; r15; r16; r17; r18; r19; r20; r21; r22; r23; r24; r25; r26; r27; r28; r29; r30; r31] /\
    be32 r0 r1 r2 r3 r4 r5 r6 r7 r8 r9 r10 r11 r12 r13 r14 r15 r16 r17 r18 r19 r20 r21 r22 r23 r24 r25 r26 r27 r28 r29 r30 r31 = val4 d0 d1 d2 d3).
Proof. exact Kernel.ScalarB32.scalar_get_b32_correct. Qed.
Print Assumptions scalar_get_b32_correct.

(* ---- scalar equality, conditional move on ints, parity of a field element ---- *)
Require Import Kernel.SmallPrims Gen.scalar_eq Gen.int_cmov Gen.fe_impl_is_odd.

Theorem scalar_eq_correct : forall a0 a1 a2 a3 b0 b1 b2 b3,
  0 <= a0 -> 0 <= a1 -> 0 <= a2 -> 0 <= a3 -> 0 <= b0 -> 0 <= b1 -> 0 <= b2 -> 0 <= b3 ->
  scalar_eq a0 a1 a2 a3 b0 b1 b2 b3 = if (a0 =? b0) && (a1 =? b1) && (a2 =? b2) && (a3 =? b3) then 1 else 0.
Proof. exact Kernel.SmallPrims.scalar_eq_correct. Qed.
Print Assumptions scalar_eq_correct.

Theorem int_cmov_correct : forall r a flag,
  - 2^31 <= r < 2^31 -> - 2^31 <= a < 2^31 -> (flag = 0 \/ flag = 1) ->
  int_cmov r a flag = [if flag =? 1 then a else r].
Proof. exact Kernel.SmallPrims.int_cmov_correct. Qed.
Print Assumptions int_cmov_correct.

Theorem fe_is_odd_correct : forall n0 n1 n2 n3 n4,
  0 <= n0 -> fe_impl_is_odd n0 = val5 n0 n1 n2 n3 n4 mod 2.
Proof. exact Kernel.SmallPrims.fe_is_odd_correct. Qed.
Print Assumptions fe_is_odd_correct.

(* ---- group law over the limb code: point doubling, with the field operations as calls to the proved limb functions ---- *)
Require Import Kernel.Cong Kernel.GejDouble Gen.gej_double.

Theorem gej_double_correct : forall inf x0 x1 x2 x3 x4 y0 y1 y2 y3 y4 z0 z1 z2 z3 z4,
  lim 8 x0 x1 x2 x3 x4 -> lim 8 y0 y1 y2 y3 y4 -> lim 8 z0 z1 z2 z3 z4 ->
  gej_double_k inf x0 x1 x2 x3 x4 y0 y1 y2 y3 y4 z0 z1 z2 z3 z4
    (fun rinf rx0 rx1 rx2 rx3 rx4 ry0 ry1 ry2 ry3 ry4 rz0 rz1 rz2 rz3 rz4 =>
      let X := val5 x0 x1 x2 x3 x4 in let Y := val5 y0 y1 y2 y3 y4 in let Z := val5 z0 z1 z2 z3 z4 in
      rinf = inf /\
      (lim 3 rx0 rx1 rx2 rx3 rx4 /\ mag 3 ry0 ry1 ry2 ry3 ry4 /\ lim 1 rz0 rz1 rz2 rz3 rz4) /\
      cong (val5 rz0 rz1 rz2 rz3 rz4) (Y * Z) /\
      cong (4 * val5 rx0 rx1 rx2 rx3 rx4) (9 * (X * X * X * X) - 8 * (X * (Y * Y))) /\
      cong (8 * val5 ry0 ry1 ry2 ry3 ry4) (- 27 * (X * X * X * X * X * X) + 36 * (X * X * X * (Y * Y)) - 8 * (Y * Y * Y * Y))).
Proof. exact Kernel.GejDouble.gej_double_correct. Qed.
Print Assumptions gej_double_correct.

Require Import Kernel.GroupSmall Gen.ge_set_gej_zinv Gen.gej_rescale Gen.ge_set_ge_zinv.

Theorem ge_set_gej_zinv_correct : forall inf zi0 zi1 zi2 zi3 zi4 x0 x1 x2 x3 x4 y0 y1 y2 y3 y4,
  lim 8 zi0 zi1 zi2 zi3 zi4 -> lim 8 x0 x1 x2 x3 x4 -> lim 8 y0 y1 y2 y3 y4 ->
  ge_set_gej_zinv_k inf zi0 zi1 zi2 zi3 zi4 x0 x1 x2 x3 x4 y0 y1 y2 y3 y4 (fun rinf rx0 rx1 rx2 rx3 rx4 ry0 ry1 ry2 ry3 ry4 =>
    let X := val5 x0 x1 x2 x3 x4 in let Y := val5 y0 y1 y2 y3 y4 in let ZI := val5 zi0 zi1 zi2 zi3 zi4 in
    rinf = inf /\ lim 1 rx0 rx1 rx2 rx3 rx4 /\ lim 1 ry0 ry1 ry2 ry3 ry4 /\
    cong (val5 rx0 rx1 rx2 rx3 rx4) (X * (ZI * ZI)) /\ cong (val5 ry0 ry1 ry2 ry3 ry4) (Y * (ZI * ZI * ZI))).
Proof. exact Kernel.GroupSmall.ge_set_gej_zinv_correct. Qed.
Print Assumptions ge_set_gej_zinv_correct.

Theorem ge_set_ge_zinv_correct : forall inf zi0 zi1 zi2 zi3 zi4 x0 x1 x2 x3 x4 y0 y1 y2 y3 y4,
  lim 8 zi0 zi1 zi2 zi3 zi4 -> lim 8 x0 x1 x2 x3 x4 -> lim 8 y0 y1 y2 y3 y4 ->
  ge_set_ge_zinv_k inf zi0 zi1 zi2 zi3 zi4 x0 x1 x2 x3 x4 y0 y1 y2 y3 y4 (fun rinf rx0 rx1 rx2 rx3 rx4 ry0 ry1 ry2 ry3 ry4 =>
    let X := val5 x0 x1 x2 x3 x4 in let Y := val5 y0 y1 y2 y3 y4 in let ZI := val5 zi0 zi1 zi2 zi3 zi4 in
    rinf = inf /\ lim 1 rx0 rx1 rx2 rx3 rx4 /\ lim 1 ry0 ry1 ry2 ry3 ry4 /\
    cong (val5 rx0 rx1 rx2 rx3 rx4) (X * (ZI * ZI)) /\ cong (val5 ry0 ry1 ry2 ry3 ry4) (Y * (ZI * ZI * ZI))).
Proof. exact Kernel.GroupSmall.ge_set_ge_zinv_correct. Qed.
Print Assumptions ge_set_ge_zinv_correct.

Theorem gej_rescale_correct : forall s0 s1 s2 s3 s4 x0 x1 x2 x3 x4 y0 y1 y2 y3 y4 z0 z1 z2 z3 z4,
  lim 8 s0 s1 s2 s3 s4 -> lim 8 x0 x1 x2 x3 x4 -> lim 8 y0 y1 y2 y3 y4 -> lim 8 z0 z1 z2 z3 z4 ->
  gej_rescale_k s0 s1 s2 s3 s4 x0 x1 x2 x3 x4 y0 y1 y2 y3 y4 z0 z1 z2 z3 z4 (fun rx0 rx1 rx2 rx3 rx4 ry0 ry1 ry2 ry3 ry4 rz0 rz1 rz2 rz3 rz4 =>
    let X := val5 x0 x1 x2 x3 x4 in let Y := val5 y0 y1 y2 y3 y4 in let Z := val5 z0 z1 z2 z3 z4 in let S := val5 s0 s1 s2 s3 s4 in
    lim 1 rx0 rx1 rx2 rx3 rx4 /\ lim 1 ry0 ry1 ry2 ry3 ry4 /\ lim 1 rz0 rz1 rz2 rz3 rz4 /\
    cong (val5 rx0 rx1 rx2 rx3 rx4) (X * (S * S)) /\ cong (val5 ry0 ry1 ry2 ry3 ry4) (Y * (S * S) * S) /\ cong (val5 rz0 rz1 rz2 rz3 rz4) (Z * S)).
Proof. exact Kernel.GroupSmall.gej_rescale_correct. Qed.
Print Assumptions gej_rescale_correct.

(* ---- the same for the 32-bit-limb configuration: 10x26 field primitives in WP form and point doubling over them ---- *)
Require Import Kernel.Field10x26Wp Kernel.GejDouble32 Gen.fe10x26_add Gen.fe10x26_negate Gen.fe10x26_half Gen.fe10x26_mul_int Gen.gej_double32.

Theorem fe10x26_add_wp : forall r0 r1 r2 r3 r4 r5 r6 r7 r8 r9 a0 a1 a2 a3 a4 a5 a6 a7 a8 a9 (Q : Z -> Z -> Z -> Z -> Z -> Z -> Z -> Z -> Z -> Z -> Prop),
  0 <= r0 -> 0 <= r1 -> 0 <= r2 -> 0 <= r3 -> 0 <= r4 -> 0 <= r5 -> 0 <= r6 -> 0 <= r7 -> 0 <= r8 -> 0 <= r9 ->
  0 <= a0 -> 0 <= a1 -> 0 <= a2 -> 0 <= a3 -> 0 <= a4 -> 0 <= a5 -> 0 <= a6 -> 0 <= a7 -> 0 <= a8 -> 0 <= a9 ->
  r0 + a0 < 2^32 -> r1 + a1 < 2^32 -> r2 + a2 < 2^32 -> r3 + a3 < 2^32 -> r4 + a4 < 2^32 -> r5 + a5 < 2^32 -> r6 + a6 < 2^32 -> r7 + a7 < 2^32 -> r8 + a8 < 2^32 -> r9 + a9 < 2^32 ->
  (forall s0 s1 s2 s3 s4 s5 s6 s7 s8 s9, s0 = r0 + a0 -> s1 = r1 + a1 -> s2 = r2 + a2 -> s3 = r3 + a3 -> s4 = r4 + a4 -> s5 = r5 + a5 -> s6 = r6 + a6 -> s7 = r7 + a7 -> s8 = r8 + a8 -> s9 = r9 + a9 ->
     val10 s0 s1 s2 s3 s4 s5 s6 s7 s8 s9 = val10 r0 r1 r2 r3 r4 r5 r6 r7 r8 r9 + val10 a0 a1 a2 a3 a4 a5 a6 a7 a8 a9 -> Q s0 s1 s2 s3 s4 s5 s6 s7 s8 s9) ->
  fe10x26_add_k r0 r1 r2 r3 r4 r5 r6 r7 r8 r9 a0 a1 a2 a3 a4 a5 a6 a7 a8 a9 Q.
Proof. exact Kernel.Field10x26Wp.fe10x26_add_wp. Qed.
Print Assumptions fe10x26_add_wp.

Theorem fe10x26_mul_int_wp : forall r0 r1 r2 r3 r4 r5 r6 r7 r8 r9 a (Q : Z -> Z -> Z -> Z -> Z -> Z -> Z -> Z -> Z -> Z -> Prop),
  0 <= a < 2^31 -> 0 <= r0 -> 0 <= r1 -> 0 <= r2 -> 0 <= r3 -> 0 <= r4 -> 0 <= r5 -> 0 <= r6 -> 0 <= r7 -> 0 <= r8 -> 0 <= r9 ->
  r0 * a < 2^32 -> r1 * a < 2^32 -> r2 * a < 2^32 -> r3 * a < 2^32 -> r4 * a < 2^32 -> r5 * a < 2^32 -> r6 * a < 2^32 -> r7 * a < 2^32 -> r8 * a < 2^32 -> r9 * a < 2^32 ->
  (forall s0 s1 s2 s3 s4 s5 s6 s7 s8 s9, s0 = r0 * a -> s1 = r1 * a -> s2 = r2 * a -> s3 = r3 * a -> s4 = r4 * a -> s5 = r5 * a -> s6 = r6 * a -> s7 = r7 * a -> s8 = r8 * a -> s9 = r9 * a ->
     val10 s0 s1 s2 s3 s4 s5 s6 s7 s8 s9 = val10 r0 r1 r2 r3 r4 r5 r6 r7 r8 r9 * a -> Q s0 s1 s2 s3 s4 s5 s6 s7 s8 s9) ->
  fe10x26_mul_int_k r0 r1 r2 r3 r4 r5 r6 r7 r8 r9 a Q.
Proof. exact Kernel.Field10x26Wp.fe10x26_mul_int_wp. Qed.
Print Assumptions fe10x26_mul_int_wp.

Theorem fe10x26_negate_wp : forall a0 a1 a2 a3 a4 a5 a6 a7 a8 a9 m (Q : Z -> Z -> Z -> Z -> Z -> Z -> Z -> Z -> Z -> Z -> Prop),
  0 <= m <= 31 ->
  0 <= a0 <= 2 * (m + 1) * 67107887 -> 0 <= a1 <= 2 * (m + 1) * 67108799 -> 0 <= a2 <= 2 * (m + 1) * 67108863 -> 0 <= a3 <= 2 * (m + 1) * 67108863 ->
  0 <= a4 <= 2 * (m + 1) * 67108863 -> 0 <= a5 <= 2 * (m + 1) * 67108863 -> 0 <= a6 <= 2 * (m + 1) * 67108863 -> 0 <= a7 <= 2 * (m + 1) * 67108863 ->
  0 <= a8 <= 2 * (m + 1) * 67108863 -> 0 <= a9 <= 2 * (m + 1) * 4194303 ->
  (forall r0 r1 r2 r3 r4 r5 r6 r7 r8 r9,
     r0 = 2 * (m + 1) * 67107887 - a0 -> r1 = 2 * (m + 1) * 67108799 - a1 -> r2 = 2 * (m + 1) * 67108863 - a2 -> r3 = 2 * (m + 1) * 67108863 - a3 ->
     r4 = 2 * (m + 1) * 67108863 - a4 -> r5 = 2 * (m + 1) * 67108863 - a5 -> r6 = 2 * (m + 1) * 67108863 - a6 -> r7 = 2 * (m + 1) * 67108863 - a7 ->
     r8 = 2 * (m + 1) * 67108863 - a8 -> r9 = 2 * (m + 1) * 4194303 - a9 ->
     val10 r0 r1 r2 r3 r4 r5 r6 r7 r8 r9 = 2 * (m + 1) * P256 - val10 a0 a1 a2 a3 a4 a5 a6 a7 a8 a9 -> Q r0 r1 r2 r3 r4 r5 r6 r7 r8 r9) ->
  fe10x26_negate_k a0 a1 a2 a3 a4 a5 a6 a7 a8 a9 m Q.
Proof. exact Kernel.Field10x26Wp.fe10x26_negate_wp. Qed.
Print Assumptions fe10x26_negate_wp.

Theorem fe10x26_half_wp : forall t0 t1 t2 t3 t4 t5 t6 t7 t8 t9 (Q : Z -> Z -> Z -> Z -> Z -> Z -> Z -> Z -> Z -> Z -> Prop),
  0 <= t0 < 2^31 -> 0 <= t1 < 2^31 -> 0 <= t2 < 2^31 -> 0 <= t3 < 2^31 -> 0 <= t4 < 2^31 -> 0 <= t5 < 2^31 -> 0 <= t6 < 2^31 -> 0 <= t7 < 2^31 -> 0 <= t8 < 2^31 -> 0 <= t9 < 2^27 ->
  (forall r0 r1 r2 r3 r4 r5 r6 r7 r8 r9,
    (0 <= 2 * r0 <= t0 + 2^27 /\ 0 <= 2 * r1 <= t1 + 2^27 /\ 0 <= 2 * r2 <= t2 + 2^27 /\ 0 <= 2 * r3 <= t3 + 2^27 /\ 0 <= 2 * r4 <= t4 + 2^27 /\
     0 <= 2 * r5 <= t5 + 2^27 /\ 0 <= 2 * r6 <= t6 + 2^27 /\ 0 <= 2 * r7 <= t7 + 2^27 /\ 0 <= 2 * r8 <= t8 + 2^27 /\ 0 <= 2 * r9 <= t9 + 2^22) ->
    2 * val10 r0 r1 r2 r3 r4 r5 r6 r7 r8 r9 = val10 t0 t1 t2 t3 t4 t5 t6 t7 t8 t9 + (t0 mod 2) * P256 -> Q r0 r1 r2 r3 r4 r5 r6 r7 r8 r9) ->
  fe10x26_half_k t0 t1 t2 t3 t4 t5 t6 t7 t8 t9 Q.
Proof. exact Kernel.Field10x26Wp.fe10x26_half_wp. Qed.
Print Assumptions fe10x26_half_wp.

Theorem gej_double32_correct : forall inf x0 x1 x2 x3 x4 x5 x6 x7 x8 x9 y0 y1 y2 y3 y4 y5 y6 y7 y8 y9 z0 z1 z2 z3 z4 z5 z6 z7 z8 z9,
  lim32 8 x0 x1 x2 x3 x4 x5 x6 x7 x8 x9 -> lim32 8 y0 y1 y2 y3 y4 y5 y6 y7 y8 y9 -> lim32 8 z0 z1 z2 z3 z4 z5 z6 z7 z8 z9 ->
  gej_double32_k inf x0 x1 x2 x3 x4 x5 x6 x7 x8 x9 y0 y1 y2 y3 y4 y5 y6 y7 y8 y9 z0 z1 z2 z3 z4 z5 z6 z7 z8 z9
    (fun rinf rx0 rx1 rx2 rx3 rx4 rx5 rx6 rx7 rx8 rx9 ry0 ry1 ry2 ry3 ry4 ry5 ry6 ry7 ry8 ry9 rz0 rz1 rz2 rz3 rz4 rz5 rz6 rz7 rz8 rz9 =>
      let X := val10 x0 x1 x2 x3 x4 x5 x6 x7 x8 x9 in let Y := val10 y0 y1 y2 y3 y4 y5 y6 y7 y8 y9 in let Z := val10 z0 z1 z2 z3 z4 z5 z6 z7 z8 z9 in
      rinf = inf /\
      (lim32 3 rx0 rx1 rx2 rx3 rx4 rx5 rx6 rx7 rx8 rx9 /\ mag32 3 ry0 ry1 ry2 ry3 ry4 ry5 ry6 ry7 ry8 ry9 /\ lim32 1 rz0 rz1 rz2 rz3 rz4 rz5 rz6 rz7 rz8 rz9) /\
      cong (val10 rz0 rz1 rz2 rz3 rz4 rz5 rz6 rz7 rz8 rz9) (Y * Z) /\
      cong (4 * val10 rx0 rx1 rx2 rx3 rx4 rx5 rx6 rx7 rx8 rx9) (9 * (X * X * X * X) - 8 * (X * (Y * Y))) /\
      cong (8 * val10 ry0 ry1 ry2 ry3 ry4 ry5 ry6 ry7 ry8 ry9) (- 27 * (X * X * X * X * X * X) + 36 * (X * X * X * (Y * Y)) - 8 * (Y * Y * Y * Y))).
Proof. exact Kernel.GejDouble32.gej_double32_correct. Qed.
Print Assumptions gej_double32_correct.

(* ---- the constant-time unified addition secp256k1_gej_add_ge (45 field operations as calls); the specification add_ge_post is in Kernel/GejAddGe.v ---- *)
Require Import Kernel.GejAddGe Gen.gej_add_ge.

Theorem gej_add_ge_correct : forall inf x0 x1 x2 x3 x4 y0 y1 y2 y3 y4 z0 z1 z2 z3 z4 bx0 bx1 bx2 bx3 bx4 by0 by1 by2 by3 by4,
  (inf = 0 \/ inf = 1) ->
  bnd 8 8 x0 x1 x2 x3 x4 -> bnd 8 8 y0 y1 y2 y3 y4 -> bnd 16 16 z0 z1 z2 z3 z4 -> bnd 16 16 bx0 bx1 bx2 bx3 bx4 -> bnd 16 16 by0 by1 by2 by3 by4 ->
  gej_add_ge_k inf x0 x1 x2 x3 x4 y0 y1 y2 y3 y4 z0 z1 z2 z3 z4 bx0 bx1 bx2 bx3 bx4 by0 by1 by2 by3 by4
    (add_ge_post inf x0 x1 x2 x3 x4 y0 y1 y2 y3 y4 z0 z1 z2 z3 z4 bx0 bx1 bx2 bx3 bx4 by0 by1 by2 by3 by4).
Proof. exact Kernel.GejAddGe.gej_add_ge_correct. Qed.
Print Assumptions gej_add_ge_correct.

(* ---- 32-bit-limb configuration: zero test, conditional move and the constant-time unified addition ---- *)
Require Import Kernel.Field10x26Ntz Kernel.GejAddGe32 Gen.fe10x26_ntz Gen.fe10x26_cmov Gen.gej_add_ge32.

Theorem fe10x26_ntz_correct : forall r0 r1 r2 r3 r4 r5 r6 r7 r8 r9,
  0 <= r0 < 2^31 -> 0 <= r1 < 2^31 -> 0 <= r2 < 2^31 -> 0 <= r3 < 2^31 -> 0 <= r4 < 2^31 -> 0 <= r5 < 2^31 -> 0 <= r6 < 2^31 -> 0 <= r7 < 2^31 -> 0 <= r8 < 2^31 -> 0 <= r9 < 2^27 ->
  fe10x26_ntz r0 r1 r2 r3 r4 r5 r6 r7 r8 r9 = if (val10 r0 r1 r2 r3 r4 r5 r6 r7 r8 r9) mod P256 =? 0 then 1 else 0.
Proof. exact Kernel.Field10x26Ntz.fe10x26_ntz_correct. Qed.
Print Assumptions fe10x26_ntz_correct.

Theorem gej_add_ge32_correct : forall inf x0 x1 x2 x3 x4 x5 x6 x7 x8 x9 y0 y1 y2 y3 y4 y5 y6 y7 y8 y9 z0 z1 z2 z3 z4 z5 z6 z7 z8 z9 bx0 bx1 bx2 bx3 bx4 bx5 bx6 bx7 bx8 bx9 by0 by1 by2 by3 by4 by5 by6 by7 by8 by9,
  (inf = 0 \/ inf = 1) ->
  bnd32 8 8 x0 x1 x2 x3 x4 x5 x6 x7 x8 x9 -> bnd32 8 8 y0 y1 y2 y3 y4 y5 y6 y7 y8 y9 -> bnd32 16 16 z0 z1 z2 z3 z4 z5 z6 z7 z8 z9 -> bnd32 16 16 bx0 bx1 bx2 bx3 bx4 bx5 bx6 bx7 bx8 bx9 -> bnd32 16 16 by0 by1 by2 by3 by4 by5 by6 by7 by8 by9 ->
  gej_add_ge32_k inf x0 x1 x2 x3 x4 x5 x6 x7 x8 x9 y0 y1 y2 y3 y4 y5 y6 y7 y8 y9 z0 z1 z2 z3 z4 z5 z6 z7 z8 z9 bx0 bx1 bx2 bx3 bx4 bx5 bx6 bx7 bx8 bx9 by0 by1 by2 by3 by4 by5 by6 by7 by8 by9
    (add_ge_post32 inf x0 x1 x2 x3 x4 x5 x6 x7 x8 x9 y0 y1 y2 y3 y4 y5 y6 y7 y8 y9 z0 z1 z2 z3 z4 z5 z6 z7 z8 z9 bx0 bx1 bx2 bx3 bx4 bx5 bx6 bx7 bx8 bx9 by0 by1 by2 by3 by4 by5 by6 by7 by8 by9).
Proof. exact Kernel.GejAddGe32.gej_add_ge32_correct. Qed.
Print Assumptions gej_add_ge32_correct.

(* ---- the small group functions in the 32-bit-limb configuration ---- *)
Require Import Kernel.GroupSmall32 Gen.ge_set_gej_zinv32 Gen.ge_set_ge_zinv32 Gen.gej_rescale32.

Theorem ge_set_gej_zinv32_correct : forall inf zi0 zi1 zi2 zi3 zi4 zi5 zi6 zi7 zi8 zi9 x0 x1 x2 x3 x4 x5 x6 x7 x8 x9 y0 y1 y2 y3 y4 y5 y6 y7 y8 y9,
  lim32 8 zi0 zi1 zi2 zi3 zi4 zi5 zi6 zi7 zi8 zi9 -> lim32 8 x0 x1 x2 x3 x4 x5 x6 x7 x8 x9 -> lim32 8 y0 y1 y2 y3 y4 y5 y6 y7 y8 y9 ->
  ge_set_gej_zinv32_k inf zi0 zi1 zi2 zi3 zi4 zi5 zi6 zi7 zi8 zi9 x0 x1 x2 x3 x4 x5 x6 x7 x8 x9 y0 y1 y2 y3 y4 y5 y6 y7 y8 y9 (fun rinf rx0 rx1 rx2 rx3 rx4 rx5 rx6 rx7 rx8 rx9 ry0 ry1 ry2 ry3 ry4 ry5 ry6 ry7 ry8 ry9 =>
    let X := val10 x0 x1 x2 x3 x4 x5 x6 x7 x8 x9 in let Y := val10 y0 y1 y2 y3 y4 y5 y6 y7 y8 y9 in let ZI := val10 zi0 zi1 zi2 zi3 zi4 zi5 zi6 zi7 zi8 zi9 in
    rinf = inf /\ lim32 1 rx0 rx1 rx2 rx3 rx4 rx5 rx6 rx7 rx8 rx9 /\ lim32 1 ry0 ry1 ry2 ry3 ry4 ry5 ry6 ry7 ry8 ry9 /\
    cong (val10 rx0 rx1 rx2 rx3 rx4 rx5 rx6 rx7 rx8 rx9) (X * (ZI * ZI)) /\ cong (val10 ry0 ry1 ry2 ry3 ry4 ry5 ry6 ry7 ry8 ry9) (Y * (ZI * ZI * ZI))).
Proof. exact Kernel.GroupSmall32.ge_set_gej_zinv32_correct. Qed.
Print Assumptions ge_set_gej_zinv32_correct.

Theorem ge_set_ge_zinv32_correct : forall inf zi0 zi1 zi2 zi3 zi4 zi5 zi6 zi7 zi8 zi9 x0 x1 x2 x3 x4 x5 x6 x7 x8 x9 y0 y1 y2 y3 y4 y5 y6 y7 y8 y9,
  lim32 8 zi0 zi1 zi2 zi3 zi4 zi5 zi6 zi7 zi8 zi9 -> lim32 8 x0 x1 x2 x3 x4 x5 x6 x7 x8 x9 -> lim32 8 y0 y1 y2 y3 y4 y5 y6 y7 y8 y9 ->
  ge_set_ge_zinv32_k inf zi0 zi1 zi2 zi3 zi4 zi5 zi6 zi7 zi8 zi9 x0 x1 x2 x3 x4 x5 x6 x7 x8 x9 y0 y1 y2 y3 y4 y5 y6 y7 y8 y9 (fun rinf rx0 rx1 rx2 rx3 rx4 rx5 rx6 rx7 rx8 rx9 ry0 ry1 ry2 ry3 ry4 ry5 ry6 ry7 ry8 ry9 =>
    let X := val10 x0 x1 x2 x3 x4 x5 x6 x7 x8 x9 in let Y := val10 y0 y1 y2 y3 y4 y5 y6 y7 y8 y9 in let ZI := val10 zi0 zi1 zi2 zi3 zi4 zi5 zi6 zi7 zi8 zi9 in
    rinf = inf /\ lim32 1 rx0 rx1 rx2 rx3 rx4 rx5 rx6 rx7 rx8 rx9 /\ lim32 1 ry0 ry1 ry2 ry3 ry4 ry5 ry6 ry7 ry8 ry9 /\
    cong (val10 rx0 rx1 rx2 rx3 rx4 rx5 rx6 rx7 rx8 rx9) (X * (ZI * ZI)) /\ cong (val10 ry0 ry1 ry2 ry3 ry4 ry5 ry6 ry7 ry8 ry9) (Y * (ZI * ZI * ZI))).
Proof. exact Kernel.GroupSmall32.ge_set_ge_zinv32_correct. Qed.
Print Assumptions ge_set_ge_zinv32_correct.

Theorem gej_rescale32_correct : forall s0 s1 s2 s3 s4 s5 s6 s7 s8 s9 x0 x1 x2 x3 x4 x5 x6 x7 x8 x9 y0 y1 y2 y3 y4 y5 y6 y7 y8 y9 z0 z1 z2 z3 z4 z5 z6 z7 z8 z9,
  lim32 8 s0 s1 s2 s3 s4 s5 s6 s7 s8 s9 -> lim32 8 x0 x1 x2 x3 x4 x5 x6 x7 x8 x9 -> lim32 8 y0 y1 y2 y3 y4 y5 y6 y7 y8 y9 -> lim32 8 z0 z1 z2 z3 z4 z5 z6 z7 z8 z9 ->
  gej_rescale32_k s0 s1 s2 s3 s4 s5 s6 s7 s8 s9 x0 x1 x2 x3 x4 x5 x6 x7 x8 x9 y0 y1 y2 y3 y4 y5 y6 y7 y8 y9 z0 z1 z2 z3 z4 z5 z6 z7 z8 z9 (fun rx0 rx1 rx2 rx3 rx4 rx5 rx6 rx7 rx8 rx9 ry0 ry1 ry2 ry3 ry4 ry5 ry6 ry7 ry8 ry9 rz0 rz1 rz2 rz3 rz4 rz5 rz6 rz7 rz8 rz9 =>
    let X := val10 x0 x1 x2 x3 x4 x5 x6 x7 x8 x9 in let Y := val10 y0 y1 y2 y3 y4 y5 y6 y7 y8 y9 in let Z := val10 z0 z1 z2 z3 z4 z5 z6 z7 z8 z9 in let S := val10 s0 s1 s2 s3 s4 s5 s6 s7 s8 s9 in
    lim32 1 rx0 rx1 rx2 rx3 rx4 rx5 rx6 rx7 rx8 rx9 /\ lim32 1 ry0 ry1 ry2 ry3 ry4 ry5 ry6 ry7 ry8 ry9 /\ lim32 1 rz0 rz1 rz2 rz3 rz4 rz5 rz6 rz7 rz8 rz9 /\
    cong (val10 rx0 rx1 rx2 rx3 rx4 rx5 rx6 rx7 rx8 rx9) (X * (S * S)) /\ cong (val10 ry0 ry1 ry2 ry3 ry4 ry5 ry6 ry7 ry8 ry9) (Y * (S * S) * S) /\ cong (val10 rz0 rz1 rz2 rz3 rz4 rz5 rz6 rz7 rz8 rz9) (Z * S)).
Proof. exact Kernel.GroupSmall32.gej_rescale32_correct. Qed.
Print Assumptions gej_rescale32_correct.

