(* C01 - placeholder while the proofs are being built; replaced below *)
From Coq Require Import ZArith Lia.
Local Open Scope Z_scope.
Theorem verify_two_compares_iff_mod :
  forall n p x r, 0 < n -> n < p -> p < 2 * n -> 0 <= x < p -> 0 <= r < n ->
    ((x = r \/ (r < p - n /\ x = r + n)) <-> x mod n = r).
Proof.
  intros n p x r Hn Hnp Hp Hx Hr. split.
  - intros [->|[H ->]].
    + apply Z.mod_small; lia.
    + replace (r + n) with (r + 1 * n) by lia. rewrite Z.mod_add by lia. apply Z.mod_small; lia.
  - intros H. assert (x = n * (x / n) + x mod n) by (apply Z.div_mod; lia).
    assert (0 <= x / n) by (apply Z.div_pos; lia).
    assert (x / n < 2) by (apply Z.div_lt_upper_bound; lia).
    assert (x / n = 0 \/ x / n = 1) as [E|E] by lia; rewrite E in *; lia.
Qed.
Print Assumptions verify_two_compares_iff_mod.
