(* C01 - ECDSA verification and signing are exact over all inputs.
   Only statements here; proofs are in Proofs/EcdsaProofs.v and Proofs/EcdsaComplete.v.
   Model: Model/Ecdsa.v (tied to the C code by the correspondence check of ./check C01). *)
From Coq Require Import ZArith List Bool Lia.
Require Import Spec.Params Spec.Field Spec.Curve Spec.Bytes.
Require Import Model.Base Model.Der Model.Ecdsa.
Require Import Proofs.MathFacts Proofs.EcdsaProofs Proofs.EcdsaComplete Proofs.SecpConsts Proofs.Toy.
Import ListNotations.
Local Open Scope Z_scope.
Notation S := secp256k1.

(* The two x-coordinate comparisons of the verifier decide exactly  x(R) mod n = r. *)
Theorem verify_two_compares_iff_mod :
  forall x r, 0 <= x < cp S -> 0 <= r < cn S ->
    ((x = r \/ (r < cp S - cn S /\ x = r + cn S)) <-> x mod cn S = r).
Proof. exact (two_compares_iff_mod S secp_p_pos secp_n_pos secp_n_lt_p secp_p_lt_2n). Qed.
Print Assumptions verify_two_compares_iff_mod.

(* Verification returns 1 exactly for triples satisfying the ECDSA equation with 1 <= r < n, 1 <= s <= n/2;
   otherwise 0; no callback for a loadable key. *)
Theorem ecdsa_verify_exact :
  forall sigobj msg32 pkobj Q,
    pk_load pkobj = Some Q -> inr S Q -> 0 <= sig_obj_r sigobj < cn S ->
    let r := sig_obj_r sigobj in let s := sig_obj_s sigobj in let m := fst (sc_of_b32 S msg32) in
    (ecdsa_verify S sigobj msg32 pkobj = [AInt 1] <->
       (r <> 0 /\ s <> 0 /\ s <= cn S / 2 /\
        exists x y, verify_point S r s Q m = Some (x, y) /\ x mod cn S = r))
    /\ (ecdsa_verify S sigobj msg32 pkobj = [AInt 1] \/ ecdsa_verify S sigobj msg32 pkobj = [AInt 0]).
Proof.
  intros sigobj msg32 pkobj Q HL HQ Hr.
  exact (ecdsa_verify_exact S secp_p_pos secp_n_pos secp_n_lt_p secp_p_lt_2n sigobj msg32 pkobj Q HL HQ secp_G_inr Hr).
Qed.
Print Assumptions ecdsa_verify_exact.

(* A signature object with r = 0 or s = 0 (what failed parses and failed signing leave) never verifies. *)
Theorem zero_r_or_s_never_verifies :
  forall sigobj msg32 pkobj, sig_obj_r sigobj = 0 \/ sig_obj_s sigobj = 0 ->
    ecdsa_verify S sigobj msg32 pkobj = [AInt 0] \/ ecdsa_verify S sigobj msg32 pkobj = [AInt 0; AIll 1].
Proof. exact (zero_r_or_s_never_verifies S). Qed.
Print Assumptions zero_r_or_s_never_verifies.

(* Signing with an invalid key (0 or >= n) returns 0 and an all-zero signature, for EVERY nonce function. *)
Theorem sign_invalid_key_zero :
  forall kind msg32 seckey data, seckey_of_b32 S seckey = None ->
    ecdsa_sign S kind msg32 seckey data = [AInt 0; ABytes (zeros 64)] \/ ecdsa_sign S kind msg32 seckey data = abstain.
Proof. exact (sign_invalid_key S). Qed.
Print Assumptions sign_invalid_key_zero.
Theorem sign_recoverable_invalid_key_zero :
  forall kind msg32 seckey data, seckey_of_b32 S seckey = None ->
    ecdsa_sign_recoverable S kind msg32 seckey data = [AInt 0; ABytes (zeros 65)] \/ ecdsa_sign_recoverable S kind msg32 seckey data = abstain.
Proof. exact (sign_recoverable_invalid_key S). Qed.
Print Assumptions sign_recoverable_invalid_key_zero.

(* A nonce callback that fails at the attempt being made ends signing with failure. *)
Theorem sign_nonce_fail :
  forall fuel c kind msg32 seckey data d m, nonce_fn S kind msg32 seckey data c = None ->
    sign_loop S (Datatypes.S fuel) c kind msg32 seckey data d m = SignFail.
Proof. exact (sign_loop_nonce_fail S). Qed.
Print Assumptions sign_nonce_fail.

(* Every outcome of signing: (1, low-S signature) or (0, all-zero object) [or model out of fuel]. *)
Theorem sign_outcomes_low_s :
  forall kind msg32 seckey data,
    (exists r s, ecdsa_sign S kind msg32 seckey data = [AInt 1; ABytes (sig_obj r s)] /\ 0 <= s <= cn S / 2)
    \/ ecdsa_sign S kind msg32 seckey data = [AInt 0; ABytes (zeros 64)]
    \/ ecdsa_sign S kind msg32 seckey data = abstain.
Proof. exact (sign_outcomes S secp_n_pos secp_n_lt_p secp_p_lt_2n secp_n_odd). Qed.
Print Assumptions sign_outcomes_low_s.

(* What a successful run of the retry loop is: the first attempt whose nonce is a valid scalar giving non-zero r, s;
   no earlier attempt failed. *)
Theorem sign_is_first_valid_attempt :
  forall fuel c kind msg32 seckey data d m r s recid,
    sign_loop S fuel c kind msg32 seckey data d m = SignOk r s recid ->
    exists c' nonce32 k, (c <= c')%nat /\ nonce_fn S kind msg32 seckey data c' = Some nonce32 /\
      seckey_of_b32 S nonce32 = Some k /\ sig_sign S d m k = (true, r, s, recid) /\
      forall j, (c <= j < c')%nat -> nonce_fn S kind msg32 seckey data j <> None.
Proof. exact (sign_loop_ok S). Qed.
Print Assumptions sign_is_first_valid_attempt.

(* RFC 6979 is keyed with msg mod n: congruent messages give identical signatures. *)
Theorem sign_depends_on_msg_mod_n :
  forall kind msg32 msg32' seckey data, (kind = 0 \/ kind = 1) ->
    fst (sc_of_b32 S msg32) = fst (sc_of_b32 S msg32') ->
    ecdsa_sign S kind msg32 seckey data = ecdsa_sign S kind msg32' seckey data.
Proof. exact (sign_depends_on_msg_mod_n S). Qed.
Print Assumptions sign_depends_on_msg_mod_n.

(* [MF] What the signing core produces, the verification core accepts under the key's public key. *)
Theorem sign_verifies :
  MathFacts S -> InvFacts S ->
  forall d m k r s recid, 0 < d < cn S -> 0 <= m < cn S -> 0 < k < cn S ->
    sig_sign S d m k = (true, r, s, recid) -> sig_verify S r s (pmul S d (G S)) m = true.
Proof. intros MF IF. exact (sign_verifies S MF IF secp_n_lt_p secp_p_lt_2n secp_G_inr). Qed.
Print Assumptions sign_verifies.

(* non-vacuity: on the toy curve the premises are theorems and a concrete signature exists *)
Example sign_verifies_toy :
  sig_sign toy 5 9 7 = (true, 25, 3, 1) /\ sig_verify toy 25 3 (pmul toy 5 (G toy)) 9 = true.
Proof. split; vm_compute; reflexivity. Qed.
Example sign_verifies_toy_by_theorem :
  forall d m k r s recid, 0 < d < 31 -> 0 <= m < 31 -> 0 < k < 31 ->
    sig_sign toy d m k = (true, r, s, recid) -> sig_verify toy r s (pmul toy d (G toy)) m = true.
Proof. exact (Proofs.EcdsaComplete.sign_verifies toy toy_MathFacts toy_InvFacts toy_n_lt_p toy_p_lt_2n toy_G_inr). Qed.
