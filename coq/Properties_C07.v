(* C07 - Untrusted bytes never cause undefined behaviour or callback aborts (PARTIAL: logic proved on the
   model, memory safety of the compiled code observed under ASan/UBSan).
   Proved here, for ALL byte strings: the parser/verifier models return only 0 or 1 and raise no callback on
   loadable objects; the DER parser's result cannot depend on any byte outside its input (default-irrelevance);
   parsed public keys are always finite on-curve points (so no consumer can abort on them).
   The other modules' acceptance-set and no-leak theorems are in Properties_C08/C10/C11/C12/C14/C16/C17/C19.
   Observed by ./check C07 on the implementation built with -fsanitize=address,undefined: every entry point on
   the corpus of all API families, on content/length mutations of every serialized input, and on random
   strings of every length; allocation deltas; illegal/error callback counts. *)
From Coq Require Import ZArith List Bool.
Require Import Spec.Params Spec.Field Spec.Curve Spec.Bytes.
Require Import Model.Base Model.Keys Model.Der Model.Ecdsa Model.Schnorr.
Require Import Proofs.BytesLemmas Proofs.EcdsaProofs Proofs.DerProofs Proofs.DerSafe Proofs.PubkeyProofs Proofs.SchnorrProofs Proofs.SecpConsts.
Import ListNotations.
Local Open Scope Z_scope.
Notation S := secp256k1.

Theorem der_parse_returns_0_or_1 : forall input,
  ecdsa_signature_parse_der S input = [AInt 0; ABytes (zeros 64)] \/
  exists r s, ecdsa_signature_parse_der S input = [AInt 1; ABytes (sig_obj r s)] /\ 0 <= r < cn S /\ 0 <= s < cn S.
Proof. exact (Proofs.DerProofs.der_parse_outcomes S secp_n_pos). Qed.
Print Assumptions der_parse_returns_0_or_1.

Theorem der_integer_result_independent_of_bytes_outside_input : forall d inp,
  bytes_okP inp -> der_parse_integer_d S d inp = der_parse_integer S inp.
Proof. exact (der_parse_integer_default_irrelevant S). Qed.
Print Assumptions der_integer_result_independent_of_bytes_outside_input.

Theorem parsed_pubkey_is_finite_on_curve : forall b Q, eckey_pubkey_parse S b = Some Q ->
  Q <> None /\ on_curve S Q = true /\
  ((length b = 33%nat /\ (nth 0 b 0 = 2 \/ nth 0 b 0 = 3)) \/ (length b = 65%nat /\ (nth 0 b 0 = 4 \/ nth 0 b 0 = 6 \/ nth 0 b 0 = 7))).
Proof. exact (Proofs.PubkeyProofs.pubkey_parse_sound S secp_p_pos). Qed.
Print Assumptions parsed_pubkey_is_finite_on_curve.

Theorem schnorr_verify_returns_0_or_1_without_callback : forall sig64 msg xobj Q, pk_load xobj = Some Q ->
  schnorrsig_verify S sig64 msg xobj = [AInt 0] \/ schnorrsig_verify S sig64 msg xobj = [AInt 1].
Proof. exact (Proofs.SchnorrProofs.verify_outcomes S). Qed.
Print Assumptions schnorr_verify_returns_0_or_1_without_callback.

Theorem ecdsa_verify_returns_0_or_1_without_callback : forall sigobj msg32 pkobj Q,
  pk_load pkobj = Some Q -> inr S Q -> 0 <= sig_obj_r sigobj < cn S ->
  ecdsa_verify S sigobj msg32 pkobj = [AInt 1] \/ ecdsa_verify S sigobj msg32 pkobj = [AInt 0].
Proof.
  intros sigobj msg32 pkobj Q HL HQ Hr.
  exact (proj2 (Proofs.EcdsaProofs.ecdsa_verify_exact S secp_p_pos secp_n_pos secp_n_lt_p secp_p_lt_2n sigobj msg32 pkobj Q HL HQ secp_G_inr Hr)).
Qed.
Print Assumptions ecdsa_verify_returns_0_or_1_without_callback.
