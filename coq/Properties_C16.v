(* C16 - Whitelist proofs verify only for a real member of a non-empty key list.
   Theorems about the executable model Model/Whitelist.v.  [whitelist_verify] is the function the
   correspondence check runs against the C implementation; it is what the property demands.
   [whitelist_verify_as_coded] is the transcription of secp256k1_whitelist_verify of the unchanged tree:
   it is REFUTED for the empty ring by an explicit witness (finding F1, DESIGN.md section 6).
   [MF] = stated under the explicit premise MathFacts P (group law of the curve, p and n prime) and
   n < 2^256; all other theorems need no premise about the curve. *)
From Coq Require Import ZArith List Bool.
Require Import Spec.Params Spec.Curve Spec.Bytes Model.Base Model.Borromean Model.Whitelist Proofs.MathFacts Proofs.SurjectionProofs Proofs.WhitelistProofs.
Import ListNotations.
Local Open Scope Z_scope.

(* never for an empty key list: neither for a signature object over 0 keys nor for a key count 0 *)
Theorem verify_rejects_empty : forall P sig online offline n_keys W,
  ws_n sig = 0 \/ n_keys = 0 -> whitelist_verify P sig online offline n_keys W = false.
Proof. exact verify_rejects_empty_lemma. Qed.
Print Assumptions verify_rejects_empty.

(* F1: the function as coded on the unchanged tree DOES accept an empty key list - the 33-byte string
   00 || SHA256(SHA256(ser33(G))) parses and verifies against no keys for W = G (real secp256k1) *)
Theorem whitelist_verify_as_coded_accepts_empty_ring :
  exists sig W, whitelist_verify_as_coded secp256k1 sig [] [] 0 W = true.
Proof. exact as_coded_accepts_empty_ring_lemma. Qed.
Print Assumptions whitelist_verify_as_coded_accepts_empty_ring.

Theorem whitelist_verify_as_coded_empty_ring_witness :
  whitelist_verify_as_coded secp256k1 f1_sig [] [] 0 f1_W = true /\
  wl_parse (0 :: ws_data f1_sig) = Some f1_sig /\ length (0 :: ws_data f1_sig) = 33%nat.
Proof. exact as_coded_accepts_empty_ring_witness. Qed.
Print Assumptions whitelist_verify_as_coded_empty_ring_witness.

(* the repair changes nothing else: on non-empty rings both functions agree *)
Theorem verify_eq_as_coded_on_nonempty : forall P sig online offline n_keys W,
  ws_n sig <> 0 -> whitelist_verify P sig online offline n_keys W = whitelist_verify_as_coded P sig online offline n_keys W.
Proof. exact verify_eq_as_coded_nonempty_lemma. Qed.
Print Assumptions verify_eq_as_coded_on_nonempty.

Theorem verify_rejects_count_mismatch : forall P sig online offline n_keys W,
  ws_n sig <> n_keys -> whitelist_verify P sig online offline n_keys W = false.
Proof. exact (fun P => verify_rejects_count_mismatch_lemma P true). Qed.
Print Assumptions verify_rejects_count_mismatch.

Theorem verify_rejects_more_than_255_keys : forall P sig online offline n_keys W,
  255 < ws_n sig -> whitelist_verify P sig online offline n_keys W = false.
Proof. exact (fun P => verify_rejects_too_many_keys_lemma P true). Qed.
Print Assumptions verify_rejects_more_than_255_keys.

(* a stored ring scalar that is zero or >= n (this covers every re-encoding s + n) is rejected *)
Theorem verify_rejects_zero_or_big_scalar : forall P sig online offline n_keys W i,
  (i < Z.to_nat (ws_n sig))%nat ->
  be_val (sig_scalar_bytes sig i) = 0 \/ cn P <= be_val (sig_scalar_bytes sig i) ->
  whitelist_verify P sig online offline n_keys W = false.
Proof. exact (fun P => verify_rejects_zero_or_big_scalar_lemma P true). Qed.
Print Assumptions verify_rejects_zero_or_big_scalar.

(* verification returns 1 EXACTLY when 1 <= n_keys <= 255, counts agree, every stored scalar is in
   (0, n), and the Borromean ring signature over the keys online_i + H(offline_i + W)(offline_i + W) holds *)
Theorem verify_exact : forall P sig online offline n_keys W,
  0 < cn P -> 0 <= ws_n sig -> (forall i, 0 <= be_val (sig_scalar_bytes sig i)) ->
  (whitelist_verify P sig online offline n_keys W = true <->
   (1 <= ws_n sig <= 255 /\ ws_n sig = n_keys /\
    (forall i, (i < Z.to_nat (ws_n sig))%nat -> 0 < be_val (sig_scalar_bytes sig i) < cn P) /\
    borromean_verify P (firstn 32 (ws_data sig)) (map be_val (wl_chunks (ws_data sig) (Z.to_nat (ws_n sig))))
      (compute_keys P online offline (Z.to_nat (ws_n sig)) W) [Z.to_nat (ws_n sig)] 1
      (compute_message online offline (Z.to_nat (ws_n sig)) W) = true)).
Proof. exact verify_iff_lemma. Qed.
Print Assumptions verify_exact.

(* signing refuses a zero or out-of-range online / summed secret key: no signature, return value 0 *)
Theorem sign_rejects_bad_secret : forall P online offline nk W online_key summed_key index,
  (be_val online_key = 0 \/ cn P <= be_val online_key \/ be_val summed_key = 0 \/ cn P <= be_val summed_key) ->
  whitelist_sign_core P online offline nk W online_key summed_key index = WSignFail.
Proof. exact sign_rejects_bad_secret_lemma. Qed.
Print Assumptions sign_rejects_bad_secret.

Theorem api_sign_rejects_bad_secret : forall P online offline n_keys W online_key summed_key index,
  (be_val online_key = 0 \/ cn P <= be_val online_key \/ be_val summed_key = 0 \/ cn P <= be_val summed_key) ->
  exists rest, whitelist_sign P online offline n_keys W online_key summed_key index = AInt 0 :: rest.
Proof. exact api_sign_rejects_bad_secret_lemma. Qed.
Print Assumptions api_sign_rejects_bad_secret.

(* the serialized form is accepted only with at most 255 keys and its exact length 1 + 32*(n_keys + 1) *)
Theorem parse_exact : forall input : bytes,
  (exists s, wl_parse input = Some s) <->
  (input <> [] /\ nth 0 input 0 <= 255 /\ Z.of_nat (length input) = 1 + 32 * (nth 0 input 0 + 1)).
Proof. exact wl_parse_some_iff. Qed.
Print Assumptions parse_exact.

Theorem serialize_parse : forall input s, 0 <= nth 0 input 0 -> wl_parse input = Some s ->
  wl_serialize_bytes s = input /\ wsig_len (ws_n s) = Z.of_nat (length input).
Proof. exact wl_serialize_parse_lemma. Qed.
Print Assumptions serialize_parse.

Theorem parse_serialize : forall s, 0 <= ws_n s <= 255 ->
  (Z.to_nat (32 * (ws_n s + 1)) <= length (ws_data s))%nat ->
  wl_parse (wl_serialize_bytes s) = Some (mkWsig (ws_n s) (firstn (Z.to_nat (32 * (ws_n s + 1))) (ws_data s))).
Proof. exact wl_parse_serialize_lemma. Qed.
Print Assumptions parse_serialize.

(* [MF] sign => verify: for every key count 1..255 and every signer index, if signing succeeds with a secret
   matching the ring key at [index] and no ring key is the point at infinity, the signature verifies against
   exactly that key list and whitelisted key *)
Theorem sign_verifies : forall P, MathFacts P -> cn P < 2 ^ 256 ->
  forall online offline nk W online_key summed_key index sig sec,
  (1 <= nk <= 255)%nat -> (index < nk)%nat ->
  compute_tweaked_privkey P online_key summed_key = Some sec ->
  nth index (compute_keys P online offline nk W) None = Curve.pmul P sec (Curve.G P) ->
  forallb ninf (compute_keys P online offline nk W) = true ->
  whitelist_sign_core P online offline nk W online_key summed_key index = WSignOk sig ->
  whitelist_verify P sig online offline (Z.of_nat nk) W = true.
Proof. exact sign_verifies_lemma. Qed.
Print Assumptions sign_verifies.

(* [MF] the same in the property's own terms: the online secret is the discrete log of online_index, the
   summed secret that of offline_index + W *)
Theorem sign_verifies_honest : forall P, MathFacts P -> cn P < 2 ^ 256 ->
  forall online offline nk W online_key summed_key index sig,
  (1 <= nk <= 255)%nat -> (index < nk)%nat ->
  0 < be_val online_key < cn P -> 0 < be_val summed_key < cn P ->
  pk_pt (key_obj online index) = Curve.pmul P (be_val online_key) (Curve.G P) ->
  Curve.padd P (pk_pt (key_obj offline index)) (pk_pt W) = Curve.pmul P (be_val summed_key) (Curve.G P) ->
  forallb ninf (compute_keys P online offline nk W) = true ->
  whitelist_sign_core P online offline nk W online_key summed_key index = WSignOk sig ->
  whitelist_verify P sig online offline (Z.of_nat nk) W = true.
Proof. exact sign_verifies_honest_lemma. Qed.
Print Assumptions sign_verifies_honest.
