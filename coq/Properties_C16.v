(* C16 - placeholder while the proofs are being built; replaced below *)
From Coq Require Import ZArith.
Theorem placeholder_c16 : (1 + 1 = 2)%Z. Proof. reflexivity. Qed.
Print Assumptions placeholder_c16.
