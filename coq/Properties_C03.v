(* C03 - Key and signature encodings are strict, canonical and round-trip.
   Statements only; proofs in Proofs/DerProofs.v, Proofs/PubkeyProofs.v, Proofs/EcdsaProofs.v.
   Models: Model/Der.v, Model/Base.v (eckey_pubkey_parse), Model/Keys.v - tied to the C code by ./check C03. *)
From Coq Require Import ZArith List Bool Lia.
Require Import Spec.Params Spec.Field Spec.Curve Spec.Bytes.
Require Import Model.Base Model.Keys Model.Der Model.Ecdsa.
Require Import Proofs.BytesLemmas Proofs.EcdsaProofs Proofs.DerProofs Proofs.PubkeyProofs Proofs.SecpConsts.
Import ListNotations.
Local Open Scope Z_scope.
Notation S := secp256k1.
Lemma secp_n_le_2_256 : cn S <= 2 ^ 256. Proof. vm_compute. discriminate. Qed.
Lemma secp_p_le_2_256 : cp S <= 2 ^ 256. Proof. vm_compute. discriminate. Qed.

(* DER serialization: reports the needed size 6+lenR+lenS (<= 72) in every case, succeeds iff the buffer
   has at least that size, and what it writes parses back (strictly) to the same (r, s). *)
Theorem der_serialize_size_and_roundtrip :
  forall r s size, 0 <= r < cn S -> 0 <= s < cn S ->
    let '(ret, need, out) := ecdsa_sig_serialize size r s in
    need = 6 + Z.of_nat (length (der_int r)) + Z.of_nat (length (der_int s)) /\ need <= 72 /\
    (ret = 1 <-> need <= size) /\ (ret = 0 \/ ret = 1) /\
    (ret = 1 -> Z.of_nat (length out) = need /\ ecdsa_sig_parse S out = Some (r, s)).
Proof. exact (der_serialize_parse S secp_n_le_2_256). Qed.
Print Assumptions der_serialize_size_and_roundtrip.

(* The content bytes written for an integer are the minimal encoding: non-empty, at most 33 bytes,
   first byte < 0x80, a leading 0x00 only before a byte >= 0x80, value preserved. *)
Theorem der_int_minimal :
  forall v, 0 <= v < 2 ^ 256 ->
    let b := der_int v in
    bytes_okP b /\ hd_small b /\ der_minimal b /\ be_val b = v /\ (1 <= length b <= 33)%nat.
Proof. exact (der_int_spec). Qed.
Print Assumptions der_int_minimal.

(* The DER parser either rejects and leaves the all-zero object, or accepts with both scalars in [0,n). *)
Theorem der_parse_outcomes :
  forall input,
    ecdsa_signature_parse_der S input = [AInt 0; ABytes (zeros 64)] \/
    exists r s, ecdsa_signature_parse_der S input = [AInt 1; ABytes (sig_obj r s)] /\ 0 <= r < cn S /\ 0 <= s < cn S.
Proof. exact (der_parse_outcomes S secp_n_pos). Qed.
Print Assumptions der_parse_outcomes.

(* Compact parser: accepts iff r < n and s < n; otherwise the object is all-zero. *)
Theorem compact_parse_exact :
  forall input64,
    let r := be_val (firstn 32 input64) in let s := be_val (skipn 32 input64) in
    (r < cn S /\ s < cn S -> ecdsa_signature_parse_compact S input64 = [AInt 1; ABytes (sig_obj (r mod cn S) (s mod cn S))]) /\
    (~ (r < cn S /\ s < cn S) -> ecdsa_signature_parse_compact S input64 = [AInt 0; ABytes (zeros 64)]).
Proof. exact (compact_parse_exact S secp_n_pos). Qed.
Print Assumptions compact_parse_exact.

(* A signature object left by a failed parse (all-zero), or one with a zero scalar (what an out-of-range
   DER integer becomes), never verifies for any message and key. *)
Theorem failed_parse_never_verifies :
  forall msg32 pkobj,
    ecdsa_verify S (zeros 64) msg32 pkobj = [AInt 0] \/ ecdsa_verify S (zeros 64) msg32 pkobj = [AInt 0; AIll 1].
Proof. exact (zero_sig_never_verifies S). Qed.
Print Assumptions failed_parse_never_verifies.
Theorem zero_scalar_never_verifies :
  forall sigobj msg32 pkobj, sig_obj_r sigobj = 0 \/ sig_obj_s sigobj = 0 ->
    ecdsa_verify S sigobj msg32 pkobj = [AInt 0] \/ ecdsa_verify S sigobj msg32 pkobj = [AInt 0; AIll 1].
Proof. exact (zero_r_or_s_never_verifies S). Qed.
Print Assumptions zero_scalar_never_verifies.

(* Public keys: whatever the parser accepts is a finite on-curve point given with the right length and
   prefix; x-coordinate lifting only yields on-curve points. *)
Theorem pubkey_parse_sound :
  forall b Q, eckey_pubkey_parse S b = Some Q ->
    Q <> None /\ on_curve S Q = true /\
    ((length b = 33%nat /\ (nth 0 b 0 = 2 \/ nth 0 b 0 = 3)) \/
     (length b = 65%nat /\ (nth 0 b 0 = 4 \/ nth 0 b 0 = 6 \/ nth 0 b 0 = 7))).
Proof. exact (pubkey_parse_sound S secp_p_pos). Qed.
Print Assumptions pubkey_parse_sound.

(* Uncompressed serialization round-trips; hybrid encodings are accepted iff the prefix matches the parity
   of y, and then denote the same point (so they re-serialize to the uncompressed form). *)
Theorem pubkey_uncompressed_roundtrip :
  forall x y, on_curve S (Some (x, y)) = true -> eckey_pubkey_parse S (ser65 (Some (x, y))) = Some (Some (x, y)).
Proof. exact (uncompressed_roundtrip S secp_p_le_2_256). Qed.
Print Assumptions pubkey_uncompressed_roundtrip.
Theorem pubkey_hybrid_exact :
  forall tag x y, on_curve S (Some (x, y)) = true -> (tag = 4 \/ tag = 6 \/ tag = 7) ->
    eckey_pubkey_parse S (tag :: fe_to_b32 x ++ fe_to_b32 y) =
      if ((tag =? 6) || (tag =? 7)) && negb (Bool.eqb (Z.odd y) (tag =? 7)) then None else Some (Some (x, y)).
Proof. exact (parse_tagged65 S secp_p_le_2_256). Qed.
Print Assumptions pubkey_hybrid_exact.

(* Serialization buffer contract. *)
Theorem pubkey_serialize_buffer_contract :
  forall outlen obj flags,
    let need := if Z.testbit flags 8 then 33 else 65 in
    (outlen < need -> ec_pubkey_serialize outlen obj flags = [AInt 0; AInt outlen; AIll 1]) /\
    (need <= outlen -> Z.land flags 255 = 2 -> forall Q, pk_load obj = Some Q ->
       exists s, ec_pubkey_serialize outlen obj flags = [AInt 1; AInt need; ABytes (s ++ zeros (Z.to_nat outlen - length s))]
                 /\ s = (if Z.testbit flags 8 then ser33 Q else ser65 Q)).
Proof. exact serialize_contract. Qed.
Print Assumptions pubkey_serialize_buffer_contract.

(* non-vacuity: G is on the curve, its uncompressed encoding round-trips (instance of the theorem) *)
Example G_roundtrip : eckey_pubkey_parse S (ser65 (G S)) = Some (G S).
Proof. exact (pubkey_uncompressed_roundtrip (cgx S) (cgy S) secp_G_on_curve). Qed.

(* Over code REGENERATED from the C source (tools/c2coq.py): the byte-string-to-field-element conversion with range check used by
   every coordinate parser returns 1 exactly for values below p, and the limbs hold exactly the big-endian value - all 2^256 strings. *)
From Coq Require Import ZArith.
Require Import Kernel.Field5x52 Kernel.FieldSetB32 Gen.fe_impl_set_b32_limit.
Local Open Scope Z_scope.
Theorem fe_set_b32_limit_correct : forall a0 a1 a2 a3 a4 a5 a6 a7 a8 a9 a10 a11 a12 a13 a14 a15 a16 a17 a18 a19 a20 a21 a22 a23 a24 a25 a26 a27 a28 a29 a30 a31,
  0 <= a0 < 256 -> 0 <= a1 < 256 -> 0 <= a2 < 256 -> 0 <= a3 < 256 -> 0 <= a4 < 256 -> 0 <= a5 < 256 -> 0 <= a6 < 256 -> 0 <= a7 < 256 -> 0 <= a8 < 256 -> 0 <= a9 < 256 -> 0 <= a10 < 256 -> 0 <= a11 < 256 -> 0 <= a12 < 256 -> 0 <= a13 < 256 -> 0 <= a14 < 256 -> 0 <= a15 < 256 -> 0 <= a16 < 256 -> 0 <= a17 < 256 -> 0 <= a18 < 256 -> 0 <= a19 < 256 -> 0 <= a20 < 256 -> 0 <= a21 < 256 -> 0 <= a22 < 256 -> 0 <= a23 < 256 -> 0 <= a24 < 256 -> 0 <= a25 < 256 -> 0 <= a26 < 256 -> 0 <= a27 < 256 -> 0 <= a28 < 256 -> 0 <= a29 < 256 -> 0 <= a30 < 256 -> 0 <= a31 < 256 ->
  fe_impl_set_b32_limit_k a0 a1 a2 a3 a4 a5 a6 a7 a8 a9 a10 a11 a12 a13 a14 a15 a16 a17 a18 a19 a20 a21 a22 a23 a24 a25 a26 a27 a28 a29 a30 a31 (fun r0 r1 r2 r3 r4 ret =>
    (0 <= r0 < 2^52 /\ 0 <= r1 < 2^52 /\ 0 <= r2 < 2^52 /\ 0 <= r3 < 2^52 /\ 0 <= r4 < 2^48) /\
    val5 r0 r1 r2 r3 r4 = be32 a0 a1 a2 a3 a4 a5 a6 a7 a8 a9 a10 a11 a12 a13 a14 a15 a16 a17 a18 a19 a20 a21 a22 a23 a24 a25 a26 a27 a28 a29 a30 a31 /\
    ret = (if be32 a0 a1 a2 a3 a4 a5 a6 a7 a8 a9 a10 a11 a12 a13 a14 a15 a16 a17 a18 a19 a20 a21 a22 a23 a24 a25 a26 a27 a28 a29 a30 a31 <? P256 then 1 else 0)).
Proof. exact Kernel.FieldSetB32.fe_set_b32_limit_correct. Qed.
Print Assumptions fe_set_b32_limit_correct.

(* ---- 32-byte encodings of field elements and scalars (limb level): serialization of a normalized element, parsing and serialization of a scalar ---- *)
Require Import Kernel.Scalar4x64 Kernel.FieldGetB32 Kernel.ScalarB32 Gen.fe_impl_get_b32 Gen.scalar_set_b32 Gen.scalar_get_b32.

Theorem fe_get_b32_correct : forall n0 n1 n2 n3 n4,
  0 <= n0 < 2^52 -> 0 <= n1 < 2^52 -> 0 <= n2 < 2^52 -> 0 <= n3 < 2^52 -> 0 <= n4 < 2^48 ->
  fe_impl_get_b32_k n0 n1 n2 n3 n4 (fun r0 r1 r2 r3 r4 r5 r6 r7 r8 r9 r10 r11 r12 r13 r14 r15 r16 r17 r18 r19 r20 r21 r22 r23 r24 r25 r26 r27 r28 r29 r30 r31 =>
    Forall (fun b => 0 <= b < 256) [r0; r1; r2; r3; r4; r5; r6; r7; r8; r9; r10; r11; r12; r13; r14; r15; r16; r17; r18; r19; r20; r21; r22; r23; r24; r25; r26; r27; r28; r29; r30; r31] /\
    be32 r0 r1 r2 r3 r4 r5 r6 r7 r8 r9 r10 r11 r12 r13 r14 r15 r16 r17 r18 r19 r20 r21 r22 r23 r24 r25 r26 r27 r28 r29 r30 r31 = val5 n0 n1 n2 n3 n4).
Proof. exact Kernel.FieldGetB32.fe_get_b32_correct. Qed.
Print Assumptions fe_get_b32_correct.

Theorem scalar_set_b32_correct : forall a0 a1 a2 a3 a4 a5 a6 a7 a8 a9 a10 a11 a12 a13 a14 a15 a16 a17 a18 a19 a20 a21 a22 a23 a24 a25 a26 a27 a28 a29 a30 a31,
  0 <= a0 < 256 -> 0 <= a1 < 256 -> 0 <= a2 < 256 -> 0 <= a3 < 256 -> 0 <= a4 < 256 -> 0 <= a5 < 256 -> 0 <= a6 < 256 -> 0 <= a7 < 256 -> 0 <= a8 < 256 -> 0 <= a9 < 256 -> 0 <= a10 < 256 -> 0 <= a11 < 256 -> 0 <= a12 < 256 -> 0 <= a13 < 256 -> 0 <= a14 < 256 -> 0 <= a15 < 256 -> 0 <= a16 < 256 -> 0 <= a17 < 256 -> 0 <= a18 < 256 -> 0 <= a19 < 256 -> 0 <= a20 < 256 -> 0 <= a21 < 256 -> 0 <= a22 < 256 -> 0 <= a23 < 256 -> 0 <= a24 < 256 -> 0 <= a25 < 256 -> 0 <= a26 < 256 -> 0 <= a27 < 256 -> 0 <= a28 < 256 -> 0 <= a29 < 256 -> 0 <= a30 < 256 -> 0 <= a31 < 256 ->
  scalar_set_b32_k a0 a1 a2 a3 a4 a5 a6 a7 a8 a9 a10 a11 a12 a13 a14 a15 a16 a17 a18 a19 a20 a21 a22 a23 a24 a25 a26 a27 a28 a29 a30 a31 (fun r0 r1 r2 r3 over =>
    (0 <= r0 < 2^64 /\ 0 <= r1 < 2^64 /\ 0 <= r2 < 2^64 /\ 0 <= r3 < 2^64) /\
    val4 r0 r1 r2 r3 = be32 a0 a1 a2 a3 a4 a5 a6 a7 a8 a9 a10 a11 a12 a13 a14 a15 a16 a17 a18 a19 a20 a21 a22 a23 a24 a25 a26 a27 a28 a29 a30 a31 mod N256 /\
    over = (if N256 <=? be32 a0 a1 a2 a3 a4 a5 a6 a7 a8 a9 a10 a11 a12 a13 a14 a15 a16 a17 a18 a19 a20 a21 a22 a23 a24 a25 a26 a27 a28 a29 a30 a31 then 1 else 0)).
Proof. exact Kernel.ScalarB32.scalar_set_b32_correct. Qed.
Print Assumptions scalar_set_b32_correct.

Theorem scalar_get_b32_correct : forall d0 d1 d2 d3,
  0 <= d0 < 2^64 -> 0 <= d1 < 2^64 -> 0 <= d2 < 2^64 -> 0 <= d3 < 2^64 ->
  scalar_get_b32_k d0 d1 d2 d3 (fun r0 r1 r2 r3 r4 r5 r6 r7 r8 r9 r10 r11 r12 r13 r14 r15 r16 r17 r18 r19 r20 r21 r22 r23 r24 r25 r26 r27 r28 r29 r30 r31 =>
    Forall (fun b => 0 <= b < 256) [r0; r1; r2; r3; r4; r5; r6; r7; r8; r9; r10; r11; r12; r13; r14; r15; r16; r17; r18; r19; r20; r21; r22; r23; r24; r25; r26; r27; r28; r29; r30; r31] /\
    be32 r0 r1 r2 r3 r4 r5 r6 r7 r8 r9 r10 r11 r12 r13 r14 r15 r16 r17 r18 r19 r20 r21 r22 r23 r24 r25 r26 r27 r28 r29 r30 r31 = val4 d0 d1 d2 d3).
Proof. exact Kernel.ScalarB32.scalar_get_b32_correct. Qed.
Print Assumptions scalar_get_b32_correct.
