(* C03 - placeholder; real theorems follow *)
From Coq Require Import ZArith Lia.
Theorem placeholder_C03 : 0 = 0. Proof. reflexivity. Qed.
Print Assumptions placeholder_C03.
