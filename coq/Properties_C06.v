(* C06 - Secret-dependent data never steers branches or memory addresses (PARTIAL: source level).
   What is proved here, over Gallina REGENERATED from the C source on every run (tools/c2coq.py):
   the branch-free selection primitives on which every constant-time API relies compute exact
   selections for ALL operands.  That these functions (and the limb arithmetic listed in tools/kernel_gen.py,
   CT_FUNCS) contain no branch, loop, data-dependent index or division is a regenerated obligation of the
   check itself: the translator's input fragment cannot express any of those, so a change that introduces
   one (e.g. an early exit on a secret flag) makes the translation - hence the check - fail.
   Everything above the primitives (the composition of the signing/ECDH/MuSig/adaptor APIs) is covered by
   running the maintainers' own constant-time test under valgrind memcheck: an observation, not a theorem. *)
From Coq Require Import ZArith List Bool.
Require Import Kernel.CSem Kernel.CtPrimitives.
Require Import Gen.scalar_cmov Gen.fe_impl_cmov Gen.fe_storage_cmov Gen.scalar_is_zero.
Import ListNotations.
Local Open Scope Z_scope.

Theorem scalar_cmov_is_selection : forall r0 r1 r2 r3 a0 a1 a2 a3 flag,
  0 <= r0 < 2^64 -> 0 <= r1 < 2^64 -> 0 <= r2 < 2^64 -> 0 <= r3 < 2^64 ->
  0 <= a0 < 2^64 -> 0 <= a1 < 2^64 -> 0 <= a2 < 2^64 -> 0 <= a3 < 2^64 -> (flag = 0 \/ flag = 1) ->
  scalar_cmov r0 r1 r2 r3 a0 a1 a2 a3 flag = if flag =? 1 then [a0; a1; a2; a3] else [r0; r1; r2; r3].
Proof. exact scalar_cmov_correct. Qed.
Print Assumptions scalar_cmov_is_selection.

Theorem fe_cmov_is_selection : forall r0 r1 r2 r3 r4 a0 a1 a2 a3 a4 flag,
  0 <= r0 < 2^64 -> 0 <= r1 < 2^64 -> 0 <= r2 < 2^64 -> 0 <= r3 < 2^64 -> 0 <= r4 < 2^64 ->
  0 <= a0 < 2^64 -> 0 <= a1 < 2^64 -> 0 <= a2 < 2^64 -> 0 <= a3 < 2^64 -> 0 <= a4 < 2^64 -> (flag = 0 \/ flag = 1) ->
  fe_impl_cmov r0 r1 r2 r3 r4 a0 a1 a2 a3 a4 flag = if flag =? 1 then [a0; a1; a2; a3; a4] else [r0; r1; r2; r3; r4].
Proof. exact fe_cmov_correct. Qed.
Print Assumptions fe_cmov_is_selection.

Theorem fe_storage_cmov_is_selection : forall r0 r1 r2 r3 a0 a1 a2 a3 flag,
  0 <= r0 < 2^64 -> 0 <= r1 < 2^64 -> 0 <= r2 < 2^64 -> 0 <= r3 < 2^64 ->
  0 <= a0 < 2^64 -> 0 <= a1 < 2^64 -> 0 <= a2 < 2^64 -> 0 <= a3 < 2^64 -> (flag = 0 \/ flag = 1) ->
  fe_storage_cmov r0 r1 r2 r3 a0 a1 a2 a3 flag = if flag =? 1 then [a0; a1; a2; a3] else [r0; r1; r2; r3].
Proof. exact fe_storage_cmov_correct. Qed.
Print Assumptions fe_storage_cmov_is_selection.

Theorem scalar_is_zero_exact : forall d0 d1 d2 d3, 0 <= d0 -> 0 <= d1 -> 0 <= d2 -> 0 <= d3 ->
  scalar_is_zero d0 d1 d2 d3 = if (d0 =? 0) && (d1 =? 0) && (d2 =? 0) && (d3 =? 0) then 1 else 0.
Proof. exact scalar_is_zero_correct. Qed.
Print Assumptions scalar_is_zero_exact.
