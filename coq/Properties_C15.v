(* C15 - sign-to-contract and the ECDSA anti-exfil protocol.  Only statements here; proofs are in
   Proofs/S2cProofs.v.  Model: Model/S2c.v (tied to the C code by the correspondence check of ./check C15). *)
From Coq Require Import ZArith List Bool Lia.
Require Import Spec.Params Spec.Field Spec.Curve Spec.Bytes Spec.Sha256.
Require Import Model.Base Model.Keys Model.Der Model.Ecdsa Model.S2c.
Require Import Proofs.MathFacts Proofs.EcdsaProofs Proofs.SecpConsts Proofs.Toy Proofs.AdaptorProofs Proofs.S2cProofs Proofs.S2cComplete.
Import ListNotations.
Local Open Scope Z_scope.
Notation S := secp256k1.

(* The two midstates hard-coded in the C code are the SHA-256 states after SHA256(tag)||SHA256(tag). *)
Theorem s2c_midstates_correct :
  tagged_midstate tag_s2c_point = midstate_s2c_point /\ tagged_midstate tag_s2c_data = midstate_s2c_data.
Proof. exact s2c_midstates_correct. Qed.
Print Assumptions s2c_midstates_correct.

(* The host commitment is the tagged hash "s2c/ecdsa/data" of rho - the very value s2c_sign feeds to RFC 6979. *)
Theorem host_commit_is_tagged_hash :
  forall rho, anti_exfil_host_commit rho = [AInt 1; ABytes (tagged_hash tag_s2c_data rho)].
Proof. exact host_commit_is_tagged_hash. Qed.
Print Assumptions host_commit_is_tagged_hash.
Theorem s2c_data_hash_is_tagged_hash :
  forall data, s2c_data_hash data = tagged_hash tag_s2c_data data.
Proof. exact s2c_data_hash_is_tagged_hash. Qed.
Print Assumptions s2c_data_hash_is_tagged_hash.

(* THE KEY ONE.  The opening computed by anti_exfil_signer_commit from the host's commitment to rho equals the
   opening exported by s2c_sign with the revealed rho - for ALL byte strings msg32 (values >= n included),
   seckey and rho.  Proved from the two separately written loops of the model (s2c_sign_loop: nonce derived
   inside the signing loop, data = tagged hash of rho; signer_commit_loop: default nonce function on the
   received commitment).  The model is independent of the context's compression function by construction;
   that the C code is too is what the correspondence check exercises with a replaced implementation. *)
Theorem signer_commit_eq_sign_opening :
  forall msg32 seckey rho sig opening,
    ecdsa_s2c_sign S msg32 seckey rho true = [AInt 1; ABytes sig; ABytes opening] ->
    forall c, anti_exfil_host_commit rho = [AInt 1; ABytes c] ->
    anti_exfil_signer_commit S msg32 seckey c = [AInt 1; ABytes opening].
Proof. exact (signer_commit_eq_sign_opening S). Qed.
Print Assumptions signer_commit_eq_sign_opening.

(* Loop level and stronger: for every fuel, start counter, key scalar d and message scalar m, also when signing
   eventually FAILS after having stored an opening (invalid key, tweak overflow).  The only excluded outcomes are
   the model's abstentions: out of fuel, and the retry after a tweaked nonce gave r = 0 or s = 0 (there the C
   code would overwrite the opening with the next nonce - probability 2^-255 per attempt). *)
Theorem signer_commit_eq_sign_opening_loops :
  forall fuel counter msg32 seckey rho d m,
    match s2c_sign_loop S fuel counter msg32 seckey (s2c_data_hash rho) rho d m with
    | S2cOk _ _ Q => signer_commit_loop S fuel counter msg32 seckey (sha256_from midstate_s2c_data 64 rho) = Some Q
    | S2cFail (Some Q) => signer_commit_loop S fuel counter msg32 seckey (sha256_from midstate_s2c_data 64 rho) = Some Q
    | S2cFail None => False
    | S2cRetryAfterTweak => True
    | S2cOutOfFuel => True
    end.
Proof. exact (loops_agree S). Qed.
Print Assumptions signer_commit_eq_sign_opening_loops.

(* Whole protocol run with the same randomness: the two openings are equal. *)
Theorem protocol_openings_equal :
  forall msg32 seckey pkobj rho c o1 sig o2 rest,
    anti_exfil_protocol S msg32 seckey pkobj rho rho = ABytes c :: ABytes o1 :: AInt 1 :: ABytes sig :: ABytes o2 :: rest ->
    o1 = o2.
Proof. exact (protocol_openings_equal S). Qed.
Print Assumptions protocol_openings_equal.

(* verify_commit accepts exactly when: the opening loads as a point Q, the tweak t = H_point(Q || data) is < n,
   C = Q + t*G is not infinity, and r = C.x mod n (s is not looked at, C.x >= n is reduced silently). *)
Theorem verify_commit_exact :
  forall sigobj data32 obj,
    ecdsa_s2c_verify_commit S sigobj data32 obj = [AInt 1] <->
    exists Q C,
      pk_load obj = Some Q /\ Q <> None /\
      let t := be_val (sha256_from midstate_s2c_point 64 (ser33 Q ++ data32)) in
      t < cn S /\ C = padd S Q (pmul S (t mod cn S) (G S)) /\ C <> None /\
      be_val (firstn 32 sigobj) mod cn S = be_val (fe_to_b32 (px C)) mod cn S.
Proof. exact (verify_commit_exact S). Qed.
Print Assumptions verify_commit_exact.
Theorem verify_commit_results :
  forall sigobj data32 obj,
    ecdsa_s2c_verify_commit S sigobj data32 obj = [AInt 1] \/
    ecdsa_s2c_verify_commit S sigobj data32 obj = [AInt 0] \/
    ecdsa_s2c_verify_commit S sigobj data32 obj = [AInt 0; AIll 1] /\ pk_load obj = None.
Proof. exact (verify_commit_ret S). Qed.
Print Assumptions verify_commit_results.
Theorem commit_tweak_is_tagged_hash :
  forall Q data tw, ec_commit_tweak midstate_s2c_point Q data = Some tw -> tw = tagged_hash tag_s2c_point (ser33 Q ++ data).
Proof. exact ec_commit_tweak_is_tagged_hash. Qed.
Print Assumptions commit_tweak_is_tagged_hash.

(* host_verify = verify_commit && ecdsa_verify (left to right, short-circuit) *)
Theorem host_verify_exact :
  forall sigobj msg32 pkobj host_data32 obj,
    anti_exfil_host_verify S sigobj msg32 pkobj host_data32 obj =
      (if ret_of (ecdsa_s2c_verify_commit S sigobj host_data32 obj) =? 1
       then ecdsa_verify S sigobj msg32 pkobj
       else ecdsa_s2c_verify_commit S sigobj host_data32 obj)
    /\
    (ret_of (anti_exfil_host_verify S sigobj msg32 pkobj host_data32 obj) = 1 <->
     ret_of (ecdsa_s2c_verify_commit S sigobj host_data32 obj) = 1 /\
     ret_of (ecdsa_verify S sigobj msg32 pkobj) = 1).
Proof. exact (host_verify_exact S). Qed.
Print Assumptions host_verify_exact.

(* signing failures leave an all-zero signature; an invalid key always fails *)
Theorem s2c_sign_failure_zeroes :
  forall msg32 seckey data32 w,
    ecdsa_s2c_sign S msg32 seckey data32 w = abstain \/
    ecdsa_s2c_sign S msg32 seckey data32 w = [AInt 0; ABytes (zeros 64)] \/
    exists r s, firstn 2 (ecdsa_s2c_sign S msg32 seckey data32 w) = [AInt 1; ABytes (sig_obj r s)].
Proof. exact (s2c_sign_failure_zeroes S). Qed.
Print Assumptions s2c_sign_failure_zeroes.
Theorem s2c_sign_rejects_invalid_seckey :
  forall msg32 seckey data32 w, seckey_of_b32 S seckey = None ->
    ecdsa_s2c_sign S msg32 seckey data32 w = abstain \/ ecdsa_s2c_sign S msg32 seckey data32 w = [AInt 0; ABytes (zeros 64)].
Proof. exact (s2c_sign_rejects_invalid_seckey S). Qed.
Print Assumptions s2c_sign_rejects_invalid_seckey.
Theorem anti_exfil_sign_eq_s2c_sign :
  forall msg32 seckey rho sig opening,
    ecdsa_s2c_sign S msg32 seckey rho true = [AInt 1; ABytes sig; ABytes opening] ->
    anti_exfil_sign S msg32 seckey rho = [AInt 1; ABytes sig].
Proof. exact (anti_exfil_sign_eq S). Qed.
Print Assumptions anti_exfil_sign_eq_s2c_sign.

(* openings obtained from the parser *)
Theorem opening_parse_exact :
  forall tag xs o, length xs = 32%nat ->
    (s2c_opening_parse S (tag :: xs) = [AInt 1; ABytes o] <->
     exists Q, (tag = 2 \/ tag = 3) /\ be_val xs < cp S /\ lift_x S (be_val xs) (tag =? 3) = Q /\ Q <> None /\ o = pk_obj Q).
Proof. exact (opening_parse_exact S). Qed.
Print Assumptions opening_parse_exact.
Theorem opening_parse_rejects :
  forall tag xs, length xs = 32%nat ->
    (tag <> 2 /\ tag <> 3) \/ cp S <= be_val xs \/ lift_x S (be_val xs) (tag =? 3) = None ->
    s2c_opening_parse S (tag :: xs) = [AInt 0].
Proof. exact (opening_parse_rejects S). Qed.
Print Assumptions opening_parse_rejects.

(* ---- completeness, under the mathematical premises about the curve (explicit hypotheses, not axioms) ---- *)
(* [MF] Whenever the signing loop succeeds with opening Q and signature (r, s): the commitment
   C = Q + H_point(Q || data)*G exists, is a curve point, and r = C.x mod n - for every fuel, counter, key, message. *)
Theorem s2c_commit_verifies :
  MathFacts S ->
  forall fuel counter msg32 seckey ndata data32 d m r s Q,
    s2c_sign_loop S fuel counter msg32 seckey ndata data32 d m = S2cOk r s Q ->
    exists x y, ec_commit S midstate_s2c_point Q data32 = Some (Some (x, y)) /\ r = x mod cn S /\ oc S (Some (x, y)).
Proof. intro MF. exact (s2c_loop_commits S MF). Qed.
Print Assumptions s2c_commit_verifies.

(* [MF] API level: the (signature, datum, opening) triple returned by s2c_sign passes verify_commit, provided the
   opening object loads back as the point it was saved from (pk_load_pk_obj: true for every curve point with x <> 0). *)
Theorem s2c_sign_commit_verifies :
  MathFacts S ->
  forall msg32 seckey data32 sig opening,
    ecdsa_s2c_sign S msg32 seckey data32 true = [AInt 1; ABytes sig; ABytes opening] ->
    exists Q, opening = pk_obj Q /\
      (pk_load opening = Some Q -> ecdsa_s2c_verify_commit S sig data32 opening = [AInt 1]).
Proof. intro MF. exact (s2c_sign_commit_verifies_fuel S MF (Z.lt_le_incl _ _ secp_p_lt_2_256) secp_n_lt_p sign_fuel). Qed.
Print Assumptions s2c_sign_commit_verifies.
Theorem opening_object_loads_back :
  forall x y, oc S (Some (x, y)) -> x <> 0 -> pk_load (pk_obj (Some (x, y))) = Some (Some (x, y)).
Proof. exact (pk_load_pk_obj S (Z.lt_le_incl _ _ secp_p_lt_2_256)). Qed.
Print Assumptions opening_object_loads_back.

(* [MF, InvFacts] the signature satisfies the ECDSA verification equation for the key d*G and message m *)
Theorem s2c_sign_valid :
  MathFacts S -> InvFacts S ->
  forall fuel counter msg32 seckey ndata data32 d m r s Q,
    0 < d < cn S -> 0 <= m < cn S ->
    s2c_sign_loop S fuel counter msg32 seckey ndata data32 d m = S2cOk r s Q ->
    sig_verify S r s (pmul S d (G S)) m = true.
Proof. intros MF IF. exact (s2c_loop_sig_valid S MF secp_n_lt_p IF secp_p_lt_2n secp_G_inr). Qed.
Print Assumptions s2c_sign_valid.

(* the premises are satisfiable: on the toy curve y^2 = x^3 + 7 over F_43 they are PROVED, and the theorems hold there unconditionally *)
Example premises_satisfiable : MathFacts toy /\ InvFacts toy.
Proof. exact (conj toy_MathFacts toy_InvFacts). Qed.
Example s2c_commit_verifies_toy :
  forall fuel counter msg32 seckey ndata data32 d m r s Q,
    s2c_sign_loop toy fuel counter msg32 seckey ndata data32 d m = S2cOk r s Q ->
    exists x y, ec_commit toy midstate_s2c_point Q data32 = Some (Some (x, y)) /\ r = x mod cn toy /\ oc toy (Some (x, y)).
Proof. exact (s2c_loop_commits toy toy_MathFacts). Qed.
