(* The 10x26 field primitives (the code 32-bit targets compile; translated with USE_FORCE_WIDEMUL_INT64) in weakest-precondition form,
   for composing callers that are translated as calls (Gen/gej_double32.v): addition, multiplication by a small constant, negation,
   halving.  The multiplication and squaring WP theorems are in Field10x26.v. *)
From Coq Require Import ZArith Lia List Bool.
Require Import Kernel.CSem Kernel.Field5x52 Kernel.Field10x26 Kernel.ScalarAdd.
Require Import Gen.fe10x26_add Gen.fe10x26_negate Gen.fe10x26_half Gen.fe10x26_mul_int.
Import ListNotations.
Local Open Scope Z_scope.
Ltac Zify.zify_post_hook ::= Z.div_mod_to_equations.

Lemma P256_val10 : val10 67107887 67108799 67108863 67108863 67108863 67108863 67108863 67108863 67108863 4194303 = P256.
Proof. reflexivity. Qed.

Theorem fe10x26_add_wp r0 r1 r2 r3 r4 r5 r6 r7 r8 r9 a0 a1 a2 a3 a4 a5 a6 a7 a8 a9 (Q : Z -> Z -> Z -> Z -> Z -> Z -> Z -> Z -> Z -> Z -> Prop) :
  0 <= r0 -> 0 <= r1 -> 0 <= r2 -> 0 <= r3 -> 0 <= r4 -> 0 <= r5 -> 0 <= r6 -> 0 <= r7 -> 0 <= r8 -> 0 <= r9 ->
  0 <= a0 -> 0 <= a1 -> 0 <= a2 -> 0 <= a3 -> 0 <= a4 -> 0 <= a5 -> 0 <= a6 -> 0 <= a7 -> 0 <= a8 -> 0 <= a9 ->
  r0 + a0 < 2^32 -> r1 + a1 < 2^32 -> r2 + a2 < 2^32 -> r3 + a3 < 2^32 -> r4 + a4 < 2^32 -> r5 + a5 < 2^32 -> r6 + a6 < 2^32 -> r7 + a7 < 2^32 -> r8 + a8 < 2^32 -> r9 + a9 < 2^32 ->
  (forall s0 s1 s2 s3 s4 s5 s6 s7 s8 s9, s0 = r0 + a0 -> s1 = r1 + a1 -> s2 = r2 + a2 -> s3 = r3 + a3 -> s4 = r4 + a4 -> s5 = r5 + a5 -> s6 = r6 + a6 -> s7 = r7 + a7 -> s8 = r8 + a8 -> s9 = r9 + a9 ->
     val10 s0 s1 s2 s3 s4 s5 s6 s7 s8 s9 = val10 r0 r1 r2 r3 r4 r5 r6 r7 r8 r9 + val10 a0 a1 a2 a3 a4 a5 a6 a7 a8 a9 -> Q s0 s1 s2 s3 s4 s5 s6 s7 s8 s9) ->
  fe10x26_add_k r0 r1 r2 r3 r4 r5 r6 r7 r8 r9 a0 a1 a2 a3 a4 a5 a6 a7 a8 a9 Q.
Proof.
  intros. unfold fe10x26_add_k, u32. cbv zeta. rewrite !Z.mod_small by lia.
  match goal with HQ : forall s0 : Z, _ |- _ => apply HQ end; try reflexivity. unfold val10. ring.
Qed.

Theorem fe10x26_mul_int_wp r0 r1 r2 r3 r4 r5 r6 r7 r8 r9 a (Q : Z -> Z -> Z -> Z -> Z -> Z -> Z -> Z -> Z -> Z -> Prop) :
  0 <= a < 2^31 -> 0 <= r0 -> 0 <= r1 -> 0 <= r2 -> 0 <= r3 -> 0 <= r4 -> 0 <= r5 -> 0 <= r6 -> 0 <= r7 -> 0 <= r8 -> 0 <= r9 ->
  r0 * a < 2^32 -> r1 * a < 2^32 -> r2 * a < 2^32 -> r3 * a < 2^32 -> r4 * a < 2^32 -> r5 * a < 2^32 -> r6 * a < 2^32 -> r7 * a < 2^32 -> r8 * a < 2^32 -> r9 * a < 2^32 ->
  (forall s0 s1 s2 s3 s4 s5 s6 s7 s8 s9, s0 = r0 * a -> s1 = r1 * a -> s2 = r2 * a -> s3 = r3 * a -> s4 = r4 * a -> s5 = r5 * a -> s6 = r6 * a -> s7 = r7 * a -> s8 = r8 * a -> s9 = r9 * a ->
     val10 s0 s1 s2 s3 s4 s5 s6 s7 s8 s9 = val10 r0 r1 r2 r3 r4 r5 r6 r7 r8 r9 * a -> Q s0 s1 s2 s3 s4 s5 s6 s7 s8 s9) ->
  fe10x26_mul_int_k r0 r1 r2 r3 r4 r5 r6 r7 r8 r9 a Q.
Proof.
  intros Ha ? ? ? ? ? ? ? ? ? ? ? ? ? ? ? ? ? ? ? ? HQ. unfold fe10x26_mul_int_k. cbv zeta.
  unfold u32. rewrite (Z.mod_small a) by lia.
  rewrite !Z.mod_small by (split; [apply Z.mul_nonneg_nonneg; lia | assumption]).
  apply HQ; try reflexivity. unfold val10. ring.
Qed.

(* negation at magnitude bound m: every limb is subtracted from the corresponding limb of 2(m+1)p; exact whenever no limb underflows *)
Theorem fe10x26_negate_wp a0 a1 a2 a3 a4 a5 a6 a7 a8 a9 m (Q : Z -> Z -> Z -> Z -> Z -> Z -> Z -> Z -> Z -> Z -> Prop) :
  0 <= m <= 31 ->
  0 <= a0 <= 2 * (m + 1) * 67107887 -> 0 <= a1 <= 2 * (m + 1) * 67108799 -> 0 <= a2 <= 2 * (m + 1) * 67108863 -> 0 <= a3 <= 2 * (m + 1) * 67108863 ->
  0 <= a4 <= 2 * (m + 1) * 67108863 -> 0 <= a5 <= 2 * (m + 1) * 67108863 -> 0 <= a6 <= 2 * (m + 1) * 67108863 -> 0 <= a7 <= 2 * (m + 1) * 67108863 ->
  0 <= a8 <= 2 * (m + 1) * 67108863 -> 0 <= a9 <= 2 * (m + 1) * 4194303 ->
  (forall r0 r1 r2 r3 r4 r5 r6 r7 r8 r9,
     r0 = 2 * (m + 1) * 67107887 - a0 -> r1 = 2 * (m + 1) * 67108799 - a1 -> r2 = 2 * (m + 1) * 67108863 - a2 -> r3 = 2 * (m + 1) * 67108863 - a3 ->
     r4 = 2 * (m + 1) * 67108863 - a4 -> r5 = 2 * (m + 1) * 67108863 - a5 -> r6 = 2 * (m + 1) * 67108863 - a6 -> r7 = 2 * (m + 1) * 67108863 - a7 ->
     r8 = 2 * (m + 1) * 67108863 - a8 -> r9 = 2 * (m + 1) * 4194303 - a9 ->
     val10 r0 r1 r2 r3 r4 r5 r6 r7 r8 r9 = 2 * (m + 1) * P256 - val10 a0 a1 a2 a3 a4 a5 a6 a7 a8 a9 -> Q r0 r1 r2 r3 r4 r5 r6 r7 r8 r9) ->
  fe10x26_negate_k a0 a1 a2 a3 a4 a5 a6 a7 a8 a9 m Q.
Proof.
  intros Hm H0 H1 H2 H3 H4 H5 H6 H7 H8 H9 HQ. unfold fe10x26_negate_k. cbv zeta.
  change (u64 (67107887 * 2)) with 134215774. change (u64 (67108799 * 2)) with 134217598. change (u64 (67108863 * 2)) with 134217726. change (u64 (4194303 * 2)) with 8388606.
  unfold u64. rewrite (Z.mod_small (m + 1)) by lia.
  rewrite (Z.mod_small (134215774 * (m + 1))), (Z.mod_small (134217598 * (m + 1))), (Z.mod_small (134217726 * (m + 1))), (Z.mod_small (8388606 * (m + 1))) by lia.
  unfold u32. rewrite !Z.mod_small by lia.
  apply HQ; try lia. rewrite <- P256_val10. unfold val10. lia.
Qed.

(* halving with the limb bounds of the result *)
Theorem fe10x26_half_wp t0 t1 t2 t3 t4 t5 t6 t7 t8 t9 (Q : Z -> Z -> Z -> Z -> Z -> Z -> Z -> Z -> Z -> Z -> Prop) :
  0 <= t0 < 2^31 -> 0 <= t1 < 2^31 -> 0 <= t2 < 2^31 -> 0 <= t3 < 2^31 -> 0 <= t4 < 2^31 -> 0 <= t5 < 2^31 -> 0 <= t6 < 2^31 -> 0 <= t7 < 2^31 -> 0 <= t8 < 2^31 -> 0 <= t9 < 2^27 ->
  (forall r0 r1 r2 r3 r4 r5 r6 r7 r8 r9,
    (0 <= 2 * r0 <= t0 + 2^27 /\ 0 <= 2 * r1 <= t1 + 2^27 /\ 0 <= 2 * r2 <= t2 + 2^27 /\ 0 <= 2 * r3 <= t3 + 2^27 /\ 0 <= 2 * r4 <= t4 + 2^27 /\
     0 <= 2 * r5 <= t5 + 2^27 /\ 0 <= 2 * r6 <= t6 + 2^27 /\ 0 <= 2 * r7 <= t7 + 2^27 /\ 0 <= 2 * r8 <= t8 + 2^27 /\ 0 <= 2 * r9 <= t9 + 2^22) ->
    2 * val10 r0 r1 r2 r3 r4 r5 r6 r7 r8 r9 = val10 t0 t1 t2 t3 t4 t5 t6 t7 t8 t9 + (t0 mod 2) * P256 -> Q r0 r1 r2 r3 r4 r5 r6 r7 r8 r9) ->
  fe10x26_half_k t0 t1 t2 t3 t4 t5 t6 t7 t8 t9 Q.
Proof.
  intros H0 H1 H2 H3 H4 H5 H6 H7 H8 H9 HQ. unfold fe10x26_half_k. cbv zeta.
  assert (L1 : forall x, 0 <= x -> Z.land x 1 = x mod 2) by (intros x Hx; change 1 with (Z.ones 1); apply Z.land_ones; lia).
  rewrite (L1 t0) by lia.
  assert (Hb2 : t0 mod 2 = 0 \/ t0 mod 2 = 1) by lia.
  assert (Hm : u32 (- (t0 mod 2)) / 2^6 = (t0 mod 2) * (2^26 - 1)) by (unfold u32; destruct Hb2 as [E|E]; rewrite E; reflexivity).
  rewrite Hm.
  assert (Hl0 : Z.land 67107887 ((t0 mod 2) * (2^26 - 1)) = (t0 mod 2) * 67107887) by (destruct Hb2 as [E|E]; rewrite E; reflexivity).
  assert (Hl1 : Z.land 67108799 ((t0 mod 2) * (2^26 - 1)) = (t0 mod 2) * 67108799) by (destruct Hb2 as [E|E]; rewrite E; reflexivity).
  assert (Hl9 : (t0 mod 2) * (2^26 - 1) / 2^4 = (t0 mod 2) * (2^22 - 1)) by (destruct Hb2 as [E|E]; rewrite E; reflexivity).
  rewrite Hl0, Hl1, Hl9. clear Hm Hl0 Hl1 Hl9.
  set (b := t0 mod 2) in *. assert (Hb : 0 <= b <= 1) by lia.
  unfold u32.
  rewrite (Z.mod_small (t0 + b * 67107887)), (Z.mod_small (t1 + b * 67108799)), (Z.mod_small (t2 + b * (2^26 - 1))), (Z.mod_small (t3 + b * (2^26 - 1))),
    (Z.mod_small (t4 + b * (2^26 - 1))), (Z.mod_small (t5 + b * (2^26 - 1))), (Z.mod_small (t6 + b * (2^26 - 1))), (Z.mod_small (t7 + b * (2^26 - 1))),
    (Z.mod_small (t8 + b * (2^26 - 1))), (Z.mod_small (t9 + b * (2^22 - 1))) by lia.
  rewrite !L1 by lia.
  set (u0 := t0 + b * 67107887). set (u1 := t1 + b * 67108799). set (u2 := t2 + b * (2^26 - 1)). set (u3 := t3 + b * (2^26 - 1)). set (u4 := t4 + b * (2^26 - 1)).
  set (u5 := t5 + b * (2^26 - 1)). set (u6 := t6 + b * (2^26 - 1)). set (u7 := t7 + b * (2^26 - 1)). set (u8 := t8 + b * (2^26 - 1)). set (u9 := t9 + b * (2^22 - 1)).
  assert (He : u0 mod 2 = 0) by (unfold u0, b; lia).
  rewrite (Z.mod_small (u1 mod 2 * 2^25)), (Z.mod_small (u2 mod 2 * 2^25)), (Z.mod_small (u3 mod 2 * 2^25)), (Z.mod_small (u4 mod 2 * 2^25)), (Z.mod_small (u5 mod 2 * 2^25)),
    (Z.mod_small (u6 mod 2 * 2^25)), (Z.mod_small (u7 mod 2 * 2^25)), (Z.mod_small (u8 mod 2 * 2^25)), (Z.mod_small (u9 mod 2 * 2^25)) by lia.
  rewrite (Z.mod_small (u0 / 2^1 + u1 mod 2 * 2^25)), (Z.mod_small (u1 / 2^1 + u2 mod 2 * 2^25)), (Z.mod_small (u2 / 2^1 + u3 mod 2 * 2^25)), (Z.mod_small (u3 / 2^1 + u4 mod 2 * 2^25)),
    (Z.mod_small (u4 / 2^1 + u5 mod 2 * 2^25)), (Z.mod_small (u5 / 2^1 + u6 mod 2 * 2^25)), (Z.mod_small (u6 / 2^1 + u7 mod 2 * 2^25)), (Z.mod_small (u7 / 2^1 + u8 mod 2 * 2^25)),
    (Z.mod_small (u8 / 2^1 + u9 mod 2 * 2^25)) by (unfold u0, u1, u2, u3, u4, u5, u6, u7, u8; lia).
  apply HQ.
  - unfold u0, u1, u2, u3, u4, u5, u6, u7, u8, u9 in *. repeat split; lia.
  - rewrite <- P256_val10. unfold val10. unfold u0, u1, u2, u3, u4, u5, u6, u7, u8, u9 in *. lia.
Qed.
