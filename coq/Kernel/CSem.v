(* Machine-integer semantics used by the generated kernel (x86-64 LP64 widths). *)
From Coq Require Import ZArith List.
Import ListNotations.
Local Open Scope Z_scope.
Definition u8 x := x mod 2^8.
Definition u16 x := x mod 2^16.
Definition u32 x := x mod 2^32.
Definition u64 x := x mod 2^64.
Definition u128 x := x mod 2^128.
Definition b2z (b : bool) : Z := if b then 1 else 0.
(* conversion to a signed type of width w: two's complement *)
Definition sN (w x : Z) : Z := let m := x mod 2^w in if m <? 2^(w-1) then m else m - 2^w.
