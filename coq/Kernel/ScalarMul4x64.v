(* The 4x64 scalar multiplication and squaring once more, over the bind-style translation (Gen/scalar_mul_512b.v,
   Gen/scalar_sqr_512b.v: the same C functions as Gen/scalar_mul_512.v / scalar_sqr_512.v), with the theorems in
   weakest-precondition form so that they compose with scalar_reduce_512 into secp256k1_scalar_mul / scalar_sqr. *)
From Coq Require Import ZArith Lia List Bool.
Require Import Kernel.CSem Kernel.Bind Kernel.Scalar4x64 Kernel.ScalarMul512 Kernel.ScalarSqr512 Kernel.Carry32.
Require Import Gen.scalar_mul_512b Gen.scalar_sqr_512b.
Import ListNotations.
Local Open Scope Z_scope.
Ltac Zify.zify_post_hook ::= Z.div_mod_to_equations.

(* the carry-chain facts of ScalarMul512.v / ScalarSqr512.v in equational form *)
Lemma muladd_eq c0 c1 c2 p t th tl n0 th2 n1 n2 :
  t = u128 p -> th = t / 2^64 -> tl = u64 t -> n0 = u64 (c0 + tl) -> th2 = u64 (th + u64 (b2z (n0 <? tl))) ->
  n1 = u64 (c1 + th2) -> n2 = u32 (c2 + u32 (b2z (n1 <? th2))) ->
  0 <= c0 < 2^64 -> 0 <= c1 < 2^64 -> 0 <= c2 < 2^31 -> 0 <= p <= (2^64 - 1) * (2^64 - 1) ->
  n0 + n1 * 2^64 + n2 * 2^128 = c0 + c1 * 2^64 + c2 * 2^128 + p /\ 0 <= n0 < 2^64 /\ 0 <= n1 < 2^64 /\ c2 <= n2 <= c2 + 1.
Proof. intros; subst; apply muladd_full; assumption. Qed.
Lemma muladd_fast_eq c0 c1 p t th tl n0 th2 n1 :
  t = u128 p -> th = t / 2^64 -> tl = u64 t -> n0 = u64 (c0 + tl) -> th2 = u64 (th + u64 (b2z (n0 <? tl))) -> n1 = u64 (c1 + th2) ->
  0 <= c0 < 2^64 -> 0 <= c1 -> 0 <= p <= (2^64 - 1) * (2^64 - 1) -> c0 + c1 * 2^64 + p < 2^128 ->
  n0 + n1 * 2^64 = c0 + c1 * 2^64 + p /\ 0 <= n0 < 2^64 /\ 0 <= n1 < 2^64.
Proof. intros; subst; apply muladd_fast_full; assumption. Qed.
Lemma muladd2_eq c0 c1 c2 p t th tl th2 c2a tl2 th2b n0 th2c c2b n1 n2 :
  t = u128 p -> th = t / 2^64 -> tl = u64 t -> th2 = u64 (th + th) -> c2a = u32 (c2 + u32 (b2z (th2 <? th))) ->
  tl2 = u64 (tl + tl) -> th2b = u64 (th2 + u64 (b2z (tl2 <? tl))) -> n0 = u64 (c0 + tl2) ->
  th2c = u64 (th2b + u64 (b2z (n0 <? tl2))) -> c2b = u32 (c2a + u32 (Z.land (b2z (n0 <? tl2)) (b2z (th2c =? 0)))) ->
  n1 = u64 (c1 + th2c) -> n2 = u32 (c2b + u32 (b2z (n1 <? th2c))) ->
  0 <= c0 < 2^64 -> 0 <= c1 < 2^64 -> 0 <= c2 < 2^31 -> 0 <= p <= (2^64 - 1) * (2^64 - 1) ->
  n0 + n1 * 2^64 + n2 * 2^128 = c0 + c1 * 2^64 + c2 * 2^128 + 2 * p /\ 0 <= n0 < 2^64 /\ 0 <= n1 < 2^64 /\ c2 <= n2 <= c2 + 3.
Proof. intros; subst; apply muladd2_full; assumption. Qed.

Ltac muladd_step :=
  do 7 bintro;
  lazymatch goal with
  | Ht : ?t = u128 ?p, Hth : ?th = ?t / 2^64, Htl : ?tl = u64 ?t, H0 : ?n0 = u64 (?c0 + ?tl),
    Hth2 : ?th2 = u64 (?th + u64 (b2z (?n0 <? ?tl))), H1 : ?n1 = u64 (?c1 + ?th2), H2 : ?n2 = u32 (?c2 + u32 (b2z (?n1 <? ?th2))) |- _ =>
    let A := fresh "A" in let B := fresh "B" in let C := fresh "C" in let D := fresh "D" in let S := fresh "S" in
    assert (A : 0 <= c0 < 2^64) by (first [assumption | timeout 120 lia]); assert (B : 0 <= c1 < 2^64) by (first [assumption | timeout 120 lia]);
    assert (C : 0 <= c2 < 2^31) by (first [assumption | timeout 120 lia]); assert (D : 0 <= p <= (2^64 - 1) * (2^64 - 1)) by (first [assumption | timeout 120 lia]);
    pose proof (muladd_eq c0 c1 c2 p t th tl n0 th2 n1 n2 Ht Hth Htl H0 Hth2 H1 H2 A B C D) as S;
    clear A B C D Ht Hth Htl H0 Hth2 H1 H2; split4 S
  end.
Ltac muladd_fast_step :=
  do 6 bintro;
  lazymatch goal with
  | Ht : ?t = u128 ?p, Hth : ?th = ?t / 2^64, Htl : ?tl = u64 ?t, H0 : ?n0 = u64 (?c0 + ?tl),
    Hth2 : ?th2 = u64 (?th + u64 (b2z (?n0 <? ?tl))), H1 : ?n1 = u64 (?c1 + ?th2) |- _ =>
    let A := fresh "A" in let B := fresh "B" in let C := fresh "C" in let D := fresh "D" in let S := fresh "S" in
    assert (A : 0 <= c0 < 2^64) by (first [assumption | timeout 120 lia]); assert (B : 0 <= c1) by (first [assumption | timeout 120 lia]);
    assert (C : 0 <= p <= (2^64 - 1) * (2^64 - 1)) by (first [assumption | timeout 120 lia]); assert (D : c0 + c1 * 2^64 + p < 2^128) by (first [assumption | timeout 120 lia]);
    pose proof (muladd_fast_eq c0 c1 p t th tl n0 th2 n1 Ht Hth Htl H0 Hth2 H1 A B C D) as S;
    clear A B C D Ht Hth Htl H0 Hth2 H1; split3 S
  end.
Ltac muladd2_step :=
  do 12 bintro;
  lazymatch goal with
  | Ht : ?t = u128 ?p, Hth : ?th = ?t / 2^64, Htl : ?tl = u64 ?t, Hth2 : ?th2 = u64 (?th + ?th), Hc2a : ?c2a = u32 (?c2 + u32 (b2z (?th2 <? ?th))),
    Htl2 : ?tl2 = u64 (?tl + ?tl), Hth2b : ?th2b = u64 (?th2 + u64 (b2z (?tl2 <? ?tl))), H0 : ?n0 = u64 (?c0 + ?tl2),
    Hth2c : ?th2c = u64 (?th2b + u64 (b2z (?n0 <? ?tl2))), Hc2b : ?c2b = u32 (?c2a + u32 (Z.land (b2z (?n0 <? ?tl2)) (b2z (?th2c =? 0)))),
    H1 : ?n1 = u64 (?c1 + ?th2c), H2 : ?n2 = u32 (?c2b + u32 (b2z (?n1 <? ?th2c))) |- _ =>
    let A := fresh "A" in let B := fresh "B" in let C := fresh "C" in let D := fresh "D" in let S := fresh "S" in
    assert (A : 0 <= c0 < 2^64) by (first [assumption | timeout 120 lia]); assert (B : 0 <= c1 < 2^64) by (first [assumption | timeout 120 lia]);
    assert (C : 0 <= c2 < 2^31) by (first [assumption | timeout 120 lia]); assert (D : 0 <= p <= (2^64 - 1) * (2^64 - 1)) by (first [assumption | timeout 120 lia]);
    pose proof (muladd2_eq c0 c1 c2 p t th tl th2 c2a tl2 th2b n0 th2c c2b n1 n2 Ht Hth Htl Hth2 Hc2a Htl2 Hth2b H0 Hth2c Hc2b H1 H2 A B C D) as S;
    clear A B C D Ht Hth Htl Hth2 Hc2a Htl2 Hth2b H0 Hth2c Hc2b H1 H2; split4 S
  end.
Ltac gen_prod64 a b :=
  let H := fresh "PB" in pose proof (mulb64 a b ltac:(assumption) ltac:(assumption)) as H; generalize dependent (a * b); intros ? ?.
Ltac subst_vars := repeat match goal with H : ?x = ?y |- _ => is_var x; first [is_var y | constr_eq y 0]; subst x end.
Ltac ranges := repeat match goal with |- (_ <= _ < _) /\ _ => split; [first [assumption | lia]|] end; first [assumption | lia].

Theorem scalar_mul_512b_wp a0 a1 a2 a3 b0 b1 b2 b3 :
  0 <= a0 < 2^64 -> 0 <= a1 < 2^64 -> 0 <= a2 < 2^64 -> 0 <= a3 < 2^64 ->
  0 <= b0 < 2^64 -> 0 <= b1 < 2^64 -> 0 <= b2 < 2^64 -> 0 <= b3 < 2^64 ->
  forall Q : Z -> Z -> Z -> Z -> Z -> Z -> Z -> Z -> Prop,
  (forall l0 l1 l2 l3 l4 l5 l6 l7,
    (0 <= l0 < 2^64 /\ 0 <= l1 < 2^64 /\ 0 <= l2 < 2^64 /\ 0 <= l3 < 2^64 /\ 0 <= l4 < 2^64 /\ 0 <= l5 < 2^64 /\ 0 <= l6 < 2^64 /\ 0 <= l7 < 2^64) /\
    val8 l0 l1 l2 l3 l4 l5 l6 l7 = val4 a0 a1 a2 a3 * val4 b0 b1 b2 b3 -> Q l0 l1 l2 l3 l4 l5 l6 l7) ->
  scalar_mul_512b_k a0 a1 a2 a3 b0 b1 b2 b3 Q.
Proof.
  intros Ha0 Ha1 Ha2 Ha3 Hb0 Hb1 Hb2 Hb3 Q HQ.
  assert (Hprod : val4 a0 a1 a2 a3 * val4 b0 b1 b2 b3 =
    a0*b0 + (a0*b1 + a1*b0) * 2^64 + (a0*b2 + a1*b1 + a2*b0) * 2^128 + (a0*b3 + a1*b2 + a2*b1 + a3*b0) * 2^192
    + (a1*b3 + a2*b2 + a3*b1) * 2^256 + (a2*b3 + a3*b2) * 2^320 + a3*b3 * 2^384) by (unfold val4; ring).
  rewrite Hprod in HQ. clear Hprod. revert HQ.
  unfold scalar_mul_512b_k.
  gen_prod64 a0 b0. gen_prod64 a0 b1. gen_prod64 a0 b2. gen_prod64 a0 b3. gen_prod64 a1 b0. gen_prod64 a1 b1. gen_prod64 a1 b2. gen_prod64 a1 b3.
  gen_prod64 a2 b0. gen_prod64 a2 b1. gen_prod64 a2 b2. gen_prod64 a2 b3. gen_prod64 a3 b0. gen_prod64 a3 b1. gen_prod64 a3 b2. gen_prod64 a3 b3.
  clear Ha0 Ha1 Ha2 Ha3 Hb0 Hb1 Hb2 Hb3.
  intro HQ. hide HQ.
  repeat first [ muladd_step | muladd_fast_step | keep_step ].
  cbv beta. unhide HQ. apply HQ. clear HQ. unfold val8. subst_vars. split; [ranges|]. lia.
Qed.

Theorem scalar_sqr_512b_wp a0 a1 a2 a3 :
  0 <= a0 < 2^64 -> 0 <= a1 < 2^64 -> 0 <= a2 < 2^64 -> 0 <= a3 < 2^64 ->
  forall Q : Z -> Z -> Z -> Z -> Z -> Z -> Z -> Z -> Prop,
  (forall l0 l1 l2 l3 l4 l5 l6 l7,
    (0 <= l0 < 2^64 /\ 0 <= l1 < 2^64 /\ 0 <= l2 < 2^64 /\ 0 <= l3 < 2^64 /\ 0 <= l4 < 2^64 /\ 0 <= l5 < 2^64 /\ 0 <= l6 < 2^64 /\ 0 <= l7 < 2^64) /\
    val8 l0 l1 l2 l3 l4 l5 l6 l7 = val4 a0 a1 a2 a3 * val4 a0 a1 a2 a3 -> Q l0 l1 l2 l3 l4 l5 l6 l7) ->
  scalar_sqr_512b_k a0 a1 a2 a3 Q.
Proof.
  intros Ha0 Ha1 Ha2 Ha3 Q HQ.
  assert (Hprod : val4 a0 a1 a2 a3 * val4 a0 a1 a2 a3 =
    a0*a0 + (2*(a0*a1)) * 2^64 + (2*(a0*a2) + a1*a1) * 2^128 + (2*(a0*a3) + 2*(a1*a2)) * 2^192
    + (2*(a1*a3) + a2*a2) * 2^256 + (2*(a2*a3)) * 2^320 + a3*a3 * 2^384) by (unfold val4; ring).
  rewrite Hprod in HQ. clear Hprod. revert HQ.
  unfold scalar_sqr_512b_k.
  gen_prod64 a0 a0. gen_prod64 a0 a1. gen_prod64 a0 a2. gen_prod64 a0 a3. gen_prod64 a1 a1. gen_prod64 a1 a2. gen_prod64 a1 a3.
  gen_prod64 a2 a2. gen_prod64 a2 a3. gen_prod64 a3 a3.
  clear Ha0 Ha1 Ha2 Ha3.
  intro HQ. hide HQ.
  repeat first [ muladd2_step | muladd_step | muladd_fast_step | keep_step ].
  cbv beta. unhide HQ. apply HQ. clear HQ. unfold val8. subst_vars. split; [ranges|]. lia.
Qed.
