(* Proofs ABOUT further regenerated primitives: fe_impl_mul_int_unchecked, fe_impl_to_storage / from_storage (a value-preserving
   re-packing between 5x52 and 4x64 limbs), scalar_cond_negate. *)
From Coq Require Import ZArith Lia List Bool.
Require Import Kernel.CSem Kernel.Field5x52 Kernel.Scalar4x64 Kernel.CtPrimitives.
Require Import Gen.fe_impl_mul_int_unchecked Gen.fe_impl_to_storage Gen.fe_impl_from_storage Gen.scalar_is_zero Gen.scalar_cond_negate.
Import ListNotations.
Local Open Scope Z_scope.
Ltac Zify.zify_post_hook ::= Z.div_mod_to_equations.

Theorem fe_mul_int_correct r0 r1 r2 r3 r4 a :
  0 <= a < 2^64 -> 0 <= r0 -> 0 <= r1 -> 0 <= r2 -> 0 <= r3 -> 0 <= r4 ->
  r0 * a < 2^64 -> r1 * a < 2^64 -> r2 * a < 2^64 -> r3 * a < 2^64 -> r4 * a < 2^64 ->
  fe_impl_mul_int_unchecked_k r0 r1 r2 r3 r4 a (fun s0 s1 s2 s3 s4 =>
    s0 = r0 * a /\ s1 = r1 * a /\ s2 = r2 * a /\ s3 = r3 * a /\ s4 = r4 * a /\ val5 s0 s1 s2 s3 s4 = val5 r0 r1 r2 r3 r4 * a).
Proof.
  intros. unfold fe_impl_mul_int_unchecked_k, u64. cbv zeta. rewrite (Z.mod_small a) by lia.
  rewrite !Z.mod_small by (split; [apply Z.mul_nonneg_nonneg; lia | assumption]). unfold val5. repeat split; ring.
Qed.

(* OR of a low part and a shifted high part with no common bits is their sum *)
Lemma lor_add_disjoint a b k : 0 <= k -> 0 <= a < 2^k -> 0 <= b -> Z.lor a (b * 2^k) = a + b * 2^k.
Proof.
  intros Hk Ha Hb. rewrite Z.lor_comm. rewrite <- Z.shiftl_mul_pow2 by lia.
  assert (Hl : Z.land (Z.shiftl b k) a = 0).
  { apply Z.bits_inj'; intros i Hi; rewrite Z.land_spec, Z.bits_0.
    destruct (Z.ltb_spec i k).
    - rewrite Z.shiftl_spec_low by lia. reflexivity.
    - rewrite <- (Z.mod_small a (2^k)) by lia.
      rewrite Z.mod_pow2_bits_high by lia. apply Bool.andb_false_r. }
  rewrite <- Z.lxor_lor by exact Hl. rewrite Z.add_comm. symmetry. apply Z.add_nocarry_lxor. exact Hl.
Qed.

(* a normalised field element re-packed into four 64-bit words has the same value *)
Theorem fe_to_storage_correct a0 a1 a2 a3 a4 :
  0 <= a0 < 2^52 -> 0 <= a1 < 2^52 -> 0 <= a2 < 2^52 -> 0 <= a3 < 2^52 -> 0 <= a4 < 2^48 ->
  fe_impl_to_storage_k a0 a1 a2 a3 a4 (fun s0 s1 s2 s3 =>
    (0 <= s0 < 2^64 /\ 0 <= s1 < 2^64 /\ 0 <= s2 < 2^64 /\ 0 <= s3 < 2^64) /\ val4 s0 s1 s2 s3 = val5 a0 a1 a2 a3 a4).
Proof.
  intros H0 H1 H2 H3 H4. unfold fe_impl_to_storage_k. cbv zeta.
  assert (E1 : u64 (a1 * 2^52) = (a1 mod 2^12) * 2^52) by (unfold u64; lia).
  assert (E2 : u64 (a2 * 2^40) = (a2 mod 2^24) * 2^40) by (unfold u64; lia).
  assert (E3 : u64 (a3 * 2^28) = (a3 mod 2^36) * 2^28) by (unfold u64; lia).
  assert (E4 : u64 (a4 * 2^16) = a4 * 2^16) by (unfold u64; lia).
  rewrite E1, E2, E3, E4. rewrite !lor_add_disjoint by lia. unfold val4, val5. split; [lia|lia].
Qed.

Lemma land52' x : 0 <= x -> Z.land x 4503599627370495 = x mod 2^52.
Proof. intros. change 4503599627370495 with (Z.ones 52). apply Z.land_ones. lia. Qed.

Theorem fe_from_storage_correct s0 s1 s2 s3 :
  0 <= s0 < 2^64 -> 0 <= s1 < 2^64 -> 0 <= s2 < 2^64 -> 0 <= s3 < 2^64 ->
  fe_impl_from_storage_k s0 s1 s2 s3 (fun a0 a1 a2 a3 a4 =>
    (0 <= a0 < 2^52 /\ 0 <= a1 < 2^52 /\ 0 <= a2 < 2^52 /\ 0 <= a3 < 2^52 /\ 0 <= a4 < 2^48) /\ val5 a0 a1 a2 a3 a4 = val4 s0 s1 s2 s3).
Proof.
  intros H0 H1 H2 H3. unfold fe_impl_from_storage_k. cbv zeta.
  rewrite !land52' by (unfold u64; lia).
  assert (E1 : u64 (s1 * 2^12) mod 2^52 = (s1 mod 2^40) * 2^12) by (unfold u64; lia).
  assert (E2 : u64 (s2 * 2^24) mod 2^52 = (s2 mod 2^28) * 2^24) by (unfold u64; lia).
  assert (E3 : u64 (s3 * 2^36) mod 2^52 = (s3 mod 2^16) * 2^36) by (unfold u64; lia).
  rewrite E1, E2, E3. rewrite !lor_add_disjoint by lia. unfold val4, val5. split; [lia|lia].
Qed.

(* conditional negation of a reduced scalar: identity for flag 0, (n - a) mod n for flag 1; returns 1 / -1 *)
Lemma lxor_all64 x : 0 <= x < 2^64 -> Z.lxor x 18446744073709551615 = 18446744073709551615 - x.
Proof.
  intros H. change 18446744073709551615 with (Z.ones 64).
  assert (Hl : Z.log2 x < 64) by (destruct (Z.eq_dec x 0) as [->|]; [simpl; lia|apply Z.log2_lt_pow2; lia]).
  rewrite <- (Z.ldiff_ones_l_low x 64) by lia. symmetry. apply Z.sub_nocarry_ldiff. apply Z.ldiff_ones_r_low; lia.
Qed.

Theorem scalar_cond_negate_correct a0 a1 a2 a3 flag :
  0 <= a0 < 2^64 -> 0 <= a1 < 2^64 -> 0 <= a2 < 2^64 -> 0 <= a3 < 2^64 -> val4 a0 a1 a2 a3 < N256 -> flag = 0 \/ flag = 1 ->
  scalar_cond_negate_k a0 a1 a2 a3 flag (fun r0 r1 r2 r3 ret =>
    (0 <= r0 < 2^64 /\ 0 <= r1 < 2^64 /\ 0 <= r2 < 2^64 /\ 0 <= r3 < 2^64) /\
    val4 r0 r1 r2 r3 = (if flag =? 0 then val4 a0 a1 a2 a3 else (N256 - val4 a0 a1 a2 a3) mod N256) /\
    ret = (if flag =? 0 then 1 else -1)).
Proof.
  intros H0 H1 H2 H3 Hv Hf. unfold scalar_cond_negate_k. cbv zeta.
  rewrite (scalar_is_zero_correct a0 a1 a2 a3) by lia.
  change (u64 (13822214165235122497 + 1)) with 13822214165235122498.
  destruct Hf as [-> | ->].
  - (* flag = 0: mask 0 *)
    change (u64 (- 0)) with 0. rewrite !Z.lxor_0_r, !Z.land_0_r. change (0 =? 0) with true. cbn [b2z].
    destruct ((a0 =? 0) && (a1 =? 0) && (a2 =? 0) && (a3 =? 0)) eqn:Ez.
    + apply andb_prop in Ez as [Ez E3]. apply andb_prop in Ez as [Ez E2]. apply andb_prop in Ez as [E0 E1].
      apply Z.eqb_eq in E0, E1, E2, E3. subst. change (1 =? 0) with false. cbn [negb b2z]. change (u64 (1 - 1)) with 0.
      rewrite !Z.land_0_r. unfold val4. repeat split; lia.
    + change (0 =? 0) with true. cbn [negb b2z]. change (u64 (0 - 1)) with 18446744073709551615.
      unfold u128, u64. rewrite (Z.mod_small (a0 + 0)) by lia. rewrite (Z.mod_small (a0 + 0) (2^64)) by lia.
      replace ((a0 + 0) / 2^64) with 0 by lia.
      rewrite (Z.mod_small (0 + a1)), (Z.mod_small (0 + a1 + 0)) by lia. rewrite (Z.mod_small (0 + a1 + 0) (2^64)) by lia.
      replace ((0 + a1 + 0) / 2^64) with 0 by lia.
      rewrite (Z.mod_small (0 + a2)), (Z.mod_small (0 + a2 + 0)) by lia. rewrite (Z.mod_small (0 + a2 + 0) (2^64)) by lia.
      replace ((0 + a2 + 0) / 2^64) with 0 by lia.
      rewrite (Z.mod_small (0 + a3)), (Z.mod_small (0 + a3 + 0)) by lia. rewrite (Z.mod_small (0 + a3 + 0) (2^64)) by lia.
      rewrite !land_all64 by lia. unfold val4. repeat split; lia.
  - (* flag = 1: mask all ones *)
    change (1 =? 0) with false. cbv iota.
    change (u64 (- (1))) with 18446744073709551615. rewrite !lxor_all64 by lia.
    rewrite !land_all64 by lia. change (18446744073709551615 =? 0) with false. cbn [b2z].
    destruct ((a0 =? 0) && (a1 =? 0) && (a2 =? 0) && (a3 =? 0)) eqn:Ez.
    + apply andb_prop in Ez as [Ez E3]. apply andb_prop in Ez as [Ez E2]. apply andb_prop in Ez as [E0 E1].
      apply Z.eqb_eq in E0, E1, E2, E3. subst. change (1 =? 0) with false. cbn [negb b2z]. change (u64 (1 - 1)) with 0.
      rewrite !Z.land_0_r. unfold val4, N256. split; [lia|]. split; reflexivity.
    + change (0 =? 0) with true. cbn [negb b2z]. change (u64 (0 - 1)) with 18446744073709551615.
      assert (Hnz : val4 a0 a1 a2 a3 <> 0).
      { unfold val4. intro E. assert (a0 = 0 /\ a1 = 0 /\ a2 = 0 /\ a3 = 0) as [-> [-> [-> ->]]] by lia. discriminate Ez. }
      rewrite !land_all64 by (unfold u64; lia).
      unfold u128, u64.
      set (s0 := 18446744073709551615 - a0 + 13822214165235122498).
      rewrite (Z.mod_small s0 (2^128)) by (unfold s0; lia).
      set (s1 := s0 / 2^64 + (18446744073709551615 - a1)). rewrite (Z.mod_small s1 (2^128)) by (unfold s1, s0; lia).
      set (s1' := s1 + 13451932020343611451). rewrite (Z.mod_small s1' (2^128)) by (unfold s1', s1, s0; lia).
      set (s2 := s1' / 2^64 + (18446744073709551615 - a2)). rewrite (Z.mod_small s2 (2^128)) by (unfold s2, s1', s1, s0; lia).
      set (s2' := s2 + 18446744073709551614). rewrite (Z.mod_small s2' (2^128)) by (unfold s2', s2, s1', s1, s0; lia).
      set (s3 := s2' / 2^64 + (18446744073709551615 - a3)). rewrite (Z.mod_small s3 (2^128)) by (unfold s3, s2', s2, s1', s1, s0; lia).
      set (s3' := s3 + 18446744073709551615). rewrite (Z.mod_small s3' (2^128)) by (unfold s3', s3, s2', s2, s1', s1, s0; lia).
      split; [lia|]. split; [|reflexivity].
      rewrite (Z.mod_small (N256 - val4 a0 a1 a2 a3)) by (unfold val4, N256 in *; lia).
      unfold val4, N256 in *. unfold s3', s3, s2', s2, s1', s1, s0. lia.
Qed.
