(* Proof ABOUT the generated point doubling (Gen/gej_double.v: secp256k1_gej_double of src/group_impl.h, translated with its field
   operations kept as calls to the separately translated and separately proved limb functions).  For ALL Jacobian inputs within the
   domain of the field multiplication (limbs below 2^55, top limb below 2^52: any magnitude up to 4, which is the contract of the
   group code) no limb operation leaves its proved domain, the result limbs are below 3 / 6 / 1 full limbs (magnitude 3 for y), and the result is the doubling formula of the curve y^2 = x^3 + 7 modulo p:
   Z3 = Y Z,  4 X3 = 9 X^4 - 8 X Y^2,  8 Y3 = -27 X^6 + 36 X^3 Y^2 - 8 Y^4. *)
From Coq Require Import ZArith Lia List Bool Setoid Morphisms.
Require Import Kernel.CSem Kernel.Bind Kernel.Field5x52 Kernel.Field5x52Sqr Kernel.FieldWp Kernel.Cong.
Require Import Gen.fe_mul_inner Gen.fe_sqr_inner Gen.fe_impl_add Gen.fe_impl_negate_unchecked Gen.fe_impl_half Gen.fe_impl_mul_int_unchecked Gen.gej_double.
Import ListNotations.
Local Open Scope Z_scope.

Local Opaque fe_mul_inner_k fe_sqr_inner_k fe_impl_add_k fe_impl_negate_unchecked_k fe_impl_half_k fe_impl_mul_int_unchecked_k.
Definition M52 := 4503599627370495.
Definition M48 := 281474976710655.
(* limbs of a field element of magnitude at most m *)
Definition mag (m a0 a1 a2 a3 a4 : Z) : Prop :=
  0 <= a0 <= 2 * m * M52 /\ 0 <= a1 <= 2 * m * M52 /\ 0 <= a2 <= 2 * m * M52 /\ 0 <= a3 <= 2 * m * M52 /\ 0 <= a4 <= 2 * m * M48.

(* limbs below m full limbs (the form in which the multiplication theorems bound their results; magnitude m implies lim (2m)) *)
Definition lim (m a0 a1 a2 a3 a4 : Z) : Prop :=
  0 <= a0 < m * 2^52 /\ 0 <= a1 < m * 2^52 /\ 0 <= a2 < m * 2^52 /\ 0 <= a3 < m * 2^52 /\ 0 <= a4 < m * 2^49.
Lemma mag4_lim8 a0 a1 a2 a3 a4 : mag 4 a0 a1 a2 a3 a4 -> lim 8 a0 a1 a2 a3 a4.
Proof. unfold mag, lim, M52, M48. intros [H0 [H1 [H2 [H3 H4]]]]. repeat split; lia. Qed.

Ltac mul_step := apply fe_mul_inner_wp; [lia|lia|lia|lia|lia|lia|lia|lia|lia|lia|]; let C := fresh "C" in intros ? ? ? ? ? [[? [? [? [? ?]]]] C]; apply cong_of_mod in C.
Ltac sqr_step := apply fe_sqr_inner_wp; [lia|lia|lia|lia|lia|]; let C := fresh "C" in intros ? ? ? ? ? [[? [? [? [? ?]]]] C]; apply cong_of_mod in C.
Ltac add_step := apply fe_add_wp; [lia|lia|lia|lia|lia|lia|lia|lia|lia|lia|lia|lia|lia|lia|lia|]; intros ? ? ? ? ? ? ? ? ? ? ?V.
Ltac mul_int_step := apply fe_mul_int_wp; [lia|lia|lia|lia|lia|lia|lia|lia|lia|lia|lia|]; intros ? ? ? ? ? ? ? ? ? ? ?V.
Ltac negate_step := apply fe_negate_wp; [lia|lia|lia|lia|lia|lia|]; intros ? ? ? ? ? ? ? ? ? ? ?V.
Ltac half_step := apply fe_half_wp; [lia|lia|lia|lia|lia|]; intros ? ? ? ? ? [? [? [? [? ?]]]] ?V.

Theorem gej_double_correct inf x0 x1 x2 x3 x4 y0 y1 y2 y3 y4 z0 z1 z2 z3 z4 :
  lim 8 x0 x1 x2 x3 x4 -> lim 8 y0 y1 y2 y3 y4 -> lim 8 z0 z1 z2 z3 z4 ->
  gej_double_k inf x0 x1 x2 x3 x4 y0 y1 y2 y3 y4 z0 z1 z2 z3 z4
    (fun rinf rx0 rx1 rx2 rx3 rx4 ry0 ry1 ry2 ry3 ry4 rz0 rz1 rz2 rz3 rz4 =>
      let X := val5 x0 x1 x2 x3 x4 in let Y := val5 y0 y1 y2 y3 y4 in let Z := val5 z0 z1 z2 z3 z4 in
      rinf = inf /\
      (lim 3 rx0 rx1 rx2 rx3 rx4 /\ mag 3 ry0 ry1 ry2 ry3 ry4 /\ lim 1 rz0 rz1 rz2 rz3 rz4) /\
      cong (val5 rz0 rz1 rz2 rz3 rz4) (Y * Z) /\
      cong (4 * val5 rx0 rx1 rx2 rx3 rx4) (9 * (X * X * X * X) - 8 * (X * (Y * Y))) /\
      cong (8 * val5 ry0 ry1 ry2 ry3 ry4) (- 27 * (X * X * X * X * X * X) + 36 * (X * X * X * (Y * Y)) - 8 * (Y * Y * Y * Y))).
Proof.
  unfold mag, lim, M52, M48. intros [Hx0 [Hx1 [Hx2 [Hx3 Hx4]]]] [Hy0 [Hy1 [Hy2 [Hy3 Hy4]]]] [Hz0 [Hz1 [Hz2 [Hz3 Hz4]]]].
  unfold gej_double_k.
  apply bind_intro; intros rinf Hinf; cbv beta.
  mul_step. sqr_step. sqr_step. mul_int_step. half_step. negate_step. mul_step. sqr_step. add_step. add_step. sqr_step. add_step. mul_step. add_step. negate_step.
  split; [exact Hinf|]. split; [repeat split; lia|].
  set (X := val5 x0 x1 x2 x3 x4) in *. set (Y := val5 y0 y1 y2 y3 y4) in *. set (Z := val5 z0 z1 z2 z3 z4) in *.
  set (RZ := val5 r0 r1 r2 r3 r4) in *. set (S := val5 r5 r6 r7 r8 r9) in *. set (L0 := val5 r10 r11 r12 r13 r14) in *.
  set (L3 := val5 s0 s1 s2 s3 s4) in *. set (L := val5 r15 r16 r17 r18 r19) in *. set (Tn := val5 r20 r21 r22 r23 r24) in *.
  set (T := val5 r25 r26 r27 r28 r29) in *. set (L2 := val5 r30 r31 r32 r33 r34) in *. set (RX1 := val5 s5 s6 s7 s8 s9) in *.
  set (RX := val5 s10 s11 s12 s13 s14) in *. set (S2 := val5 r35 r36 r37 r38 r39) in *. set (T2 := val5 s15 s16 s17 s18 s19) in *.
  set (M := val5 r40 r41 r42 r43 r44) in *. set (RY0 := val5 s20 s21 s22 s23 s24) in *. set (RY := val5 r45 r46 r47 r48 r49) in *.
  clearbody X Y Z RZ S L0 L3 L Tn T L2 RX1 RX S2 T2 M RY0 RY.
  clear - C C0 C1 V V0 V1 C2 C3 V2 V3 C4 V4 C5 V5 V6.
  assert (HL : cong (2 * L) (3 * L0)) by (rewrite V0, V; replace (L0 * 3) with (3 * L0) by ring; apply cong_add_mult).
  assert (HT : cong Tn (- S)) by (rewrite V1; apply cong_sub_mult).
  assert (HR : cong RY (- RY0)) by (rewrite V6; apply cong_sub_mult).
  clear V V0 V1 V6. subst RX RX1 T2 RY0.
  split; [rewrite C; apply cong_of_eq; ring|].
  assert (E1 : cong (4 * (L2 + T + T)) (9 * (X * X * X * X) - 8 * (X * (Y * Y)))).
  { rewrite C3, C2. transitivity ((2 * L) * (2 * L) + 8 * (Tn * X)); [apply cong_of_eq; ring|].
    rewrite HL, HT, C1, C0. apply cong_of_eq; ring. }
  split; [exact E1|].
  rewrite HR, C5, C4.
  transitivity (- ((4 * T + 4 * (L2 + T + T)) * (2 * L) + 8 * (S * S))); [apply cong_of_eq; ring|].
  rewrite E1, HL, C2, HT, C1, C0. apply cong_of_eq; ring.
Qed.
