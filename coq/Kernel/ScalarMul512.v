(* Proof ABOUT the generated 256x256 -> 512 bit scalar product (Gen/scalar_mul_512.v, regenerated from the
   portable C path of src/scalar_4x64_impl.h): for ALL limb values the eight output limbs are the exact
   product; no carry into the 32-bit third accumulator word is ever lost. *)
From Coq Require Import ZArith Lia List Bool.
Require Import Kernel.CSem Kernel.Scalar4x64 Gen.scalar_mul_512.
Import ListNotations.
Local Open Scope Z_scope.
Ltac Zify.zify_post_hook ::= Z.div_mod_to_equations.

Definition W := 2^64.
Definition val8 (l0 l1 l2 l3 l4 l5 l6 l7 : Z) :=
  l0 + l1 * 2^64 + l2 * 2^128 + l3 * 2^192 + l4 * 2^256 + l5 * 2^320 + l6 * 2^384 + l7 * 2^448.

(* carry detection by comparison: (x + y) mod 2^64 < y  iff  x + y wrapped *)
Lemma carry64 x y : 0 <= x < 2^64 -> 0 <= y < 2^64 -> b2z ((x + y) mod 2^64 <? y) = (x + y) / 2^64.
Proof. intros Hx Hy. destruct (Z.ltb_spec ((x + y) mod 2^64) y); cbn [b2z]; lia. Qed.

(* one muladd: (c0,c1,c2) += p, exact as long as the third word stays small *)
Lemma muladd_full c0 c1 c2 p : 0 <= c0 < 2^64 -> 0 <= c1 < 2^64 -> 0 <= c2 < 2^31 -> 0 <= p <= (2^64 - 1) * (2^64 - 1) ->
  let t := u128 p in let th := t / 2^64 in let tl := u64 t in
  let n0 := u64 (c0 + tl) in let th2 := u64 (th + u64 (b2z (n0 <? tl))) in
  let n1 := u64 (c1 + th2) in let n2 := u32 (c2 + u32 (b2z (n1 <? th2))) in
  n0 + n1 * 2^64 + n2 * 2^128 = c0 + c1 * 2^64 + c2 * 2^128 + p /\ 0 <= n0 < 2^64 /\ 0 <= n1 < 2^64 /\ c2 <= n2 <= c2 + 1.
Proof.
  intros H0 H1 H2 Hp. cbv zeta. unfold u128, u64, u32. rewrite (Z.mod_small p (2^128)) by lia.
  assert (Hth : 0 <= p / 2^64 <= 2^64 - 2) by lia.
  set (tl := p mod 2^64). assert (Htl : 0 <= tl < 2^64) by (unfold tl; lia).
  rewrite (carry64 c0 tl) by lia.
  set (k0 := (c0 + tl) / 2^64). assert (Hk0 : 0 <= k0 <= 1) by (unfold k0; lia).
  rewrite (Z.mod_small k0) by lia. rewrite (Z.mod_small (p / 2^64 + k0)) by lia.
  set (th2 := p / 2^64 + k0). assert (Hth2 : 0 <= th2 < 2^64) by (unfold th2; lia).
  rewrite (carry64 c1 th2) by lia.
  set (k1 := (c1 + th2) / 2^64). assert (Hk1 : 0 <= k1 <= 1) by (unfold k1; lia).
  rewrite (Z.mod_small k1) by lia. rewrite (Z.mod_small (c2 + k1)) by lia.
  unfold k1, th2, k0, tl. lia.
Qed.

(* muladd_fast: same without the third word (used where no carry out of c1 can occur) *)
Lemma muladd_fast_full c0 c1 p : 0 <= c0 < 2^64 -> 0 <= c1 -> 0 <= p <= (2^64 - 1) * (2^64 - 1) -> c0 + c1 * 2^64 + p < 2^128 ->
  let t := u128 p in let th := t / 2^64 in let tl := u64 t in
  let n0 := u64 (c0 + tl) in let th2 := u64 (th + u64 (b2z (n0 <? tl))) in
  let n1 := u64 (c1 + th2) in
  n0 + n1 * 2^64 = c0 + c1 * 2^64 + p /\ 0 <= n0 < 2^64 /\ 0 <= n1 < 2^64.
Proof.
  intros H0 H1 Hp Hs. cbv zeta. unfold u128, u64. rewrite (Z.mod_small p (2^128)) by lia.
  assert (Hth : 0 <= p / 2^64 <= 2^64 - 2) by lia.
  set (tl := p mod 2^64). assert (Htl : 0 <= tl < 2^64) by (unfold tl; lia).
  rewrite (carry64 c0 tl) by lia.
  set (k0 := (c0 + tl) / 2^64). assert (Hk0 : 0 <= k0 <= 1) by (unfold k0; lia).
  rewrite (Z.mod_small k0) by lia. rewrite (Z.mod_small (p / 2^64 + k0)) by lia.
  rewrite (Z.mod_small (c1 + (p / 2^64 + k0))) by (unfold k0, tl; lia).
  unfold k0, tl. lia.
Qed.

Ltac rename_step :=
  let x := fresh "v" in intro x;
  match goal with x := ?e |- _ => first [is_var e | constr_eq e 0]; subst x end.

Ltac muladd_step :=
  let t := fresh "t" in let th := fresh "th" in let tl := fresh "tl" in let n0 := fresh "n" in
  let th2 := fresh "thh" in let n1 := fresh "n" in let n2 := fresh "n" in
  intros t th tl n0 th2 n1 n2;
  match goal with
  | t := u128 ?p, n0 := u64 (?c0 + tl), n1 := u64 (?c1 + th2), n2 := u32 (?c2 + _) |- _ =>
    let S := fresh "S" in
    assert (S : n0 + n1 * 2^64 + n2 * 2^128 = c0 + c1 * 2^64 + c2 * 2^128 + p /\ 0 <= n0 < 2^64 /\ 0 <= n1 < 2^64 /\ c2 <= n2 <= c2 + 1)
      by (exact (muladd_full c0 c1 c2 p ltac:(lia) ltac:(lia) ltac:(lia) ltac:(lia)));
    clearbody n0 n1 n2; clear th2 tl th t; destruct S as [? [? [? ?]]]
  end.

Ltac muladd_fast_step :=
  let t := fresh "t" in let th := fresh "th" in let tl := fresh "tl" in let n0 := fresh "n" in
  let th2 := fresh "thh" in let n1 := fresh "n" in
  intros t th tl n0 th2 n1;
  match goal with
  | t := u128 ?p, n0 := u64 (?c0 + tl), n1 := u64 (?c1 + th2) |- _ =>
    let S := fresh "S" in
    assert (S : n0 + n1 * 2^64 = c0 + c1 * 2^64 + p /\ 0 <= n0 < 2^64 /\ 0 <= n1 < 2^64)
      by (exact (muladd_fast_full c0 c1 p ltac:(lia) ltac:(lia) ltac:(lia) ltac:(lia)));
    clearbody n0 n1; clear th2 tl th t; destruct S as [? [? ?]]
  end.

Lemma mulb64 a b : 0 <= a < 2^64 -> 0 <= b < 2^64 -> 0 <= a * b <= (2^64 - 1) * (2^64 - 1).
Proof. intros. split; [apply Z.mul_nonneg_nonneg; lia|apply Z.mul_le_mono_nonneg; lia]. Qed.

Theorem scalar_mul_512_correct a0 a1 a2 a3 b0 b1 b2 b3 :
  0 <= a0 < 2^64 -> 0 <= a1 < 2^64 -> 0 <= a2 < 2^64 -> 0 <= a3 < 2^64 ->
  0 <= b0 < 2^64 -> 0 <= b1 < 2^64 -> 0 <= b2 < 2^64 -> 0 <= b3 < 2^64 ->
  scalar_mul_512_k a0 a1 a2 a3 b0 b1 b2 b3 (fun l0 l1 l2 l3 l4 l5 l6 l7 =>
    (0 <= l0 < 2^64 /\ 0 <= l1 < 2^64 /\ 0 <= l2 < 2^64 /\ 0 <= l3 < 2^64 /\ 0 <= l4 < 2^64 /\ 0 <= l5 < 2^64 /\ 0 <= l6 < 2^64 /\ 0 <= l7 < 2^64) /\
    val8 l0 l1 l2 l3 l4 l5 l6 l7 = val4 a0 a1 a2 a3 * val4 b0 b1 b2 b3).
Proof.
  intros Ha0 Ha1 Ha2 Ha3 Hb0 Hb1 Hb2 Hb3.
  assert (Hprod : val4 a0 a1 a2 a3 * val4 b0 b1 b2 b3 =
    a0*b0 + (a0*b1 + a1*b0) * 2^64 + (a0*b2 + a1*b1 + a2*b0) * 2^128 + (a0*b3 + a1*b2 + a2*b1 + a3*b0) * 2^192
    + (a1*b3 + a2*b2 + a3*b1) * 2^256 + (a2*b3 + a3*b2) * 2^320 + a3*b3 * 2^384) by (unfold val4; ring).
  rewrite Hprod. clear Hprod.
  pose proof (mulb64 a0 b0 Ha0 Hb0). pose proof (mulb64 a0 b1 Ha0 Hb1). pose proof (mulb64 a0 b2 Ha0 Hb2). pose proof (mulb64 a0 b3 Ha0 Hb3).
  pose proof (mulb64 a1 b0 Ha1 Hb0). pose proof (mulb64 a1 b1 Ha1 Hb1). pose proof (mulb64 a1 b2 Ha1 Hb2). pose proof (mulb64 a1 b3 Ha1 Hb3).
  pose proof (mulb64 a2 b0 Ha2 Hb0). pose proof (mulb64 a2 b1 Ha2 Hb1). pose proof (mulb64 a2 b2 Ha2 Hb2). pose proof (mulb64 a2 b3 Ha2 Hb3).
  pose proof (mulb64 a3 b0 Ha3 Hb0). pose proof (mulb64 a3 b1 Ha3 Hb1). pose proof (mulb64 a3 b2 Ha3 Hb2). pose proof (mulb64 a3 b3 Ha3 Hb3).
  cbv beta delta [scalar_mul_512_k].
  generalize dependent (a0*b0); intros p00 ?. generalize dependent (a0*b1); intros p01 ?.
  generalize dependent (a0*b2); intros p02 ?. generalize dependent (a0*b3); intros p03 ?.
  generalize dependent (a1*b0); intros p10 ?. generalize dependent (a1*b1); intros p11 ?.
  generalize dependent (a1*b2); intros p12 ?. generalize dependent (a1*b3); intros p13 ?.
  generalize dependent (a2*b0); intros p20 ?. generalize dependent (a2*b1); intros p21 ?.
  generalize dependent (a2*b2); intros p22 ?. generalize dependent (a2*b3); intros p23 ?.
  generalize dependent (a3*b0); intros p30 ?. generalize dependent (a3*b1); intros p31 ?.
  generalize dependent (a3*b2); intros p32 ?. generalize dependent (a3*b3); intros p33 ?.
  clear Ha0 Ha1 Ha2 Ha3 Hb0 Hb1 Hb2 Hb3.
  repeat first [ muladd_step | muladd_fast_step | rename_step ].
  unfold val8. split; [repeat split; lia|]. lia.
Qed.
