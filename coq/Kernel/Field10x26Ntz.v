(* Proofs ABOUT the 10x26 zero test and conditional move (Gen/fe10x26_ntz.v, Gen/fe10x26_cmov.v: secp256k1_fe_impl_normalizes_to_zero and
   secp256k1_fe_impl_cmov of src/field_10x26_impl.h, translated with USE_FORCE_WIDEMUL_INT64): for ALL limb values up to magnitude 16
   the zero test returns 1 exactly when the value is 0 modulo p; the conditional move selects exactly. *)
From Coq Require Import ZArith Lia List Bool.
Require Import Kernel.CSem Kernel.CtPrimitives Kernel.Field5x52 Kernel.Field10x26 Kernel.Field10x26Wp Gen.fe10x26_ntz Gen.fe10x26_cmov.
Import ListNotations.
Local Open Scope Z_scope.
Ltac Zify.zify_post_hook ::= Z.div_mod_to_equations.

Definition ones26 := 67108863.
Lemma land26' x : 0 <= x -> Z.land x 67108863 = x mod 2^26.
Proof. intros. change 67108863 with (Z.ones 26). apply Z.land_ones. lia. Qed.
Lemma land22' x : 0 <= x -> Z.land x 4194303 = x mod 2^22.
Proof. intros. change 4194303 with (Z.ones 22). apply Z.land_ones. lia. Qed.

Lemma land_all_ones26 a b : 0 <= a < 2^26 -> 0 <= b < 2^26 ->
  (Z.land a b = 67108863 <-> a = 67108863 /\ b = 67108863).
Proof.
  intros Ha Hb. split; [|intros [-> ->]; reflexivity].
  intros H. change 67108863 with (Z.ones 26) in *.
  assert (Ta : forall k, 0 <= k < 26 -> Z.testbit a k = true).
  { intros k Hk. assert (E : Z.testbit (Z.land a b) k = true) by (rewrite H; apply Z.ones_spec_low; lia).
    rewrite Z.land_spec in E. apply andb_true_iff in E. tauto. }
  assert (Tb : forall k, 0 <= k < 26 -> Z.testbit b k = true).
  { intros k Hk. assert (E : Z.testbit (Z.land a b) k = true) by (rewrite H; apply Z.ones_spec_low; lia).
    rewrite Z.land_spec in E. apply andb_true_iff in E. tauto. }
  assert (X : forall c, 0 <= c < 2^26 -> (forall k, 0 <= k < 26 -> Z.testbit c k = true) -> c = Z.ones 26).
  { intros c Hc Tc. apply Z.bits_inj'. intros k Hk. destruct (Z.ltb_spec k 26).
    - rewrite Tc, Z.ones_spec_low by lia. reflexivity.
    - rewrite Z.ones_spec_high by lia. apply Z.bits_above_log2; [lia|].
      destruct (Z.eq_dec c 0) as [->|]; [simpl; lia|]. assert (2^26 <= 2^k) by (apply Z.pow_le_mono_r; lia). apply Z.log2_lt_pow2; lia. }
  split; apply X; assumption.
Qed.
Lemma land_range26 a b : 0 <= a < 2^26 -> 0 <= b < 2^26 -> 0 <= Z.land a b < 2^26.
Proof.
  intros Ha Hb. split; [apply Z.land_nonneg; lia|].
  destruct (Z.eq_dec (Z.land a b) 0) as [->|Hn]; [lia|].
  apply Z.log2_lt_pow2; [pose proof (Z.land_nonneg a b); lia|].
  assert (Z.log2 (Z.land a b) <= Z.min (Z.log2 a) (Z.log2 b)) by (apply Z.log2_land; lia).
  destruct (Z.eq_dec a 0) as [->|]; [rewrite Z.land_0_l in Hn; lia|].
  assert (Z.log2 a < 26) by (apply Z.log2_lt_pow2; lia). lia.
Qed.
Lemma lxor_ones_iff26 x c : 0 <= x -> 0 <= c -> (Z.lxor x c = 67108863 <-> x = Z.lxor 67108863 c).
Proof.
  intros Hx Hc. split; intros E.
  - rewrite <- E. rewrite Z.lxor_assoc, Z.lxor_nilpotent, Z.lxor_0_r. reflexivity.
  - rewrite E. rewrite Z.lxor_assoc, Z.lxor_nilpotent, Z.lxor_0_r. reflexivity.
Qed.
Lemma lxor_range26 x c : 0 <= x < 2^26 -> 0 <= c < 2^26 -> 0 <= Z.lxor x c < 2^26.
Proof.
  intros Hx Hc. split; [apply Z.lxor_nonneg; lia|].
  destruct (Z.eq_dec (Z.lxor x c) 0) as [->|Hn]; [lia|].
  apply Z.log2_lt_pow2; [pose proof (Z.lxor_nonneg x c); lia|].
  assert (Z.log2 (Z.lxor x c) <= Z.max (Z.log2 x) (Z.log2 c)) by (apply Z.log2_lxor; lia).
  assert (Z.log2 x < 26) by (destruct (Z.eq_dec x 0) as [->|]; [simpl; lia|apply Z.log2_lt_pow2; lia]).
  assert (Z.log2 c < 26) by (destruct (Z.eq_dec c 0) as [->|]; [simpl; lia|apply Z.log2_lt_pow2; lia]).
  lia.
Qed.
Lemma lor_zero_iff a b : 0 <= a -> 0 <= b -> (Z.lor a b =? 0) = (a =? 0) && (b =? 0).
Proof.
  intros Ha Hb. destruct (Z.eqb_spec (Z.lor a b) 0) as [E|E].
  - apply Z.lor_eq_0_iff in E. destruct E; subst. reflexivity.
  - destruct (Z.eqb_spec a 0), (Z.eqb_spec b 0); subst; try reflexivity. exfalso. apply E. reflexivity.
Qed.

Theorem fe10x26_ntz_correct r0 r1 r2 r3 r4 r5 r6 r7 r8 r9 :
  0 <= r0 < 2^31 -> 0 <= r1 < 2^31 -> 0 <= r2 < 2^31 -> 0 <= r3 < 2^31 -> 0 <= r4 < 2^31 -> 0 <= r5 < 2^31 -> 0 <= r6 < 2^31 -> 0 <= r7 < 2^31 -> 0 <= r8 < 2^31 -> 0 <= r9 < 2^27 ->
  fe10x26_ntz r0 r1 r2 r3 r4 r5 r6 r7 r8 r9 = if (val10 r0 r1 r2 r3 r4 r5 r6 r7 r8 r9) mod P256 =? 0 then 1 else 0.
Proof.
  intros H0 H1 H2 H3 H4 H5 H6 H7 H8 H9. unfold fe10x26_ntz. cbv beta delta [fe10x26_ntz_k]. cbv zeta.
  set (x := r9 / 2^22). rewrite (land22' r9) by lia. set (a9 := r9 mod 2^22).
  assert (Hx : 0 <= x < 2^5) by (unfold x; lia).
  assert (E0 : u64 (x * 977) = x * 977) by (unfold u64; apply Z.mod_small; lia). rewrite E0.
  assert (E0' : u32 (x * 2^6) = x * 2^6) by (unfold u32; apply Z.mod_small; lia). rewrite E0'.
  assert (E1 : u32 (r0 + x * 977) = r0 + x * 977) by (unfold u32; apply Z.mod_small; lia). rewrite E1.
  set (s0 := r0 + x * 977). assert (Hs0 : 0 <= s0 < 2^32) by (unfold s0; lia).
  assert (E1' : u32 (r1 + x * 2^6) = r1 + x * 2^6) by (unfold u32; apply Z.mod_small; lia). rewrite E1'.
  assert (E2 : u32 (r1 + x * 2^6 + s0 / 2^26) = r1 + x * 2^6 + s0 / 2^26) by (unfold u32; apply Z.mod_small; lia). rewrite E2.
  set (s1 := r1 + x * 2^6 + s0 / 2^26). assert (Hs1 : 0 <= s1 < 2^32) by (unfold s1; lia).
  rewrite (land26' s0) by lia. set (t0 := s0 mod 2^26).
  assert (E3 : u32 (r2 + s1 / 2^26) = r2 + s1 / 2^26) by (unfold u32; apply Z.mod_small; lia). rewrite E3.
  set (s2 := r2 + s1 / 2^26). assert (Hs2 : 0 <= s2 < 2^32) by (unfold s2; lia).
  rewrite (land26' s1) by lia. set (t1 := s1 mod 2^26).
  assert (E4 : u32 (r3 + s2 / 2^26) = r3 + s2 / 2^26) by (unfold u32; apply Z.mod_small; lia). rewrite E4.
  set (s3 := r3 + s2 / 2^26). assert (Hs3 : 0 <= s3 < 2^32) by (unfold s3; lia).
  rewrite (land26' s2) by lia. set (t2 := s2 mod 2^26).
  assert (E5 : u32 (r4 + s3 / 2^26) = r4 + s3 / 2^26) by (unfold u32; apply Z.mod_small; lia). rewrite E5.
  set (s4 := r4 + s3 / 2^26). assert (Hs4 : 0 <= s4 < 2^32) by (unfold s4; lia).
  rewrite (land26' s3) by lia. set (t3 := s3 mod 2^26).
  assert (E6 : u32 (r5 + s4 / 2^26) = r5 + s4 / 2^26) by (unfold u32; apply Z.mod_small; lia). rewrite E6.
  set (s5 := r5 + s4 / 2^26). assert (Hs5 : 0 <= s5 < 2^32) by (unfold s5; lia).
  rewrite (land26' s4) by lia. set (t4 := s4 mod 2^26).
  assert (E7 : u32 (r6 + s5 / 2^26) = r6 + s5 / 2^26) by (unfold u32; apply Z.mod_small; lia). rewrite E7.
  set (s6 := r6 + s5 / 2^26). assert (Hs6 : 0 <= s6 < 2^32) by (unfold s6; lia).
  rewrite (land26' s5) by lia. set (t5 := s5 mod 2^26).
  assert (E8 : u32 (r7 + s6 / 2^26) = r7 + s6 / 2^26) by (unfold u32; apply Z.mod_small; lia). rewrite E8.
  set (s7 := r7 + s6 / 2^26). assert (Hs7 : 0 <= s7 < 2^32) by (unfold s7; lia).
  rewrite (land26' s6) by lia. set (t6 := s6 mod 2^26).
  assert (E9 : u32 (r8 + s7 / 2^26) = r8 + s7 / 2^26) by (unfold u32; apply Z.mod_small; lia). rewrite E9.
  set (s8 := r8 + s7 / 2^26). assert (Hs8 : 0 <= s8 < 2^32) by (unfold s8; lia).
  rewrite (land26' s7) by lia. set (t7 := s7 mod 2^26).
  assert (E10 : u32 (a9 + s8 / 2^26) = a9 + s8 / 2^26) by (unfold u32, a9; apply Z.mod_small; lia). rewrite E10.
  set (s9 := a9 + s8 / 2^26). assert (Hs9 : 0 <= s9 < 2^22 + 2^7) by (unfold s9, a9; lia).
  rewrite (land26' s8) by lia. set (t8 := s8 mod 2^26).
  assert (Ht0 : 0 <= t0 < 2^26) by (unfold t0; lia). assert (Ht1 : 0 <= t1 < 2^26) by (unfold t1; lia). assert (Ht2 : 0 <= t2 < 2^26) by (unfold t2; lia).
  assert (Ht3 : 0 <= t3 < 2^26) by (unfold t3; lia). assert (Ht4 : 0 <= t4 < 2^26) by (unfold t4; lia). assert (Ht5 : 0 <= t5 < 2^26) by (unfold t5; lia).
  assert (Ht6 : 0 <= t6 < 2^26) by (unfold t6; lia). assert (Ht7 : 0 <= t7 < 2^26) by (unfold t7; lia). assert (Ht8 : 0 <= t8 < 2^26) by (unfold t8; lia).
  assert (V1 : val10 t0 t1 t2 t3 t4 t5 t6 t7 t8 s9 = val10 r0 r1 r2 r3 r4 r5 r6 r7 r8 r9 - x * P256)
    by (rewrite <- P256_val10; unfold val10, t0, t1, t2, t3, t4, t5, t6, t7, t8, s9, s8, s7, s6, s5, s4, s3, s2, s1, s0, a9, x; lia).
  set (V := val10 r0 r1 r2 r3 r4 r5 r6 r7 r8 r9) in *. set (V' := val10 t0 t1 t2 t3 t4 t5 t6 t7 t8 s9) in *.
  assert (HV' : 0 <= V' < 2 * P256) by (rewrite <- P256_val10; unfold V', val10; lia).
  clearbody t0 t1 t2 t3 t4 t5 t6 t7 t8 s9. clear E0 E0' E1 E1' E2 E3 E4 E5 E6 E7 E8 E9 E10 Hs0 Hs1 Hs2 Hs3 Hs4 Hs5 Hs6 Hs7 Hs8.
  (* z0 = 0 iff the first-pass value is 0 *)
  assert (Z0 : (Z.lor (Z.lor (Z.lor (Z.lor (Z.lor (Z.lor (Z.lor (Z.lor (Z.lor t0 t1) t2) t3) t4) t5) t6) t7) t8) s9 =? 0) = (V' =? 0)).
  { assert (N1 : 0 <= Z.lor t0 t1) by (apply Z.lor_nonneg; lia). assert (N2 : 0 <= Z.lor (Z.lor t0 t1) t2) by (apply Z.lor_nonneg; lia).
    assert (N3 : 0 <= Z.lor (Z.lor (Z.lor t0 t1) t2) t3) by (apply Z.lor_nonneg; lia).
    assert (N4 : 0 <= Z.lor (Z.lor (Z.lor (Z.lor t0 t1) t2) t3) t4) by (apply Z.lor_nonneg; lia).
    assert (N5 : 0 <= Z.lor (Z.lor (Z.lor (Z.lor (Z.lor t0 t1) t2) t3) t4) t5) by (apply Z.lor_nonneg; lia).
    assert (N6 : 0 <= Z.lor (Z.lor (Z.lor (Z.lor (Z.lor (Z.lor t0 t1) t2) t3) t4) t5) t6) by (apply Z.lor_nonneg; lia).
    assert (N7 : 0 <= Z.lor (Z.lor (Z.lor (Z.lor (Z.lor (Z.lor (Z.lor t0 t1) t2) t3) t4) t5) t6) t7) by (apply Z.lor_nonneg; lia).
    assert (N8 : 0 <= Z.lor (Z.lor (Z.lor (Z.lor (Z.lor (Z.lor (Z.lor (Z.lor t0 t1) t2) t3) t4) t5) t6) t7) t8) by (apply Z.lor_nonneg; lia).
    rewrite !lor_zero_iff by lia.
    destruct (Z.eqb_spec V' 0) as [E|E].
    - assert (t0 = 0 /\ t1 = 0 /\ t2 = 0 /\ t3 = 0 /\ t4 = 0 /\ t5 = 0 /\ t6 = 0 /\ t7 = 0 /\ t8 = 0 /\ s9 = 0) as [-> [-> [-> [-> [-> [-> [-> [-> [-> ->]]]]]]]]]
        by (unfold V', val10 in E; lia). reflexivity.
    - destruct (Z.eqb_spec t0 0) as [->|]; [|reflexivity]. destruct (Z.eqb_spec t1 0) as [->|]; [|reflexivity]. destruct (Z.eqb_spec t2 0) as [->|]; [|reflexivity].
      destruct (Z.eqb_spec t3 0) as [->|]; [|reflexivity]. destruct (Z.eqb_spec t4 0) as [->|]; [|reflexivity]. destruct (Z.eqb_spec t5 0) as [->|]; [|reflexivity].
      destruct (Z.eqb_spec t6 0) as [->|]; [|reflexivity]. destruct (Z.eqb_spec t7 0) as [->|]; [|reflexivity]. destruct (Z.eqb_spec t8 0) as [->|]; [|reflexivity].
      destruct (Z.eqb_spec s9 0) as [->|]; [|reflexivity]. exfalso. apply E. reflexivity. }
  (* z1 = all ones iff the first-pass value is p *)
  assert (U0 : u32 (Z.lxor t0 976) = Z.lxor t0 976) by (unfold u32; apply Z.mod_small; pose proof (lxor_range26 t0 976 Ht0 ltac:(lia)); lia).
  rewrite U0.
  assert (Z1 : (Z.land (Z.land (Z.land (Z.land (Z.land (Z.land (Z.land (Z.land (Z.land (Z.lxor t0 976) (Z.lxor t1 64)) t2) t3) t4) t5) t6) t7) t8) (Z.lxor s9 62914560) =? 67108863) = (V' =? P256)).
  { assert (R0 : 0 <= Z.lxor t0 976 < 2^26) by (apply lxor_range26; lia).
    assert (R1 : 0 <= Z.lxor t1 64 < 2^26) by (apply lxor_range26; lia).
    assert (R9 : 0 <= Z.lxor s9 62914560 < 2^26) by (apply lxor_range26; lia).
    assert (A1 : 0 <= Z.land (Z.lxor t0 976) (Z.lxor t1 64) < 2^26) by (apply land_range26; assumption).
    assert (A2 : 0 <= Z.land (Z.land (Z.lxor t0 976) (Z.lxor t1 64)) t2 < 2^26) by (apply land_range26; assumption).
    assert (A3 : 0 <= Z.land (Z.land (Z.land (Z.lxor t0 976) (Z.lxor t1 64)) t2) t3 < 2^26) by (apply land_range26; assumption).
    assert (A4 : 0 <= Z.land (Z.land (Z.land (Z.land (Z.lxor t0 976) (Z.lxor t1 64)) t2) t3) t4 < 2^26) by (apply land_range26; assumption).
    assert (A5 : 0 <= Z.land (Z.land (Z.land (Z.land (Z.land (Z.lxor t0 976) (Z.lxor t1 64)) t2) t3) t4) t5 < 2^26) by (apply land_range26; assumption).
    assert (A6 : 0 <= Z.land (Z.land (Z.land (Z.land (Z.land (Z.land (Z.lxor t0 976) (Z.lxor t1 64)) t2) t3) t4) t5) t6 < 2^26) by (apply land_range26; assumption).
    assert (A7 : 0 <= Z.land (Z.land (Z.land (Z.land (Z.land (Z.land (Z.land (Z.lxor t0 976) (Z.lxor t1 64)) t2) t3) t4) t5) t6) t7 < 2^26) by (apply land_range26; assumption).
    assert (A8 : 0 <= Z.land (Z.land (Z.land (Z.land (Z.land (Z.land (Z.land (Z.land (Z.lxor t0 976) (Z.lxor t1 64)) t2) t3) t4) t5) t6) t7) t8 < 2^26) by (apply land_range26; assumption).
    destruct (Z.eqb_spec V' P256) as [E|E].
    - assert (t0 = 67107887 /\ t1 = 67108799 /\ t2 = 67108863 /\ t3 = 67108863 /\ t4 = 67108863 /\ t5 = 67108863 /\ t6 = 67108863 /\ t7 = 67108863 /\ t8 = 67108863 /\ s9 = 4194303)
        as [-> [-> [-> [-> [-> [-> [-> [-> [-> ->]]]]]]]]] by (rewrite <- P256_val10 in E; unfold V', val10 in E; lia). reflexivity.
    - apply Z.eqb_neq. intro Ez. apply E.
      apply land_all_ones26 in Ez as [Ez E9']; [|assumption|assumption].
      apply land_all_ones26 in Ez as [Ez E8']; [|assumption|assumption].
      apply land_all_ones26 in Ez as [Ez E7']; [|assumption|assumption].
      apply land_all_ones26 in Ez as [Ez E6']; [|assumption|assumption].
      apply land_all_ones26 in Ez as [Ez E5']; [|assumption|assumption].
      apply land_all_ones26 in Ez as [Ez E4']; [|assumption|assumption].
      apply land_all_ones26 in Ez as [Ez E3']; [|assumption|assumption].
      apply land_all_ones26 in Ez as [Ez E2']; [|assumption|assumption].
      apply land_all_ones26 in Ez as [E0' E1']; [|assumption|assumption].
      apply lxor_ones_iff26 in E0'; [|lia|lia]. apply lxor_ones_iff26 in E1'; [|lia|lia]. apply lxor_ones_iff26 in E9'; [|lia|lia].
      change (Z.lxor 67108863 976) with 67107887 in E0'. change (Z.lxor 67108863 64) with 67108799 in E1'. change (Z.lxor 67108863 62914560) with 4194303 in E9'.
      rewrite <- P256_val10. unfold V'. rewrite E0', E1', E2', E3', E4', E5', E6', E7', E8', E9'. reflexivity. }
  rewrite Z0, Z1.
  assert (Hmod : (V mod P256 =? 0) = (V' =? 0) || (V' =? P256)).
  { assert (EV : V = V' + x * P256) by lia.
    destruct (Z.eqb_spec V' 0) as [E|E]; [rewrite EV, E; simpl; rewrite Z.mod_mul by (unfold P256; lia); reflexivity|].
    destruct (Z.eqb_spec V' P256) as [E'|E'].
    - rewrite EV, E'. replace (P256 + x * P256) with ((1 + x) * P256) by ring. rewrite Z.mod_mul by (unfold P256; lia). reflexivity.
    - cbn [orb]. apply Z.eqb_neq. rewrite EV. rewrite Z.mod_add by (unfold P256; lia). unfold P256 in *. lia. }
  rewrite Hmod. destruct (V' =? 0), (V' =? P256); reflexivity.
Qed.

(* ---- weakest-precondition forms ---- *)
Theorem fe10x26_ntz_wp r0 r1 r2 r3 r4 r5 r6 r7 r8 r9 (Q : Z -> Prop) :
  (0 <= r0 < 2^31 /\ 0 <= r1 < 2^31 /\ 0 <= r2 < 2^31 /\ 0 <= r3 < 2^31 /\ 0 <= r4 < 2^31 /\ 0 <= r5 < 2^31 /\ 0 <= r6 < 2^31 /\ 0 <= r7 < 2^31 /\ 0 <= r8 < 2^31 /\ 0 <= r9 < 2^27) ->
  (forall ret, ret = (if (val10 r0 r1 r2 r3 r4 r5 r6 r7 r8 r9) mod P256 =? 0 then 1 else 0) -> Q ret) ->
  fe10x26_ntz_k r0 r1 r2 r3 r4 r5 r6 r7 r8 r9 Q.
Proof.
  intros [H0 [H1 [H2 [H3 [H4 [H5 [H6 [H7 [H8 H9]]]]]]]]] HQ.
  change (Q (fe10x26_ntz r0 r1 r2 r3 r4 r5 r6 r7 r8 r9)).
  apply HQ. apply fe10x26_ntz_correct; assumption.
Qed.

Ltac sel32 := rewrite ?land_all32, ?Z.land_0_r, ?Z.lor_0_r, ?Z.lor_0_l by lia.
Theorem fe10x26_cmov_wp r0 r1 r2 r3 r4 r5 r6 r7 r8 r9 a0 a1 a2 a3 a4 a5 a6 a7 a8 a9 flag (Q : Z -> Z -> Z -> Z -> Z -> Z -> Z -> Z -> Z -> Z -> Prop) :
  (0 <= r0 < 2^32 /\ 0 <= r1 < 2^32 /\ 0 <= r2 < 2^32 /\ 0 <= r3 < 2^32 /\ 0 <= r4 < 2^32 /\ 0 <= r5 < 2^32 /\ 0 <= r6 < 2^32 /\ 0 <= r7 < 2^32 /\ 0 <= r8 < 2^32 /\ 0 <= r9 < 2^32 /\
   0 <= a0 < 2^32 /\ 0 <= a1 < 2^32 /\ 0 <= a2 < 2^32 /\ 0 <= a3 < 2^32 /\ 0 <= a4 < 2^32 /\ 0 <= a5 < 2^32 /\ 0 <= a6 < 2^32 /\ 0 <= a7 < 2^32 /\ 0 <= a8 < 2^32 /\ 0 <= a9 < 2^32) ->
  (flag = 0 /\ Q r0 r1 r2 r3 r4 r5 r6 r7 r8 r9) \/ (flag = 1 /\ Q a0 a1 a2 a3 a4 a5 a6 a7 a8 a9) ->
  fe10x26_cmov_k r0 r1 r2 r3 r4 r5 r6 r7 r8 r9 a0 a1 a2 a3 a4 a5 a6 a7 a8 a9 flag Q.
Proof.
  intros [? [? [? [? [? [? [? [? [? [? [? [? [? [? [? [? [? [? [? ?]]]]]]]]]]]]]]]]]]] [[-> HQ] | [-> HQ]]; unfold fe10x26_cmov_k; cbv zeta.
  - change (u32 (u32 0 + (4294967295 - 0))) with 4294967295. change (4294967295 - 4294967295) with 0. sel32. exact HQ.
  - change (u32 (u32 1 + (4294967295 - 0))) with 0. change (4294967295 - 0) with 4294967295. sel32. exact HQ.
Qed.
