(* Proof ABOUT the generated point doubling in the 32-bit-limb configuration (Gen/gej_double32.v: secp256k1_gej_double of
   src/group_impl.h translated with USE_FORCE_WIDEMUL_INT64, its field operations kept as calls to the separately translated and proved
   10x26 limb functions - code that the default build and the test suite never compile).  Same statement as GejDouble.v: for ALL Jacobian
   inputs whose limbs are in the domain of the 10x26 multiplication (limbs below 2^30, top limb below 2^26: every magnitude up to 4) no limb
   operation leaves its proved domain, the result limbs are bounded, and the result is the doubling formula modulo p. *)
From Coq Require Import ZArith Lia List Bool Setoid Morphisms.
Require Import Kernel.CSem Kernel.Bind Kernel.Field5x52 Kernel.Field10x26 Kernel.Field10x26Wp Kernel.Cong.
Require Import Gen.fe10x26_mul_inner Gen.fe10x26_sqr_inner Gen.fe10x26_add Gen.fe10x26_negate Gen.fe10x26_half Gen.fe10x26_mul_int Gen.gej_double32.
Import ListNotations.
Local Open Scope Z_scope.
Local Opaque fe10x26_mul_inner_k fe10x26_sqr_inner_k fe10x26_add_k fe10x26_negate_k fe10x26_half_k fe10x26_mul_int_k.

(* limbs below m times the bounds the multiplication guarantees for its result (2^27 per limb, 2^23 for the top limb): magnitude m implies lim32 m *)
Definition lim32 (m a0 a1 a2 a3 a4 a5 a6 a7 a8 a9 : Z) : Prop :=
  0 <= a0 < m * 2^27 /\ 0 <= a1 < m * 2^27 /\ 0 <= a2 < m * 2^27 /\ 0 <= a3 < m * 2^27 /\ 0 <= a4 < m * 2^27 /\
  0 <= a5 < m * 2^27 /\ 0 <= a6 < m * 2^27 /\ 0 <= a7 < m * 2^27 /\ 0 <= a8 < m * 2^27 /\ 0 <= a9 < m * 2^23.
(* limbs of a field element of magnitude at most m *)
Definition mag32 (m a0 a1 a2 a3 a4 a5 a6 a7 a8 a9 : Z) : Prop :=
  0 <= a0 <= 2 * m * 67108863 /\ 0 <= a1 <= 2 * m * 67108863 /\ 0 <= a2 <= 2 * m * 67108863 /\ 0 <= a3 <= 2 * m * 67108863 /\ 0 <= a4 <= 2 * m * 67108863 /\
  0 <= a5 <= 2 * m * 67108863 /\ 0 <= a6 <= 2 * m * 67108863 /\ 0 <= a7 <= 2 * m * 67108863 /\ 0 <= a8 <= 2 * m * 67108863 /\ 0 <= a9 <= 2 * m * 4194303.
Lemma mag32_4_lim32_8 a0 a1 a2 a3 a4 a5 a6 a7 a8 a9 : mag32 4 a0 a1 a2 a3 a4 a5 a6 a7 a8 a9 -> lim32 8 a0 a1 a2 a3 a4 a5 a6 a7 a8 a9.
Proof. unfold mag32, lim32. intros [? [? [? [? [? [? [? [? [? ?]]]]]]]]]. repeat split; lia. Qed.

Ltac mul_step := apply fe10x26_mul_inner_wp; [lia|lia|lia|lia|lia|lia|lia|lia|lia|lia|lia|lia|lia|lia|lia|lia|lia|lia|lia|lia|];
  let C := fresh "C" in intros ? ? ? ? ? ? ? ? ? ? [[? [? [? [? [? [? [? [? [? ?]]]]]]]]] C]; apply cong_of_mod in C.
Ltac sqr_step := apply fe10x26_sqr_inner_wp; [lia|lia|lia|lia|lia|lia|lia|lia|lia|lia|];
  let C := fresh "C" in intros ? ? ? ? ? ? ? ? ? ? [[? [? [? [? [? [? [? [? [? ?]]]]]]]]] C]; apply cong_of_mod in C.
Ltac add_step := apply fe10x26_add_wp; [lia|lia|lia|lia|lia|lia|lia|lia|lia|lia|lia|lia|lia|lia|lia|lia|lia|lia|lia|lia|lia|lia|lia|lia|lia|lia|lia|lia|lia|lia|];
  intros ? ? ? ? ? ? ? ? ? ? ? ? ? ? ? ? ? ? ? ? ?V.
Ltac mul_int_step := apply fe10x26_mul_int_wp; [lia|lia|lia|lia|lia|lia|lia|lia|lia|lia|lia|lia|lia|lia|lia|lia|lia|lia|lia|lia|lia|];
  intros ? ? ? ? ? ? ? ? ? ? ? ? ? ? ? ? ? ? ? ? ?V.
Ltac negate_step := apply fe10x26_negate_wp; [lia|lia|lia|lia|lia|lia|lia|lia|lia|lia|lia|];
  intros ? ? ? ? ? ? ? ? ? ? ? ? ? ? ? ? ? ? ? ? ?V.
Ltac half_step := apply fe10x26_half_wp; [lia|lia|lia|lia|lia|lia|lia|lia|lia|lia|];
  intros ? ? ? ? ? ? ? ? ? ? [? [? [? [? [? [? [? [? [? ?]]]]]]]]] ?V.

Theorem gej_double32_correct inf x0 x1 x2 x3 x4 x5 x6 x7 x8 x9 y0 y1 y2 y3 y4 y5 y6 y7 y8 y9 z0 z1 z2 z3 z4 z5 z6 z7 z8 z9 :
  lim32 8 x0 x1 x2 x3 x4 x5 x6 x7 x8 x9 -> lim32 8 y0 y1 y2 y3 y4 y5 y6 y7 y8 y9 -> lim32 8 z0 z1 z2 z3 z4 z5 z6 z7 z8 z9 ->
  gej_double32_k inf x0 x1 x2 x3 x4 x5 x6 x7 x8 x9 y0 y1 y2 y3 y4 y5 y6 y7 y8 y9 z0 z1 z2 z3 z4 z5 z6 z7 z8 z9
    (fun rinf rx0 rx1 rx2 rx3 rx4 rx5 rx6 rx7 rx8 rx9 ry0 ry1 ry2 ry3 ry4 ry5 ry6 ry7 ry8 ry9 rz0 rz1 rz2 rz3 rz4 rz5 rz6 rz7 rz8 rz9 =>
      let X := val10 x0 x1 x2 x3 x4 x5 x6 x7 x8 x9 in let Y := val10 y0 y1 y2 y3 y4 y5 y6 y7 y8 y9 in let Z := val10 z0 z1 z2 z3 z4 z5 z6 z7 z8 z9 in
      rinf = inf /\
      (lim32 3 rx0 rx1 rx2 rx3 rx4 rx5 rx6 rx7 rx8 rx9 /\ mag32 3 ry0 ry1 ry2 ry3 ry4 ry5 ry6 ry7 ry8 ry9 /\ lim32 1 rz0 rz1 rz2 rz3 rz4 rz5 rz6 rz7 rz8 rz9) /\
      cong (val10 rz0 rz1 rz2 rz3 rz4 rz5 rz6 rz7 rz8 rz9) (Y * Z) /\
      cong (4 * val10 rx0 rx1 rx2 rx3 rx4 rx5 rx6 rx7 rx8 rx9) (9 * (X * X * X * X) - 8 * (X * (Y * Y))) /\
      cong (8 * val10 ry0 ry1 ry2 ry3 ry4 ry5 ry6 ry7 ry8 ry9) (- 27 * (X * X * X * X * X * X) + 36 * (X * X * X * (Y * Y)) - 8 * (Y * Y * Y * Y))).
Proof.
  unfold mag32, lim32. intros [Hx0 [Hx1 [Hx2 [Hx3 [Hx4 [Hx5 [Hx6 [Hx7 [Hx8 Hx9]]]]]]]]] [Hy0 [Hy1 [Hy2 [Hy3 [Hy4 [Hy5 [Hy6 [Hy7 [Hy8 Hy9]]]]]]]]] [Hz0 [Hz1 [Hz2 [Hz3 [Hz4 [Hz5 [Hz6 [Hz7 [Hz8 Hz9]]]]]]]]].
  unfold gej_double32_k.
  apply bind_intro; intros rinf Hinf; cbv beta.
  mul_step. sqr_step. sqr_step. mul_int_step. half_step. negate_step. mul_step. sqr_step. add_step. add_step. sqr_step. add_step. mul_step. add_step. negate_step.
  split; [exact Hinf|]. split; [repeat split; lia|].
  exact (double_formula _ _ _ _ _ _ _ _ _ _ _ _ _ _ _ _ _ _ _ C C0 C1 V V0 V1 C2 C3 V2 V3 C4 V4 C5 V5 V6).
Qed.
