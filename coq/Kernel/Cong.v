(* Congruence modulo the field prime as a setoid: the composition of the limb-level field theorems into statements about group
   formulas is rewriting with congruences under +, -, * . *)
From Coq Require Import ZArith Lia Setoid Morphisms.
Require Import Kernel.Field5x52.
Local Open Scope Z_scope.

Definition cong (a b : Z) : Prop := (P256 | a - b).
Lemma cong_of_mod a b : (a - b) mod P256 = 0 -> cong a b.
Proof. intros H. apply Z.mod_divide in H; [exact H|unfold P256; lia]. Qed.
Lemma cong_to_mod a b : cong a b -> (a - b) mod P256 = 0.
Proof. intros H. apply Z.mod_divide; [unfold P256; lia|exact H]. Qed.
Lemma cong_of_eq a b : a = b -> cong a b.
Proof. intros ->. unfold cong. rewrite Z.sub_diag. apply Z.divide_0_r. Qed.
Lemma cong_add_mult a k : cong (a + k * P256) a.
Proof. unfold cong. exists k. ring. Qed.
Lemma cong_sub_mult a k : cong (k * P256 - a) (- a).
Proof. unfold cong. exists k. ring. Qed.

#[global] Instance cong_equiv : Equivalence cong.
Proof.
  split.
  - intros a. apply cong_of_eq. reflexivity.
  - intros a b [k H]. exists (- k). lia.
  - intros a b c [k H] [l H']. exists (k + l). lia.
Qed.
#[global] Instance cong_add : Proper (cong ==> cong ==> cong) Z.add.
Proof. intros a a' [k H] b b' [l H']. exists (k + l). lia. Qed.
#[global] Instance cong_sub : Proper (cong ==> cong ==> cong) Z.sub.
Proof. intros a a' [k H] b b' [l H']. exists (k - l). lia. Qed.
#[global] Instance cong_opp : Proper (cong ==> cong) Z.opp.
Proof. intros a a' [k H]. exists (- k). lia. Qed.
#[global] Instance cong_mul : Proper (cong ==> cong ==> cong) Z.mul.
Proof.
  intros a a' [k H] b b' [l H']. exists (k * b + a' * l).
  replace (a * b - a' * b') with ((a - a') * b + a' * (b - b')) by ring. rewrite H, H'. ring.
Qed.

Goal forall a b c d, cong a (b * c) -> cong d (a + a * b) -> cong d (b * c + b * c * b).
Proof. intros a b c d H1 H2. rewrite H2, H1. reflexivity. Qed.
