(* Congruence modulo the field prime as a setoid: the composition of the limb-level field theorems into statements about group
   formulas is rewriting with congruences under +, -, * . *)
From Coq Require Import ZArith Lia Setoid Morphisms.
Require Import Kernel.Field5x52.
Local Open Scope Z_scope.

Definition cong (a b : Z) : Prop := (P256 | a - b).
Lemma cong_of_mod a b : (a - b) mod P256 = 0 -> cong a b.
Proof. intros H. apply Z.mod_divide in H; [exact H|unfold P256; lia]. Qed.
Lemma cong_to_mod a b : cong a b -> (a - b) mod P256 = 0.
Proof. intros H. apply Z.mod_divide; [unfold P256; lia|exact H]. Qed.
Lemma cong_of_eq a b : a = b -> cong a b.
Proof. intros ->. unfold cong. rewrite Z.sub_diag. apply Z.divide_0_r. Qed.
Lemma cong_add_mult a k : cong (a + k * P256) a.
Proof. unfold cong. exists k. ring. Qed.
Lemma cong_sub_mult a k : cong (k * P256 - a) (- a).
Proof. unfold cong. exists k. ring. Qed.

#[global] Instance cong_equiv : Equivalence cong.
Proof.
  split.
  - intros a. apply cong_of_eq. reflexivity.
  - intros a b [k H]. exists (- k). lia.
  - intros a b c [k H] [l H']. exists (k + l). lia.
Qed.
#[global] Instance cong_add : Proper (cong ==> cong ==> cong) Z.add.
Proof. intros a a' [k H] b b' [l H']. exists (k + l). lia. Qed.
#[global] Instance cong_sub : Proper (cong ==> cong ==> cong) Z.sub.
Proof. intros a a' [k H] b b' [l H']. exists (k - l). lia. Qed.
#[global] Instance cong_opp : Proper (cong ==> cong) Z.opp.
Proof. intros a a' [k H]. exists (- k). lia. Qed.
#[global] Instance cong_mul : Proper (cong ==> cong ==> cong) Z.mul.
Proof.
  intros a a' [k H] b b' [l H']. exists (k * b + a' * l).
  replace (a * b - a' * b') with ((a - a') * b + a' * (b - b')) by ring. rewrite H, H'. ring.
Qed.

(* the algebra of the doubling formula, independent of the limb representation: from the congruences / equations that the 15 field
   operations of secp256k1_gej_double establish to the Jacobian doubling formula of y^2 = x^3 + 7 *)
Lemma double_formula X Y Z RZ S L0 L3 L Tn T L2 RX1 RX S2 T2 M RY0 RY b :
  cong RZ (Z * Y) -> cong S (Y * Y) -> cong L0 (X * X) -> L3 = L0 * 3 -> 2 * L = L3 + b * P256 -> Tn = 2 * (1 + 1) * P256 - S ->
  cong T (Tn * X) -> cong L2 (L * L) -> RX1 = L2 + T -> RX = RX1 + T -> cong S2 (S * S) -> T2 = T + RX -> cong M (T2 * L) ->
  RY0 = M + S2 -> RY = 2 * (2 + 1) * P256 - RY0 ->
  cong RZ (Y * Z) /\ cong (4 * RX) (9 * (X * X * X * X) - 8 * (X * (Y * Y))) /\
  cong (8 * RY) (- 27 * (X * X * X * X * X * X) + 36 * (X * X * X * (Y * Y)) - 8 * (Y * Y * Y * Y)).
Proof.
  intros C C0 C1 V V0 V1 C2 C3 V2 V3 C4 V4 C5 V5 V6.
  assert (HL : cong (2 * L) (3 * L0)) by (rewrite V0, V; replace (L0 * 3) with (3 * L0) by ring; apply cong_add_mult).
  assert (HT : cong Tn (- S)) by (rewrite V1; apply cong_sub_mult).
  assert (HR : cong RY (- RY0)) by (rewrite V6; apply cong_sub_mult).
  clear V V0 V1 V6. subst RX RX1 T2 RY0.
  split; [rewrite C; apply cong_of_eq; ring|].
  assert (E1 : cong (4 * (L2 + T + T)) (9 * (X * X * X * X) - 8 * (X * (Y * Y)))).
  { rewrite C3, C2. transitivity ((2 * L) * (2 * L) + 8 * (Tn * X)); [apply cong_of_eq; ring|].
    rewrite HL, HT, C1, C0. apply cong_of_eq; ring. }
  split; [exact E1|].
  rewrite HR, C5, C4.
  transitivity (- ((4 * T + 4 * (L2 + T + T)) * (2 * L) + 8 * (S * S))); [apply cong_of_eq; ring|].
  rewrite E1, HL, C2, HT, C1, C0. apply cong_of_eq; ring.
Qed.

Goal forall a b c d, cong a (b * c) -> cong d (a + a * b) -> cong d (b * c + b * c * b).
Proof. intros a b c d H1 H2. rewrite H2, H1. reflexivity. Qed.
