(* Proof ABOUT the generated 10x26 field multiplication (Gen/fe10x26_mul_inner.v: secp256k1_fe_mul_inner of src/field_10x26_impl.h,
   the field code of 32-bit targets and of USE_FORCE_WIDEMUL_INT64 builds): for ALL limb values within the magnitude contract (limbs below
   2^30, top limb below 2^26) no 64-bit accumulator wraps, the output limbs are in range and the value is the product modulo p. *)
From Coq Require Import ZArith Lia List Bool.
Require Import Kernel.CSem Kernel.Bind Kernel.Carry32 Kernel.Field5x52 Gen.fe10x26_mul_inner Gen.fe10x26_sqr_inner.
Import ListNotations.
Local Open Scope Z_scope.
Ltac Zify.zify_post_hook ::= Z.div_mod_to_equations.

Definition val10 (d0 d1 d2 d3 d4 d5 d6 d7 d8 d9 : Z) := d0 + d1 * 2^26 + d2 * 2^52 + d3 * 2^78 + d4 * 2^104 + d5 * 2^130 + d6 * 2^156 + d7 * 2^182 + d8 * 2^208 + d9 * 2^234.
Lemma mulb30 a b A B : 0 <= a < A -> 0 <= b < B -> 0 <= a * b <= (A - 1) * (B - 1).
Proof. intros. split; [apply Z.mul_nonneg_nonneg; lia|apply Z.mul_le_mono_nonneg; lia]. Qed.
Ltac gen_prod30 a b :=
  let H := fresh "PB" in
  match goal with Ha : 0 <= a < ?A, Hb : 0 <= b < ?B |- _ => pose proof (mulb30 a b A B Ha Hb) as H end;
  generalize dependent (a * b); intros ? ?.
Lemma land26 x : 0 <= x -> Z.land x 67108863 = x mod 2^26.
Proof. intros. change 67108863 with (Z.ones 26). apply Z.land_ones. lia. Qed.
Lemma land22 x : 0 <= x -> Z.land x (67108863 / 2^4) = x mod 2^22.
Proof. intros. change (67108863 / 2^4) with (Z.ones 22). apply Z.land_ones. lia. Qed.

(* the expression with every 64-bit wrap removed (syntactically) *)
Ltac strip_u64 e :=
  lazymatch e with
  | u64 ?a => strip_u64 a
  | ?a + ?b => let a' := strip_u64 a in let b' := strip_u64 b in constr:(a' + b')
  | ?a * ?b => let a' := strip_u64 a in let b' := strip_u64 b in constr:(a' * b')
  | _ => e
  end.
(* an assignment x = u64 (...nested wraps...): a NEW equation with the wraps removed is proved (each removal justified innermost-first
   by the bounds in context) and replaces the old one.  (Rewriting inside the hypothesis instead made Qed take minutes.) *)
Ltac sum_step :=
  lazymatch goal with |- bind (u64 _) _ => idtac end; bintro;
  lazymatch goal with H : ?x = u64 ?e |- _ =>
    try unfold fe10x26_mul_inner_R0, fe10x26_mul_inner_R1 in H; try unfold fe10x26_sqr_inner_R0, fe10x26_sqr_inner_R1 in H; try change (u32 (1024 * 2^4)) with 16384 in H; try change (15632 / 2^4) with 977 in H; try change (1024 / 2^4) with 64 in H;
    lazymatch type of H with _ = ?e1 =>
      let e' := strip_u64 e1 in
      let H' := fresh "Q" in
      assert (H' : x = e') by abstract (rewrite H; unfold u64;
        repeat (match goal with |- context[?a mod 2^64] => lazymatch a with context[_ mod 2^64] => fail | _ => rewrite (Z.mod_small a (2^64)) by (timeout 120 lia) end end);
        reflexivity);
      clear H end end.
Lemma split26_eq v u c : 0 <= v -> u = v mod 2^26 -> c = v / 2^26 -> v = u + c * 2^26 /\ 0 <= u < 2^26 /\ 0 <= c.
Proof. intros Hv -> ->. lia. Qed.
Lemma split22_eq v u c : 0 <= v -> u = v mod 2^22 -> c = v / 2^22 -> v = u + c * 2^22 /\ 0 <= u < 2^22 /\ 0 <= c.
Proof. intros Hv -> ->. lia. Qed.
Lemma split26_land v u c : 0 <= v -> u = Z.land v 67108863 -> c = v / 2^26 -> v = u + c * 2^26 /\ 0 <= u < 2^26 /\ 0 <= c.
Proof. intros Hv -> ->. rewrite land26 by lia. lia. Qed.
Lemma split26_land32 v u c : 0 <= v -> u = u32 (Z.land v 67108863) -> c = v / 2^26 -> v = u + c * 2^26 /\ 0 <= u < 2^26 /\ 0 <= c.
Proof. intros Hv -> ->. rewrite land26 by lia. unfold u32. rewrite (Z.mod_small (v mod 2^26)) by lia. lia. Qed.
Lemma split22_land32 v u c : 0 <= v -> u = u32 (Z.land v (67108863 / 2^4)) -> c = v / 2^22 -> v = u + c * 2^22 /\ 0 <= u < 2^22 /\ 0 <= c.
Proof. intros Hv -> ->. rewrite land22 by lia. unfold u32. rewrite (Z.mod_small (v mod 2^22)) by lia. lia. Qed.
Ltac split26_step :=
  do 2 bintro;
  lazymatch goal with Hu : ?u = ?e, Hc : ?c = ?v / 2^26 |- _ =>
    let V := fresh "V" in assert (V : 0 <= v) by abstract (timeout 120 lia);
    let S := fresh "S" in
    first [ pose proof (split26_land v u c V Hu Hc) as S | pose proof (split26_land32 v u c V Hu Hc) as S ];
    clear Hu Hc V; split3 S end.
Ltac split22_step :=
  do 2 bintro;
  lazymatch goal with Hu : ?u = ?e, Hc : ?c = ?v / 2^22 |- _ =>
    let V := fresh "V" in assert (V : 0 <= v) by abstract (timeout 120 lia);
    let S := fresh "S" in pose proof (split22_land32 v u c V Hu Hc) as S;
    clear Hu Hc V; split3 S end.

Definition modp0 (x : Z) : Prop := x mod P256 = 0.
(* weakest-precondition form (arbitrary continuation); the congruence is kept behind [modp0] so that the arithmetic tactics do not look inside the continuation hypothesis *)
Theorem fe10x26_mul_inner_wp a0 a1 a2 a3 a4 a5 a6 a7 a8 a9 b0 b1 b2 b3 b4 b5 b6 b7 b8 b9 (Q : Z -> Z -> Z -> Z -> Z -> Z -> Z -> Z -> Z -> Z -> Prop) :
  0 <= a0 < 2^30 -> 0 <= a1 < 2^30 -> 0 <= a2 < 2^30 -> 0 <= a3 < 2^30 -> 0 <= a4 < 2^30 -> 0 <= a5 < 2^30 -> 0 <= a6 < 2^30 -> 0 <= a7 < 2^30 -> 0 <= a8 < 2^30 -> 0 <= a9 < 2^26 ->
  0 <= b0 < 2^30 -> 0 <= b1 < 2^30 -> 0 <= b2 < 2^30 -> 0 <= b3 < 2^30 -> 0 <= b4 < 2^30 -> 0 <= b5 < 2^30 -> 0 <= b6 < 2^30 -> 0 <= b7 < 2^30 -> 0 <= b8 < 2^30 -> 0 <= b9 < 2^26 ->
  (forall r0 r1 r2 r3 r4 r5 r6 r7 r8 r9,
    (0 <= r0 < 2^26 /\ 0 <= r1 < 2^26 /\ 0 <= r2 < 2^27 /\ 0 <= r3 < 2^26 /\ 0 <= r4 < 2^26 /\ 0 <= r5 < 2^26 /\ 0 <= r6 < 2^26 /\ 0 <= r7 < 2^26 /\ 0 <= r8 < 2^26 /\ 0 <= r9 < 2^22) /\
    modp0 (val10 r0 r1 r2 r3 r4 r5 r6 r7 r8 r9 - val10 a0 a1 a2 a3 a4 a5 a6 a7 a8 a9 * val10 b0 b1 b2 b3 b4 b5 b6 b7 b8 b9) -> Q r0 r1 r2 r3 r4 r5 r6 r7 r8 r9) ->
  fe10x26_mul_inner_k a0 a1 a2 a3 a4 a5 a6 a7 a8 a9 b0 b1 b2 b3 b4 b5 b6 b7 b8 b9 Q.
Proof.
  intros Ha0 Ha1 Ha2 Ha3 Ha4 Ha5 Ha6 Ha7 Ha8 Ha9 Hb0 Hb1 Hb2 Hb3 Hb4 Hb5 Hb6 Hb7 Hb8 Hb9 HQ.
  assert (Hprod : val10 a0 a1 a2 a3 a4 a5 a6 a7 a8 a9 * val10 b0 b1 b2 b3 b4 b5 b6 b7 b8 b9 =
    (a0*b0)
    + (a0*b1 + a1*b0) * 2^26
    + (a0*b2 + a1*b1 + a2*b0) * 2^52
    + (a0*b3 + a1*b2 + a2*b1 + a3*b0) * 2^78
    + (a0*b4 + a1*b3 + a2*b2 + a3*b1 + a4*b0) * 2^104
    + (a0*b5 + a1*b4 + a2*b3 + a3*b2 + a4*b1 + a5*b0) * 2^130
    + (a0*b6 + a1*b5 + a2*b4 + a3*b3 + a4*b2 + a5*b1 + a6*b0) * 2^156
    + (a0*b7 + a1*b6 + a2*b5 + a3*b4 + a4*b3 + a5*b2 + a6*b1 + a7*b0) * 2^182
    + (a0*b8 + a1*b7 + a2*b6 + a3*b5 + a4*b4 + a5*b3 + a6*b2 + a7*b1 + a8*b0) * 2^208
    + (a0*b9 + a1*b8 + a2*b7 + a3*b6 + a4*b5 + a5*b4 + a6*b3 + a7*b2 + a8*b1 + a9*b0) * 2^234
    + (a1*b9 + a2*b8 + a3*b7 + a4*b6 + a5*b5 + a6*b4 + a7*b3 + a8*b2 + a9*b1) * 2^260
    + (a2*b9 + a3*b8 + a4*b7 + a5*b6 + a6*b5 + a7*b4 + a8*b3 + a9*b2) * 2^286
    + (a3*b9 + a4*b8 + a5*b7 + a6*b6 + a7*b5 + a8*b4 + a9*b3) * 2^312
    + (a4*b9 + a5*b8 + a6*b7 + a7*b6 + a8*b5 + a9*b4) * 2^338
    + (a5*b9 + a6*b8 + a7*b7 + a8*b6 + a9*b5) * 2^364
    + (a6*b9 + a7*b8 + a8*b7 + a9*b6) * 2^390
    + (a7*b9 + a8*b8 + a9*b7) * 2^416
    + (a8*b9 + a9*b8) * 2^442
    + (a9*b9) * 2^468) by (unfold val10; ring).
  rewrite Hprod in HQ. clear Hprod. revert HQ.
  unfold fe10x26_mul_inner_k.
  gen_prod30 a0 b0. gen_prod30 a0 b1. gen_prod30 a0 b2. gen_prod30 a0 b3. gen_prod30 a0 b4. gen_prod30 a0 b5. gen_prod30 a0 b6. gen_prod30 a0 b7. gen_prod30 a0 b8. gen_prod30 a0 b9. gen_prod30 a1 b0. gen_prod30 a1 b1. gen_prod30 a1 b2. gen_prod30 a1 b3. gen_prod30 a1 b4. gen_prod30 a1 b5. gen_prod30 a1 b6. gen_prod30 a1 b7. gen_prod30 a1 b8. gen_prod30 a1 b9. gen_prod30 a2 b0. gen_prod30 a2 b1. gen_prod30 a2 b2. gen_prod30 a2 b3. gen_prod30 a2 b4. gen_prod30 a2 b5. gen_prod30 a2 b6. gen_prod30 a2 b7. gen_prod30 a2 b8. gen_prod30 a2 b9. gen_prod30 a3 b0. gen_prod30 a3 b1. gen_prod30 a3 b2. gen_prod30 a3 b3. gen_prod30 a3 b4. gen_prod30 a3 b5. gen_prod30 a3 b6. gen_prod30 a3 b7. gen_prod30 a3 b8. gen_prod30 a3 b9. gen_prod30 a4 b0. gen_prod30 a4 b1. gen_prod30 a4 b2. gen_prod30 a4 b3. gen_prod30 a4 b4. gen_prod30 a4 b5. gen_prod30 a4 b6. gen_prod30 a4 b7. gen_prod30 a4 b8. gen_prod30 a4 b9. gen_prod30 a5 b0. gen_prod30 a5 b1. gen_prod30 a5 b2. gen_prod30 a5 b3. gen_prod30 a5 b4. gen_prod30 a5 b5. gen_prod30 a5 b6. gen_prod30 a5 b7. gen_prod30 a5 b8. gen_prod30 a5 b9. gen_prod30 a6 b0. gen_prod30 a6 b1. gen_prod30 a6 b2. gen_prod30 a6 b3. gen_prod30 a6 b4. gen_prod30 a6 b5. gen_prod30 a6 b6. gen_prod30 a6 b7. gen_prod30 a6 b8. gen_prod30 a6 b9. gen_prod30 a7 b0. gen_prod30 a7 b1. gen_prod30 a7 b2. gen_prod30 a7 b3. gen_prod30 a7 b4. gen_prod30 a7 b5. gen_prod30 a7 b6. gen_prod30 a7 b7. gen_prod30 a7 b8. gen_prod30 a7 b9. gen_prod30 a8 b0. gen_prod30 a8 b1. gen_prod30 a8 b2. gen_prod30 a8 b3. gen_prod30 a8 b4. gen_prod30 a8 b5. gen_prod30 a8 b6. gen_prod30 a8 b7. gen_prod30 a8 b8. gen_prod30 a8 b9. gen_prod30 a9 b0. gen_prod30 a9 b1. gen_prod30 a9 b2. gen_prod30 a9 b3. gen_prod30 a9 b4. gen_prod30 a9 b5. gen_prod30 a9 b6. gen_prod30 a9 b7. gen_prod30 a9 b8. gen_prod30 a9 b9.
  clear Ha0 Ha1 Ha2 Ha3 Ha4 Ha5 Ha6 Ha7 Ha8 Ha9 Hb0 Hb1 Hb2 Hb3 Hb4 Hb5 Hb6 Hb7 Hb8 Hb9.
  intro HQ.
  repeat first [ split26_step | split22_step | sum_step | keep_step ].
  bintro. match goal with H : ?x = u32 ?v |- _ => assert (Er : x = v) by (rewrite H; unfold u32; apply Z.mod_small; timeout 120 lia); clear H end.
  cbv beta.
  apply HQ; clear HQ; unfold modp0.
  split; [repeat (split; [timeout 300 lia|]); timeout 300 lia|].
  (* the exact integer identity: result + (16*Dhi + c37) * p = product, where Dhi collects the limbs of the columns above 2^260 *)
  match goal with |- (?l - ?x) mod P256 = 0 =>
    assert (ID : l + (16 * (u0 + u1 * 2^26 + u2 * 2^52 + u3 * 2^78 + u4 * 2^104 + u5 * 2^130 + u6 * 2^156 + u7 * 2^182 + u8 * 2^208 + d18 * 2^234) + c37) * P256 = x)
      by (unfold val10, P256; timeout 500 lia);
    rewrite <- ID end.
  match goal with |- (?l - (?l + ?k * P256)) mod P256 = 0 => replace (l - (l + k * P256)) with ((- k) * P256) by ring end.
  apply Z.mod_mul. unfold P256. lia.
Qed.

Theorem fe10x26_mul_inner_correct a0 a1 a2 a3 a4 a5 a6 a7 a8 a9 b0 b1 b2 b3 b4 b5 b6 b7 b8 b9 :
  0 <= a0 < 2^30 -> 0 <= a1 < 2^30 -> 0 <= a2 < 2^30 -> 0 <= a3 < 2^30 -> 0 <= a4 < 2^30 -> 0 <= a5 < 2^30 -> 0 <= a6 < 2^30 -> 0 <= a7 < 2^30 -> 0 <= a8 < 2^30 -> 0 <= a9 < 2^26 ->
  0 <= b0 < 2^30 -> 0 <= b1 < 2^30 -> 0 <= b2 < 2^30 -> 0 <= b3 < 2^30 -> 0 <= b4 < 2^30 -> 0 <= b5 < 2^30 -> 0 <= b6 < 2^30 -> 0 <= b7 < 2^30 -> 0 <= b8 < 2^30 -> 0 <= b9 < 2^26 ->
  fe10x26_mul_inner_k a0 a1 a2 a3 a4 a5 a6 a7 a8 a9 b0 b1 b2 b3 b4 b5 b6 b7 b8 b9 (fun r0 r1 r2 r3 r4 r5 r6 r7 r8 r9 =>
    (0 <= r0 < 2^26 /\ 0 <= r1 < 2^26 /\ 0 <= r2 < 2^27 /\ 0 <= r3 < 2^26 /\ 0 <= r4 < 2^26 /\ 0 <= r5 < 2^26 /\ 0 <= r6 < 2^26 /\ 0 <= r7 < 2^26 /\ 0 <= r8 < 2^26 /\ 0 <= r9 < 2^22) /\
    (val10 r0 r1 r2 r3 r4 r5 r6 r7 r8 r9 - val10 a0 a1 a2 a3 a4 a5 a6 a7 a8 a9 * val10 b0 b1 b2 b3 b4 b5 b6 b7 b8 b9) mod P256 = 0).
Proof.
  intros. apply fe10x26_mul_inner_wp; try assumption. intros r0 r1 r2 r3 r4 r5 r6 r7 r8 r9 H'. exact H'.
Qed.

(* ---- squaring ---- *)
Ltac gen_sq30 a :=
  let H := fresh "PB" in
  match goal with Ha : 0 <= a < ?A |- _ => pose proof (mulb30 a a A A Ha Ha) as H end;
  generalize dependent (a * a); intros ? ?.
Lemma dbl30 a : 0 <= a < 2^30 -> u32 (a * 2) = 2 * a.
Proof. intros. unfold u32. rewrite Z.mod_small by lia. ring. Qed.

Theorem fe10x26_sqr_inner_wp a0 a1 a2 a3 a4 a5 a6 a7 a8 a9 (Q : Z -> Z -> Z -> Z -> Z -> Z -> Z -> Z -> Z -> Z -> Prop) :
  0 <= a0 < 2^30 -> 0 <= a1 < 2^30 -> 0 <= a2 < 2^30 -> 0 <= a3 < 2^30 -> 0 <= a4 < 2^30 -> 0 <= a5 < 2^30 -> 0 <= a6 < 2^30 -> 0 <= a7 < 2^30 -> 0 <= a8 < 2^30 -> 0 <= a9 < 2^26 ->
  (forall r0 r1 r2 r3 r4 r5 r6 r7 r8 r9,
    (0 <= r0 < 2^26 /\ 0 <= r1 < 2^26 /\ 0 <= r2 < 2^27 /\ 0 <= r3 < 2^26 /\ 0 <= r4 < 2^26 /\ 0 <= r5 < 2^26 /\ 0 <= r6 < 2^26 /\ 0 <= r7 < 2^26 /\ 0 <= r8 < 2^26 /\ 0 <= r9 < 2^22) /\
    modp0 (val10 r0 r1 r2 r3 r4 r5 r6 r7 r8 r9 - val10 a0 a1 a2 a3 a4 a5 a6 a7 a8 a9 * val10 a0 a1 a2 a3 a4 a5 a6 a7 a8 a9) -> Q r0 r1 r2 r3 r4 r5 r6 r7 r8 r9) ->
  fe10x26_sqr_inner_k a0 a1 a2 a3 a4 a5 a6 a7 a8 a9 Q.
Proof.
  intros Ha0 Ha1 Ha2 Ha3 Ha4 Ha5 Ha6 Ha7 Ha8 Ha9 HQ.
  assert (Hprod : val10 a0 a1 a2 a3 a4 a5 a6 a7 a8 a9 * val10 a0 a1 a2 a3 a4 a5 a6 a7 a8 a9 =
    (a0*a0)
    + (2*(a0*a1)) * 2^26
    + (2*(a0*a2) + a1*a1) * 2^52
    + (2*(a0*a3) + 2*(a1*a2)) * 2^78
    + (2*(a0*a4) + 2*(a1*a3) + a2*a2) * 2^104
    + (2*(a0*a5) + 2*(a1*a4) + 2*(a2*a3)) * 2^130
    + (2*(a0*a6) + 2*(a1*a5) + 2*(a2*a4) + a3*a3) * 2^156
    + (2*(a0*a7) + 2*(a1*a6) + 2*(a2*a5) + 2*(a3*a4)) * 2^182
    + (2*(a0*a8) + 2*(a1*a7) + 2*(a2*a6) + 2*(a3*a5) + a4*a4) * 2^208
    + (2*(a0*a9) + 2*(a1*a8) + 2*(a2*a7) + 2*(a3*a6) + 2*(a4*a5)) * 2^234
    + (2*(a1*a9) + 2*(a2*a8) + 2*(a3*a7) + 2*(a4*a6) + a5*a5) * 2^260
    + (2*(a2*a9) + 2*(a3*a8) + 2*(a4*a7) + 2*(a5*a6)) * 2^286
    + (2*(a3*a9) + 2*(a4*a8) + 2*(a5*a7) + a6*a6) * 2^312
    + (2*(a4*a9) + 2*(a5*a8) + 2*(a6*a7)) * 2^338
    + (2*(a5*a9) + 2*(a6*a8) + a7*a7) * 2^364
    + (2*(a6*a9) + 2*(a7*a8)) * 2^390
    + (2*(a7*a9) + a8*a8) * 2^416
    + (2*(a8*a9)) * 2^442
    + (a9*a9) * 2^468) by (unfold val10; ring).
  rewrite Hprod in HQ. clear Hprod.
  unfold fe10x26_sqr_inner_k.
  rewrite (dbl30 a0) by lia. rewrite (dbl30 a1) by lia. rewrite (dbl30 a2) by lia. rewrite (dbl30 a3) by lia. rewrite (dbl30 a4) by lia. rewrite (dbl30 a5) by lia. rewrite (dbl30 a6) by lia. rewrite (dbl30 a7) by lia. rewrite (dbl30 a8) by lia.
  rewrite <- !Z.mul_assoc.
  revert HQ.
  gen_sq30 a0. gen_prod30 a0 a1. gen_prod30 a0 a2. gen_prod30 a0 a3. gen_prod30 a0 a4. gen_prod30 a0 a5. gen_prod30 a0 a6. gen_prod30 a0 a7. gen_prod30 a0 a8. gen_prod30 a0 a9. gen_sq30 a1. gen_prod30 a1 a2. gen_prod30 a1 a3. gen_prod30 a1 a4. gen_prod30 a1 a5. gen_prod30 a1 a6. gen_prod30 a1 a7. gen_prod30 a1 a8. gen_prod30 a1 a9. gen_sq30 a2. gen_prod30 a2 a3. gen_prod30 a2 a4. gen_prod30 a2 a5. gen_prod30 a2 a6. gen_prod30 a2 a7. gen_prod30 a2 a8. gen_prod30 a2 a9. gen_sq30 a3. gen_prod30 a3 a4. gen_prod30 a3 a5. gen_prod30 a3 a6. gen_prod30 a3 a7. gen_prod30 a3 a8. gen_prod30 a3 a9. gen_sq30 a4. gen_prod30 a4 a5. gen_prod30 a4 a6. gen_prod30 a4 a7. gen_prod30 a4 a8. gen_prod30 a4 a9. gen_sq30 a5. gen_prod30 a5 a6. gen_prod30 a5 a7. gen_prod30 a5 a8. gen_prod30 a5 a9. gen_sq30 a6. gen_prod30 a6 a7. gen_prod30 a6 a8. gen_prod30 a6 a9. gen_sq30 a7. gen_prod30 a7 a8. gen_prod30 a7 a9. gen_sq30 a8. gen_prod30 a8 a9. gen_sq30 a9.
  clear Ha0 Ha1 Ha2 Ha3 Ha4 Ha5 Ha6 Ha7 Ha8 Ha9.
  intro HQ.
  repeat first [ split26_step | split22_step | sum_step | keep_step ].
  bintro. match goal with H : ?x = u32 ?v |- _ => assert (Er : x = v) by (rewrite H; unfold u32; apply Z.mod_small; timeout 120 lia); clear H end.
  cbv beta.
  apply HQ; clear HQ; unfold modp0.
  split; [repeat (split; [timeout 300 lia|]); timeout 300 lia|].
  match goal with |- (?l - ?x) mod P256 = 0 =>
    assert (ID : l + (16 * (u0 + u1 * 2^26 + u2 * 2^52 + u3 * 2^78 + u4 * 2^104 + u5 * 2^130 + u6 * 2^156 + u7 * 2^182 + u8 * 2^208 + d18 * 2^234) + c37) * P256 = x)
      by (unfold val10, P256; timeout 500 lia);
    rewrite <- ID end.
  match goal with |- (?l - (?l + ?k * P256)) mod P256 = 0 => replace (l - (l + k * P256)) with ((- k) * P256) by ring end.
  apply Z.mod_mul. unfold P256. lia.
Qed.

Theorem fe10x26_sqr_inner_correct a0 a1 a2 a3 a4 a5 a6 a7 a8 a9 :
  0 <= a0 < 2^30 -> 0 <= a1 < 2^30 -> 0 <= a2 < 2^30 -> 0 <= a3 < 2^30 -> 0 <= a4 < 2^30 -> 0 <= a5 < 2^30 -> 0 <= a6 < 2^30 -> 0 <= a7 < 2^30 -> 0 <= a8 < 2^30 -> 0 <= a9 < 2^26 ->
  fe10x26_sqr_inner_k a0 a1 a2 a3 a4 a5 a6 a7 a8 a9 (fun r0 r1 r2 r3 r4 r5 r6 r7 r8 r9 =>
    (0 <= r0 < 2^26 /\ 0 <= r1 < 2^26 /\ 0 <= r2 < 2^27 /\ 0 <= r3 < 2^26 /\ 0 <= r4 < 2^26 /\ 0 <= r5 < 2^26 /\ 0 <= r6 < 2^26 /\ 0 <= r7 < 2^26 /\ 0 <= r8 < 2^26 /\ 0 <= r9 < 2^22) /\
    (val10 r0 r1 r2 r3 r4 r5 r6 r7 r8 r9 - val10 a0 a1 a2 a3 a4 a5 a6 a7 a8 a9 * val10 a0 a1 a2 a3 a4 a5 a6 a7 a8 a9) mod P256 = 0).
Proof.
  intros. apply fe10x26_sqr_inner_wp; try assumption. intros r0 r1 r2 r3 r4 r5 r6 r7 r8 r9 H'. exact H'.
Qed.
