(* The field primitives in weakest-precondition form (an arbitrary continuation), for composing callers that are translated as
   calls (Gen/gej_double.v): addition, multiplication by a small constant, negation and halving with the limb bounds that the
   group formulas need.  The multiplication and squaring WP theorems are in Field5x52.v / Field5x52Sqr.v. *)
From Coq Require Import ZArith Lia List Bool.
Require Import Kernel.CSem Kernel.Field5x52 Kernel.FieldPrims Kernel.MorePrims.
Require Import Gen.fe_impl_add Gen.fe_impl_negate_unchecked Gen.fe_impl_half Gen.fe_impl_mul_int_unchecked.
Import ListNotations.
Local Open Scope Z_scope.
Ltac Zify.zify_post_hook ::= Z.div_mod_to_equations.

Theorem fe_add_wp r0 r1 r2 r3 r4 a0 a1 a2 a3 a4 (Q : Z -> Z -> Z -> Z -> Z -> Prop) :
  0 <= r0 -> 0 <= r1 -> 0 <= r2 -> 0 <= r3 -> 0 <= r4 -> 0 <= a0 -> 0 <= a1 -> 0 <= a2 -> 0 <= a3 -> 0 <= a4 ->
  r0 + a0 < 2^64 -> r1 + a1 < 2^64 -> r2 + a2 < 2^64 -> r3 + a3 < 2^64 -> r4 + a4 < 2^64 ->
  (forall s0 s1 s2 s3 s4, s0 = r0 + a0 -> s1 = r1 + a1 -> s2 = r2 + a2 -> s3 = r3 + a3 -> s4 = r4 + a4 ->
     val5 s0 s1 s2 s3 s4 = val5 r0 r1 r2 r3 r4 + val5 a0 a1 a2 a3 a4 -> Q s0 s1 s2 s3 s4) ->
  fe_impl_add_k r0 r1 r2 r3 r4 a0 a1 a2 a3 a4 Q.
Proof.
  intros ? ? ? ? ? ? ? ? ? ? ? ? ? ? ? HQ. unfold fe_impl_add_k, u64. cbv zeta. rewrite !Z.mod_small by lia.
  apply HQ; try reflexivity. unfold val5. ring.
Qed.

Theorem fe_mul_int_wp r0 r1 r2 r3 r4 a (Q : Z -> Z -> Z -> Z -> Z -> Prop) :
  0 <= a < 2^64 -> 0 <= r0 -> 0 <= r1 -> 0 <= r2 -> 0 <= r3 -> 0 <= r4 ->
  r0 * a < 2^64 -> r1 * a < 2^64 -> r2 * a < 2^64 -> r3 * a < 2^64 -> r4 * a < 2^64 ->
  (forall s0 s1 s2 s3 s4, s0 = r0 * a -> s1 = r1 * a -> s2 = r2 * a -> s3 = r3 * a -> s4 = r4 * a ->
     val5 s0 s1 s2 s3 s4 = val5 r0 r1 r2 r3 r4 * a -> Q s0 s1 s2 s3 s4) ->
  fe_impl_mul_int_unchecked_k r0 r1 r2 r3 r4 a Q.
Proof.
  intros ? ? ? ? ? ? ? ? ? ? ? HQ. unfold fe_impl_mul_int_unchecked_k, u64. cbv zeta. rewrite (Z.mod_small a) by lia.
  rewrite !Z.mod_small by (split; [apply Z.mul_nonneg_nonneg; lia | assumption]).
  apply HQ; try reflexivity. unfold val5. ring.
Qed.

(* negation at magnitude bound m: every limb is subtracted from the corresponding limb of 2(m+1)p; exact whenever no limb underflows *)
Theorem fe_negate_wp a0 a1 a2 a3 a4 m (Q : Z -> Z -> Z -> Z -> Z -> Prop) :
  0 <= m <= 31 ->
  0 <= a0 <= 2 * (m + 1) * 4503595332402223 -> 0 <= a1 <= 2 * (m + 1) * 4503599627370495 -> 0 <= a2 <= 2 * (m + 1) * 4503599627370495 ->
  0 <= a3 <= 2 * (m + 1) * 4503599627370495 -> 0 <= a4 <= 2 * (m + 1) * 281474976710655 ->
  (forall r0 r1 r2 r3 r4,
     r0 = 2 * (m + 1) * 4503595332402223 - a0 -> r1 = 2 * (m + 1) * 4503599627370495 - a1 -> r2 = 2 * (m + 1) * 4503599627370495 - a2 ->
     r3 = 2 * (m + 1) * 4503599627370495 - a3 -> r4 = 2 * (m + 1) * 281474976710655 - a4 ->
     val5 r0 r1 r2 r3 r4 = 2 * (m + 1) * P256 - val5 a0 a1 a2 a3 a4 -> Q r0 r1 r2 r3 r4) ->
  fe_impl_negate_unchecked_k a0 a1 a2 a3 a4 m Q.
Proof.
  intros Hm H0 H1 H2 H3 H4 HQ. unfold fe_impl_negate_unchecked_k. cbv zeta.
  change (u64 (4503595332402223 * 2)) with 9007190664804446. change (u64 (4503599627370495 * 2)) with 9007199254740990.
  change (u64 (281474976710655 * 2)) with 562949953421310.
  unfold u64. rewrite (Z.mod_small (m + 1)) by lia.
  rewrite (Z.mod_small (9007190664804446 * (m + 1))), (Z.mod_small (9007199254740990 * (m + 1))), (Z.mod_small (562949953421310 * (m + 1))) by lia.
  rewrite !Z.mod_small by lia.
  apply HQ; try lia. unfold val5, P256. lia.
Qed.

(* halving with the limb bounds of the result: each limb is at most half of the input limb plus a full limb of p plus the bit
   that comes down from the next limb *)
Theorem fe_half_wp t0 t1 t2 t3 t4 (Q : Z -> Z -> Z -> Z -> Z -> Prop) :
  0 <= t0 < 2^58 -> 0 <= t1 < 2^58 -> 0 <= t2 < 2^58 -> 0 <= t3 < 2^58 -> 0 <= t4 < 2^54 ->
  (forall r0 r1 r2 r3 r4,
    (0 <= 2 * r0 <= t0 + 2^52 + 2^52 /\ 0 <= 2 * r1 <= t1 + 2^52 + 2^52 /\ 0 <= 2 * r2 <= t2 + 2^52 + 2^52 /\ 0 <= 2 * r3 <= t3 + 2^52 + 2^52 /\ 0 <= 2 * r4 <= t4 + 2^48) ->
    2 * val5 r0 r1 r2 r3 r4 = val5 t0 t1 t2 t3 t4 + (t0 mod 2) * P256 -> Q r0 r1 r2 r3 r4) ->
  fe_impl_half_k t0 t1 t2 t3 t4 Q.
Proof.
  intros H0 H1 H2 H3 H4 HQ. unfold fe_impl_half_k. cbv zeta.
  assert (L1 : forall x, 0 <= x -> Z.land x 1 = x mod 2) by (intros x Hx; change 1 with (Z.ones 1); apply Z.land_ones; lia).
  rewrite (L1 t0) by lia.
  assert (Hm : u64 (- (t0 mod 2)) / 2^12 = (t0 mod 2) * (2^52 - 1)).
  { unfold u64. assert (t0 mod 2 = 0 \/ t0 mod 2 = 1) as [E|E] by lia; rewrite E; reflexivity. }
  rewrite Hm.
  assert (Hl : Z.land 4503595332402223 ((t0 mod 2) * (2^52 - 1)) = (t0 mod 2) * 4503595332402223).
  { assert (t0 mod 2 = 0 \/ t0 mod 2 = 1) as [E|E] by lia; rewrite E; reflexivity. }
  rewrite Hl.
  set (b := t0 mod 2) in *. assert (Hb : 0 <= b <= 1) by (unfold b; lia).
  unfold u64. rewrite (Z.mod_small (t0 + b * 4503595332402223)), (Z.mod_small (t1 + b * (2^52 - 1))), (Z.mod_small (t2 + b * (2^52 - 1))),
    (Z.mod_small (t3 + b * (2^52 - 1))), (Z.mod_small (t4 + b * (2^52 - 1) / 2^4)) by lia.
  rewrite !L1 by lia.
  set (u0 := t0 + b * 4503595332402223). set (u1 := t1 + b * (2^52 - 1)). set (u2 := t2 + b * (2^52 - 1)). set (u3 := t3 + b * (2^52 - 1)).
  set (u4 := t4 + b * (2^52 - 1) / 2^4).
  assert (Hu4 : u4 = t4 + b * (2^48 - 1)) by (unfold u4; assert (b = 0 \/ b = 1) as [E|E] by lia; rewrite E; reflexivity).
  assert (He : u0 mod 2 = 0) by (unfold u0, b; lia).
  rewrite (Z.mod_small (u1 mod 2 * 2^51)), (Z.mod_small (u2 mod 2 * 2^51)), (Z.mod_small (u3 mod 2 * 2^51)), (Z.mod_small (u4 mod 2 * 2^51)) by lia.
  rewrite (Z.mod_small (u0 / 2^1 + u1 mod 2 * 2^51)), (Z.mod_small (u1 / 2^1 + u2 mod 2 * 2^51)), (Z.mod_small (u2 / 2^1 + u3 mod 2 * 2^51)),
    (Z.mod_small (u3 / 2^1 + u4 mod 2 * 2^51)) by (unfold u0, u1, u2, u3; lia).
  apply HQ.
  - unfold u0, u1, u2, u3 in *. repeat split; lia.
  - unfold val5, P256. unfold u0, u1, u2, u3 in *. lia.
Qed.
