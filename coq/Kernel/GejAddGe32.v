(* Proof ABOUT the generated constant-time point addition in the 32-bit-limb configuration (Gen/gej_add_ge32.v: secp256k1_gej_add_ge of
   src/group_impl.h translated with USE_FORCE_WIDEMUL_INT64, its 45 field operations kept as calls to the separately translated and proved
   10x26 limb functions - code that the default build and the test suite never compile).  Same statement as GejAddGe.v (add_ge_post32 is
   add_ge_post over 10-limb values).  This file is produced from the 5x52 proof by renaming; the algebra lemmas are shared. *)
From Coq Require Import ZArith Lia List Bool Setoid Morphisms.
Require Import Kernel.CSem Kernel.Bind Kernel.Field5x52 Kernel.Field10x26 Kernel.Field10x26Wp Kernel.Field10x26Ntz Kernel.Cong Kernel.FieldWp2 Kernel.GejAddGe.
Require Import Gen.fe10x26_mul_inner Gen.fe10x26_sqr_inner Gen.fe10x26_add Gen.fe10x26_negate Gen.fe10x26_half Gen.fe10x26_mul_int Gen.fe10x26_cmov Gen.fe10x26_ntz Gen.gej_add_ge32.
Import ListNotations.
Local Open Scope Z_scope.
Local Opaque fe10x26_mul_inner_k fe10x26_sqr_inner_k fe10x26_add_k fe10x26_negate_k fe10x26_half_k fe10x26_mul_int_k fe10x26_cmov_k fe10x26_ntz_k.

(* limbs below m * 2^26, top limb below t * 2^22 (magnitude k implies bnd32 (2k) (2k); the results of a multiplication satisfy bnd32 2 1) *)
Definition bnd32 (m t a0 a1 a2 a3 a4 a5 a6 a7 a8 a9 : Z) : Prop :=
  0 <= a0 < m * 2^26 /\ 0 <= a1 < m * 2^26 /\ 0 <= a2 < m * 2^26 /\ 0 <= a3 < m * 2^26 /\ 0 <= a4 < m * 2^26 /\ 0 <= a5 < m * 2^26 /\ 0 <= a6 < m * 2^26 /\ 0 <= a7 < m * 2^26 /\ 0 <= a8 < m * 2^26 /\ 0 <= a9 < t * 2^22.

Lemma mul32_wp1 a0 a1 a2 a3 a4 a5 a6 a7 a8 a9 b0 b1 b2 b3 b4 b5 b6 b7 b8 b9 (Q : Z -> Z -> Z -> Z -> Z -> Z -> Z -> Z -> Z -> Z -> Prop) :
  (0 <= a0 < 2^30 /\ 0 <= a1 < 2^30 /\ 0 <= a2 < 2^30 /\ 0 <= a3 < 2^30 /\ 0 <= a4 < 2^30 /\ 0 <= a5 < 2^30 /\ 0 <= a6 < 2^30 /\ 0 <= a7 < 2^30 /\ 0 <= a8 < 2^30 /\ 0 <= a9 < 2^26) /\ (0 <= b0 < 2^30 /\ 0 <= b1 < 2^30 /\ 0 <= b2 < 2^30 /\ 0 <= b3 < 2^30 /\ 0 <= b4 < 2^30 /\ 0 <= b5 < 2^30 /\ 0 <= b6 < 2^30 /\ 0 <= b7 < 2^30 /\ 0 <= b8 < 2^30 /\ 0 <= b9 < 2^26) ->
  (forall r0 r1 r2 r3 r4 r5 r6 r7 r8 r9, (0 <= r0 < 2^26 /\ 0 <= r1 < 2^26 /\ 0 <= r2 < 2^27 /\ 0 <= r3 < 2^26 /\ 0 <= r4 < 2^26 /\ 0 <= r5 < 2^26 /\ 0 <= r6 < 2^26 /\ 0 <= r7 < 2^26 /\ 0 <= r8 < 2^26 /\ 0 <= r9 < 2^22) /\ modp0 (val10 r0 r1 r2 r3 r4 r5 r6 r7 r8 r9 - val10 a0 a1 a2 a3 a4 a5 a6 a7 a8 a9 * val10 b0 b1 b2 b3 b4 b5 b6 b7 b8 b9) -> Q r0 r1 r2 r3 r4 r5 r6 r7 r8 r9) ->
  fe10x26_mul_inner_k a0 a1 a2 a3 a4 a5 a6 a7 a8 a9 b0 b1 b2 b3 b4 b5 b6 b7 b8 b9 Q.
Proof. intros [[? [? [? [? [? [? [? [? [? ?]]]]]]]]] [? [? [? [? [? [? [? [? [? ?]]]]]]]]]] HQ. apply fe10x26_mul_inner_wp; assumption. Qed.
Lemma sqr32_wp1 a0 a1 a2 a3 a4 a5 a6 a7 a8 a9 (Q : Z -> Z -> Z -> Z -> Z -> Z -> Z -> Z -> Z -> Z -> Prop) :
  (0 <= a0 < 2^30 /\ 0 <= a1 < 2^30 /\ 0 <= a2 < 2^30 /\ 0 <= a3 < 2^30 /\ 0 <= a4 < 2^30 /\ 0 <= a5 < 2^30 /\ 0 <= a6 < 2^30 /\ 0 <= a7 < 2^30 /\ 0 <= a8 < 2^30 /\ 0 <= a9 < 2^26) ->
  (forall r0 r1 r2 r3 r4 r5 r6 r7 r8 r9, (0 <= r0 < 2^26 /\ 0 <= r1 < 2^26 /\ 0 <= r2 < 2^27 /\ 0 <= r3 < 2^26 /\ 0 <= r4 < 2^26 /\ 0 <= r5 < 2^26 /\ 0 <= r6 < 2^26 /\ 0 <= r7 < 2^26 /\ 0 <= r8 < 2^26 /\ 0 <= r9 < 2^22) /\ modp0 (val10 r0 r1 r2 r3 r4 r5 r6 r7 r8 r9 - val10 a0 a1 a2 a3 a4 a5 a6 a7 a8 a9 * val10 a0 a1 a2 a3 a4 a5 a6 a7 a8 a9) -> Q r0 r1 r2 r3 r4 r5 r6 r7 r8 r9) ->
  fe10x26_sqr_inner_k a0 a1 a2 a3 a4 a5 a6 a7 a8 a9 Q.
Proof. intros [? [? [? [? [? [? [? [? [? ?]]]]]]]]] HQ. apply fe10x26_sqr_inner_wp; assumption. Qed.
Lemma add32_wp1 r0 r1 r2 r3 r4 r5 r6 r7 r8 r9 a0 a1 a2 a3 a4 a5 a6 a7 a8 a9 (Q : Z -> Z -> Z -> Z -> Z -> Z -> Z -> Z -> Z -> Z -> Prop) :
  (0 <= r0 /\ 0 <= r1 /\ 0 <= r2 /\ 0 <= r3 /\ 0 <= r4 /\ 0 <= r5 /\ 0 <= r6 /\ 0 <= r7 /\ 0 <= r8 /\ 0 <= r9 /\ 0 <= a0 /\ 0 <= a1 /\ 0 <= a2 /\ 0 <= a3 /\ 0 <= a4 /\ 0 <= a5 /\ 0 <= a6 /\ 0 <= a7 /\ 0 <= a8 /\ 0 <= a9 /\ r0 + a0 < 2^32 /\ r1 + a1 < 2^32 /\ r2 + a2 < 2^32 /\ r3 + a3 < 2^32 /\ r4 + a4 < 2^32 /\ r5 + a5 < 2^32 /\ r6 + a6 < 2^32 /\ r7 + a7 < 2^32 /\ r8 + a8 < 2^32 /\ r9 + a9 < 2^32) ->
  (forall s0 s1 s2 s3 s4 s5 s6 s7 s8 s9, s0 = r0 + a0 -> s1 = r1 + a1 -> s2 = r2 + a2 -> s3 = r3 + a3 -> s4 = r4 + a4 -> s5 = r5 + a5 -> s6 = r6 + a6 -> s7 = r7 + a7 -> s8 = r8 + a8 -> s9 = r9 + a9 ->
     val10 s0 s1 s2 s3 s4 s5 s6 s7 s8 s9 = val10 r0 r1 r2 r3 r4 r5 r6 r7 r8 r9 + val10 a0 a1 a2 a3 a4 a5 a6 a7 a8 a9 -> Q s0 s1 s2 s3 s4 s5 s6 s7 s8 s9) ->
  fe10x26_add_k r0 r1 r2 r3 r4 r5 r6 r7 r8 r9 a0 a1 a2 a3 a4 a5 a6 a7 a8 a9 Q.
Proof. intros [? [? [? [? [? [? [? [? [? [? [? [? [? [? [? [? [? [? [? [? [? [? [? [? [? [? [? [? [? ?]]]]]]]]]]]]]]]]]]]]]]]]]]]]] HQ. apply fe10x26_add_wp; assumption. Qed.
Lemma mul_int32_wp1 r0 r1 r2 r3 r4 r5 r6 r7 r8 r9 a (Q : Z -> Z -> Z -> Z -> Z -> Z -> Z -> Z -> Z -> Z -> Prop) :
  (0 <= a < 2^31 /\ 0 <= r0 /\ 0 <= r1 /\ 0 <= r2 /\ 0 <= r3 /\ 0 <= r4 /\ 0 <= r5 /\ 0 <= r6 /\ 0 <= r7 /\ 0 <= r8 /\ 0 <= r9 /\ r0 * a < 2^32 /\ r1 * a < 2^32 /\ r2 * a < 2^32 /\ r3 * a < 2^32 /\ r4 * a < 2^32 /\ r5 * a < 2^32 /\ r6 * a < 2^32 /\ r7 * a < 2^32 /\ r8 * a < 2^32 /\ r9 * a < 2^32) ->
  (forall s0 s1 s2 s3 s4 s5 s6 s7 s8 s9, s0 = r0 * a -> s1 = r1 * a -> s2 = r2 * a -> s3 = r3 * a -> s4 = r4 * a -> s5 = r5 * a -> s6 = r6 * a -> s7 = r7 * a -> s8 = r8 * a -> s9 = r9 * a ->
     val10 s0 s1 s2 s3 s4 s5 s6 s7 s8 s9 = val10 r0 r1 r2 r3 r4 r5 r6 r7 r8 r9 * a -> Q s0 s1 s2 s3 s4 s5 s6 s7 s8 s9) ->
  fe10x26_mul_int_k r0 r1 r2 r3 r4 r5 r6 r7 r8 r9 a Q.
Proof. intros [? [? [? [? [? [? [? [? [? [? [? [? [? [? [? [? [? [? [? [? ?]]]]]]]]]]]]]]]]]]]] HQ. apply fe10x26_mul_int_wp; assumption. Qed.
Lemma negate32_wp1 a0 a1 a2 a3 a4 a5 a6 a7 a8 a9 m (Q : Z -> Z -> Z -> Z -> Z -> Z -> Z -> Z -> Z -> Z -> Prop) :
  (0 <= m <= 31 /\ 0 <= a0 <= 2 * (m + 1) * 67107887 /\ 0 <= a1 <= 2 * (m + 1) * 67108799 /\ 0 <= a2 <= 2 * (m + 1) * 67108863 /\ 0 <= a3 <= 2 * (m + 1) * 67108863 /\ 0 <= a4 <= 2 * (m + 1) * 67108863 /\ 0 <= a5 <= 2 * (m + 1) * 67108863 /\ 0 <= a6 <= 2 * (m + 1) * 67108863 /\ 0 <= a7 <= 2 * (m + 1) * 67108863 /\ 0 <= a8 <= 2 * (m + 1) * 67108863 /\ 0 <= a9 <= 2 * (m + 1) * 4194303) ->
  (forall r0 r1 r2 r3 r4 r5 r6 r7 r8 r9, r0 = 2 * (m + 1) * 67107887 - a0 -> r1 = 2 * (m + 1) * 67108799 - a1 -> r2 = 2 * (m + 1) * 67108863 - a2 -> r3 = 2 * (m + 1) * 67108863 - a3 -> r4 = 2 * (m + 1) * 67108863 - a4 -> r5 = 2 * (m + 1) * 67108863 - a5 -> r6 = 2 * (m + 1) * 67108863 - a6 -> r7 = 2 * (m + 1) * 67108863 - a7 -> r8 = 2 * (m + 1) * 67108863 - a8 -> r9 = 2 * (m + 1) * 4194303 - a9 ->
     val10 r0 r1 r2 r3 r4 r5 r6 r7 r8 r9 = 2 * (m + 1) * P256 - val10 a0 a1 a2 a3 a4 a5 a6 a7 a8 a9 -> Q r0 r1 r2 r3 r4 r5 r6 r7 r8 r9) ->
  fe10x26_negate_k a0 a1 a2 a3 a4 a5 a6 a7 a8 a9 m Q.
Proof. intros [? [? [? [? [? [? [? [? [? [? ?]]]]]]]]]] HQ. apply fe10x26_negate_wp; assumption. Qed.
Lemma half32_wp1 t0 t1 t2 t3 t4 t5 t6 t7 t8 t9 (Q : Z -> Z -> Z -> Z -> Z -> Z -> Z -> Z -> Z -> Z -> Prop) :
  (0 <= t0 < 2^31 /\ 0 <= t1 < 2^31 /\ 0 <= t2 < 2^31 /\ 0 <= t3 < 2^31 /\ 0 <= t4 < 2^31 /\ 0 <= t5 < 2^31 /\ 0 <= t6 < 2^31 /\ 0 <= t7 < 2^31 /\ 0 <= t8 < 2^31 /\ 0 <= t9 < 2^27) ->
  (forall r0 r1 r2 r3 r4 r5 r6 r7 r8 r9,
    (0 <= 2 * r0 <= t0 + 2^27 /\ 0 <= 2 * r1 <= t1 + 2^27 /\ 0 <= 2 * r2 <= t2 + 2^27 /\ 0 <= 2 * r3 <= t3 + 2^27 /\ 0 <= 2 * r4 <= t4 + 2^27 /\ 0 <= 2 * r5 <= t5 + 2^27 /\ 0 <= 2 * r6 <= t6 + 2^27 /\ 0 <= 2 * r7 <= t7 + 2^27 /\ 0 <= 2 * r8 <= t8 + 2^27 /\ 0 <= 2 * r9 <= t9 + 2^22) ->
    2 * val10 r0 r1 r2 r3 r4 r5 r6 r7 r8 r9 = val10 t0 t1 t2 t3 t4 t5 t6 t7 t8 t9 + (t0 mod 2) * P256 -> Q r0 r1 r2 r3 r4 r5 r6 r7 r8 r9) ->
  fe10x26_half_k t0 t1 t2 t3 t4 t5 t6 t7 t8 t9 Q.
Proof. intros [? [? [? [? [? [? [? [? [? ?]]]]]]]]] HQ. apply fe10x26_half_wp; assumption. Qed.

(* the case hypothesis (a boolean equation about a value mod p) is removed inside every arithmetic side goal *)
Ltac nodg := try match goal with H : (_ =? 0) = _ |- _ => clear H end.
Ltac mul_step := apply mul32_wp1; [nodg; lia|]; let C := fresh "C" in intros ? ? ? ? ? ? ? ? ? ? [[? [? [? [? [? [? [? [? [? ?]]]]]]]]] C]; apply cong_of_mod in C.
Ltac sqr_step := apply sqr32_wp1; [nodg; lia|]; let C := fresh "C" in intros ? ? ? ? ? ? ? ? ? ? [[? [? [? [? [? [? [? [? [? ?]]]]]]]]] C]; apply cong_of_mod in C.
Ltac add_step := apply add32_wp1; [nodg; lia|]; intros ? ? ? ? ? ? ? ? ? ? ? ? ? ? ? ? ? ? ? ? ?V.
Ltac mul_int_step := apply mul_int32_wp1; [nodg; lia|]; intros ? ? ? ? ? ? ? ? ? ? ? ? ? ? ? ? ? ? ? ? ?V.
Ltac negate_step := apply negate32_wp1; [nodg; lia|]; intros ? ? ? ? ? ? ? ? ? ? ? ? ? ? ? ? ? ? ? ? ?V.
Ltac half_step := apply half32_wp1; [nodg; lia|]; intros ? ? ? ? ? ? ? ? ? ? [? [? [? [? [? [? [? [? [? ?]]]]]]]]] ?V.
Ltac copy_step := do 10 (apply bind_intro; intros ? ?; cbv beta).
Ltac cmov0_step := apply fe10x26_cmov_wp; [nodg; lia|]; left; split; [reflexivity|].
Ltac cmov1_step := apply fe10x26_cmov_wp; [nodg; lia|]; right; split; [reflexivity|].
Ltac ntz_step := apply fe10x26_ntz_wp; [nodg; lia|]; intros ? ?N.
Ltac flag_norm := try change (b2z (1 =? 0)) with 0; try change (b2z (0 =? 0)) with 1.

(* the specification: add_ge_post of GejAddGe.v over the values of 10-limb vectors *)
Definition add_ge_post32 (inf x0 x1 x2 x3 x4 x5 x6 x7 x8 x9 y0 y1 y2 y3 y4 y5 y6 y7 y8 y9 z0 z1 z2 z3 z4 z5 z6 z7 z8 z9 bx0 bx1 bx2 bx3 bx4 bx5 bx6 bx7 bx8 bx9 by0 by1 by2 by3 by4 by5 by6 by7 by8 by9 rinf rx0 rx1 rx2 rx3 rx4 rx5 rx6 rx7 rx8 rx9 ry0 ry1 ry2 ry3 ry4 ry5 ry6 ry7 ry8 ry9 rz0 rz1 rz2 rz3 rz4 rz5 rz6 rz7 rz8 rz9 : Z) : Prop :=
      let X1 := val10 x0 x1 x2 x3 x4 x5 x6 x7 x8 x9 in let Y1 := val10 y0 y1 y2 y3 y4 y5 y6 y7 y8 y9 in let Z1 := val10 z0 z1 z2 z3 z4 z5 z6 z7 z8 z9 in
      let X2 := val10 bx0 bx1 bx2 bx3 bx4 bx5 bx6 bx7 bx8 bx9 in let Y2 := val10 by0 by1 by2 by3 by4 by5 by6 by7 by8 by9 in
      let U2 := X2 * (Z1 * Z1) in let S2 := Y2 * (Z1 * Z1) * Z1 in let T := X1 + U2 in let M := Y1 + S2 in let R := T * T - X1 * U2 in
      let deg := (M mod P256 =? 0) in
      let Ralt := if deg then 2 * Y1 else R in let Malt := if deg then X1 - U2 else M in let NN := if deg then 0 else Malt * Malt * (Malt * Malt) in
      let X3 := Ralt * Ralt - T * (Malt * Malt) in
      (inf = 1 -> (rx0 = bx0 /\ rx1 = bx1 /\ rx2 = bx2 /\ rx3 = bx3 /\ rx4 = bx4 /\ rx5 = bx5 /\ rx6 = bx6 /\ rx7 = bx7 /\ rx8 = bx8 /\ rx9 = bx9) /\ (ry0 = by0 /\ ry1 = by1 /\ ry2 = by2 /\ ry3 = by3 /\ ry4 = by4 /\ ry5 = by5 /\ ry6 = by6 /\ ry7 = by7 /\ ry8 = by8 /\ ry9 = by9) /\
                  (rz0 = 1 /\ rz1 = 0 /\ rz2 = 0 /\ rz3 = 0 /\ rz4 = 0 /\ rz5 = 0 /\ rz6 = 0 /\ rz7 = 0 /\ rz8 = 0 /\ rz9 = 0) /\ rinf = 0) /\
      (inf = 0 -> (bnd32 4 2 rx0 rx1 rx2 rx3 rx4 rx5 rx6 rx7 rx8 rx9 /\ bnd32 8 8 ry0 ry1 ry2 ry3 ry4 ry5 ry6 ry7 ry8 ry9 /\ bnd32 2 1 rz0 rz1 rz2 rz3 rz4 rz5 rz6 rz7 rz8 rz9) /\
                  cong (val10 rz0 rz1 rz2 rz3 rz4 rz5 rz6 rz7 rz8 rz9) (Z1 * Malt) /\ cong (val10 rx0 rx1 rx2 rx3 rx4 rx5 rx6 rx7 rx8 rx9) X3 /\
                  cong (2 * val10 ry0 ry1 ry2 ry3 ry4 ry5 ry6 ry7 ry8 ry9) (- (Ralt * (2 * X3 - T * (Malt * Malt)) + NN)) /\
                  rinf = (if (Z1 * Malt) mod P256 =? 0 then 1 else 0)).

Ltac inf1_finish :=
  cbv beta delta [add_ge_post32]; intros ? ? ? ? ? ? ? ? ? ? ? ? ? ? ?;
  split; [intros _|let E := fresh "E" in intro E; discriminate E];
  repeat match goal with H : _ <= _ < _ |- _ => clear H | H : _ <= _ <= _ |- _ => clear H end;
  subst; repeat split; reflexivity.

Theorem gej_add_ge32_correct inf x0 x1 x2 x3 x4 x5 x6 x7 x8 x9 y0 y1 y2 y3 y4 y5 y6 y7 y8 y9 z0 z1 z2 z3 z4 z5 z6 z7 z8 z9 bx0 bx1 bx2 bx3 bx4 bx5 bx6 bx7 bx8 bx9 by0 by1 by2 by3 by4 by5 by6 by7 by8 by9 :
  (inf = 0 \/ inf = 1) ->
  bnd32 8 8 x0 x1 x2 x3 x4 x5 x6 x7 x8 x9 -> bnd32 8 8 y0 y1 y2 y3 y4 y5 y6 y7 y8 y9 -> bnd32 16 16 z0 z1 z2 z3 z4 z5 z6 z7 z8 z9 -> bnd32 16 16 bx0 bx1 bx2 bx3 bx4 bx5 bx6 bx7 bx8 bx9 -> bnd32 16 16 by0 by1 by2 by3 by4 by5 by6 by7 by8 by9 ->
  gej_add_ge32_k inf x0 x1 x2 x3 x4 x5 x6 x7 x8 x9 y0 y1 y2 y3 y4 y5 y6 y7 y8 y9 z0 z1 z2 z3 z4 z5 z6 z7 z8 z9 bx0 bx1 bx2 bx3 bx4 bx5 bx6 bx7 bx8 bx9 by0 by1 by2 by3 by4 by5 by6 by7 by8 by9
    (add_ge_post32 inf x0 x1 x2 x3 x4 x5 x6 x7 x8 x9 y0 y1 y2 y3 y4 y5 y6 y7 y8 y9 z0 z1 z2 z3 z4 z5 z6 z7 z8 z9 bx0 bx1 bx2 bx3 bx4 bx5 bx6 bx7 bx8 bx9 by0 by1 by2 by3 by4 by5 by6 by7 by8 by9).
Proof.
  unfold bnd32. intros Hinf [Hx0 [Hx1 [Hx2 [Hx3 [Hx4 [Hx5 [Hx6 [Hx7 [Hx8 Hx9]]]]]]]]] [Hy0 [Hy1 [Hy2 [Hy3 [Hy4 [Hy5 [Hy6 [Hy7 [Hy8 Hy9]]]]]]]]] [Hz0 [Hz1 [Hz2 [Hz3 [Hz4 [Hz5 [Hz6 [Hz7 [Hz8 Hz9]]]]]]]]] [Hbx0 [Hbx1 [Hbx2 [Hbx3 [Hbx4 [Hbx5 [Hbx6 [Hbx7 [Hbx8 Hbx9]]]]]]]]] [Hby0 [Hby1 [Hby2 [Hby3 [Hby4 [Hby5 [Hby6 [Hby7 [Hby8 Hby9]]]]]]]]].
  unfold gej_add_ge32_k.
  copy_step.
  sqr_step. copy_step. mul_step. copy_step. mul_step. mul_step. copy_step. add_step. copy_step. add_step. sqr_step. negate_step. mul_step. add_step.
  ntz_step.
  (* the case hypothesis is kept as a boolean equation until the algebra, out of sight of the arithmetic tactic *)
  match type of N with _ = (if ?c =? 0 then 1 else 0) => destruct (c =? 0) eqn:Dg end; subst ret; flag_norm.
  - (* degenerate: M = 0 mod p *)
    copy_step. mul_int_step. add_step. cmov0_step. cmov0_step. sqr_step. negate_step. mul_step. sqr_step. cmov1_step. sqr_step. mul_step. add_step.
    copy_step. mul_int_step. add_step. mul_step. add_step. negate_step. half_step.
    destruct Hinf as [-> | ->].
    + cmov0_step. cmov0_step. cmov0_step. ntz_step.
      cbv beta delta [add_ge_post32]. intros X1 Y1 Z1 X2 Y2 U2 S2 T M R deg Ralt Malt NN X3.
      split; [intro E; discriminate E|]. intros _.
      split; [nodg; unfold bnd32; repeat split; lia|].
      repeat match goal with H : _ <= _ < _ |- _ => clear H | H : _ <= _ <= _ |- _ => clear H end.
      repeat match goal with H : ?a = ?b |- _ => is_var a; is_var b; subst a end.
      apply Z.eqb_eq in Dg.
      destruct (add_ge_head _ _ _ _ _ _ _ _ _ _ _ _ _ _ _ C C0 C1 C2 V V0 C3 V1 C4 V2) as [HT [HM [HR HMa]]].
      assert (Hdeg : deg = true) by (unfold deg; apply Z.eqb_eq; rewrite <- Dg; symmetry; exact (cong_mod _ _ HM)).
      match type of Dg with ?mv mod _ = 0 => assert (HN0 : cong mv 0) by (apply cong_of_mod; rewrite Z.sub_0_r; exact Dg) end.
      match type of V3 with ?ra = _ => assert (HRa : cong ra (2 * Y1)) by (rewrite V3; apply cong_of_eq; unfold Y1; ring) end.
      rewrite <- V4 in HMa.
      destruct (add_ge_tail _ _ _ _ _ _ _ _ _ _ _ _ _ _ _ _ _ _ _ _ _ _ HT HRa HMa HN0 C5 V5 C6 C8 C9 V6 V7 V8 C10 V9 V10 V11) as [G1 [G2 G3]].
      unfold X3, NN, Ralt, Malt; rewrite Hdeg. unfold T, M, R, U2, S2, X1, Y1, Z1, X2, Y2.
      split; [exact G1|]. split; [exact G2|]. split; [exact G3|].
      rewrite N. rewrite (cong_mod _ _ G1). reflexivity.
    + cmov1_step. cmov1_step. cmov1_step. ntz_step. inf1_finish.
  - (* the generic case: M <> 0 mod p *)
    copy_step. mul_int_step. add_step. cmov1_step. cmov1_step. sqr_step. negate_step. mul_step. sqr_step. cmov0_step. sqr_step. mul_step. add_step.
    copy_step. mul_int_step. add_step. mul_step. add_step. negate_step. half_step.
    destruct Hinf as [-> | ->].
    + cmov0_step. cmov0_step. cmov0_step. ntz_step.
      cbv beta delta [add_ge_post32]. intros X1 Y1 Z1 X2 Y2 U2 S2 T M R deg Ralt Malt NN X3.
      split; [intro E; discriminate E|]. intros _.
      split; [nodg; unfold bnd32; repeat split; lia|].
      repeat match goal with H : _ <= _ < _ |- _ => clear H | H : _ <= _ <= _ |- _ => clear H end.
      repeat match goal with H : ?a = ?b |- _ => is_var a; is_var b; subst a end.
      apply Z.eqb_neq in Dg.
      destruct (add_ge_head _ _ _ _ _ _ _ _ _ _ _ _ _ _ _ C C0 C1 C2 V V0 C3 V1 C4 V2) as [HT [HM [HR HMa]]].
      assert (Hdeg : deg = false) by (unfold deg; apply Z.eqb_neq; intro E; apply Dg; rewrite <- E; exact (cong_mod _ _ HM)).
      match type of C7 with cong ?n4 _ => assert (HN4 : cong n4 (M * M * (M * M))) by (rewrite C7, C5, HM; reflexivity) end.
      destruct (add_ge_tail _ _ _ _ _ _ _ _ _ _ _ _ _ _ _ _ _ _ _ _ _ _ HT HR HM HN4 C5 V5 C6 C8 C9 V6 V7 V8 C10 V9 V10 V11) as [G1 [G2 G3]].
      unfold X3, NN, Ralt, Malt; rewrite Hdeg. unfold T, M, R, U2, S2, X1, Y1, Z1, X2, Y2.
      split; [exact G1|]. split; [exact G2|]. split; [exact G3|].
      rewrite N. rewrite (cong_mod _ _ G1). reflexivity.
    + cmov1_step. cmov1_step. cmov1_step. ntz_step. inf1_finish.
Qed.
