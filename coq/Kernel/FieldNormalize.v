(* Proof ABOUT the generated field normalisation (Gen/fe_impl_normalize.v, regenerated from
   src/field_5x52_impl.h): for ALL limb values of magnitude up to 32 the result is the canonical
   representative: limbs in range and value = (input value) mod p, 0 <= value < p. *)
From Coq Require Import ZArith Lia List Bool.
Require Import Kernel.CSem Kernel.Field5x52 Gen.fe_impl_normalize.
Import ListNotations.
Local Open Scope Z_scope.
Ltac Zify.zify_post_hook ::= Z.div_mod_to_equations.

Lemma land52 x : 0 <= x -> Z.land x 4503599627370495 = x mod 2^52.
Proof. intros. change 4503599627370495 with (Z.ones 52). apply Z.land_ones. lia. Qed.
Lemma land48 x : 0 <= x -> Z.land x 281474976710655 = x mod 2^48.
Proof. intros. change 281474976710655 with (Z.ones 48). apply Z.land_ones. lia. Qed.

(* the AND of 52-bit values is all-ones iff every operand is *)
Lemma land_all_ones a b : 0 <= a < 2^52 -> 0 <= b < 2^52 ->
  (Z.land a b = 4503599627370495 <-> a = 4503599627370495 /\ b = 4503599627370495).
Proof.
  intros Ha Hb. split; [|intros [-> ->]; reflexivity].
  intros H. change 4503599627370495 with (Z.ones 52) in *.
  assert (Ta : forall k, 0 <= k < 52 -> Z.testbit a k = true).
  { intros k Hk. assert (E : Z.testbit (Z.land a b) k = true) by (rewrite H; apply Z.ones_spec_low; lia).
    rewrite Z.land_spec in E. apply andb_true_iff in E. tauto. }
  assert (Tb : forall k, 0 <= k < 52 -> Z.testbit b k = true).
  { intros k Hk. assert (E : Z.testbit (Z.land a b) k = true) by (rewrite H; apply Z.ones_spec_low; lia).
    rewrite Z.land_spec in E. apply andb_true_iff in E. tauto. }
  assert (X : forall c, 0 <= c < 2^52 -> (forall k, 0 <= k < 52 -> Z.testbit c k = true) -> c = Z.ones 52).
  { intros c Hc Tc. apply Z.bits_inj'. intros k Hk. destruct (Z.ltb_spec k 52).
    - rewrite Tc, Z.ones_spec_low by lia. reflexivity.
    - rewrite Z.ones_spec_high by lia. apply Z.bits_above_log2; [lia|].
      destruct (Z.eq_dec c 0) as [->|]; [simpl; lia|]. assert (2^52 <= 2^k) by (apply Z.pow_le_mono_r; lia). apply Z.log2_lt_pow2; lia. }
  split; apply X; assumption.
Qed.
Lemma land_range a b : 0 <= a < 2^52 -> 0 <= b < 2^52 -> 0 <= Z.land a b < 2^52.
Proof.
  intros Ha Hb. split; [apply Z.land_nonneg; lia|].
  destruct (Z.eq_dec (Z.land a b) 0) as [->|Hn]; [lia|].
  apply Z.log2_lt_pow2; [pose proof (Z.land_nonneg a b); lia|].
  assert (Z.log2 (Z.land a b) <= Z.min (Z.log2 a) (Z.log2 b)) by (apply Z.log2_land; lia).
  destruct (Z.eq_dec a 0) as [->|]; [rewrite Z.land_0_l in Hn; lia|].
  assert (Z.log2 a < 52) by (apply Z.log2_lt_pow2; lia). lia.
Qed.

Theorem fe_normalize_correct r0 r1 r2 r3 r4 :
  0 <= r0 < 2^58 -> 0 <= r1 < 2^58 -> 0 <= r2 < 2^58 -> 0 <= r3 < 2^58 -> 0 <= r4 < 2^54 ->
  fe_impl_normalize_k r0 r1 r2 r3 r4 (fun t0 t1 t2 t3 t4 =>
    0 <= t0 < 2^52 /\ 0 <= t1 < 2^52 /\ 0 <= t2 < 2^52 /\ 0 <= t3 < 2^52 /\ 0 <= t4 < 2^48 /\
    val5 t0 t1 t2 t3 t4 = (val5 r0 r1 r2 r3 r4) mod P256).
Proof.
  intros H0 H1 H2 H3 H4. cbv beta delta [fe_impl_normalize_k]. cbv zeta.
  (* first pass *)
  set (x := r4 / 2^48). rewrite (land48 r4) by lia. set (a4 := r4 mod 2^48).
  assert (Hx : 0 <= x < 2^6) by (unfold x; lia).
  assert (E0 : u64 (x * 4294968273) = x * 4294968273) by (unfold u64; apply Z.mod_small; lia). rewrite E0.
  assert (E1 : u64 (r0 + x * 4294968273) = r0 + x * 4294968273) by (unfold u64; apply Z.mod_small; lia). rewrite E1.
  set (s0 := r0 + x * 4294968273). assert (Hs0 : 0 <= s0 < 2^59) by (unfold s0; lia).
  assert (E2 : u64 (r1 + s0 / 2^52) = r1 + s0 / 2^52) by (unfold u64; apply Z.mod_small; lia). rewrite E2.
  set (s1 := r1 + s0 / 2^52). assert (Hs1 : 0 <= s1 < 2^59) by (unfold s1; lia).
  rewrite (land52 s0) by lia. set (t0 := s0 mod 2^52).
  assert (E3 : u64 (r2 + s1 / 2^52) = r2 + s1 / 2^52) by (unfold u64; apply Z.mod_small; lia). rewrite E3.
  set (s2 := r2 + s1 / 2^52). assert (Hs2 : 0 <= s2 < 2^59) by (unfold s2; lia).
  rewrite (land52 s1) by lia. set (t1 := s1 mod 2^52).
  assert (E4 : u64 (r3 + s2 / 2^52) = r3 + s2 / 2^52) by (unfold u64; apply Z.mod_small; lia). rewrite E4.
  set (s3 := r3 + s2 / 2^52). assert (Hs3 : 0 <= s3 < 2^59) by (unfold s3; lia).
  rewrite (land52 s2) by lia. set (t2 := s2 mod 2^52).
  assert (E5 : u64 (a4 + s3 / 2^52) = a4 + s3 / 2^52) by (unfold u64, a4; apply Z.mod_small; lia). rewrite E5.
  set (s4 := a4 + s3 / 2^52). assert (Hs4 : 0 <= s4 < 2^48 + 2^7) by (unfold s4, a4; lia).
  rewrite (land52 s3) by lia. set (t3 := s3 mod 2^52).
  assert (Ht0 : 0 <= t0 < 2^52) by (unfold t0; lia). assert (Ht1 : 0 <= t1 < 2^52) by (unfold t1; lia).
  assert (Ht2 : 0 <= t2 < 2^52) by (unfold t2; lia). assert (Ht3 : 0 <= t3 < 2^52) by (unfold t3; lia).
  (* value after the first pass *)
  assert (V1 : val5 t0 t1 t2 t3 s4 = val5 r0 r1 r2 r3 r4 - x * P256)
    by (unfold val5, P256, t0, t1, t2, t3, s4, s3, s2, s1, s0, a4, x; lia).
  (* the decision bit *)
  set (m := Z.land (Z.land t1 t2) t3).
  assert (Hm12 : 0 <= Z.land t1 t2 < 2^52) by (apply land_range; assumption).
  assert (Hm : m = 4503599627370495 <-> t1 = 4503599627370495 /\ t2 = 4503599627370495 /\ t3 = 4503599627370495).
  { unfold m. rewrite land_all_ones by assumption. rewrite land_all_ones by assumption. tauto. }
  set (y := s4 / 2^48). assert (Hy : y = 0 \/ y = 1) by (unfold y; lia).
  set (c := Z.land (Z.land (b2z (s4 =? 281474976710655)) (b2z (m =? 4503599627370495))) (b2z (t0 >=? 4503595332402223))).
  assert (Hc : (c = 1 /\ s4 = 281474976710655 /\ m = 4503599627370495 /\ 4503595332402223 <= t0) \/
               (c = 0 /\ ~ (s4 = 281474976710655 /\ m = 4503599627370495 /\ 4503595332402223 <= t0))).
  { unfold c. rewrite Z.geb_leb.
    destruct (Z.eqb_spec s4 281474976710655), (Z.eqb_spec m 4503599627370495), (Z.leb_spec 4503595332402223 t0); cbn [b2z Z.land];
      [left; auto | right; split; [reflexivity|lia] ..]. }
  assert (Hcu : u64 c = c) by (destruct Hc as [[-> _]|[-> _]]; reflexivity). rewrite Hcu.
  set (x2 := Z.lor y c).
  assert (Hx2 : (x2 = 1 /\ P256 <= val5 t0 t1 t2 t3 s4) \/ (x2 = 0 /\ val5 t0 t1 t2 t3 s4 < P256)).
  { unfold x2. destruct Hy as [Ey|Ey]; rewrite Ey.
    - assert (s4 < 2^48) by (unfold y in Ey; lia).
      destruct Hc as [[-> [A [B C]]]|[-> D]]; cbn [Z.lor].
      + left. split; [reflexivity|]. apply Hm in B. destruct B as [B1 [B2 B3]]. unfold val5, P256. lia.
      + right. split; [reflexivity|]. unfold val5, P256.
        destruct (Z.eq_dec s4 281474976710655) as [Es|Es]; [|lia].
        destruct (Z.eq_dec t3 4503599627370495) as [E3'|]; [|lia].
        destruct (Z.eq_dec t2 4503599627370495) as [E2'|]; [|lia].
        destruct (Z.eq_dec t1 4503599627370495) as [E1'|]; [|lia].
        assert (m = 4503599627370495) by (apply Hm; auto). lia.
    - assert (2^48 <= s4) by (unfold y in Ey; lia). left.
      split; [destruct Hc as [[-> _]|[-> _]]; reflexivity|]. unfold val5, P256. lia. }
  assert (Hx2r : 0 <= x2 <= 1) by (destruct Hx2 as [[-> _]|[-> _]]; lia).
  (* second pass *)
  assert (F0 : u64 (x2 * 4294968273) = x2 * 4294968273) by (unfold u64; apply Z.mod_small; lia). rewrite F0.
  assert (F1 : u64 (t0 + x2 * 4294968273) = t0 + x2 * 4294968273) by (unfold u64; apply Z.mod_small; lia). rewrite F1.
  set (q0 := t0 + x2 * 4294968273). assert (Hq0 : 0 <= q0 < 2^53) by (unfold q0; lia).
  assert (F2 : u64 (t1 + q0 / 2^52) = t1 + q0 / 2^52) by (unfold u64; apply Z.mod_small; lia). rewrite F2.
  set (q1 := t1 + q0 / 2^52). assert (Hq1 : 0 <= q1 < 2^53) by (unfold q1; lia).
  rewrite (land52 q0) by lia.
  assert (F3 : u64 (t2 + q1 / 2^52) = t2 + q1 / 2^52) by (unfold u64; apply Z.mod_small; lia). rewrite F3.
  set (q2 := t2 + q1 / 2^52). assert (Hq2 : 0 <= q2 < 2^53) by (unfold q2; lia).
  rewrite (land52 q1) by lia.
  assert (F4 : u64 (t3 + q2 / 2^52) = t3 + q2 / 2^52) by (unfold u64; apply Z.mod_small; lia). rewrite F4.
  set (q3 := t3 + q2 / 2^52). assert (Hq3 : 0 <= q3 < 2^53) by (unfold q3; lia).
  rewrite (land52 q2) by lia.
  assert (F5 : u64 (s4 + q3 / 2^52) = s4 + q3 / 2^52) by (unfold u64; apply Z.mod_small; lia). rewrite F5.
  set (q4 := s4 + q3 / 2^52). assert (Hq4 : 0 <= q4 < 2^50) by (unfold q4; lia).
  rewrite (land52 q3) by lia. rewrite (land48 q4) by lia.
  (* value after the second pass, before the final mask *)
  assert (V2 : val5 (q0 mod 2^52) (q1 mod 2^52) (q2 mod 2^52) (q3 mod 2^52) q4 = val5 t0 t1 t2 t3 s4 + x2 * 4294968273)
    by (unfold val5, q4, q3, q2, q1, q0; lia).
  assert (Hfin : q4 / 2^48 = x2).
  { assert (B : 0 <= val5 (q0 mod 2^52) (q1 mod 2^52) (q2 mod 2^52) (q3 mod 2^52) 0 < 2^208) by (unfold val5; lia).
    unfold val5 in V2, B, Hx2, V1. unfold P256 in *.
    destruct Hx2 as [[Ex P1]|[Ex P1]]; rewrite Ex in *; lia. }
  (* abstract the second-pass limbs; keep only the linear facts *)
  assert (Em : q4 mod 2^48 = q4 - x2 * 2^48) by (rewrite <- Hfin; rewrite Z.mod_eq by lia; ring).
  rewrite Em.
  assert (B0 : 0 <= q0 mod 2^52 < 2^52) by (apply Z.mod_pos_bound; lia).
  assert (B1 : 0 <= q1 mod 2^52 < 2^52) by (apply Z.mod_pos_bound; lia).
  assert (B2 : 0 <= q2 mod 2^52 < 2^52) by (apply Z.mod_pos_bound; lia).
  assert (B3 : 0 <= q3 mod 2^52 < 2^52) by (apply Z.mod_pos_bound; lia).
  assert (B4 : 0 <= q4 - x2 * 2^48 < 2^48) by (rewrite <- Em; apply Z.mod_pos_bound; lia).
  set (u0 := q0 mod 2^52) in *. set (u1 := q1 mod 2^52) in *. set (u2 := q2 mod 2^52) in *. set (u3 := q3 mod 2^52) in *.
  clearbody u0 u1 u2 u3.
  assert (Hs4' : 0 <= s4 < 2^48 + 2^7) by exact Hs4.
  clear Hfin Em F0 F1 F2 F3 F4 F5 E0 E1 E2 E3 E4 E5 Hcu Hc Hm Hm12 Hy.
  clearbody q4. clear Hq0 Hq1 Hq2 Hq3 q3 q2 q1 q0.
  clearbody x2. clear c m y.
  assert (Vt : 0 <= val5 t0 t1 t2 t3 0 < 2^208) by (unfold val5; lia).
  clearbody s4 t0 t1 t2 t3. clear Hs0 Hs1 Hs2 Hs3 s0 s1 s2 s3 a4.
  clearbody x.
  unfold val5, P256 in *.
  destruct Hx2 as [[Ex P1]|[Ex P1]]; rewrite Ex in *; repeat split; lia.
Qed.
