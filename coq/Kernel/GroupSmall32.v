(* Proofs ABOUT the small group functions of src/group_impl.h in the 32-bit-limb configuration (USE_FORCE_WIDEMUL_INT64), regenerated as
   Gen/ge_set_gej_zinv32.v, Gen/ge_set_ge_zinv32.v and Gen/gej_rescale32.v with the 10x26 field operations kept as calls: for ALL inputs
   inside the domain of the 10x26 multiplication the result limbs are below the bounds a multiplication guarantees (lim32 1) and the values
   are the specified products modulo p.  Same statements as Kernel/GroupSmall.v (64-bit limbs). *)
From Coq Require Import ZArith Lia List Bool Setoid Morphisms.
Require Import Kernel.CSem Kernel.Bind Kernel.Field5x52 Kernel.Field10x26 Kernel.Field10x26Wp Kernel.Cong Kernel.GejDouble32.
Require Import Gen.fe10x26_mul_inner Gen.fe10x26_sqr_inner Gen.ge_set_gej_zinv32 Gen.ge_set_ge_zinv32 Gen.gej_rescale32.
Import ListNotations.
Local Open Scope Z_scope.
Local Opaque fe10x26_mul_inner_k fe10x26_sqr_inner_k.

Theorem ge_set_gej_zinv32_correct inf zi0 zi1 zi2 zi3 zi4 zi5 zi6 zi7 zi8 zi9 x0 x1 x2 x3 x4 x5 x6 x7 x8 x9 y0 y1 y2 y3 y4 y5 y6 y7 y8 y9 :
  lim32 8 zi0 zi1 zi2 zi3 zi4 zi5 zi6 zi7 zi8 zi9 -> lim32 8 x0 x1 x2 x3 x4 x5 x6 x7 x8 x9 -> lim32 8 y0 y1 y2 y3 y4 y5 y6 y7 y8 y9 ->
  ge_set_gej_zinv32_k inf zi0 zi1 zi2 zi3 zi4 zi5 zi6 zi7 zi8 zi9 x0 x1 x2 x3 x4 x5 x6 x7 x8 x9 y0 y1 y2 y3 y4 y5 y6 y7 y8 y9 (fun rinf rx0 rx1 rx2 rx3 rx4 rx5 rx6 rx7 rx8 rx9 ry0 ry1 ry2 ry3 ry4 ry5 ry6 ry7 ry8 ry9 =>
    let X := val10 x0 x1 x2 x3 x4 x5 x6 x7 x8 x9 in let Y := val10 y0 y1 y2 y3 y4 y5 y6 y7 y8 y9 in let ZI := val10 zi0 zi1 zi2 zi3 zi4 zi5 zi6 zi7 zi8 zi9 in
    rinf = inf /\ lim32 1 rx0 rx1 rx2 rx3 rx4 rx5 rx6 rx7 rx8 rx9 /\ lim32 1 ry0 ry1 ry2 ry3 ry4 ry5 ry6 ry7 ry8 ry9 /\
    cong (val10 rx0 rx1 rx2 rx3 rx4 rx5 rx6 rx7 rx8 rx9) (X * (ZI * ZI)) /\ cong (val10 ry0 ry1 ry2 ry3 ry4 ry5 ry6 ry7 ry8 ry9) (Y * (ZI * ZI * ZI))).
Proof.
  unfold lim32. intros [Hz0 [Hz1 [Hz2 [Hz3 [Hz4 [Hz5 [Hz6 [Hz7 [Hz8 Hz9]]]]]]]]] [Hx0 [Hx1 [Hx2 [Hx3 [Hx4 [Hx5 [Hx6 [Hx7 [Hx8 Hx9]]]]]]]]] [Hy0 [Hy1 [Hy2 [Hy3 [Hy4 [Hy5 [Hy6 [Hy7 [Hy8 Hy9]]]]]]]]].
  unfold ge_set_gej_zinv32_k.
  sqr_step. mul_step. mul_step. mul_step. apply bind_intro; intros rinf Hinf; cbv beta.
  split; [exact Hinf|]. split; [repeat split; lia|]. split; [repeat split; lia|].
  split.
  - rewrite C1, C. reflexivity.
  - rewrite C2, C0, C. reflexivity.
Qed.

Theorem ge_set_ge_zinv32_correct inf zi0 zi1 zi2 zi3 zi4 zi5 zi6 zi7 zi8 zi9 x0 x1 x2 x3 x4 x5 x6 x7 x8 x9 y0 y1 y2 y3 y4 y5 y6 y7 y8 y9 :
  lim32 8 zi0 zi1 zi2 zi3 zi4 zi5 zi6 zi7 zi8 zi9 -> lim32 8 x0 x1 x2 x3 x4 x5 x6 x7 x8 x9 -> lim32 8 y0 y1 y2 y3 y4 y5 y6 y7 y8 y9 ->
  ge_set_ge_zinv32_k inf zi0 zi1 zi2 zi3 zi4 zi5 zi6 zi7 zi8 zi9 x0 x1 x2 x3 x4 x5 x6 x7 x8 x9 y0 y1 y2 y3 y4 y5 y6 y7 y8 y9 (fun rinf rx0 rx1 rx2 rx3 rx4 rx5 rx6 rx7 rx8 rx9 ry0 ry1 ry2 ry3 ry4 ry5 ry6 ry7 ry8 ry9 =>
    let X := val10 x0 x1 x2 x3 x4 x5 x6 x7 x8 x9 in let Y := val10 y0 y1 y2 y3 y4 y5 y6 y7 y8 y9 in let ZI := val10 zi0 zi1 zi2 zi3 zi4 zi5 zi6 zi7 zi8 zi9 in
    rinf = inf /\ lim32 1 rx0 rx1 rx2 rx3 rx4 rx5 rx6 rx7 rx8 rx9 /\ lim32 1 ry0 ry1 ry2 ry3 ry4 ry5 ry6 ry7 ry8 ry9 /\
    cong (val10 rx0 rx1 rx2 rx3 rx4 rx5 rx6 rx7 rx8 rx9) (X * (ZI * ZI)) /\ cong (val10 ry0 ry1 ry2 ry3 ry4 ry5 ry6 ry7 ry8 ry9) (Y * (ZI * ZI * ZI))).
Proof.
  unfold lim32. intros [Hz0 [Hz1 [Hz2 [Hz3 [Hz4 [Hz5 [Hz6 [Hz7 [Hz8 Hz9]]]]]]]]] [Hx0 [Hx1 [Hx2 [Hx3 [Hx4 [Hx5 [Hx6 [Hx7 [Hx8 Hx9]]]]]]]]] [Hy0 [Hy1 [Hy2 [Hy3 [Hy4 [Hy5 [Hy6 [Hy7 [Hy8 Hy9]]]]]]]]].
  unfold ge_set_ge_zinv32_k.
  sqr_step. mul_step. mul_step. mul_step. apply bind_intro; intros rinf Hinf; cbv beta.
  split; [exact Hinf|]. split; [repeat split; lia|]. split; [repeat split; lia|].
  split.
  - rewrite C1, C. reflexivity.
  - rewrite C2, C0, C. reflexivity.
Qed.

Theorem gej_rescale32_correct s0 s1 s2 s3 s4 s5 s6 s7 s8 s9 x0 x1 x2 x3 x4 x5 x6 x7 x8 x9 y0 y1 y2 y3 y4 y5 y6 y7 y8 y9 z0 z1 z2 z3 z4 z5 z6 z7 z8 z9 :
  lim32 8 s0 s1 s2 s3 s4 s5 s6 s7 s8 s9 -> lim32 8 x0 x1 x2 x3 x4 x5 x6 x7 x8 x9 -> lim32 8 y0 y1 y2 y3 y4 y5 y6 y7 y8 y9 -> lim32 8 z0 z1 z2 z3 z4 z5 z6 z7 z8 z9 ->
  gej_rescale32_k s0 s1 s2 s3 s4 s5 s6 s7 s8 s9 x0 x1 x2 x3 x4 x5 x6 x7 x8 x9 y0 y1 y2 y3 y4 y5 y6 y7 y8 y9 z0 z1 z2 z3 z4 z5 z6 z7 z8 z9 (fun rx0 rx1 rx2 rx3 rx4 rx5 rx6 rx7 rx8 rx9 ry0 ry1 ry2 ry3 ry4 ry5 ry6 ry7 ry8 ry9 rz0 rz1 rz2 rz3 rz4 rz5 rz6 rz7 rz8 rz9 =>
    let X := val10 x0 x1 x2 x3 x4 x5 x6 x7 x8 x9 in let Y := val10 y0 y1 y2 y3 y4 y5 y6 y7 y8 y9 in let Z := val10 z0 z1 z2 z3 z4 z5 z6 z7 z8 z9 in let S := val10 s0 s1 s2 s3 s4 s5 s6 s7 s8 s9 in
    lim32 1 rx0 rx1 rx2 rx3 rx4 rx5 rx6 rx7 rx8 rx9 /\ lim32 1 ry0 ry1 ry2 ry3 ry4 ry5 ry6 ry7 ry8 ry9 /\ lim32 1 rz0 rz1 rz2 rz3 rz4 rz5 rz6 rz7 rz8 rz9 /\
    cong (val10 rx0 rx1 rx2 rx3 rx4 rx5 rx6 rx7 rx8 rx9) (X * (S * S)) /\ cong (val10 ry0 ry1 ry2 ry3 ry4 ry5 ry6 ry7 ry8 ry9) (Y * (S * S) * S) /\ cong (val10 rz0 rz1 rz2 rz3 rz4 rz5 rz6 rz7 rz8 rz9) (Z * S)).
Proof.
  unfold lim32. intros [Hs0 [Hs1 [Hs2 [Hs3 [Hs4 [Hs5 [Hs6 [Hs7 [Hs8 Hs9]]]]]]]]] [Hx0 [Hx1 [Hx2 [Hx3 [Hx4 [Hx5 [Hx6 [Hx7 [Hx8 Hx9]]]]]]]]] [Hy0 [Hy1 [Hy2 [Hy3 [Hy4 [Hy5 [Hy6 [Hy7 [Hy8 Hy9]]]]]]]]] [Hz0 [Hz1 [Hz2 [Hz3 [Hz4 [Hz5 [Hz6 [Hz7 [Hz8 Hz9]]]]]]]]].
  unfold gej_rescale32_k.
  sqr_step. mul_step. mul_step. mul_step. mul_step.
  split; [repeat split; lia|]. split; [repeat split; lia|]. split; [repeat split; lia|].
  split; [|split].
  - rewrite C0, C. reflexivity.
  - rewrite C2, C1, C. reflexivity.
  - rewrite C3. reflexivity.
Qed.
