(* Proofs ABOUT the generated 32-byte scalar conversions (Gen/scalar_set_b32.v: secp256k1_scalar_set_b32 of src/scalar_4x64_impl.h with
   secp256k1_read_be64 and the final secp256k1_scalar_reduce translated in place; Gen/scalar_get_b32.v with secp256k1_write_be64 in place):
   for ALL 32-byte strings the four limbs hold the big-endian value reduced modulo the group order and the overflow flag says exactly
   whether the value was at least the order; for ALL limb values the 32 bytes written are the big-endian value of the limbs. *)
From Coq Require Import ZArith Lia List Bool.
Require Import Kernel.CSem Kernel.Bind Kernel.Scalar4x64 Kernel.CtPrimitives Kernel.ScalarMul512 Kernel.ScalarReduce512 Kernel.ScalarAdd Kernel.MorePrims Kernel.FieldSetB32.
Require Import Gen.scalar_check_overflow Gen.scalar_set_b32 Gen.scalar_get_b32.
Import ListNotations.
Local Open Scope Z_scope.
Ltac Zify.zify_post_hook ::= Z.div_mod_to_equations.

(* an OR of a multiple of 2^k with a value below 2^k is their sum *)
Lemma lor_hi_lo hi lo k : 0 <= k -> 0 <= hi -> hi mod 2^k = 0 -> 0 <= lo < 2^k -> Z.lor hi lo = hi + lo.
Proof.
  intros Hk Hh Hm Hl. assert (P : 0 < 2^k) by (apply Z.pow_pos_nonneg; lia).
  assert (E : hi = hi / 2^k * 2^k) by (rewrite (Z.div_mod hi (2^k)) at 1 by lia; lia).
  rewrite E at 1. rewrite Z.lor_comm, lor_add_disjoint; [lia|lia|lia|apply Z.div_pos; lia].
Qed.

(* a 64-bit word is the sum of its eight bytes *)
Lemma bytes64 x : 0 <= x < 2^64 ->
  x = (x / 2^56) mod 2^8 * 2^56 + (x / 2^48) mod 2^8 * 2^48 + (x / 2^40) mod 2^8 * 2^40 + (x / 2^32) mod 2^8 * 2^32 + (x / 2^24) mod 2^8 * 2^24 + (x / 2^16) mod 2^8 * 2^16 + (x / 2^8) mod 2^8 * 2^8 + x mod 2^8.
Proof. intros. lia. Qed.

Theorem scalar_get_b32_correct d0 d1 d2 d3 :
  0 <= d0 < 2^64 -> 0 <= d1 < 2^64 -> 0 <= d2 < 2^64 -> 0 <= d3 < 2^64 ->
  scalar_get_b32_k d0 d1 d2 d3 (fun r0 r1 r2 r3 r4 r5 r6 r7 r8 r9 r10 r11 r12 r13 r14 r15 r16 r17 r18 r19 r20 r21 r22 r23 r24 r25 r26 r27 r28 r29 r30 r31 =>
    Forall (fun b => 0 <= b < 256) [r0; r1; r2; r3; r4; r5; r6; r7; r8; r9; r10; r11; r12; r13; r14; r15; r16; r17; r18; r19; r20; r21; r22; r23; r24; r25; r26; r27; r28; r29; r30; r31] /\
    be32 r0 r1 r2 r3 r4 r5 r6 r7 r8 r9 r10 r11 r12 r13 r14 r15 r16 r17 r18 r19 r20 r21 r22 r23 r24 r25 r26 r27 r28 r29 r30 r31 = val4 d0 d1 d2 d3).
Proof.
  intros H0 H1 H2 H3. unfold scalar_get_b32_k. cbv zeta. unfold u8.
  split.
  - repeat constructor; lia.
  - pose proof (bytes64 d0 H0) as E0. pose proof (bytes64 d1 H1) as E1. pose proof (bytes64 d2 H2) as E2. pose proof (bytes64 d3 H3) as E3.
    unfold be32, val4.
    repeat match goal with |- context[?x mod ?m] => let b := fresh "b" in set (b := x mod m) in * end.
    clear -E0 E1 E2 E3.
    repeat match goal with b := _ |- _ => clearbody b end.
    lia.
Qed.

(* ---- parsing ---- *)
Ltac lor_bytes :=
  repeat match goal with |- context[Z.lor ?a ?b] =>
    lazymatch a with context[Z.lor _ _] => fail | _ =>
      lazymatch b with
      | _ * 2^?j => let k := eval compute in (j + 8) in rewrite (lor_hi_lo a b k) by lia
      | _ => rewrite (lor_hi_lo a b 8) by lia
      end end end.

Theorem scalar_set_b32_correct a0 a1 a2 a3 a4 a5 a6 a7 a8 a9 a10 a11 a12 a13 a14 a15 a16 a17 a18 a19 a20 a21 a22 a23 a24 a25 a26 a27 a28 a29 a30 a31 :
  0 <= a0 < 256 -> 0 <= a1 < 256 -> 0 <= a2 < 256 -> 0 <= a3 < 256 -> 0 <= a4 < 256 -> 0 <= a5 < 256 -> 0 <= a6 < 256 -> 0 <= a7 < 256 -> 0 <= a8 < 256 -> 0 <= a9 < 256 -> 0 <= a10 < 256 -> 0 <= a11 < 256 -> 0 <= a12 < 256 -> 0 <= a13 < 256 -> 0 <= a14 < 256 -> 0 <= a15 < 256 -> 0 <= a16 < 256 -> 0 <= a17 < 256 -> 0 <= a18 < 256 -> 0 <= a19 < 256 -> 0 <= a20 < 256 -> 0 <= a21 < 256 -> 0 <= a22 < 256 -> 0 <= a23 < 256 -> 0 <= a24 < 256 -> 0 <= a25 < 256 -> 0 <= a26 < 256 -> 0 <= a27 < 256 -> 0 <= a28 < 256 -> 0 <= a29 < 256 -> 0 <= a30 < 256 -> 0 <= a31 < 256 ->
  scalar_set_b32_k a0 a1 a2 a3 a4 a5 a6 a7 a8 a9 a10 a11 a12 a13 a14 a15 a16 a17 a18 a19 a20 a21 a22 a23 a24 a25 a26 a27 a28 a29 a30 a31 (fun r0 r1 r2 r3 over =>
    (0 <= r0 < 2^64 /\ 0 <= r1 < 2^64 /\ 0 <= r2 < 2^64 /\ 0 <= r3 < 2^64) /\
    val4 r0 r1 r2 r3 = be32 a0 a1 a2 a3 a4 a5 a6 a7 a8 a9 a10 a11 a12 a13 a14 a15 a16 a17 a18 a19 a20 a21 a22 a23 a24 a25 a26 a27 a28 a29 a30 a31 mod N256 /\
    over = (if N256 <=? be32 a0 a1 a2 a3 a4 a5 a6 a7 a8 a9 a10 a11 a12 a13 a14 a15 a16 a17 a18 a19 a20 a21 a22 a23 a24 a25 a26 a27 a28 a29 a30 a31 then 1 else 0)).
Proof.
  intros H0 H1 H2 H3 H4 H5 H6 H7 H8 H9 H10 H11 H12 H13 H14 H15 H16 H17 H18 H19 H20 H21 H22 H23 H24 H25 H26 H27 H28 H29 H30 H31.
  unfold scalar_set_b32_k.
  unfold u64 at 1 2 3 4 5 6 7 8 9 10 11 12 13 14 15 16 17 18 19 20 21 22 23 24 25 26 27 28.
  repeat match goal with |- context[(?x * 2^?j) mod 2^64] => rewrite (Z.mod_small (x * 2^j) (2^64)) by lia end.
  lor_bytes.
  do 8 bintro.
  overflow_step.
  repeat first [ split_step | keep_step | u128_step | trunc_step ].
  bintro. match goal with Q : _ = sN 32 _ |- _ => rewrite sN32_small in Q by lia end.
  do 2 keep_step. cbv beta.
  unfold hidden in *.
  assert (V : val4 r_d0 r_d1 r_d2 r_d3 = be32 a0 a1 a2 a3 a4 a5 a6 a7 a8 a9 a10 a11 a12 a13 a14 a15 a16 a17 a18 a19 a20 a21 a22 a23 a24 a25 a26 a27 a28 a29 a30 a31)
    by (unfold val4, be32; lia).
  rewrite <- V.
  assert (R0 : 0 <= r_d0 < 2^64) by lia. assert (R1 : 0 <= r_d1 < 2^64) by lia. assert (R2 : 0 <= r_d2 < 2^64) by lia. assert (R3 : 0 <= r_d3 < 2^64) by lia.
  clear V Q Q0 Q1 Q2 Q3 Q4 Q5 Q6 H0 H1 H2 H3 H4 H5 H6 H7 H8 H9 H10 H11 H12 H13 H14 H15 H16 H17 H18 H19 H20 H21 H22 H23 H24 H25 H26 H27 H28 H29 H30 H31.
  destruct (Z.leb_spec N256 (val4 r_d0 r_d1 r_d2 r_d3)) as [Hv|Hv]; unfold val4, N256 in *.
  all: assert (A2 : r_d4 + r_d5 * 2^64 + r_d6 * 2^128 + r_d7 * 2^192 + ctop * 2^256 =
                    r_d0 + r_d1 * 2^64 + r_d2 * 2^128 + r_d3 * 2^192 + co * (4624529908474429119 + 4994812053365940164 * 2^64 + 2^128)) by lia.
  all: split; [lia|].
  all: split; [first [apply (Z.mod_unique_pos _ _ 0); lia | apply (Z.mod_unique_pos _ _ 1); lia] | lia].
Qed.
