(* Proof ABOUT the generated 32-bit-limb 512 -> 256 bit scalar reduction (Gen/scalar8x32_reduce_512.v:
   secp256k1_scalar_reduce_512 of src/scalar_8x32_impl.h with the final secp256k1_scalar_reduce translated in place):
   for ALL sixteen 32-bit limbs the result is the canonical residue modulo the group order. *)
From Coq Require Import ZArith Lia List Bool.
Require Import Kernel.CSem Kernel.Bind Kernel.Carry32 Kernel.Scalar4x64 Kernel.Scalar8x32Check Gen.scalar8x32_check_overflow Gen.scalar8x32_reduce_512.
Import ListNotations.
Local Open Scope Z_scope.
Ltac Zify.zify_post_hook ::= Z.div_mod_to_equations.

Lemma NC32_ok : (801750719 + 1076732275 * 2^32 + 1354194884 * 2^64 + 1162945305 * 2^96 + 2^128) = 2^256 - N256.
Proof. reflexivity. Qed.

(* the constants N_C_i appear as C expressions (~N_i + 1, ~N_i); they are evaluated inside hypotheses only *)
Ltac norm_in H :=
  try change (u32 (4294967295 - u32 3493216577 + 1)) with 801750719 in H;
  try change (4294967295 - u32 3218235020) with 1076732275 in H;
  try change (4294967295 - u32 2940772411) with 1354194884 in H;
  try change (4294967295 - u32 3132021990) with 1162945305 in H.
Ltac wrap_eq H := norm_in H; unfold u64, u32 in H; repeat (rewrite Z.mod_small in H by (timeout 300 lia)).
Ltac u64_step :=
  lazymatch goal with |- bind (u64 _) _ => idtac end; bintro;
  lazymatch goal with H : _ = u64 _ |- _ => wrap_eq H end.
Ltac small_sum_step :=
  lazymatch goal with |- bind (u32 (_ + _)) _ => idtac end; bintro;
  lazymatch goal with H : ?x = u32 (?a + ?b) |- _ =>
    let B := fresh "B" in assert (B : 0 <= a + b <= 12) by (timeout 120 lia);
    unfold u32 in H; rewrite (Z.mod_small (a + b) (2^32)) in H by (timeout 120 lia) end.
Ltac overflow_step :=
  lazymatch goal with |- bind ?e _ => lazymatch e with context[scalar8x32_check_overflow] => idtac end end; bintro;
  lazymatch goal with E : context[scalar8x32_check_overflow ?a0 ?a1 ?a2 ?a3 ?a4 ?a5 ?a6 ?a7] |- _ =>
     let H := fresh "CO" in let co := fresh "co" in let Hb := fresh "COb" in let Eco := fresh "Eco" in
     pose proof (scalar8x32_check_overflow_correct a0 a1 a2 a3 a4 a5 a6 a7 ltac:(timeout 120 lia) ltac:(timeout 120 lia) ltac:(timeout 120 lia) ltac:(timeout 120 lia) ltac:(timeout 120 lia) ltac:(timeout 120 lia) ltac:(timeout 120 lia) ltac:(timeout 120 lia)) as H;
     remember (scalar8x32_check_overflow a0 a1 a2 a3 a4 a5 a6 a7) as co eqn:Eco; clear Eco;
     assert (Hb : 0 <= co <= 1) by (rewrite H; destruct (N256 <=? val8w a0 a1 a2 a3 a4 a5 a6 a7); lia);
     change (hidden (co = (if N256 <=? val8w a0 a1 a2 a3 a4 a5 a6 a7 then 1 else 0))) in H;
     unfold u64, u32 in E; repeat (rewrite Z.mod_small in E by (timeout 300 lia))
  end.

(* r is the canonical residue of v modulo the group order (a definition, so that the arithmetic tactics do not look inside
   hypotheses that merely mention it) *)
Definition red_spec (v r : Z) : Prop := r = v mod N256.

Theorem scalar8x32_reduce_512_wp l0 l1 l2 l3 l4 l5 l6 l7 l8 l9 l10 l11 l12 l13 l14 l15 :
  0 <= l0 < 2^32 -> 0 <= l1 < 2^32 -> 0 <= l2 < 2^32 -> 0 <= l3 < 2^32 -> 0 <= l4 < 2^32 -> 0 <= l5 < 2^32 -> 0 <= l6 < 2^32 -> 0 <= l7 < 2^32 -> 0 <= l8 < 2^32 -> 0 <= l9 < 2^32 -> 0 <= l10 < 2^32 -> 0 <= l11 < 2^32 -> 0 <= l12 < 2^32 -> 0 <= l13 < 2^32 -> 0 <= l14 < 2^32 -> 0 <= l15 < 2^32 ->
  forall Q : Z -> Z -> Z -> Z -> Z -> Z -> Z -> Z -> Prop,
  (forall r0 r1 r2 r3 r4 r5 r6 r7,
    (0 <= r0 < 2^32 /\ 0 <= r1 < 2^32 /\ 0 <= r2 < 2^32 /\ 0 <= r3 < 2^32 /\ 0 <= r4 < 2^32 /\ 0 <= r5 < 2^32 /\ 0 <= r6 < 2^32 /\ 0 <= r7 < 2^32) /\
    red_spec (val16w l0 l1 l2 l3 l4 l5 l6 l7 l8 l9 l10 l11 l12 l13 l14 l15) (val8w r0 r1 r2 r3 r4 r5 r6 r7) -> Q r0 r1 r2 r3 r4 r5 r6 r7) ->
  scalar8x32_reduce_512_k l0 l1 l2 l3 l4 l5 l6 l7 l8 l9 l10 l11 l12 l13 l14 l15 Q.
Proof.
  intros H0 H1 H2 H3 H4 H5 H6 H7 H8 H9 H10 H11 H12 H13 H14 H15 Q HQ. hide HQ.
  unfold scalar8x32_reduce_512_k.
  (* stages 1 and 2: 512 -> 385 -> 258 bits *)
  repeat first [ muladd32_step | muladd_fast32_step | sumadd32_step | sumadd_fast32_step | keep_step ].
  small_sum_step.
  assert (SM : m0 + m1 * 2^32 + m2 * 2^64 + m3 * 2^96 + m4 * 2^128 + m5 * 2^160 + m6 * 2^192 + m7 * 2^224 + m8 * 2^256 + m9 * 2^288 + m10 * 2^320 + m11 * 2^352 + m12 * 2^384 =
               l0 + l1 * 2^32 + l2 * 2^64 + l3 * 2^96 + l4 * 2^128 + l5 * 2^160 + l6 * 2^192 + l7 * 2^224 + (l8 + l9 * 2^32 + l10 * 2^64 + l11 * 2^96 + l12 * 2^128 + l13 * 2^160 + l14 * 2^192 + l15 * 2^224) * (801750719 + 1076732275 * 2^32 + 1354194884 * 2^64 + 1162945305 * 2^96 + 2^128)) by (timeout 600 lia).
  assert (Bm : (0 <= m0 < 2^32 /\ 0 <= m1 < 2^32 /\ 0 <= m2 < 2^32 /\ 0 <= m3 < 2^32 /\ 0 <= m4 < 2^32 /\ 0 <= m5 < 2^32 /\ 0 <= m6 < 2^32 /\ 0 <= m7 < 2^32) /\ (0 <= m8 < 2^32 /\ 0 <= m9 < 2^32 /\ 0 <= m10 < 2^32 /\ 0 <= m11 < 2^32 /\ 0 <= m12 <= 3)) by (timeout 600 lia).
  assert (SP : p0 + p1 * 2^32 + p2 * 2^64 + p3 * 2^96 + p4 * 2^128 + p5 * 2^160 + p6 * 2^192 + p7 * 2^224 + p8 * 2^256 =
               m0 + m1 * 2^32 + m2 * 2^64 + m3 * 2^96 + m4 * 2^128 + m5 * 2^160 + m6 * 2^192 + m7 * 2^224 + (m8 + m9 * 2^32 + m10 * 2^64 + m11 * 2^96 + m12 * 2^128) * (801750719 + 1076732275 * 2^32 + 1354194884 * 2^64 + 1162945305 * 2^96 + 2^128)) by (timeout 600 lia).
  assert (Bp : (0 <= p0 < 2^32 /\ 0 <= p1 < 2^32 /\ 0 <= p2 < 2^32 /\ 0 <= p3 < 2^32 /\ 0 <= p4 < 2^32 /\ 0 <= p5 < 2^32 /\ 0 <= p6 < 2^32 /\ 0 <= p7 < 2^32) /\ 0 <= p8 <= 12) by (timeout 600 lia).
  clear - SM Bm SP Bp HQ H0 H1 H2 H3 H4 H5 H6 H7 H8 H9 H10 H11 H12 H13 H14 H15.
  (* stage 3: 258 -> 256 bits, and the final conditional subtraction of n (the summaries of stages 1-2 are set aside) *)
  hide SM; hide SP; hide Bm.
  repeat first [ split32_step | keep_step | overflow_step | u64_step | trunc32_step ].
  apply bind_intro; intros ? _; cbv beta. unhide HQ. apply HQ. clear HQ. unfold red_spec.
  unfold hidden in *.
  match goal with H : ?co = (if N256 <=? ?v then 1 else 0) |- _ => destruct (Z.leb_spec N256 v) as [Hv|Hv] end.
  all: unfold val8w, val16w, N256 in *.
  all: assert (A1 : r_d0 + r_d1 * 2^32 + r_d2 * 2^64 + r_d3 * 2^96 + r_d4 * 2^128 + r_d5 * 2^160 + r_d6 * 2^192 + r_d7 * 2^224 + c14 * 2^256 = p0 + p1 * 2^32 + p2 * 2^64 + p3 * 2^96 + p4 * 2^128 + p5 * 2^160 + p6 * 2^192 + p7 * 2^224 + p8 * (801750719 + 1076732275 * 2^32 + 1354194884 * 2^64 + 1162945305 * 2^96 + 2^128)) by (timeout 600 lia).
  all: assert (A2 : r_d8 + r_d9 * 2^32 + r_d10 * 2^64 + r_d11 * 2^96 + r_d12 * 2^128 + r_d13 * 2^160 + r_d14 * 2^192 + r_d15 * 2^224 + ctop * 2^256 = r_d0 + r_d1 * 2^32 + r_d2 * 2^64 + r_d3 * 2^96 + r_d4 * 2^128 + r_d5 * 2^160 + r_d6 * 2^192 + r_d7 * 2^224 + scalar_reduce1_overflow * (801750719 + 1076732275 * 2^32 + 1354194884 * 2^64 + 1162945305 * 2^96 + 2^128)) by (timeout 600 lia).
  all: assert (A3 : c14 = 0 \/ c14 = 1) by (timeout 600 lia).
  all: split; [lia|].
  all: assert (RB : 0 <= r_d8 + r_d9 * 2^32 + r_d10 * 2^64 + r_d11 * 2^96 + r_d12 * 2^128 + r_d13 * 2^160 + r_d14 * 2^192 + r_d15 * 2^224 < 2^256) by (timeout 600 lia).
  all: assert (RR : 0 <= r_d0 + r_d1 * 2^32 + r_d2 * 2^64 + r_d3 * 2^96 + r_d4 * 2^128 + r_d5 * 2^160 + r_d6 * 2^192 + r_d7 * 2^224 < 2^256) by (timeout 600 lia).
  all: assert (PT : 0 <= ctop) by (timeout 600 lia).
  all: match goal with Q : _ = _ + ?co', CO' : ?co' = _ |- _ => rename Q into E5 end.
  all: clear - SM Bm SP Bp A1 A2 A3 CO E5 Hv RB RR PT H0 H1 H2 H3 H4 H5 H6 H7 H8 H9 H10 H11 H12 H13 H14 H15.
  all: apply (Z.mod_unique_pos _ _ ((l8 + l9 * 2^32 + l10 * 2^64 + l11 * 2^96 + l12 * 2^128 + l13 * 2^160 + l14 * 2^192 + l15 * 2^224) + (m8 + m9 * 2^32 + m10 * 2^64 + m11 * 2^96 + m12 * 2^128) + p8 + scalar_reduce1_overflow)).
  all: destruct A3; subst c14 co scalar_reduce1_overflow.
  all: lia.
Qed.

Theorem scalar8x32_reduce_512_correct l0 l1 l2 l3 l4 l5 l6 l7 l8 l9 l10 l11 l12 l13 l14 l15 :
  0 <= l0 < 2^32 -> 0 <= l1 < 2^32 -> 0 <= l2 < 2^32 -> 0 <= l3 < 2^32 -> 0 <= l4 < 2^32 -> 0 <= l5 < 2^32 -> 0 <= l6 < 2^32 -> 0 <= l7 < 2^32 -> 0 <= l8 < 2^32 -> 0 <= l9 < 2^32 -> 0 <= l10 < 2^32 -> 0 <= l11 < 2^32 -> 0 <= l12 < 2^32 -> 0 <= l13 < 2^32 -> 0 <= l14 < 2^32 -> 0 <= l15 < 2^32 ->
  scalar8x32_reduce_512_k l0 l1 l2 l3 l4 l5 l6 l7 l8 l9 l10 l11 l12 l13 l14 l15 (fun r0 r1 r2 r3 r4 r5 r6 r7 =>
    (0 <= r0 < 2^32 /\ 0 <= r1 < 2^32 /\ 0 <= r2 < 2^32 /\ 0 <= r3 < 2^32 /\ 0 <= r4 < 2^32 /\ 0 <= r5 < 2^32 /\ 0 <= r6 < 2^32 /\ 0 <= r7 < 2^32) /\
    val8w r0 r1 r2 r3 r4 r5 r6 r7 = val16w l0 l1 l2 l3 l4 l5 l6 l7 l8 l9 l10 l11 l12 l13 l14 l15 mod N256).
Proof.
  intros. apply scalar8x32_reduce_512_wp; try assumption. intros r0 r1 r2 r3 r4 r5 r6 r7 HP. exact HP.
Qed.
