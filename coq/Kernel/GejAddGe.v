(* Proof ABOUT the generated constant-time point addition (Gen/gej_add_ge.v: secp256k1_gej_add_ge of src/group_impl.h - the unified,
   branch-free addition of a Jacobian and an affine point used by every signing path -, translated with its 45 field operations kept as
   calls to the separately translated and proved limb functions, whole-object copies member by member, secp256k1_fe_one read from its
   initializer). *)
From Coq Require Import ZArith Lia List Bool Setoid Morphisms.
Require Import Kernel.CSem Kernel.Bind Kernel.Field5x52 Kernel.Field5x52Sqr Kernel.FieldWp Kernel.FieldWp2 Kernel.Cong Kernel.GejDouble.
Require Import Gen.fe_mul_inner Gen.fe_sqr_inner Gen.fe_impl_add Gen.fe_impl_negate_unchecked Gen.fe_impl_half Gen.fe_impl_mul_int_unchecked Gen.fe_impl_cmov Gen.fe_impl_normalizes_to_zero Gen.gej_add_ge.
Import ListNotations.
Local Open Scope Z_scope.
Local Opaque fe_mul_inner_k fe_sqr_inner_k fe_impl_add_k fe_impl_negate_unchecked_k fe_impl_half_k fe_impl_mul_int_unchecked_k fe_impl_cmov_k fe_impl_normalizes_to_zero_k.

(* limbs below m * 2^52, top limb below t * 2^48 (magnitude k implies bnd (2k) (2k); the results of a multiplication satisfy bnd 1 2) *)
Definition bnd (m t a0 a1 a2 a3 a4 : Z) : Prop :=
  0 <= a0 < m * 2^52 /\ 0 <= a1 < m * 2^52 /\ 0 <= a2 < m * 2^52 /\ 0 <= a3 < m * 2^52 /\ 0 <= a4 < t * 2^48.

(* the same WP theorems with all side conditions in ONE conjunction, so that each step costs one call of the arithmetic tactic *)
Lemma mul_wp1 a0 a1 a2 a3 a4 b0 b1 b2 b3 b4 (Q : Z -> Z -> Z -> Z -> Z -> Prop) :
  (0 <= a0 < 2^56 /\ 0 <= a1 < 2^56 /\ 0 <= a2 < 2^56 /\ 0 <= a3 < 2^56 /\ 0 <= a4 < 2^52) /\
  (0 <= b0 < 2^56 /\ 0 <= b1 < 2^56 /\ 0 <= b2 < 2^56 /\ 0 <= b3 < 2^56 /\ 0 <= b4 < 2^52) ->
  (forall r0 r1 r2 r3 r4, (0 <= r0 < 2^52 /\ 0 <= r1 < 2^52 /\ 0 <= r2 < 2^52 /\ 0 <= r3 < 2^52 /\ 0 <= r4 < 2^49) /\
    (val5 r0 r1 r2 r3 r4 - val5 a0 a1 a2 a3 a4 * val5 b0 b1 b2 b3 b4) mod P256 = 0 -> Q r0 r1 r2 r3 r4) ->
  fe_mul_inner_k a0 a1 a2 a3 a4 b0 b1 b2 b3 b4 Q.
Proof. intros [[? [? [? [? ?]]]] [? [? [? [? ?]]]]] HQ. apply fe_mul_inner_wp; assumption. Qed.
Lemma sqr_wp1 a0 a1 a2 a3 a4 (Q : Z -> Z -> Z -> Z -> Z -> Prop) :
  (0 <= a0 < 2^56 /\ 0 <= a1 < 2^56 /\ 0 <= a2 < 2^56 /\ 0 <= a3 < 2^56 /\ 0 <= a4 < 2^52) ->
  (forall r0 r1 r2 r3 r4, (0 <= r0 < 2^52 /\ 0 <= r1 < 2^52 /\ 0 <= r2 < 2^52 /\ 0 <= r3 < 2^52 /\ 0 <= r4 < 2^49) /\
    (val5 r0 r1 r2 r3 r4 - val5 a0 a1 a2 a3 a4 * val5 a0 a1 a2 a3 a4) mod P256 = 0 -> Q r0 r1 r2 r3 r4) ->
  fe_sqr_inner_k a0 a1 a2 a3 a4 Q.
Proof. intros [? [? [? [? ?]]]] HQ. apply fe_sqr_inner_wp; assumption. Qed.
Lemma add_wp1 r0 r1 r2 r3 r4 a0 a1 a2 a3 a4 (Q : Z -> Z -> Z -> Z -> Z -> Prop) :
  (0 <= r0 /\ 0 <= r1 /\ 0 <= r2 /\ 0 <= r3 /\ 0 <= r4 /\ 0 <= a0 /\ 0 <= a1 /\ 0 <= a2 /\ 0 <= a3 /\ 0 <= a4 /\
   r0 + a0 < 2^64 /\ r1 + a1 < 2^64 /\ r2 + a2 < 2^64 /\ r3 + a3 < 2^64 /\ r4 + a4 < 2^64) ->
  (forall s0 s1 s2 s3 s4, s0 = r0 + a0 -> s1 = r1 + a1 -> s2 = r2 + a2 -> s3 = r3 + a3 -> s4 = r4 + a4 ->
     val5 s0 s1 s2 s3 s4 = val5 r0 r1 r2 r3 r4 + val5 a0 a1 a2 a3 a4 -> Q s0 s1 s2 s3 s4) ->
  fe_impl_add_k r0 r1 r2 r3 r4 a0 a1 a2 a3 a4 Q.
Proof. intros [? [? [? [? [? [? [? [? [? [? [? [? [? [? ?]]]]]]]]]]]]]] HQ. apply fe_add_wp; assumption. Qed.
Lemma mul_int_wp1 r0 r1 r2 r3 r4 a (Q : Z -> Z -> Z -> Z -> Z -> Prop) :
  (0 <= a < 2^64 /\ 0 <= r0 /\ 0 <= r1 /\ 0 <= r2 /\ 0 <= r3 /\ 0 <= r4 /\ r0 * a < 2^64 /\ r1 * a < 2^64 /\ r2 * a < 2^64 /\ r3 * a < 2^64 /\ r4 * a < 2^64) ->
  (forall s0 s1 s2 s3 s4, s0 = r0 * a -> s1 = r1 * a -> s2 = r2 * a -> s3 = r3 * a -> s4 = r4 * a ->
     val5 s0 s1 s2 s3 s4 = val5 r0 r1 r2 r3 r4 * a -> Q s0 s1 s2 s3 s4) ->
  fe_impl_mul_int_unchecked_k r0 r1 r2 r3 r4 a Q.
Proof. intros [? [? [? [? [? [? [? [? [? [? ?]]]]]]]]]] HQ. apply fe_mul_int_wp; assumption. Qed.
Lemma negate_wp1 a0 a1 a2 a3 a4 m (Q : Z -> Z -> Z -> Z -> Z -> Prop) :
  (0 <= m <= 31 /\ 0 <= a0 <= 2 * (m + 1) * 4503595332402223 /\ 0 <= a1 <= 2 * (m + 1) * 4503599627370495 /\ 0 <= a2 <= 2 * (m + 1) * 4503599627370495 /\
   0 <= a3 <= 2 * (m + 1) * 4503599627370495 /\ 0 <= a4 <= 2 * (m + 1) * 281474976710655) ->
  (forall r0 r1 r2 r3 r4,
     r0 = 2 * (m + 1) * 4503595332402223 - a0 -> r1 = 2 * (m + 1) * 4503599627370495 - a1 -> r2 = 2 * (m + 1) * 4503599627370495 - a2 ->
     r3 = 2 * (m + 1) * 4503599627370495 - a3 -> r4 = 2 * (m + 1) * 281474976710655 - a4 ->
     val5 r0 r1 r2 r3 r4 = 2 * (m + 1) * P256 - val5 a0 a1 a2 a3 a4 -> Q r0 r1 r2 r3 r4) ->
  fe_impl_negate_unchecked_k a0 a1 a2 a3 a4 m Q.
Proof. intros [? [? [? [? [? ?]]]]] HQ. apply fe_negate_wp; assumption. Qed.
Lemma half_wp1 t0 t1 t2 t3 t4 (Q : Z -> Z -> Z -> Z -> Z -> Prop) :
  (0 <= t0 < 2^58 /\ 0 <= t1 < 2^58 /\ 0 <= t2 < 2^58 /\ 0 <= t3 < 2^58 /\ 0 <= t4 < 2^54) ->
  (forall r0 r1 r2 r3 r4,
    (0 <= 2 * r0 <= t0 + 2^52 + 2^52 /\ 0 <= 2 * r1 <= t1 + 2^52 + 2^52 /\ 0 <= 2 * r2 <= t2 + 2^52 + 2^52 /\ 0 <= 2 * r3 <= t3 + 2^52 + 2^52 /\ 0 <= 2 * r4 <= t4 + 2^48) ->
    2 * val5 r0 r1 r2 r3 r4 = val5 t0 t1 t2 t3 t4 + (t0 mod 2) * P256 -> Q r0 r1 r2 r3 r4) ->
  fe_impl_half_k t0 t1 t2 t3 t4 Q.
Proof. intros [? [? [? [? ?]]]] HQ. apply fe_half_wp; assumption. Qed.
Lemma cmov_wp1 r0 r1 r2 r3 r4 a0 a1 a2 a3 a4 flag (Q : Z -> Z -> Z -> Z -> Z -> Prop) :
  (0 <= r0 < 2^64 /\ 0 <= r1 < 2^64 /\ 0 <= r2 < 2^64 /\ 0 <= r3 < 2^64 /\ 0 <= r4 < 2^64 /\
   0 <= a0 < 2^64 /\ 0 <= a1 < 2^64 /\ 0 <= a2 < 2^64 /\ 0 <= a3 < 2^64 /\ 0 <= a4 < 2^64) ->
  (flag = 0 /\ Q r0 r1 r2 r3 r4) \/ (flag = 1 /\ Q a0 a1 a2 a3 a4) ->
  fe_impl_cmov_k r0 r1 r2 r3 r4 a0 a1 a2 a3 a4 flag Q.
Proof. intros [? [? [? [? [? [? [? [? [? ?]]]]]]]]] HQ. apply fe_cmov_wp; assumption. Qed.
Lemma ntz_wp1 r0 r1 r2 r3 r4 (Q : Z -> Prop) :
  (0 <= r0 < 2^58 /\ 0 <= r1 < 2^58 /\ 0 <= r2 < 2^58 /\ 0 <= r3 < 2^58 /\ 0 <= r4 < 2^54) ->
  (forall ret, ret = (if (val5 r0 r1 r2 r3 r4) mod P256 =? 0 then 1 else 0) -> Q ret) ->
  fe_impl_normalizes_to_zero_k r0 r1 r2 r3 r4 Q.
Proof. intros [? [? [? [? ?]]]] HQ. apply fe_normalizes_to_zero_wp; assumption. Qed.

Ltac mul_step := apply mul_wp1; [lia|]; let C := fresh "C" in intros ? ? ? ? ? [[? [? [? [? ?]]]] C]; apply cong_of_mod in C.
Ltac sqr_step := apply sqr_wp1; [lia|]; let C := fresh "C" in intros ? ? ? ? ? [[? [? [? [? ?]]]] C]; apply cong_of_mod in C.
Ltac add_step := apply add_wp1; [lia|]; intros ? ? ? ? ? ? ? ? ? ? ?V.
Ltac mul_int_step := apply mul_int_wp1; [lia|]; intros ? ? ? ? ? ? ? ? ? ? ?V.
Ltac negate_step := apply negate_wp1; [lia|]; intros ? ? ? ? ? ? ? ? ? ? ?V.
Ltac half_step := apply half_wp1; [lia|]; intros ? ? ? ? ? [? [? [? [? ?]]]] ?V.
Ltac copy_step := do 5 (apply bind_intro; intros ? ?; cbv beta).
Ltac cmov0_step := apply cmov_wp1; [lia|]; left; split; [reflexivity|].
Ltac cmov1_step := apply cmov_wp1; [lia|]; right; split; [reflexivity|].
Ltac ntz_step := apply ntz_wp1; [lia|]; intros ? ?N.

Ltac flag_norm := try change (b2z (1 =? 0)) with 0; try change (b2z (0 =? 0)) with 1.

Definition hidden_case (P : Prop) : Prop := P.

(* ---- the algebra, independent of the limb representation ---- *)
Lemma add_ge_head X1 Y1 Z1 X2 Y2 ZZ U2v S2a S2v Tv Mv RR0 MaltN TT RR :
  cong ZZ (Z1 * Z1) -> cong U2v (X2 * ZZ) -> cong S2a (Y2 * ZZ) -> cong S2v (S2a * Z1) -> Tv = X1 + U2v -> Mv = Y1 + S2v ->
  cong RR0 (Tv * Tv) -> MaltN = 2 * (1 + 1) * P256 - U2v -> cong TT (X1 * MaltN) -> RR = RR0 + TT ->
  let U2 := X2 * (Z1 * Z1) in let S2 := Y2 * (Z1 * Z1) * Z1 in let T := X1 + U2 in let M := Y1 + S2 in
  cong Tv T /\ cong Mv M /\ cong RR (T * T - X1 * U2) /\ cong (MaltN + X1) (X1 - U2).
Proof.
  intros C C0 C1 C2 V V0 C3 V1 C4 V2 U2 S2 T M.
  assert (HU : cong U2v U2) by (rewrite C0, C; reflexivity).
  assert (HS : cong S2v S2) by (rewrite C2, C1, C; reflexivity).
  assert (HT : cong Tv T) by (rewrite V, HU; reflexivity).
  assert (HM : cong MaltN (- U2)) by (rewrite V1, <- HU; apply cong_sub_mult).
  split; [exact HT|]. split; [rewrite V0, HS; reflexivity|]. split.
  - rewrite V2, C3, C4, HT, HM. apply cong_of_eq. ring.
  - rewrite HM. apply cong_of_eq. ring.
Qed.

Lemma add_ge_tail Tv T RaV Ralt MaV Malt NfV NN Z1 Nn Qn Qv T1 RZ T2 T3 T4 T5 T6 RYn RY b :
  cong Tv T -> cong RaV Ralt -> cong MaV Malt -> cong NfV NN ->
  cong Nn (MaV * MaV) -> Qn = 2 * (4 + 1 + 1) * P256 - Tv -> cong Qv (Qn * Nn) -> cong T1 (RaV * RaV) -> cong RZ (Z1 * MaV) ->
  T2 = T1 + Qv -> T3 = T2 * 2 -> T4 = T3 + Qv -> cong T5 (T4 * RaV) -> T6 = T5 + NfV -> RYn = 2 * (4 + 2 + 1) * P256 - T6 -> 2 * RY = RYn + b * P256 ->
  cong RZ (Z1 * Malt) /\ cong T2 (Ralt * Ralt - T * (Malt * Malt)) /\
  cong (2 * RY) (- (Ralt * (2 * (Ralt * Ralt - T * (Malt * Malt)) - T * (Malt * Malt)) + NN)).
Proof.
  intros HT HR HM HN C5 V5 C6 C8 C9 V6 V7 V8 C10 V9 V10 V11.
  assert (HQn : cong Qn (- T)) by (rewrite V5, <- HT; apply cong_sub_mult).
  assert (HQ : cong Qv (- T * (Malt * Malt))) by (rewrite C6, C5, HQn, HM; reflexivity).
  assert (H2 : cong T2 (Ralt * Ralt - T * (Malt * Malt))) by (rewrite V6, C8, HQ, HR; apply cong_of_eq; ring).
  split; [rewrite C9, HM; reflexivity|]. split; [exact H2|].
  rewrite V11. transitivity RYn; [apply cong_add_mult|].
  rewrite V10. transitivity (- T6); [apply cong_sub_mult|].
  rewrite V9, C10, HN, V8, V7, H2, HQ, HR. apply cong_of_eq. ring.
Qed.

(* the specification of the unified addition, in terms of the values of the limb vectors *)
Definition add_ge_post (inf x0 x1 x2 x3 x4 y0 y1 y2 y3 y4 z0 z1 z2 z3 z4 bx0 bx1 bx2 bx3 bx4 by0 by1 by2 by3 by4 rinf rx0 rx1 rx2 rx3 rx4 ry0 ry1 ry2 ry3 ry4 rz0 rz1 rz2 rz3 rz4 : Z) : Prop :=

      let X1 := val5 x0 x1 x2 x3 x4 in let Y1 := val5 y0 y1 y2 y3 y4 in let Z1 := val5 z0 z1 z2 z3 z4 in
      let X2 := val5 bx0 bx1 bx2 bx3 bx4 in let Y2 := val5 by0 by1 by2 by3 by4 in
      let U2 := X2 * (Z1 * Z1) in let S2 := Y2 * (Z1 * Z1) * Z1 in let T := X1 + U2 in let M := Y1 + S2 in let R := T * T - X1 * U2 in
      let deg := (M mod P256 =? 0) in
      let Ralt := if deg then 2 * Y1 else R in let Malt := if deg then X1 - U2 else M in let NN := if deg then 0 else Malt * Malt * (Malt * Malt) in
      let X3 := Ralt * Ralt - T * (Malt * Malt) in
      (inf = 1 -> (rx0 = bx0 /\ rx1 = bx1 /\ rx2 = bx2 /\ rx3 = bx3 /\ rx4 = bx4) /\ (ry0 = by0 /\ ry1 = by1 /\ ry2 = by2 /\ ry3 = by3 /\ ry4 = by4) /\
                  (rz0 = 1 /\ rz1 = 0 /\ rz2 = 0 /\ rz3 = 0 /\ rz4 = 0) /\ rinf = 0) /\
      (inf = 0 -> (bnd 2 4 rx0 rx1 rx2 rx3 rx4 /\ bnd 8 8 ry0 ry1 ry2 ry3 ry4 /\ bnd 1 2 rz0 rz1 rz2 rz3 rz4) /\
                  cong (val5 rz0 rz1 rz2 rz3 rz4) (Z1 * Malt) /\ cong (val5 rx0 rx1 rx2 rx3 rx4) X3 /\
                  cong (2 * val5 ry0 ry1 ry2 ry3 ry4) (- (Ralt * (2 * X3 - T * (Malt * Malt)) + NN)) /\
                  rinf = (if (Z1 * Malt) mod P256 =? 0 then 1 else 0)).

(* the first operand is the point at infinity: the result is the second operand with z = 1 *)
Ltac inf1_finish :=
  cbv beta delta [add_ge_post]; intros ? ? ? ? ? ? ? ? ? ? ? ? ? ? ?;
  split; [intros _|let E := fresh "E" in intro E; discriminate E];
  repeat match goal with H : _ <= _ < _ |- _ => clear H | H : _ <= _ <= _ |- _ => clear H end;
  subst; repeat split; reflexivity.

Theorem gej_add_ge_correct inf x0 x1 x2 x3 x4 y0 y1 y2 y3 y4 z0 z1 z2 z3 z4 bx0 bx1 bx2 bx3 bx4 by0 by1 by2 by3 by4 :
  (inf = 0 \/ inf = 1) ->
  bnd 8 8 x0 x1 x2 x3 x4 -> bnd 8 8 y0 y1 y2 y3 y4 -> bnd 16 16 z0 z1 z2 z3 z4 -> bnd 16 16 bx0 bx1 bx2 bx3 bx4 -> bnd 16 16 by0 by1 by2 by3 by4 ->
  gej_add_ge_k inf x0 x1 x2 x3 x4 y0 y1 y2 y3 y4 z0 z1 z2 z3 z4 bx0 bx1 bx2 bx3 bx4 by0 by1 by2 by3 by4
    (add_ge_post inf x0 x1 x2 x3 x4 y0 y1 y2 y3 y4 z0 z1 z2 z3 z4 bx0 bx1 bx2 bx3 bx4 by0 by1 by2 by3 by4).
Proof.
  unfold bnd. intros Hinf
    [Hx0 [Hx1 [Hx2 [Hx3 Hx4]]]] [Hy0 [Hy1 [Hy2 [Hy3 Hy4]]]] [Hz0 [Hz1 [Hz2 [Hz3 Hz4]]]] [Hbx0 [Hbx1 [Hbx2 [Hbx3 Hbx4]]]] [Hby0 [Hby1 [Hby2 [Hby3 Hby4]]]].
  unfold gej_add_ge_k.
  copy_step.
  sqr_step. copy_step. mul_step. copy_step. mul_step. mul_step. copy_step. add_step. copy_step. add_step. sqr_step. negate_step. mul_step. add_step.
  ntz_step.
  match type of N with _ = (if ?c =? 0 then 1 else 0) => destruct (Z.eqb_spec c 0) as [Dg|Dg] end; subst ret; flag_norm.
  - (* degenerate: M = 0 mod p *)
    copy_step. mul_int_step. add_step. cmov0_step. cmov0_step. sqr_step. negate_step. mul_step. sqr_step. cmov1_step. sqr_step. mul_step. add_step.
    copy_step. mul_int_step. add_step. mul_step. add_step. negate_step. half_step.
    destruct Hinf as [-> | ->].
    + cmov0_step. cmov0_step. cmov0_step. ntz_step.
      cbv beta delta [add_ge_post]. intros X1 Y1 Z1 X2 Y2 U2 S2 T M R deg Ralt Malt NN X3.
      split; [intro E; discriminate E|]. intros _.
      split; [unfold bnd; repeat split; lia|].
      repeat match goal with H : _ <= _ < _ |- _ => clear H | H : _ <= _ <= _ |- _ => clear H end.
      repeat match goal with H : ?a = ?b |- _ => is_var a; is_var b; subst a end.
      destruct (add_ge_head _ _ _ _ _ _ _ _ _ _ _ _ _ _ _ C C0 C1 C2 V V0 C3 V1 C4 V2) as [HT [HM [HR HMa]]].
      assert (Hdeg : deg = true) by (unfold deg; apply Z.eqb_eq; rewrite <- Dg; symmetry; exact (cong_mod _ _ HM)).
      assert (HN0 : cong (val5 s5 s6 s7 s8 s9) 0) by (apply cong_of_mod; rewrite Z.sub_0_r; exact Dg).
      assert (HRa : cong (val5 s15 s16 s17 s18 s19) (2 * Y1)) by (rewrite V3; apply cong_of_eq; unfold Y1; ring).
      rewrite <- V4 in HMa.
      destruct (add_ge_tail _ _ _ _ _ _ _ _ _ _ _ _ _ _ _ _ _ _ _ _ _ _ HT HRa HMa HN0 C5 V5 C6 C8 C9 V6 V7 V8 C10 V9 V10 V11) as [G1 [G2 G3]].
      unfold X3, NN, Ralt, Malt; rewrite Hdeg.
      split; [exact G1|]. split; [exact G2|]. split; [exact G3|].
      rewrite N. rewrite (cong_mod _ _ G1). reflexivity.
    + cmov1_step. cmov1_step. cmov1_step. ntz_step. inf1_finish.
  - (* the generic case: M <> 0 mod p *)
    copy_step. mul_int_step. add_step. cmov1_step. cmov1_step. sqr_step. negate_step. mul_step. sqr_step. cmov0_step. sqr_step. mul_step. add_step.
    copy_step. mul_int_step. add_step. mul_step. add_step. negate_step. half_step.
    destruct Hinf as [-> | ->].
    + cmov0_step. cmov0_step. cmov0_step. ntz_step.
      cbv beta delta [add_ge_post]. intros X1 Y1 Z1 X2 Y2 U2 S2 T M R deg Ralt Malt NN X3.
      split; [intro E; discriminate E|]. intros _.
      split; [unfold bnd; repeat split; lia|].
      repeat match goal with H : _ <= _ < _ |- _ => clear H | H : _ <= _ <= _ |- _ => clear H end.
      repeat match goal with H : ?a = ?b |- _ => is_var a; is_var b; subst a end.
      destruct (add_ge_head _ _ _ _ _ _ _ _ _ _ _ _ _ _ _ C C0 C1 C2 V V0 C3 V1 C4 V2) as [HT [HM [HR HMa]]].
      assert (Hdeg : deg = false) by (unfold deg; apply Z.eqb_neq; intro E; apply Dg; rewrite <- E; exact (cong_mod _ _ HM)).
      assert (HN4 : cong (val5 r50 r51 r52 r53 r54) (M * M * (M * M))) by (rewrite C7, C5, HM; reflexivity).
      destruct (add_ge_tail _ _ _ _ _ _ _ _ _ _ _ _ _ _ _ _ _ _ _ _ _ _ HT HR HM HN4 C5 V5 C6 C8 C9 V6 V7 V8 C10 V9 V10 V11) as [G1 [G2 G3]].
      unfold X3, NN, Ralt, Malt; rewrite Hdeg.
      split; [exact G1|]. split; [exact G2|]. split; [exact G3|].
      rewrite N. rewrite (cong_mod _ _ G1). reflexivity.
    + cmov1_step. cmov1_step. cmov1_step. ntz_step. inf1_finish.
Qed.
