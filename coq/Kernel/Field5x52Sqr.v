(* Proof ABOUT the generated field squaring (Gen/fe_sqr_inner.v). *)
From Coq Require Import ZArith Lia List.
Require Import Kernel.CSem Gen.fe_mul_inner Gen.fe_sqr_inner Kernel.Field5x52.
Import ListNotations.
Local Open Scope Z_scope.
Ltac Zify.zify_post_hook ::= Z.div_mod_to_equations.

(* definitions of the product atoms are kept out of lia's sight *)
Definition hide (P : Prop) : Prop := P.
Ltac atom x y p := let H := fresh "Hq" in remember (x * y) as p eqn:H; change (hide (p = x * y)) in H.
Ltac fold_doubled a :=
  repeat match goal with
  | Hq : hide (?p = ?x * a) |- context[?x * (a * 2)] =>
      replace (x * (a * 2)) with (2 * p) by (unfold hide in Hq; rewrite Hq; ring)
  | Hq : hide (?p = a * ?y) |- context[a * 2 * ?y] =>
      replace (a * 2 * y) with (2 * p) by (unfold hide in Hq; rewrite Hq; ring)
  end.
Ltac step_sqr M R :=
  first [ let x := fresh "v" in intro x;
          match goal with x := ?a * 2 |- _ => subst x; fold_doubled a end
        | step M R ].

(* weakest-precondition form (the continuation is arbitrary), so that callers translated as calls compose by [apply] *)
Theorem fe_sqr_inner_wp a0 a1 a2 a3 a4 (Q : Z -> Z -> Z -> Z -> Z -> Prop) :
  0 <= a0 < 2^56 -> 0 <= a1 < 2^56 -> 0 <= a2 < 2^56 -> 0 <= a3 < 2^56 -> 0 <= a4 < 2^52 ->
  (forall r0 r1 r2 r3 r4,
    (0 <= r0 < 2^52 /\ 0 <= r1 < 2^52 /\ 0 <= r2 < 2^52 /\ 0 <= r3 < 2^52 /\ 0 <= r4 < 2^49) /\
    (val5 r0 r1 r2 r3 r4 - val5 a0 a1 a2 a3 a4 * val5 a0 a1 a2 a3 a4) mod P256 = 0 -> Q r0 r1 r2 r3 r4) ->
  fe_sqr_inner_k a0 a1 a2 a3 a4 Q.
Proof.
  intros Ha0 Ha1 Ha2 Ha3 Ha4 HQ.
  assert (D0 : u64 (a0 * 2) = a0 * 2) by (unfold u64; apply Z.mod_small; lia).
  assert (D1 : u64 (a1 * 2) = a1 * 2) by (unfold u64; apply Z.mod_small; lia).
  assert (D2 : u64 (a2 * 2) = a2 * 2) by (unfold u64; apply Z.mod_small; lia).
  assert (D3 : u64 (a3 * 2) = a3 * 2) by (unfold u64; apply Z.mod_small; lia).
  assert (D4 : u64 (a4 * 2) = a4 * 2) by (unfold u64; apply Z.mod_small; lia).
  pose proof (mulb a0 a0 (2^56-1) (2^56-1) ltac:(lia) ltac:(lia)) as P00.
  pose proof (mulb a0 a1 (2^56-1) (2^56-1) ltac:(lia) ltac:(lia)) as P01.
  pose proof (mulb a0 a2 (2^56-1) (2^56-1) ltac:(lia) ltac:(lia)) as P02.
  pose proof (mulb a0 a3 (2^56-1) (2^56-1) ltac:(lia) ltac:(lia)) as P03.
  pose proof (mulb a0 a4 (2^56-1) (2^52-1) ltac:(lia) ltac:(lia)) as P04.
  pose proof (mulb a1 a1 (2^56-1) (2^56-1) ltac:(lia) ltac:(lia)) as P11.
  pose proof (mulb a1 a2 (2^56-1) (2^56-1) ltac:(lia) ltac:(lia)) as P12.
  pose proof (mulb a1 a3 (2^56-1) (2^56-1) ltac:(lia) ltac:(lia)) as P13.
  pose proof (mulb a1 a4 (2^56-1) (2^52-1) ltac:(lia) ltac:(lia)) as P14.
  pose proof (mulb a2 a2 (2^56-1) (2^56-1) ltac:(lia) ltac:(lia)) as P22.
  pose proof (mulb a2 a3 (2^56-1) (2^56-1) ltac:(lia) ltac:(lia)) as P23.
  pose proof (mulb a2 a4 (2^56-1) (2^52-1) ltac:(lia) ltac:(lia)) as P24.
  pose proof (mulb a3 a3 (2^56-1) (2^56-1) ltac:(lia) ltac:(lia)) as P33.
  pose proof (mulb a3 a4 (2^56-1) (2^52-1) ltac:(lia) ltac:(lia)) as P34.
  pose proof (mulb a4 a4 (2^52-1) (2^52-1) ltac:(lia) ltac:(lia)) as P44.
  assert (Hprod : val5 a0 a1 a2 a3 a4 * val5 a0 a1 a2 a3 a4 =
     a0*a0 + (2*(a0*a1)) * 2^52 + (2*(a0*a2) + a1*a1) * 2^104
     + (2*(a0*a3) + 2*(a1*a2)) * 2^156
     + (2*(a0*a4) + 2*(a1*a3) + a2*a2) * 2^208
     + (2*(a1*a4) + 2*(a2*a3)) * 2^260
     + (2*(a2*a4) + a3*a3) * 2^312 + (2*(a3*a4)) * 2^364 + a4*a4 * 2^416)
    by (unfold val5; ring).
  rewrite Hprod in HQ; clear Hprod. revert HQ.
  cbv beta delta [fe_sqr_inner_k].
  rewrite ?D0, ?D1, ?D2, ?D3, ?D4. clear D0 D1 D2 D3 D4.
  replace (a0 * 2 * a3) with (2 * (a0 * a3)) by ring.
  replace (a1 * 2 * a2) with (2 * (a1 * a2)) by ring.
  replace (a1 * 2 * a3) with (2 * (a1 * a3)) by ring.
  replace (a2 * 2 * a3) with (2 * (a2 * a3)) by ring.
  clear Ha0 Ha1 Ha2 Ha3 Ha4.
  atom a0 a0 p00. atom a0 a1 p01. atom a0 a2 p02. atom a0 a3 p03. atom a0 a4 p04.
  atom a1 a1 p11. atom a1 a2 p12. atom a1 a3 p13. atom a1 a4 p14.
  atom a2 a2 p22. atom a2 a3 p23. atom a2 a4 p24. atom a3 a3 p33. atom a3 a4 p34. atom a4 a4 p44.
  intro HQ.
  change (u64 (fe_sqr_inner_R * 2^12)) with (fe_sqr_inner_R * 2^12).
  change (fe_sqr_inner_R / 2^4) with 0x1000003D1.
  repeat (step_sqr fe_sqr_inner_M fe_sqr_inner_R).
  apply HQ; clear HQ.
  shifted64_small fe_sqr_inner_R.
  repeat match goal with H : hide _ |- _ => clear H end.
  split.
  { abstract (unfold u64, fe_sqr_inner_R in *; repeat split; try (subst; apply Z.mod_pos_bound; lia); try lia). }
  abstract (
  unfold u64, fe_sqr_inner_R, val5 in *;
  repeat match goal with H : _ = _ |- _ => rewrite Z.mod_eq in H by lia end;
  repeat match goal with Hz : ?q / 2^64 = 0 |- _ => rewrite Hz in *; clear Hz end;
  repeat match goal with
  | H : ?q = ?e / ?k |- _ => rewrite <- H in *; clear H
  end;
  repeat match goal with H : ?v = _ |- _ => is_var v; subst v end;
  apply Z.mod_divide; [unfold P256; lia|];
  ring_simplify;
    repeat first [ apply Z.divide_add_r | apply Z.divide_sub_r ];
    try (apply Z.divide_mul_l; apply Z.mod_divide; [unfold P256; lia | vm_compute; reflexivity]);
    try (apply Z.divide_opp_r; apply Z.divide_mul_l; apply Z.mod_divide; [unfold P256; lia | vm_compute; reflexivity])).
Qed.

Theorem fe_sqr_inner_correct a0 a1 a2 a3 a4 :
  0 <= a0 < 2^56 -> 0 <= a1 < 2^56 -> 0 <= a2 < 2^56 -> 0 <= a3 < 2^56 -> 0 <= a4 < 2^52 ->
  fe_sqr_inner_k a0 a1 a2 a3 a4 (fun r0 r1 r2 r3 r4 =>
  (0 <= r0 < 2^52 /\ 0 <= r1 < 2^52 /\ 0 <= r2 < 2^52 /\ 0 <= r3 < 2^52 /\ 0 <= r4 < 2^49) /\
  (val5 r0 r1 r2 r3 r4 - val5 a0 a1 a2 a3 a4 * val5 a0 a1 a2 a3 a4) mod P256 = 0).
Proof. intros. apply fe_sqr_inner_wp; try assumption. intros r0 r1 r2 r3 r4 H'. exact H'. Qed.

