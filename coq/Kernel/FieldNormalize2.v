(* Proofs ABOUT two more regenerated normalisation routines of the 5x52 field (Gen/fe_impl_normalize_weak.v,
   Gen/fe_impl_normalizes_to_zero.v): for ALL limb values of magnitude up to 32, weak normalisation returns a magnitude-1
   representative of the same residue, and normalizes_to_zero returns 1 exactly when the value is 0 modulo p. *)
From Coq Require Import ZArith Lia List Bool.
Require Import Kernel.CSem Kernel.Field5x52 Kernel.FieldNormalize Gen.fe_impl_normalize_weak Gen.fe_impl_normalizes_to_zero.
Import ListNotations.
Local Open Scope Z_scope.
Ltac Zify.zify_post_hook ::= Z.div_mod_to_equations.

(* the first carry pass, shared by both functions (same script as in FieldNormalize.v) *)
Ltac first_pass r0 r1 r2 r3 r4 :=
  set (x := r4 / 2^48); rewrite (land48 r4) by lia; set (a4 := r4 mod 2^48);
  assert (Hx : 0 <= x < 2^6) by (unfold x; lia);
  assert (E0 : u64 (x * 4294968273) = x * 4294968273) by (unfold u64; apply Z.mod_small; lia); rewrite E0;
  assert (E1 : u64 (r0 + x * 4294968273) = r0 + x * 4294968273) by (unfold u64; apply Z.mod_small; lia); rewrite E1;
  set (s0 := r0 + x * 4294968273); assert (Hs0 : 0 <= s0 < 2^59) by (unfold s0; lia);
  assert (E2 : u64 (r1 + s0 / 2^52) = r1 + s0 / 2^52) by (unfold u64; apply Z.mod_small; lia); rewrite E2;
  set (s1 := r1 + s0 / 2^52); assert (Hs1 : 0 <= s1 < 2^59) by (unfold s1; lia);
  rewrite (land52 s0) by lia; set (t0 := s0 mod 2^52);
  assert (E3 : u64 (r2 + s1 / 2^52) = r2 + s1 / 2^52) by (unfold u64; apply Z.mod_small; lia); rewrite E3;
  set (s2 := r2 + s1 / 2^52); assert (Hs2 : 0 <= s2 < 2^59) by (unfold s2; lia);
  rewrite (land52 s1) by lia; set (t1 := s1 mod 2^52);
  assert (E4 : u64 (r3 + s2 / 2^52) = r3 + s2 / 2^52) by (unfold u64; apply Z.mod_small; lia); rewrite E4;
  set (s3 := r3 + s2 / 2^52); assert (Hs3 : 0 <= s3 < 2^59) by (unfold s3; lia);
  rewrite (land52 s2) by lia; set (t2 := s2 mod 2^52);
  assert (E5 : u64 (a4 + s3 / 2^52) = a4 + s3 / 2^52) by (unfold u64, a4; apply Z.mod_small; lia); rewrite E5;
  set (s4 := a4 + s3 / 2^52); assert (Hs4 : 0 <= s4 < 2^48 + 2^7) by (unfold s4, a4; lia);
  rewrite (land52 s3) by lia; set (t3 := s3 mod 2^52);
  assert (Ht0 : 0 <= t0 < 2^52) by (unfold t0; lia); assert (Ht1 : 0 <= t1 < 2^52) by (unfold t1; lia);
  assert (Ht2 : 0 <= t2 < 2^52) by (unfold t2; lia); assert (Ht3 : 0 <= t3 < 2^52) by (unfold t3; lia);
  assert (V1 : val5 t0 t1 t2 t3 s4 = val5 r0 r1 r2 r3 r4 - x * P256)
    by (unfold val5, P256, t0, t1, t2, t3, s4, s3, s2, s1, s0, a4, x; lia).

Theorem fe_normalize_weak_correct r0 r1 r2 r3 r4 :
  0 <= r0 < 2^58 -> 0 <= r1 < 2^58 -> 0 <= r2 < 2^58 -> 0 <= r3 < 2^58 -> 0 <= r4 < 2^54 ->
  fe_impl_normalize_weak_k r0 r1 r2 r3 r4 (fun t0 t1 t2 t3 t4 =>
    0 <= t0 < 2^52 /\ 0 <= t1 < 2^52 /\ 0 <= t2 < 2^52 /\ 0 <= t3 < 2^52 /\ 0 <= t4 < 2^48 + 2^7 /\
    (val5 t0 t1 t2 t3 t4 - val5 r0 r1 r2 r3 r4) mod P256 = 0).
Proof.
  intros H0 H1 H2 H3 H4. cbv beta delta [fe_impl_normalize_weak_k]. cbv zeta.
  first_pass r0 r1 r2 r3 r4.
  repeat (split; [assumption|]). rewrite V1.
  replace (val5 r0 r1 r2 r3 r4 - x * P256 - val5 r0 r1 r2 r3 r4) with ((- x) * P256) by ring.
  apply Z.mod_mul. unfold P256. lia.
Qed.

Lemma lxor_ones_iff x c : 0 <= x -> 0 <= c -> (Z.lxor x c = 4503599627370495 <-> x = Z.lxor 4503599627370495 c).
Proof.
  intros Hx Hc. split; intros E.
  - rewrite <- E. rewrite Z.lxor_assoc, Z.lxor_nilpotent, Z.lxor_0_r. reflexivity.
  - rewrite E. rewrite Z.lxor_assoc, Z.lxor_nilpotent, Z.lxor_0_r. reflexivity.
Qed.
Lemma lxor_range52 x c : 0 <= x < 2^52 -> 0 <= c < 2^52 -> 0 <= Z.lxor x c < 2^52.
Proof.
  intros Hx Hc. split; [apply Z.lxor_nonneg; lia|].
  destruct (Z.eq_dec (Z.lxor x c) 0) as [->|Hn]; [lia|].
  apply Z.log2_lt_pow2; [pose proof (Z.lxor_nonneg x c); lia|].
  assert (Z.log2 (Z.lxor x c) <= Z.max (Z.log2 x) (Z.log2 c)) by (apply Z.log2_lxor; lia).
  assert (Z.log2 x < 52) by (destruct (Z.eq_dec x 0) as [->|]; [simpl; lia|apply Z.log2_lt_pow2; lia]).
  assert (Z.log2 c < 52) by (destruct (Z.eq_dec c 0) as [->|]; [simpl; lia|apply Z.log2_lt_pow2; lia]).
  lia.
Qed.

Theorem fe_normalizes_to_zero_correct r0 r1 r2 r3 r4 :
  0 <= r0 < 2^58 -> 0 <= r1 < 2^58 -> 0 <= r2 < 2^58 -> 0 <= r3 < 2^58 -> 0 <= r4 < 2^54 ->
  fe_impl_normalizes_to_zero r0 r1 r2 r3 r4 = if (val5 r0 r1 r2 r3 r4) mod P256 =? 0 then 1 else 0.
Proof.
  intros H0 H1 H2 H3 H4. unfold fe_impl_normalizes_to_zero. cbv beta delta [fe_impl_normalizes_to_zero_k]. cbv zeta.
  first_pass r0 r1 r2 r3 r4.
  set (V := val5 r0 r1 r2 r3 r4) in *. set (V' := val5 t0 t1 t2 t3 s4) in *.
  assert (HV' : 0 <= V' < 2 * P256) by (unfold V', val5, P256; lia).
  (* z0 = 0 iff the first-pass value is 0 *)
  assert (Z0 : (Z.lor (Z.lor (Z.lor (Z.lor t0 t1) t2) t3) s4 =? 0) = (V' =? 0)).
  { destruct (Z.eqb_spec V' 0) as [E|E].
    - assert (t0 = 0 /\ t1 = 0 /\ t2 = 0 /\ t3 = 0 /\ s4 = 0) as [-> [-> [-> [-> ->]]]] by (unfold V', val5 in E; lia). reflexivity.
    - apply Z.eqb_neq. intro Ez. apply E. apply Z.lor_eq_0_iff in Ez as [Ez ->]. apply Z.lor_eq_0_iff in Ez as [Ez ->].
      apply Z.lor_eq_0_iff in Ez as [Ez ->]. apply Z.lor_eq_0_iff in Ez as [-> ->]. reflexivity. }
  (* z1 = all ones iff the first-pass value is p *)
  assert (Z1 : (Z.land (Z.land (Z.land (Z.land (Z.lxor t0 4294968272) t1) t2) t3) (Z.lxor s4 4222124650659840) =? 4503599627370495) = (V' =? P256)).
  { assert (R0 : 0 <= Z.lxor t0 4294968272 < 2^52) by (apply lxor_range52; lia).
    assert (R4 : 0 <= Z.lxor s4 4222124650659840 < 2^52) by (apply lxor_range52; lia).
    assert (R01 : 0 <= Z.land (Z.lxor t0 4294968272) t1 < 2^52) by (apply land_range; assumption).
    assert (R012 : 0 <= Z.land (Z.land (Z.lxor t0 4294968272) t1) t2 < 2^52) by (apply land_range; assumption).
    assert (R0123 : 0 <= Z.land (Z.land (Z.land (Z.lxor t0 4294968272) t1) t2) t3 < 2^52) by (apply land_range; assumption).
    destruct (Z.eqb_spec V' P256) as [E|E].
    - assert (t0 = 4503595332402223 /\ t1 = 4503599627370495 /\ t2 = 4503599627370495 /\ t3 = 4503599627370495 /\ s4 = 281474976710655)
        as [-> [-> [-> [-> ->]]]] by (unfold V', val5, P256 in E; lia). reflexivity.
    - apply Z.eqb_neq. intro Ez. apply E.
      apply land_all_ones in Ez as [Ez E4']; [|assumption|assumption].
      apply land_all_ones in Ez as [Ez E3']; [|assumption|assumption].
      apply land_all_ones in Ez as [Ez E2']; [|assumption|assumption].
      apply land_all_ones in Ez as [E0' E1']; [|assumption|assumption].
      apply lxor_ones_iff in E0'; [|lia|lia]. apply lxor_ones_iff in E4'; [|lia|lia].
      change (Z.lxor 4503599627370495 4294968272) with 4503595332402223 in E0'.
      change (Z.lxor 4503599627370495 4222124650659840) with 281474976710655 in E4'.
      unfold V', val5, P256. rewrite E0', E1', E2', E3', E4'. reflexivity. }
  rewrite Z0, Z1.
  (* V mod p = 0 iff V' is 0 or p *)
  assert (Hmod : (V mod P256 =? 0) = (V' =? 0) || (V' =? P256)).
  { assert (EV : V = V' + x * P256) by lia.
    destruct (Z.eqb_spec V' 0) as [E|E]; [rewrite EV, E; simpl; rewrite Z.mod_mul by (unfold P256; lia); reflexivity|].
    destruct (Z.eqb_spec V' P256) as [E'|E'].
    - rewrite EV, E'. replace (P256 + x * P256) with ((1 + x) * P256) by ring. rewrite Z.mod_mul by (unfold P256; lia). reflexivity.
    - cbn [orb]. apply Z.eqb_neq. rewrite EV. rewrite Z.mod_add by (unfold P256; lia). unfold P256 in *. lia. }
  rewrite Hmod. destruct (V' =? 0), (V' =? P256); reflexivity.
Qed.
