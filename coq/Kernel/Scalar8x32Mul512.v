(* Proofs ABOUT the generated 32-bit-limb scalar multiplication and squaring (Gen/scalar8x32_mul_512.v,
   Gen/scalar8x32_sqr_512.v: src/scalar_8x32_impl.h translated with USE_FORCE_WIDEMUL_INT64, the code 32-bit targets
   compile): for ALL limb values the sixteen output limbs are the exact 512-bit product / square. *)
From Coq Require Import ZArith Lia List Bool.
Require Import Kernel.CSem Kernel.Bind Kernel.Carry32 Kernel.Scalar8x32Check Gen.scalar8x32_mul_512 Gen.scalar8x32_sqr_512.
Import ListNotations.
Local Open Scope Z_scope.
Ltac Zify.zify_post_hook ::= Z.div_mod_to_equations.

Lemma mulb32 a b : 0 <= a < 2^32 -> 0 <= b < 2^32 -> 0 <= a * b <= (2^32 - 1) * (2^32 - 1).
Proof. intros. split; [apply Z.mul_nonneg_nonneg; lia|apply Z.mul_le_mono_nonneg; lia]. Qed.
Ltac gen_prod a b :=
  let H := fresh "PB" in pose proof (mulb32 a b ltac:(assumption) ltac:(assumption)) as H; generalize dependent (a * b); intros ? ?.

Ltac subst_vars := repeat match goal with H : ?x = ?y |- _ => is_var x; first [is_var y | constr_eq y 0]; subst x end.
Ltac ranges := repeat match goal with |- (_ <= _ < _) /\ _ => split; [first [assumption | lia]|] end; first [assumption | lia].

Theorem scalar8x32_mul_512_wp a0 a1 a2 a3 a4 a5 a6 a7 b0 b1 b2 b3 b4 b5 b6 b7 :
  0 <= a0 < 2^32 -> 0 <= a1 < 2^32 -> 0 <= a2 < 2^32 -> 0 <= a3 < 2^32 -> 0 <= a4 < 2^32 -> 0 <= a5 < 2^32 -> 0 <= a6 < 2^32 -> 0 <= a7 < 2^32 ->
  0 <= b0 < 2^32 -> 0 <= b1 < 2^32 -> 0 <= b2 < 2^32 -> 0 <= b3 < 2^32 -> 0 <= b4 < 2^32 -> 0 <= b5 < 2^32 -> 0 <= b6 < 2^32 -> 0 <= b7 < 2^32 ->
  forall Q : Z -> Z -> Z -> Z -> Z -> Z -> Z -> Z -> Z -> Z -> Z -> Z -> Z -> Z -> Z -> Z -> Prop,
  (forall l0 l1 l2 l3 l4 l5 l6 l7 l8 l9 l10 l11 l12 l13 l14 l15,
    (0 <= l0 < 2^32 /\ 0 <= l1 < 2^32 /\ 0 <= l2 < 2^32 /\ 0 <= l3 < 2^32 /\ 0 <= l4 < 2^32 /\ 0 <= l5 < 2^32 /\ 0 <= l6 < 2^32 /\ 0 <= l7 < 2^32 /\ 0 <= l8 < 2^32 /\ 0 <= l9 < 2^32 /\ 0 <= l10 < 2^32 /\ 0 <= l11 < 2^32 /\ 0 <= l12 < 2^32 /\ 0 <= l13 < 2^32 /\ 0 <= l14 < 2^32 /\ 0 <= l15 < 2^32) /\
    val16w l0 l1 l2 l3 l4 l5 l6 l7 l8 l9 l10 l11 l12 l13 l14 l15 = val8w a0 a1 a2 a3 a4 a5 a6 a7 * val8w b0 b1 b2 b3 b4 b5 b6 b7 -> Q l0 l1 l2 l3 l4 l5 l6 l7 l8 l9 l10 l11 l12 l13 l14 l15) ->
  scalar8x32_mul_512_k a0 a1 a2 a3 a4 a5 a6 a7 b0 b1 b2 b3 b4 b5 b6 b7 Q.
Proof.
  intros Ha0 Ha1 Ha2 Ha3 Ha4 Ha5 Ha6 Ha7 Hb0 Hb1 Hb2 Hb3 Hb4 Hb5 Hb6 Hb7 Q HQ.
  assert (Hprod : val8w a0 a1 a2 a3 a4 a5 a6 a7 * val8w b0 b1 b2 b3 b4 b5 b6 b7 =
    (a0*b0)
    + (a0*b1 + a1*b0) * 2^32
    + (a0*b2 + a1*b1 + a2*b0) * 2^64
    + (a0*b3 + a1*b2 + a2*b1 + a3*b0) * 2^96
    + (a0*b4 + a1*b3 + a2*b2 + a3*b1 + a4*b0) * 2^128
    + (a0*b5 + a1*b4 + a2*b3 + a3*b2 + a4*b1 + a5*b0) * 2^160
    + (a0*b6 + a1*b5 + a2*b4 + a3*b3 + a4*b2 + a5*b1 + a6*b0) * 2^192
    + (a0*b7 + a1*b6 + a2*b5 + a3*b4 + a4*b3 + a5*b2 + a6*b1 + a7*b0) * 2^224
    + (a1*b7 + a2*b6 + a3*b5 + a4*b4 + a5*b3 + a6*b2 + a7*b1) * 2^256
    + (a2*b7 + a3*b6 + a4*b5 + a5*b4 + a6*b3 + a7*b2) * 2^288
    + (a3*b7 + a4*b6 + a5*b5 + a6*b4 + a7*b3) * 2^320
    + (a4*b7 + a5*b6 + a6*b5 + a7*b4) * 2^352
    + (a5*b7 + a6*b6 + a7*b5) * 2^384
    + (a6*b7 + a7*b6) * 2^416
    + (a7*b7) * 2^448) by (unfold val8w; ring).
  rewrite Hprod in HQ. clear Hprod. revert HQ.
  unfold scalar8x32_mul_512_k.
  gen_prod a0 b0. gen_prod a0 b1. gen_prod a0 b2. gen_prod a0 b3. gen_prod a0 b4. gen_prod a0 b5. gen_prod a0 b6. gen_prod a0 b7. gen_prod a1 b0. gen_prod a1 b1. gen_prod a1 b2. gen_prod a1 b3. gen_prod a1 b4. gen_prod a1 b5. gen_prod a1 b6. gen_prod a1 b7. gen_prod a2 b0. gen_prod a2 b1. gen_prod a2 b2. gen_prod a2 b3. gen_prod a2 b4. gen_prod a2 b5. gen_prod a2 b6. gen_prod a2 b7. gen_prod a3 b0. gen_prod a3 b1. gen_prod a3 b2. gen_prod a3 b3. gen_prod a3 b4. gen_prod a3 b5. gen_prod a3 b6. gen_prod a3 b7. gen_prod a4 b0. gen_prod a4 b1. gen_prod a4 b2. gen_prod a4 b3. gen_prod a4 b4. gen_prod a4 b5. gen_prod a4 b6. gen_prod a4 b7. gen_prod a5 b0. gen_prod a5 b1. gen_prod a5 b2. gen_prod a5 b3. gen_prod a5 b4. gen_prod a5 b5. gen_prod a5 b6. gen_prod a5 b7. gen_prod a6 b0. gen_prod a6 b1. gen_prod a6 b2. gen_prod a6 b3. gen_prod a6 b4. gen_prod a6 b5. gen_prod a6 b6. gen_prod a6 b7. gen_prod a7 b0. gen_prod a7 b1. gen_prod a7 b2. gen_prod a7 b3. gen_prod a7 b4. gen_prod a7 b5. gen_prod a7 b6. gen_prod a7 b7.
  clear Ha0 Ha1 Ha2 Ha3 Ha4 Ha5 Ha6 Ha7 Hb0 Hb1 Hb2 Hb3 Hb4 Hb5 Hb6 Hb7.
  intro HQ. hide HQ.
  repeat first [ muladd32_step | muladd_fast32_step | keep_step ].
  cbv beta. unhide HQ. apply HQ. clear HQ. unfold val16w. subst_vars. split; [ranges|]. lia.
Qed.

Theorem scalar8x32_sqr_512_wp a0 a1 a2 a3 a4 a5 a6 a7 :
  0 <= a0 < 2^32 -> 0 <= a1 < 2^32 -> 0 <= a2 < 2^32 -> 0 <= a3 < 2^32 -> 0 <= a4 < 2^32 -> 0 <= a5 < 2^32 -> 0 <= a6 < 2^32 -> 0 <= a7 < 2^32 ->
  forall Q : Z -> Z -> Z -> Z -> Z -> Z -> Z -> Z -> Z -> Z -> Z -> Z -> Z -> Z -> Z -> Z -> Prop,
  (forall l0 l1 l2 l3 l4 l5 l6 l7 l8 l9 l10 l11 l12 l13 l14 l15,
    (0 <= l0 < 2^32 /\ 0 <= l1 < 2^32 /\ 0 <= l2 < 2^32 /\ 0 <= l3 < 2^32 /\ 0 <= l4 < 2^32 /\ 0 <= l5 < 2^32 /\ 0 <= l6 < 2^32 /\ 0 <= l7 < 2^32 /\ 0 <= l8 < 2^32 /\ 0 <= l9 < 2^32 /\ 0 <= l10 < 2^32 /\ 0 <= l11 < 2^32 /\ 0 <= l12 < 2^32 /\ 0 <= l13 < 2^32 /\ 0 <= l14 < 2^32 /\ 0 <= l15 < 2^32) /\
    val16w l0 l1 l2 l3 l4 l5 l6 l7 l8 l9 l10 l11 l12 l13 l14 l15 = val8w a0 a1 a2 a3 a4 a5 a6 a7 * val8w a0 a1 a2 a3 a4 a5 a6 a7 -> Q l0 l1 l2 l3 l4 l5 l6 l7 l8 l9 l10 l11 l12 l13 l14 l15) ->
  scalar8x32_sqr_512_k a0 a1 a2 a3 a4 a5 a6 a7 Q.
Proof.
  intros Ha0 Ha1 Ha2 Ha3 Ha4 Ha5 Ha6 Ha7 Q HQ.
  assert (Hprod : val8w a0 a1 a2 a3 a4 a5 a6 a7 * val8w a0 a1 a2 a3 a4 a5 a6 a7 =
    (a0*a0)
    + (2*(a0*a1)) * 2^32
    + (2*(a0*a2) + a1*a1) * 2^64
    + (2*(a0*a3) + 2*(a1*a2)) * 2^96
    + (2*(a0*a4) + 2*(a1*a3) + a2*a2) * 2^128
    + (2*(a0*a5) + 2*(a1*a4) + 2*(a2*a3)) * 2^160
    + (2*(a0*a6) + 2*(a1*a5) + 2*(a2*a4) + a3*a3) * 2^192
    + (2*(a0*a7) + 2*(a1*a6) + 2*(a2*a5) + 2*(a3*a4)) * 2^224
    + (2*(a1*a7) + 2*(a2*a6) + 2*(a3*a5) + a4*a4) * 2^256
    + (2*(a2*a7) + 2*(a3*a6) + 2*(a4*a5)) * 2^288
    + (2*(a3*a7) + 2*(a4*a6) + a5*a5) * 2^320
    + (2*(a4*a7) + 2*(a5*a6)) * 2^352
    + (2*(a5*a7) + a6*a6) * 2^384
    + (2*(a6*a7)) * 2^416
    + (a7*a7) * 2^448) by (unfold val8w; ring).
  rewrite Hprod in HQ. clear Hprod. revert HQ.
  unfold scalar8x32_sqr_512_k.
  gen_prod a0 a0. gen_prod a0 a1. gen_prod a0 a2. gen_prod a0 a3. gen_prod a0 a4. gen_prod a0 a5. gen_prod a0 a6. gen_prod a0 a7. gen_prod a1 a1. gen_prod a1 a2. gen_prod a1 a3. gen_prod a1 a4. gen_prod a1 a5. gen_prod a1 a6. gen_prod a1 a7. gen_prod a2 a2. gen_prod a2 a3. gen_prod a2 a4. gen_prod a2 a5. gen_prod a2 a6. gen_prod a2 a7. gen_prod a3 a3. gen_prod a3 a4. gen_prod a3 a5. gen_prod a3 a6. gen_prod a3 a7. gen_prod a4 a4. gen_prod a4 a5. gen_prod a4 a6. gen_prod a4 a7. gen_prod a5 a5. gen_prod a5 a6. gen_prod a5 a7. gen_prod a6 a6. gen_prod a6 a7. gen_prod a7 a7.
  clear Ha0 Ha1 Ha2 Ha3 Ha4 Ha5 Ha6 Ha7.
  intro HQ. hide HQ.
  repeat first [ muladd2_32_step | muladd32_step | muladd_fast32_step | keep_step ].
  cbv beta. unhide HQ. apply HQ. clear HQ. unfold val16w. subst_vars. split; [ranges|]. lia.
Qed.

Theorem scalar8x32_mul_512_correct a0 a1 a2 a3 a4 a5 a6 a7 b0 b1 b2 b3 b4 b5 b6 b7 :
  0 <= a0 < 2^32 -> 0 <= a1 < 2^32 -> 0 <= a2 < 2^32 -> 0 <= a3 < 2^32 -> 0 <= a4 < 2^32 -> 0 <= a5 < 2^32 -> 0 <= a6 < 2^32 -> 0 <= a7 < 2^32 ->
  0 <= b0 < 2^32 -> 0 <= b1 < 2^32 -> 0 <= b2 < 2^32 -> 0 <= b3 < 2^32 -> 0 <= b4 < 2^32 -> 0 <= b5 < 2^32 -> 0 <= b6 < 2^32 -> 0 <= b7 < 2^32 ->
  scalar8x32_mul_512_k a0 a1 a2 a3 a4 a5 a6 a7 b0 b1 b2 b3 b4 b5 b6 b7 (fun l0 l1 l2 l3 l4 l5 l6 l7 l8 l9 l10 l11 l12 l13 l14 l15 =>
    (0 <= l0 < 2^32 /\ 0 <= l1 < 2^32 /\ 0 <= l2 < 2^32 /\ 0 <= l3 < 2^32 /\ 0 <= l4 < 2^32 /\ 0 <= l5 < 2^32 /\ 0 <= l6 < 2^32 /\ 0 <= l7 < 2^32 /\ 0 <= l8 < 2^32 /\ 0 <= l9 < 2^32 /\ 0 <= l10 < 2^32 /\ 0 <= l11 < 2^32 /\ 0 <= l12 < 2^32 /\ 0 <= l13 < 2^32 /\ 0 <= l14 < 2^32 /\ 0 <= l15 < 2^32) /\
    val16w l0 l1 l2 l3 l4 l5 l6 l7 l8 l9 l10 l11 l12 l13 l14 l15 = val8w a0 a1 a2 a3 a4 a5 a6 a7 * val8w b0 b1 b2 b3 b4 b5 b6 b7).
Proof.
  intros. apply scalar8x32_mul_512_wp; try assumption. intros l0 l1 l2 l3 l4 l5 l6 l7 l8 l9 l10 l11 l12 l13 l14 l15 HP. exact HP.
Qed.

Theorem scalar8x32_sqr_512_correct a0 a1 a2 a3 a4 a5 a6 a7 :
  0 <= a0 < 2^32 -> 0 <= a1 < 2^32 -> 0 <= a2 < 2^32 -> 0 <= a3 < 2^32 -> 0 <= a4 < 2^32 -> 0 <= a5 < 2^32 -> 0 <= a6 < 2^32 -> 0 <= a7 < 2^32 ->
  scalar8x32_sqr_512_k a0 a1 a2 a3 a4 a5 a6 a7 (fun l0 l1 l2 l3 l4 l5 l6 l7 l8 l9 l10 l11 l12 l13 l14 l15 =>
    (0 <= l0 < 2^32 /\ 0 <= l1 < 2^32 /\ 0 <= l2 < 2^32 /\ 0 <= l3 < 2^32 /\ 0 <= l4 < 2^32 /\ 0 <= l5 < 2^32 /\ 0 <= l6 < 2^32 /\ 0 <= l7 < 2^32 /\ 0 <= l8 < 2^32 /\ 0 <= l9 < 2^32 /\ 0 <= l10 < 2^32 /\ 0 <= l11 < 2^32 /\ 0 <= l12 < 2^32 /\ 0 <= l13 < 2^32 /\ 0 <= l14 < 2^32 /\ 0 <= l15 < 2^32) /\
    val16w l0 l1 l2 l3 l4 l5 l6 l7 l8 l9 l10 l11 l12 l13 l14 l15 = val8w a0 a1 a2 a3 a4 a5 a6 a7 * val8w a0 a1 a2 a3 a4 a5 a6 a7).
Proof.
  intros. apply scalar8x32_sqr_512_wp; try assumption. intros l0 l1 l2 l3 l4 l5 l6 l7 l8 l9 l10 l11 l12 l13 l14 l15 HP. exact HP.
Qed.
