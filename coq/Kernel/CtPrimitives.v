(* Proofs ABOUT the generated branch-free selection primitives (Gen/*_cmov.v, regenerated from the C
   source on every run): for all operands, the masked selection returns exactly one of its inputs. *)
From Coq Require Import ZArith Lia List Bool.
Require Import Kernel.CSem Gen.scalar_cmov Gen.fe_impl_cmov Gen.fe_storage_cmov Gen.int_cmov Gen.scalar_is_zero.
Import ListNotations.
Local Open Scope Z_scope.

Lemma land_all64 x : 0 <= x < 2^64 -> Z.land x 18446744073709551615 = x.
Proof. intros H. change 18446744073709551615 with (Z.ones 64). rewrite Z.land_ones by lia. apply Z.mod_small. lia. Qed.
Lemma land_all32 x : 0 <= x < 2^32 -> Z.land x 4294967295 = x.
Proof. intros H. change 4294967295 with (Z.ones 32). rewrite Z.land_ones by lia. apply Z.mod_small. lia. Qed.

Ltac sel64 := rewrite ?land_all64, ?Z.land_0_r, ?Z.lor_0_r, ?Z.lor_0_l by lia.

Theorem scalar_cmov_correct r0 r1 r2 r3 a0 a1 a2 a3 flag :
  0 <= r0 < 2^64 -> 0 <= r1 < 2^64 -> 0 <= r2 < 2^64 -> 0 <= r3 < 2^64 ->
  0 <= a0 < 2^64 -> 0 <= a1 < 2^64 -> 0 <= a2 < 2^64 -> 0 <= a3 < 2^64 -> (flag = 0 \/ flag = 1) ->
  scalar_cmov r0 r1 r2 r3 a0 a1 a2 a3 flag = if flag =? 1 then [a0; a1; a2; a3] else [r0; r1; r2; r3].
Proof.
  intros. unfold scalar_cmov, scalar_cmov_k. destruct H7 as [-> | ->]; cbv [u64 Z.eqb]; simpl Z.modulo.
  - change ((0 + (18446744073709551615 - 0)) mod 2 ^ 64) with 18446744073709551615.
    change (18446744073709551615 - 18446744073709551615) with 0. sel64. reflexivity.
  - change ((1 mod 2^64 + (18446744073709551615 - 0)) mod 2 ^ 64) with 0.
    change (18446744073709551615 - 0) with 18446744073709551615. sel64. reflexivity.
Qed.

Theorem fe_cmov_correct r0 r1 r2 r3 r4 a0 a1 a2 a3 a4 flag :
  0 <= r0 < 2^64 -> 0 <= r1 < 2^64 -> 0 <= r2 < 2^64 -> 0 <= r3 < 2^64 -> 0 <= r4 < 2^64 ->
  0 <= a0 < 2^64 -> 0 <= a1 < 2^64 -> 0 <= a2 < 2^64 -> 0 <= a3 < 2^64 -> 0 <= a4 < 2^64 -> (flag = 0 \/ flag = 1) ->
  fe_impl_cmov r0 r1 r2 r3 r4 a0 a1 a2 a3 a4 flag = if flag =? 1 then [a0; a1; a2; a3; a4] else [r0; r1; r2; r3; r4].
Proof.
  intros. unfold fe_impl_cmov, fe_impl_cmov_k. destruct H9 as [-> | ->]; cbv [u64 Z.eqb]; simpl Z.modulo.
  - change ((0 + (18446744073709551615 - 0)) mod 2 ^ 64) with 18446744073709551615.
    change (18446744073709551615 - 18446744073709551615) with 0. sel64. reflexivity.
  - change ((1 mod 2^64 + (18446744073709551615 - 0)) mod 2 ^ 64) with 0.
    change (18446744073709551615 - 0) with 18446744073709551615. sel64. reflexivity.
Qed.

Theorem fe_storage_cmov_correct r0 r1 r2 r3 a0 a1 a2 a3 flag :
  0 <= r0 < 2^64 -> 0 <= r1 < 2^64 -> 0 <= r2 < 2^64 -> 0 <= r3 < 2^64 ->
  0 <= a0 < 2^64 -> 0 <= a1 < 2^64 -> 0 <= a2 < 2^64 -> 0 <= a3 < 2^64 -> (flag = 0 \/ flag = 1) ->
  fe_storage_cmov r0 r1 r2 r3 a0 a1 a2 a3 flag = if flag =? 1 then [a0; a1; a2; a3] else [r0; r1; r2; r3].
Proof.
  intros. unfold fe_storage_cmov, fe_storage_cmov_k. destruct H7 as [-> | ->]; cbv [u64 Z.eqb]; simpl Z.modulo.
  - change ((0 + (18446744073709551615 - 0)) mod 2 ^ 64) with 18446744073709551615.
    change (18446744073709551615 - 18446744073709551615) with 0. sel64. reflexivity.
  - change ((1 mod 2^64 + (18446744073709551615 - 0)) mod 2 ^ 64) with 0.
    change (18446744073709551615 - 0) with 18446744073709551615. sel64. reflexivity.
Qed.

Theorem scalar_is_zero_correct d0 d1 d2 d3 :
  0 <= d0 -> 0 <= d1 -> 0 <= d2 -> 0 <= d3 ->
  scalar_is_zero d0 d1 d2 d3 = if (d0 =? 0) && (d1 =? 0) && (d2 =? 0) && (d3 =? 0) then 1 else 0.
Proof.
  intros. unfold scalar_is_zero, scalar_is_zero_k.
  assert (L : forall x y, 0 <= x -> 0 <= y -> (Z.lor x y =? 0) = (x =? 0) && (y =? 0)).
  { intros x y Hx Hy. destruct (Z.eqb_spec (Z.lor x y) 0) as [E|E].
    - apply Z.lor_eq_0_iff in E. destruct E; subst. reflexivity.
    - destruct (Z.eqb_spec x 0), (Z.eqb_spec y 0); subst; try reflexivity. exfalso. apply E. reflexivity. }
  assert (N1 : 0 <= Z.lor d0 d1) by (apply Z.lor_nonneg; lia).
  assert (N2 : 0 <= Z.lor (Z.lor d0 d1) d2) by (apply Z.lor_nonneg; lia).
  rewrite !L by assumption. destruct ((d0 =? 0) && (d1 =? 0) && (d2 =? 0) && (d3 =? 0)); reflexivity.
Qed.
