(* Carry-chain lemmas for the 32-bit-limb scalar code (src/scalar_8x32_impl.h: muladd, muladd_fast, muladd2, sumadd,
   sumadd_fast on a 96-bit accumulator (c0,c1,c2) of uint32_t), in the equational form used with Kernel/Bind.v, and
   the stepping tactics.  Every lemma says: the macro adds exactly its operand to the accumulator value, given
   that the third word is small enough not to wrap. *)
From Coq Require Import ZArith Lia List Bool.
Require Import Kernel.CSem Kernel.Bind.
Local Open Scope Z_scope.
Ltac Zify.zify_post_hook ::= Z.div_mod_to_equations.

Lemma carry32 x y : 0 <= x < 2^32 -> 0 <= y < 2^32 -> b2z ((x + y) mod 2^32 <? y) = (x + y) / 2^32.
Proof. intros Hx Hy. destruct (Z.ltb_spec ((x + y) mod 2^32) y); cbn [b2z]; lia. Qed.

Lemma muladd32_eq c0 c1 c2 p t th tl n0 th2 n1 n2 :
  t = u64 p -> th = u32 (t / 2^32) -> tl = u32 t -> n0 = u32 (c0 + tl) -> th2 = u32 (th + u32 (b2z (n0 <? tl))) ->
  n1 = u32 (c1 + th2) -> n2 = u32 (c2 + u32 (b2z (n1 <? th2))) ->
  0 <= c0 < 2^32 -> 0 <= c1 < 2^32 -> 0 <= c2 < 2^31 -> 0 <= p <= (2^32 - 1) * (2^32 - 1) ->
  n0 + n1 * 2^32 + n2 * 2^64 = c0 + c1 * 2^32 + c2 * 2^64 + p /\ 0 <= n0 < 2^32 /\ 0 <= n1 < 2^32 /\ c2 <= n2 <= c2 + 1.
Proof.
  intros -> -> -> -> -> -> -> H0 H1 H2 Hp. unfold u64, u32. rewrite (Z.mod_small p (2^64)) by lia.
  assert (Hth : 0 <= p / 2^32 <= 2^32 - 2) by lia. rewrite (Z.mod_small (p / 2^32)) by lia.
  set (tl := p mod 2^32). assert (Htl : 0 <= tl < 2^32) by (unfold tl; lia).
  rewrite (carry32 c0 tl) by lia.
  set (k0 := (c0 + tl) / 2^32). assert (Hk0 : 0 <= k0 <= 1) by (unfold k0; lia).
  rewrite (Z.mod_small k0) by lia. rewrite (Z.mod_small (p / 2^32 + k0)) by lia.
  set (th2 := p / 2^32 + k0). assert (Hth2 : 0 <= th2 < 2^32) by (unfold th2; lia).
  rewrite (carry32 c1 th2) by lia.
  set (k1 := (c1 + th2) / 2^32). assert (Hk1 : 0 <= k1 <= 1) by (unfold k1; lia).
  rewrite (Z.mod_small k1) by lia. rewrite (Z.mod_small (c2 + k1)) by lia.
  unfold k1, th2, k0, tl. lia.
Qed.

Lemma muladd_fast32_eq c0 c1 p t th tl n0 th2 n1 :
  t = u64 p -> th = u32 (t / 2^32) -> tl = u32 t -> n0 = u32 (c0 + tl) -> th2 = u32 (th + u32 (b2z (n0 <? tl))) -> n1 = u32 (c1 + th2) ->
  0 <= c0 < 2^32 -> 0 <= c1 -> 0 <= p <= (2^32 - 1) * (2^32 - 1) -> c0 + c1 * 2^32 + p < 2^64 ->
  n0 + n1 * 2^32 = c0 + c1 * 2^32 + p /\ 0 <= n0 < 2^32 /\ (0 <= n1 < 2^32 /\ n1 <= c1 + p / 2^32 + 1).
Proof.
  intros -> -> -> -> -> -> H0 H1 Hp Hs. unfold u64, u32. rewrite (Z.mod_small p (2^64)) by lia.
  assert (Hth : 0 <= p / 2^32 <= 2^32 - 2) by lia. rewrite (Z.mod_small (p / 2^32)) by lia.
  set (tl := p mod 2^32). assert (Htl : 0 <= tl < 2^32) by (unfold tl; lia).
  rewrite (carry32 c0 tl) by lia.
  set (k0 := (c0 + tl) / 2^32). assert (Hk0 : 0 <= k0 <= 1) by (unfold k0; lia).
  rewrite (Z.mod_small k0) by lia. rewrite (Z.mod_small (p / 2^32 + k0)) by lia.
  rewrite (Z.mod_small (c1 + (p / 2^32 + k0))) by (unfold k0, tl; lia).
  unfold k0, tl. lia.
Qed.

Lemma sumadd32_eq c0 c1 c2 a n0 over n1 n2 :
  n0 = u32 (c0 + a) -> over = u32 (b2z (n0 <? a)) -> n1 = u32 (c1 + over) -> n2 = u32 (c2 + u32 (b2z (n1 <? over))) ->
  0 <= c0 < 2^32 -> 0 <= c1 < 2^32 -> 0 <= c2 < 2^31 -> 0 <= a < 2^32 ->
  n0 + n1 * 2^32 + n2 * 2^64 = c0 + c1 * 2^32 + c2 * 2^64 + a /\ 0 <= n0 < 2^32 /\ 0 <= n1 < 2^32 /\ c2 <= n2 <= c2 + 1.
Proof.
  intros -> -> -> -> H0 H1 H2 Ha. unfold u32.
  rewrite (carry32 c0 a) by lia.
  set (k0 := (c0 + a) / 2^32). assert (Hk0 : 0 <= k0 <= 1) by (unfold k0; lia).
  rewrite (Z.mod_small k0 (2^32)) by lia.
  rewrite (carry32 c1 k0) by lia.
  set (k1 := (c1 + k0) / 2^32). assert (Hk1 : 0 <= k1 <= 1) by (unfold k1; lia).
  rewrite (Z.mod_small k1) by lia. rewrite (Z.mod_small (c2 + k1)) by lia.
  unfold k1, k0. lia.
Qed.

Lemma sumadd_fast32_eq c0 c1 a n0 n1 :
  n0 = u32 (c0 + a) -> n1 = u32 (c1 + u32 (b2z (n0 <? a))) ->
  0 <= c0 < 2^32 -> 0 <= c1 < 2^32 - 1 -> 0 <= a < 2^32 ->
  n0 + n1 * 2^32 = c0 + c1 * 2^32 + a /\ 0 <= n0 < 2^32 /\ c1 <= n1 <= c1 + 1.
Proof.
  intros -> -> H0 H1 Ha. unfold u32.
  rewrite (carry32 c0 a) by lia.
  set (k0 := (c0 + a) / 2^32). assert (Hk0 : 0 <= k0 <= 1) by (unfold k0; lia).
  rewrite (Z.mod_small k0) by lia. rewrite (Z.mod_small (c1 + k0)) by lia.
  unfold k0. lia.
Qed.

(* muladd2: (c0,c1,c2) += 2*p *)
Lemma muladd2_32_eq c0 c1 c2 p t th tl th2 c2a tl2 th2b n0 th2c c2b n1 n2 :
  t = u64 p -> th = u32 (t / 2^32) -> tl = u32 t -> th2 = u32 (th + th) -> c2a = u32 (c2 + u32 (b2z (th2 <? th))) ->
  tl2 = u32 (tl + tl) -> th2b = u32 (th2 + u32 (b2z (tl2 <? tl))) -> n0 = u32 (c0 + tl2) ->
  th2c = u32 (th2b + u32 (b2z (n0 <? tl2))) -> c2b = u32 (c2a + u32 (Z.land (b2z (n0 <? tl2)) (b2z (th2c =? 0)))) ->
  n1 = u32 (c1 + th2c) -> n2 = u32 (c2b + u32 (b2z (n1 <? th2c))) ->
  0 <= c0 < 2^32 -> 0 <= c1 < 2^32 -> 0 <= c2 < 2^30 -> 0 <= p <= (2^32 - 1) * (2^32 - 1) ->
  n0 + n1 * 2^32 + n2 * 2^64 = c0 + c1 * 2^32 + c2 * 2^64 + 2 * p /\ 0 <= n0 < 2^32 /\ 0 <= n1 < 2^32 /\ c2 <= n2 <= c2 + 3.
Proof.
  intros -> -> -> -> -> -> -> -> -> -> -> -> H0 H1 H2 Hp. unfold u64, u32. rewrite (Z.mod_small p (2^64)) by lia.
  assert (Hth : 0 <= p / 2^32 <= 2^32 - 2) by lia. rewrite (Z.mod_small (p / 2^32)) by lia.
  set (th := p / 2^32) in *. set (tl := p mod 2^32). assert (Htl : 0 <= tl < 2^32) by (unfold tl; lia).
  rewrite (carry32 th th) by lia. set (ka := (th + th) / 2^32). assert (Hka : 0 <= ka <= 1) by (unfold ka; lia).
  rewrite (Z.mod_small ka) by lia. rewrite (Z.mod_small (c2 + ka)) by lia.
  rewrite (carry32 tl tl) by lia. set (kb := (tl + tl) / 2^32). assert (Hkb : 0 <= kb <= 1) by (unfold kb; lia).
  rewrite (Z.mod_small kb) by lia.
  set (th2 := (th + th) mod 2^32). assert (Hth2 : 0 <= th2 <= 2^32 - 2) by (unfold th2; lia).
  rewrite (Z.mod_small (th2 + kb)) by lia.
  set (tl2 := (tl + tl) mod 2^32). assert (Htl2 : 0 <= tl2 < 2^32) by (unfold tl2; lia).
  rewrite (carry32 c0 tl2) by lia. set (kc := (c0 + tl2) / 2^32). assert (Hkc : 0 <= kc <= 1) by (unfold kc; lia).
  rewrite (Z.mod_small kc) by lia.
  set (th2c := (th2 + kb + kc) mod 2^32). assert (Hth2c : 0 <= th2c < 2^32) by (unfold th2c; lia).
  assert (Hw : Z.land kc (b2z (th2c =? 0)) = (th2 + kb + kc) / 2^32).
  { destruct (Z.eqb_spec th2c 0) as [E|E]; cbn [b2z].
    - assert (kc = 0 \/ kc = 1) as [Ek | Ek] by lia; rewrite Ek in *; simpl (Z.land _ _); unfold th2c in E; lia.
    - rewrite Z.land_0_r. unfold th2c in E. lia. }
  rewrite Hw. set (kd := (th2 + kb + kc) / 2^32). assert (Hkd : 0 <= kd <= 1) by (unfold kd; lia).
  rewrite (Z.mod_small kd) by lia. rewrite (Z.mod_small (c2 + ka + kd)) by lia.
  rewrite (carry32 c1 th2c) by lia. set (ke := (c1 + th2c) / 2^32). assert (Hke : 0 <= ke <= 1) by (unfold ke; lia).
  rewrite (Z.mod_small ke) by lia. rewrite (Z.mod_small (c2 + ka + kd + ke)) by lia.
  unfold ke, kd, th2c, kc, tl2, th2, kb, ka, tl, th in *. lia.
Qed.

(* hypotheses that lia must not look at while a chain is stepped through (summaries of earlier stages, the continuation's
   specification) are wrapped in [hidden] and unwrapped where they are needed *)
Definition hidden (P : Prop) : Prop := P.
Ltac hide H := match type of H with ?T => change (hidden T) in H end.
Ltac unhide H := unfold hidden in H.

(* ---- stepping tactics (goal: bind e (fun x => rest)) ---- *)
Ltac bintro :=
  lazymatch goal with |- bind _ (fun x => _) =>
    apply bind_intro; let x' := fresh x in let H := fresh "Q" in intros x' H; cbv beta end.
Ltac keep_step :=
  lazymatch goal with |- bind ?e _ => first [is_var e | constr_eq e 0] end; bintro.
(* numeric constant expressions in a product are evaluated (only in the hypotheses produced, never in the goal) *)
Ltac norm_prod p :=
  lazymatch p with
  | ?a * ?k => let k' := eval vm_compute in k in constr:(a * k')
  | _ => p
  end.
Ltac split4 S := pose proof (proj1 S); pose proof (proj1 (proj2 S)); pose proof (proj1 (proj2 (proj2 S))); pose proof (proj2 (proj2 (proj2 S))); clear S.
Ltac split3 S := pose proof (proj1 S); pose proof (proj1 (proj2 S)); pose proof (proj2 (proj2 S)); clear S.

Ltac muladd32_step :=
  do 7 bintro;
  lazymatch goal with
  | Ht : ?t = u64 ?p, Hth : ?th = u32 (?t / 2^32), Htl : ?tl = u32 ?t, H0 : ?n0 = u32 (?c0 + ?tl),
    Hth2 : ?th2 = u32 (?th + u32 (b2z (?n0 <? ?tl))), H1 : ?n1 = u32 (?c1 + ?th2), H2 : ?n2 = u32 (?c2 + u32 (b2z (?n1 <? ?th2))) |- _ =>
    let p' := norm_prod p in
    let A := fresh "A" in let B := fresh "B" in let C := fresh "C" in let D := fresh "D" in let S := fresh "S" in
    assert (A : 0 <= c0 < 2^32) by (first [assumption | timeout 120 lia]); assert (B : 0 <= c1 < 2^32) by (first [assumption | timeout 120 lia]); assert (C : 0 <= c2 < 2^31) by (first [assumption | timeout 120 lia]);
    assert (D : 0 <= p' <= (2^32 - 1) * (2^32 - 1)) by (first [assumption | timeout 120 lia]);
    pose proof (muladd32_eq c0 c1 c2 p' t th tl n0 th2 n1 n2 Ht Hth Htl H0 Hth2 H1 H2 A B C D) as S;
    clear A B C D Ht Hth Htl H0 Hth2 H1 H2; split4 S
  end.
Ltac muladd_fast32_step :=
  do 6 bintro;
  lazymatch goal with
  | Ht : ?t = u64 ?p, Hth : ?th = u32 (?t / 2^32), Htl : ?tl = u32 ?t, H0 : ?n0 = u32 (?c0 + ?tl),
    Hth2 : ?th2 = u32 (?th + u32 (b2z (?n0 <? ?tl))), H1 : ?n1 = u32 (?c1 + ?th2) |- _ =>
    let p' := norm_prod p in
    let A := fresh "A" in let B := fresh "B" in let C := fresh "C" in let D := fresh "D" in let S := fresh "S" in
    assert (A : 0 <= c0 < 2^32) by (first [assumption | timeout 120 lia]); assert (B : 0 <= c1) by (first [assumption | timeout 120 lia]);
    assert (C : 0 <= p' <= (2^32 - 1) * (2^32 - 1)) by (first [assumption | timeout 120 lia]); assert (D : c0 + c1 * 2^32 + p' < 2^64) by (first [assumption | timeout 120 lia]);
    pose proof (muladd_fast32_eq c0 c1 p' t th tl n0 th2 n1 Ht Hth Htl H0 Hth2 H1 A B C D) as S;
    clear A B C D Ht Hth Htl H0 Hth2 H1; split3 S
  end.
Ltac muladd2_32_step :=
  do 12 bintro;
  lazymatch goal with
  | Ht : ?t = u64 ?p, Hth : ?th = u32 (?t / 2^32), Htl : ?tl = u32 ?t, Hth2 : ?th2 = u32 (?th + ?th), Hc2a : ?c2a = u32 (?c2 + u32 (b2z (?th2 <? ?th))),
    Htl2 : ?tl2 = u32 (?tl + ?tl), Hth2b : ?th2b = u32 (?th2 + u32 (b2z (?tl2 <? ?tl))), H0 : ?n0 = u32 (?c0 + ?tl2),
    Hth2c : ?th2c = u32 (?th2b + u32 (b2z (?n0 <? ?tl2))), Hc2b : ?c2b = u32 (?c2a + u32 (Z.land (b2z (?n0 <? ?tl2)) (b2z (?th2c =? 0)))),
    H1 : ?n1 = u32 (?c1 + ?th2c), H2 : ?n2 = u32 (?c2b + u32 (b2z (?n1 <? ?th2c))) |- _ =>
    let A := fresh "A" in let B := fresh "B" in let C := fresh "C" in let D := fresh "D" in let S := fresh "S" in
    assert (A : 0 <= c0 < 2^32) by (first [assumption | timeout 120 lia]); assert (B : 0 <= c1 < 2^32) by (first [assumption | timeout 120 lia]); assert (C : 0 <= c2 < 2^30) by (first [assumption | timeout 120 lia]);
    assert (D : 0 <= p <= (2^32 - 1) * (2^32 - 1)) by (first [assumption | timeout 120 lia]);
    pose proof (muladd2_32_eq c0 c1 c2 p t th tl th2 c2a tl2 th2b n0 th2c c2b n1 n2 Ht Hth Htl Hth2 Hc2a Htl2 Hth2b H0 Hth2c Hc2b H1 H2 A B C D) as S;
    clear A B C D Ht Hth Htl Hth2 Hc2a Htl2 Hth2b H0 Hth2c Hc2b H1 H2; split4 S
  end.
Ltac sumadd32_step :=
  do 4 bintro;
  lazymatch goal with
  | H0 : ?n0 = u32 (?c0 + ?a), Ho : ?over = u32 (b2z (?n0 <? ?a)), H1 : ?n1 = u32 (?c1 + ?over), H2 : ?n2 = u32 (?c2 + u32 (b2z (?n1 <? ?over))) |- _ =>
    let A := fresh "A" in let B := fresh "B" in let C := fresh "C" in let D := fresh "D" in let S := fresh "S" in
    assert (A : 0 <= c0 < 2^32) by (first [assumption | timeout 120 lia]); assert (B : 0 <= c1 < 2^32) by (first [assumption | timeout 120 lia]); assert (C : 0 <= c2 < 2^31) by (first [assumption | timeout 120 lia]);
    assert (D : 0 <= a < 2^32) by (first [assumption | timeout 120 lia]);
    pose proof (sumadd32_eq c0 c1 c2 a n0 over n1 n2 H0 Ho H1 H2 A B C D) as S;
    clear A B C D H0 Ho H1 H2; split4 S
  end.
Ltac sumadd_fast32_step :=
  do 2 bintro;
  lazymatch goal with
  | H0 : ?n0 = u32 (?c0 + ?a), H1 : ?n1 = u32 (?c1 + u32 (b2z (?n0 <? ?a))) |- _ =>
    let A := fresh "A" in let B := fresh "B" in let D := fresh "D" in let S := fresh "S" in
    assert (A : 0 <= c0 < 2^32) by (first [assumption | timeout 120 lia]); assert (B : 0 <= c1 < 2^32 - 1) by (first [assumption | timeout 120 lia]); assert (D : 0 <= a < 2^32) by (first [assumption | timeout 120 lia]);
    pose proof (sumadd_fast32_eq c0 c1 a n0 n1 H0 H1 A B D) as S;
    clear A B D H0 H1; split3 S
  end.

(* ---- accumulator steps of the final folding stage ---- *)
Lemma land_mask32 v : 0 <= v -> u32 (Z.land v 4294967295) = v mod 2^32.
Proof. intros. change 4294967295 with (Z.ones 32). rewrite Z.land_ones by lia. unfold u32. apply Z.mod_mod. lia. Qed.
Lemma split32_eq v r c : 0 <= v -> r = u32 (Z.land v 4294967295) -> c = v / 2^32 -> v = r + c * 2^32 /\ 0 <= r < 2^32 /\ 0 <= c.
Proof. intros Hv -> ->. rewrite land_mask32 by lia. lia. Qed.
Lemma trunc32_eq v x : 0 <= v -> x = u32 (Z.land v 4294967295) -> v = x + (v / 2^32) * 2^32 /\ 0 <= x < 2^32 /\ 0 <= v / 2^32.
Proof. intros Hv ->. rewrite land_mask32 by lia. lia. Qed.
Ltac split32_step :=
  do 2 bintro;
  lazymatch goal with Hr : ?r = u32 (Z.land ?v 4294967295), Hc : ?c = ?v / 2^32 |- _ =>
    let V := fresh "V" in assert (V : 0 <= v) by (timeout 300 lia);
    let S := fresh "S" in pose proof (split32_eq v r c V Hr Hc) as S; clear Hr Hc V; split3 S end.
Ltac trunc32_step :=
  lazymatch goal with |- bind (u32 (Z.land ?v 4294967295)) _ => is_var v end; bintro;
  lazymatch goal with H : ?x = u32 (Z.land ?v 4294967295) |- _ =>
    let V := fresh "V" in assert (V : 0 <= v) by (timeout 300 lia);
    let cx := fresh "ctop" in let E := fresh "E" in
    let S := fresh "S" in pose proof (trunc32_eq v x V H) as S; clear H V;
    remember (v / 2^32) as cx eqn:E; clear E; split3 S end.
