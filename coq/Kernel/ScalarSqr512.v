(* Proof ABOUT the generated 256 -> 512 bit scalar squaring (Gen/scalar_sqr_512.v, portable C path of
   src/scalar_4x64_impl.h): the eight output limbs are the exact square for ALL limb values; in particular
   the doubled partial products (muladd2) never lose a carry, including the case where the doubled high word
   wraps to zero. *)
From Coq Require Import ZArith Lia List Bool.
Require Import Kernel.CSem Kernel.Scalar4x64 Kernel.ScalarMul512 Gen.scalar_sqr_512.
Import ListNotations.
Local Open Scope Z_scope.
Ltac Zify.zify_post_hook ::= Z.div_mod_to_equations.

(* muladd2: (c0,c1,c2) += 2*p *)
Lemma muladd2_full c0 c1 c2 p : 0 <= c0 < 2^64 -> 0 <= c1 < 2^64 -> 0 <= c2 < 2^31 -> 0 <= p <= (2^64 - 1) * (2^64 - 1) ->
  let t := u128 p in let th := t / 2^64 in let tl := u64 t in
  let th2 := u64 (th + th) in
  let c2a := u32 (c2 + u32 (b2z (th2 <? th))) in
  let tl2 := u64 (tl + tl) in
  let th2b := u64 (th2 + u64 (b2z (tl2 <? tl))) in
  let n0 := u64 (c0 + tl2) in
  let th2c := u64 (th2b + u64 (b2z (n0 <? tl2))) in
  let c2b := u32 (c2a + u32 (Z.land (b2z (n0 <? tl2)) (b2z (th2c =? 0)))) in
  let n1 := u64 (c1 + th2c) in
  let n2 := u32 (c2b + u32 (b2z (n1 <? th2c))) in
  n0 + n1 * 2^64 + n2 * 2^128 = c0 + c1 * 2^64 + c2 * 2^128 + 2 * p /\ 0 <= n0 < 2^64 /\ 0 <= n1 < 2^64 /\ c2 <= n2 <= c2 + 3.
Proof.
  intros H0 H1 H2 Hp. cbv zeta. unfold u128, u64, u32. rewrite (Z.mod_small p (2^128)) by lia.
  set (th := p / 2^64). assert (Hth : 0 <= th <= 2^64 - 2) by (unfold th; lia).
  set (tl := p mod 2^64). assert (Htl : 0 <= tl < 2^64) by (unfold tl; lia).
  assert (Ep : p = th * 2^64 + tl) by (unfold th, tl; lia).
  rewrite (carry64 th th) by lia. set (ka := (th + th) / 2^64). assert (Hka : 0 <= ka <= 1) by (unfold ka; lia).
  rewrite (Z.mod_small ka) by lia. rewrite (Z.mod_small (c2 + ka)) by lia.
  rewrite (carry64 tl tl) by lia. set (kb := (tl + tl) / 2^64). assert (Hkb : 0 <= kb <= 1) by (unfold kb; lia).
  rewrite (Z.mod_small kb) by lia.
  set (th2 := (th + th) mod 2^64). assert (Hth2 : 0 <= th2 <= 2^64 - 2) by (unfold th2, ka in *; lia).
  rewrite (Z.mod_small (th2 + kb)) by lia.
  set (tl2 := (tl + tl) mod 2^64). assert (Htl2 : 0 <= tl2 < 2^64) by (unfold tl2; lia).
  rewrite (carry64 c0 tl2) by lia. set (kc := (c0 + tl2) / 2^64). assert (Hkc : 0 <= kc <= 1) by (unfold kc; lia).
  rewrite (Z.mod_small kc) by lia.
  set (th2c := (th2 + kb + kc) mod 2^64). assert (Hth2c : 0 <= th2c < 2^64) by (unfold th2c; lia).
  (* the wrap of th2c is exactly what the (carry & th2c == 0) term detects *)
  assert (Ew : Z.land (b2z (kc =? 1)) (b2z (th2c =? 0)) = (th2 + kb + kc) / 2^64).
  { destruct (Z.eqb_spec kc 1), (Z.eqb_spec th2c 0); cbn [b2z]; simpl (Z.land _ _); unfold th2c in *; lia. }
  assert (Ekc : b2z (kc =? 1) = kc) by (destruct (Z.eqb_spec kc 1); cbn [b2z]; lia).
  replace (Z.land kc (b2z (th2c =? 0))) with ((th2 + kb + kc) / 2^64) by (rewrite <- Ew, Ekc; reflexivity).
  set (kd := (th2 + kb + kc) / 2^64). assert (Hkd : 0 <= kd <= 1) by (unfold kd; lia).
  rewrite (Z.mod_small kd) by lia. rewrite (Z.mod_small (c2 + ka + kd)) by lia.
  rewrite (carry64 c1 th2c) by lia. set (ke := (c1 + th2c) / 2^64). assert (Hke : 0 <= ke <= 1) by (unfold ke; lia).
  rewrite (Z.mod_small ke) by lia. rewrite (Z.mod_small (c2 + ka + kd + ke)) by lia.
  unfold ke, kd, th2c, kc, tl2, th2, kb, ka in *. lia.
Qed.

Ltac muladd2_step :=
  let t := fresh "t" in let th := fresh "th" in let tl := fresh "tl" in let th2 := fresh "thd" in let c2a := fresh "ca" in
  let tl2 := fresh "tld" in let th2b := fresh "thd" in let n0 := fresh "n" in let th2c := fresh "thd" in let c2b := fresh "cb" in
  let n1 := fresh "n" in let n2 := fresh "n" in
  intros t th tl th2 c2a tl2 th2b n0 th2c c2b n1 n2;
  match goal with
  | t := u128 ?p, c2a := u32 (?c2 + _), n0 := u64 (?c0 + tl2), n1 := u64 (?c1 + th2c), n2 := u32 (c2b + _) |- _ =>
    let S := fresh "S" in
    assert (S : n0 + n1 * 2^64 + n2 * 2^128 = c0 + c1 * 2^64 + c2 * 2^128 + 2 * p /\ 0 <= n0 < 2^64 /\ 0 <= n1 < 2^64 /\ c2 <= n2 <= c2 + 3)
      by (exact (muladd2_full c0 c1 c2 p ltac:(lia) ltac:(lia) ltac:(lia) ltac:(lia)));
    clearbody n0 n1 n2; clear c2b th2c th2b tl2 c2a th2 tl th t; destruct S as [? [? [? ?]]]
  end.

Theorem scalar_sqr_512_correct a0 a1 a2 a3 :
  0 <= a0 < 2^64 -> 0 <= a1 < 2^64 -> 0 <= a2 < 2^64 -> 0 <= a3 < 2^64 ->
  scalar_sqr_512_k a0 a1 a2 a3 (fun l0 l1 l2 l3 l4 l5 l6 l7 =>
    (0 <= l0 < 2^64 /\ 0 <= l1 < 2^64 /\ 0 <= l2 < 2^64 /\ 0 <= l3 < 2^64 /\ 0 <= l4 < 2^64 /\ 0 <= l5 < 2^64 /\ 0 <= l6 < 2^64 /\ 0 <= l7 < 2^64) /\
    val8 l0 l1 l2 l3 l4 l5 l6 l7 = val4 a0 a1 a2 a3 * val4 a0 a1 a2 a3).
Proof.
  intros Ha0 Ha1 Ha2 Ha3.
  assert (Hprod : val4 a0 a1 a2 a3 * val4 a0 a1 a2 a3 =
    a0*a0 + (2*(a0*a1)) * 2^64 + (2*(a0*a2) + a1*a1) * 2^128 + (2*(a0*a3) + 2*(a1*a2)) * 2^192
    + (2*(a1*a3) + a2*a2) * 2^256 + (2*(a2*a3)) * 2^320 + a3*a3 * 2^384) by (unfold val4; ring).
  rewrite Hprod. clear Hprod.
  pose proof (mulb64 a0 a0 Ha0 Ha0). pose proof (mulb64 a0 a1 Ha0 Ha1). pose proof (mulb64 a0 a2 Ha0 Ha2). pose proof (mulb64 a0 a3 Ha0 Ha3).
  pose proof (mulb64 a1 a1 Ha1 Ha1). pose proof (mulb64 a1 a2 Ha1 Ha2). pose proof (mulb64 a1 a3 Ha1 Ha3).
  pose proof (mulb64 a2 a2 Ha2 Ha2). pose proof (mulb64 a2 a3 Ha2 Ha3). pose proof (mulb64 a3 a3 Ha3 Ha3).
  cbv beta delta [scalar_sqr_512_k].
  generalize dependent (a0*a0); intros p00 ?. generalize dependent (a0*a1); intros p01 ?.
  generalize dependent (a0*a2); intros p02 ?. generalize dependent (a0*a3); intros p03 ?.
  generalize dependent (a1*a1); intros p11 ?. generalize dependent (a1*a2); intros p12 ?.
  generalize dependent (a1*a3); intros p13 ?. generalize dependent (a2*a2); intros p22 ?.
  generalize dependent (a2*a3); intros p23 ?. generalize dependent (a3*a3); intros p33 ?.
  clear Ha0 Ha1 Ha2 Ha3.
  repeat first [ muladd2_step | muladd_step | muladd_fast_step | rename_step ].
  unfold val8. split; [repeat split; lia|]. lia.
Qed.
