(* Proof ABOUT the generated field-element-to-byte-string conversion (Gen/fe_impl_get_b32.v: secp256k1_fe_impl_get_b32 of
   src/field_5x52_impl.h): for ALL limb values inside the normalized representation (four limbs below 2^52, the top one below 2^48)
   the 32 output bytes are bytes and their big-endian value is exactly the value of the limbs.  Together with
   fe_set_b32_limit_correct this is the limb-level round trip of the 32-byte field encoding. *)
From Coq Require Import ZArith Lia List Bool.
Require Import Kernel.CSem Kernel.Field5x52 Kernel.MorePrims Kernel.FieldSetB32 Gen.fe_impl_get_b32.
Import ListNotations.
Local Open Scope Z_scope.
Ltac Zify.zify_post_hook ::= Z.div_mod_to_equations.

Lemma land255 x : 0 <= x -> Z.land x 255 = x mod 2^8.
Proof. intros. change 255 with (Z.ones 8). apply Z.land_ones. lia. Qed.

(* a 48-bit value is the sum of its six bytes *)
Lemma bytes48 x : 0 <= x < 2^48 ->
  x = (x / 2^40) mod 2^8 * 2^40 + (x / 2^32) mod 2^8 * 2^32 + (x / 2^24) mod 2^8 * 2^24 + (x / 2^16) mod 2^8 * 2^16 + (x / 2^8) mod 2^8 * 2^8 + x mod 2^8.
Proof. intros. lia. Qed.
(* a 52-bit limb whose low byte boundary is aligned: a nibble on top of six bytes *)
Lemma bytes52_low x : 0 <= x < 2^52 ->
  x = (x / 2^48) mod 2^4 * 2^48 + (x / 2^40) mod 2^8 * 2^40 + (x / 2^32) mod 2^8 * 2^32 + (x / 2^24) mod 2^8 * 2^24 + (x / 2^16) mod 2^8 * 2^16 + (x / 2^8) mod 2^8 * 2^8 + x mod 2^8.
Proof. intros. lia. Qed.
(* a 52-bit limb that starts in the middle of a byte: six bytes on top of a nibble *)
Lemma bytes52_high x : 0 <= x < 2^52 ->
  x = (x / 2^44) mod 2^8 * 2^44 + (x / 2^36) mod 2^8 * 2^36 + (x / 2^28) mod 2^8 * 2^28 + (x / 2^20) mod 2^8 * 2^20 + (x / 2^12) mod 2^8 * 2^12 + (x / 2^4) mod 2^8 * 2^4 + x mod 2^4.
Proof. intros. lia. Qed.

Theorem fe_get_b32_correct n0 n1 n2 n3 n4 :
  0 <= n0 < 2^52 -> 0 <= n1 < 2^52 -> 0 <= n2 < 2^52 -> 0 <= n3 < 2^52 -> 0 <= n4 < 2^48 ->
  fe_impl_get_b32_k n0 n1 n2 n3 n4 (fun r0 r1 r2 r3 r4 r5 r6 r7 r8 r9 r10 r11 r12 r13 r14 r15 r16 r17 r18 r19 r20 r21 r22 r23 r24 r25 r26 r27 r28 r29 r30 r31 =>
    Forall (fun b => 0 <= b < 256) [r0; r1; r2; r3; r4; r5; r6; r7; r8; r9; r10; r11; r12; r13; r14; r15; r16; r17; r18; r19; r20; r21; r22; r23; r24; r25; r26; r27; r28; r29; r30; r31] /\
    be32 r0 r1 r2 r3 r4 r5 r6 r7 r8 r9 r10 r11 r12 r13 r14 r15 r16 r17 r18 r19 r20 r21 r22 r23 r24 r25 r26 r27 r28 r29 r30 r31 = val5 n0 n1 n2 n3 n4).
Proof.
  intros H0 H1 H2 H3 H4. unfold fe_impl_get_b32_k. cbv zeta.
  assert (D : forall x k, 0 <= x -> 0 <= x / 2^k) by (intros; apply Z_div_nonneg_nonneg; [assumption|apply Z.pow_nonneg; lia]).
  rewrite !land255, !land15 by (try apply D; lia). unfold u64.
  rewrite (Z.mod_small (n3 mod 2^4 * 2^4) (2^64)), (Z.mod_small (n1 mod 2^4 * 2^4) (2^64)) by lia.
  rewrite (lor_add_disjoint ((n2 / 2^48) mod 2^4) (n3 mod 2^4) 4), (lor_add_disjoint ((n0 / 2^48) mod 2^4) (n1 mod 2^4) 4) by lia.
  unfold u8. rewrite !Z.mod_mod by lia.
  rewrite (Z.mod_small ((n2 / 2^48) mod 2^4 + n3 mod 2^4 * 2^4) (2^8)), (Z.mod_small ((n0 / 2^48) mod 2^4 + n1 mod 2^4 * 2^4) (2^8)) by lia.
  split.
  - repeat constructor; lia.
  - pose proof (bytes48 n4 H4) as E4. pose proof (bytes52_high n3 H3) as E3. pose proof (bytes52_low n2 H2) as E2.
    pose proof (bytes52_high n1 H1) as E1. pose proof (bytes52_low n0 H0) as E0.
    unfold be32, val5.
    repeat match goal with |- context[?x mod ?m] => let b := fresh "b" in set (b := x mod m) in * end.
    clear -E0 E1 E2 E3 E4.
    repeat match goal with b := _ |- _ => clearbody b end.
    lia.
Qed.
