(* More field primitives in weakest-precondition form (for Gen/gej_add_ge.v): the conditional move with a known flag and the
   zero test. *)
From Coq Require Import ZArith Lia List Bool.
Require Import Kernel.CSem Kernel.CtPrimitives Kernel.Field5x52 Kernel.FieldNormalize2 Kernel.Cong.
Require Import Gen.fe_impl_cmov Gen.fe_impl_normalizes_to_zero.
Import ListNotations.
Local Open Scope Z_scope.

Theorem fe_cmov_wp r0 r1 r2 r3 r4 a0 a1 a2 a3 a4 flag (Q : Z -> Z -> Z -> Z -> Z -> Prop) :
  0 <= r0 < 2^64 -> 0 <= r1 < 2^64 -> 0 <= r2 < 2^64 -> 0 <= r3 < 2^64 -> 0 <= r4 < 2^64 ->
  0 <= a0 < 2^64 -> 0 <= a1 < 2^64 -> 0 <= a2 < 2^64 -> 0 <= a3 < 2^64 -> 0 <= a4 < 2^64 ->
  (flag = 0 /\ Q r0 r1 r2 r3 r4) \/ (flag = 1 /\ Q a0 a1 a2 a3 a4) ->
  fe_impl_cmov_k r0 r1 r2 r3 r4 a0 a1 a2 a3 a4 flag Q.
Proof.
  intros Hr0 Hr1 Hr2 Hr3 Hr4 Ha0 Ha1 Ha2 Ha3 Ha4 [[-> HQ] | [-> HQ]]; unfold fe_impl_cmov_k; cbv zeta; cbv [u64]; simpl Z.modulo.
  - change ((0 + (18446744073709551615 - 0)) mod 2 ^ 64) with 18446744073709551615.
    change (18446744073709551615 - 18446744073709551615) with 0. sel64. exact HQ.
  - change ((1 mod 2^64 + (18446744073709551615 - 0)) mod 2 ^ 64) with 0.
    change (18446744073709551615 - 0) with 18446744073709551615. sel64. exact HQ.
Qed.

Theorem fe_normalizes_to_zero_wp r0 r1 r2 r3 r4 (Q : Z -> Prop) :
  0 <= r0 < 2^58 -> 0 <= r1 < 2^58 -> 0 <= r2 < 2^58 -> 0 <= r3 < 2^58 -> 0 <= r4 < 2^54 ->
  (forall ret, ret = (if (val5 r0 r1 r2 r3 r4) mod P256 =? 0 then 1 else 0) -> Q ret) ->
  fe_impl_normalizes_to_zero_k r0 r1 r2 r3 r4 Q.
Proof.
  intros H0 H1 H2 H3 H4 HQ.
  change (Q (fe_impl_normalizes_to_zero r0 r1 r2 r3 r4)).
  apply HQ. apply fe_normalizes_to_zero_correct; assumption.
Qed.

Lemma cong_mod a b : cong a b -> a mod P256 = b mod P256.
Proof.
  intros [k H]. replace a with (b + k * P256) by lia. apply Z.mod_add. unfold P256. lia.
Qed.
