(* The composition for the default (4x64) configuration: secp256k1_scalar_mul and secp256k1_scalar_sqr (Gen/scalar_mul.v,
   Gen/scalar_sqr.v: the generated callers, which CALL the generated mul_512 / sqr_512 / reduce_512 in continuation-passing form)
   compute the product modulo the group order, canonically, for ALL limb values.  Proved from the component theorems in
   weakest-precondition form. *)
From Coq Require Import ZArith Lia List Bool.
Require Import Kernel.CSem Kernel.Bind Kernel.Scalar4x64 Kernel.ScalarMul512 Kernel.ScalarMul4x64 Kernel.ScalarReduce512.
Require Import Gen.scalar_mul_512b Gen.scalar_sqr_512b Gen.scalar_reduce_512 Gen.scalar_mul Gen.scalar_sqr.
Local Open Scope Z_scope.

Theorem scalar_mul_correct a0 a1 a2 a3 b0 b1 b2 b3 :
  0 <= a0 < 2^64 -> 0 <= a1 < 2^64 -> 0 <= a2 < 2^64 -> 0 <= a3 < 2^64 ->
  0 <= b0 < 2^64 -> 0 <= b1 < 2^64 -> 0 <= b2 < 2^64 -> 0 <= b3 < 2^64 ->
  forall Q : Z -> Z -> Z -> Z -> Prop,
  (forall r0 r1 r2 r3, (0 <= r0 < 2^64 /\ 0 <= r1 < 2^64 /\ 0 <= r2 < 2^64 /\ 0 <= r3 < 2^64) /\
     val4 r0 r1 r2 r3 = (val4 a0 a1 a2 a3 * val4 b0 b1 b2 b3) mod N256 -> Q r0 r1 r2 r3) ->
  scalar_mul_k a0 a1 a2 a3 b0 b1 b2 b3 Q.
Proof.
  intros Ha0 Ha1 Ha2 Ha3 Hb0 Hb1 Hb2 Hb3 Q HQ. unfold scalar_mul_k.
  apply scalar_mul_512b_wp; try assumption.
  intros l0 l1 l2 l3 l4 l5 l6 l7 [Hr Hv].
  apply scalar_reduce_512_wp; try (clear - Hr; tauto).
  intros r0 r1 r2 r3 [Hrr Hrv]. unfold red_spec in Hrv. apply HQ. split; [exact Hrr|]. rewrite Hrv, Hv. reflexivity.
Qed.

Theorem scalar_sqr_correct a0 a1 a2 a3 :
  0 <= a0 < 2^64 -> 0 <= a1 < 2^64 -> 0 <= a2 < 2^64 -> 0 <= a3 < 2^64 ->
  forall Q : Z -> Z -> Z -> Z -> Prop,
  (forall r0 r1 r2 r3, (0 <= r0 < 2^64 /\ 0 <= r1 < 2^64 /\ 0 <= r2 < 2^64 /\ 0 <= r3 < 2^64) /\
     val4 r0 r1 r2 r3 = (val4 a0 a1 a2 a3 * val4 a0 a1 a2 a3) mod N256 -> Q r0 r1 r2 r3) ->
  scalar_sqr_k a0 a1 a2 a3 Q.
Proof.
  intros Ha0 Ha1 Ha2 Ha3 Q HQ. unfold scalar_sqr_k.
  apply scalar_sqr_512b_wp; try assumption.
  intros l0 l1 l2 l3 l4 l5 l6 l7 [Hr Hv].
  apply scalar_reduce_512_wp; try (clear - Hr; tauto).
  intros r0 r1 r2 r3 [Hrr Hrv]. unfold red_spec in Hrv. apply HQ. split; [exact Hrr|]. rewrite Hrv, Hv. reflexivity.
Qed.
