(* Proofs ABOUT two more generated group functions whose field operations are calls to the proved limb functions:
   Gen/ge_set_gej_zinv.v (conversion of a Jacobian point to affine coordinates with a given inverse of z) and Gen/gej_rescale.v
   (rescaling of a Jacobian point by s: (x s^2, y s^3, z s)), both of src/group_impl.h.  For ALL inputs inside the domain of the
   field multiplication the result limbs are a magnitude-1 representation and the values are the specified products modulo p. *)
From Coq Require Import ZArith Lia List Bool Setoid Morphisms.
Require Import Kernel.CSem Kernel.Bind Kernel.Field5x52 Kernel.Field5x52Sqr Kernel.FieldWp Kernel.Cong Kernel.GejDouble.
Require Import Gen.fe_mul_inner Gen.fe_sqr_inner Gen.ge_set_gej_zinv Gen.gej_rescale Gen.ge_set_ge_zinv.
Import ListNotations.
Local Open Scope Z_scope.
Local Opaque fe_mul_inner_k fe_sqr_inner_k.

Theorem ge_set_gej_zinv_correct inf zi0 zi1 zi2 zi3 zi4 x0 x1 x2 x3 x4 y0 y1 y2 y3 y4 :
  lim 8 zi0 zi1 zi2 zi3 zi4 -> lim 8 x0 x1 x2 x3 x4 -> lim 8 y0 y1 y2 y3 y4 ->
  ge_set_gej_zinv_k inf zi0 zi1 zi2 zi3 zi4 x0 x1 x2 x3 x4 y0 y1 y2 y3 y4 (fun rinf rx0 rx1 rx2 rx3 rx4 ry0 ry1 ry2 ry3 ry4 =>
    let X := val5 x0 x1 x2 x3 x4 in let Y := val5 y0 y1 y2 y3 y4 in let ZI := val5 zi0 zi1 zi2 zi3 zi4 in
    rinf = inf /\ lim 1 rx0 rx1 rx2 rx3 rx4 /\ lim 1 ry0 ry1 ry2 ry3 ry4 /\
    cong (val5 rx0 rx1 rx2 rx3 rx4) (X * (ZI * ZI)) /\ cong (val5 ry0 ry1 ry2 ry3 ry4) (Y * (ZI * ZI * ZI))).
Proof.
  unfold lim. intros [Hz0 [Hz1 [Hz2 [Hz3 Hz4]]]] [Hx0 [Hx1 [Hx2 [Hx3 Hx4]]]] [Hy0 [Hy1 [Hy2 [Hy3 Hy4]]]].
  unfold ge_set_gej_zinv_k.
  sqr_step. mul_step. mul_step. mul_step. apply bind_intro; intros rinf Hinf; cbv beta.
  split; [exact Hinf|]. split; [repeat split; lia|]. split; [repeat split; lia|].
  split.
  - rewrite C1, C. reflexivity.
  - rewrite C2, C0, C. reflexivity.
Qed.

Theorem gej_rescale_correct s0 s1 s2 s3 s4 x0 x1 x2 x3 x4 y0 y1 y2 y3 y4 z0 z1 z2 z3 z4 :
  lim 8 s0 s1 s2 s3 s4 -> lim 8 x0 x1 x2 x3 x4 -> lim 8 y0 y1 y2 y3 y4 -> lim 8 z0 z1 z2 z3 z4 ->
  gej_rescale_k s0 s1 s2 s3 s4 x0 x1 x2 x3 x4 y0 y1 y2 y3 y4 z0 z1 z2 z3 z4 (fun rx0 rx1 rx2 rx3 rx4 ry0 ry1 ry2 ry3 ry4 rz0 rz1 rz2 rz3 rz4 =>
    let X := val5 x0 x1 x2 x3 x4 in let Y := val5 y0 y1 y2 y3 y4 in let Z := val5 z0 z1 z2 z3 z4 in let S := val5 s0 s1 s2 s3 s4 in
    lim 1 rx0 rx1 rx2 rx3 rx4 /\ lim 1 ry0 ry1 ry2 ry3 ry4 /\ lim 1 rz0 rz1 rz2 rz3 rz4 /\
    cong (val5 rx0 rx1 rx2 rx3 rx4) (X * (S * S)) /\ cong (val5 ry0 ry1 ry2 ry3 ry4) (Y * (S * S) * S) /\ cong (val5 rz0 rz1 rz2 rz3 rz4) (Z * S)).
Proof.
  unfold lim. intros [Hs0 [Hs1 [Hs2 [Hs3 Hs4]]]] [Hx0 [Hx1 [Hx2 [Hx3 Hx4]]]] [Hy0 [Hy1 [Hy2 [Hy3 Hy4]]]] [Hz0 [Hz1 [Hz2 [Hz3 Hz4]]]].
  unfold gej_rescale_k.
  sqr_step. mul_step. mul_step. mul_step. mul_step.
  split; [repeat split; lia|]. split; [repeat split; lia|]. split; [repeat split; lia|].
  split; [|split].
  - rewrite C0, C. reflexivity.
  - rewrite C2, C1, C. reflexivity.
  - rewrite C3. reflexivity.
Qed.

(* Gen/ge_set_ge_zinv.v: the same conversion starting from an affine point of an isomorphic curve (secp256k1_ge_set_ge_zinv,
   used when the precomputed tables are brought back to the original curve): (x zi^2, y zi^3), infinity flag copied. *)
Theorem ge_set_ge_zinv_correct inf zi0 zi1 zi2 zi3 zi4 x0 x1 x2 x3 x4 y0 y1 y2 y3 y4 :
  lim 8 zi0 zi1 zi2 zi3 zi4 -> lim 8 x0 x1 x2 x3 x4 -> lim 8 y0 y1 y2 y3 y4 ->
  ge_set_ge_zinv_k inf zi0 zi1 zi2 zi3 zi4 x0 x1 x2 x3 x4 y0 y1 y2 y3 y4 (fun rinf rx0 rx1 rx2 rx3 rx4 ry0 ry1 ry2 ry3 ry4 =>
    let X := val5 x0 x1 x2 x3 x4 in let Y := val5 y0 y1 y2 y3 y4 in let ZI := val5 zi0 zi1 zi2 zi3 zi4 in
    rinf = inf /\ lim 1 rx0 rx1 rx2 rx3 rx4 /\ lim 1 ry0 ry1 ry2 ry3 ry4 /\
    cong (val5 rx0 rx1 rx2 rx3 rx4) (X * (ZI * ZI)) /\ cong (val5 ry0 ry1 ry2 ry3 ry4) (Y * (ZI * ZI * ZI))).
Proof.
  unfold lim. intros [Hz0 [Hz1 [Hz2 [Hz3 Hz4]]]] [Hx0 [Hx1 [Hx2 [Hx3 Hx4]]]] [Hy0 [Hy1 [Hy2 [Hy3 Hy4]]]].
  unfold ge_set_ge_zinv_k.
  sqr_step. mul_step. mul_step. mul_step. apply bind_intro; intros rinf Hinf; cbv beta.
  split; [exact Hinf|]. split; [repeat split; lia|]. split; [repeat split; lia|].
  split.
  - rewrite C1, C. reflexivity.
  - rewrite C2, C0, C. reflexivity.
Qed.
