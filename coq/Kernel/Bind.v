(* Sequencing combinator of the generated kernel code in "bind" style.  [bind e (fun x => rest)] means
   [let x := e in rest]; it is a defined constant rather than a native let so that proofs can step through a long
   chain by applying [bind_intro] (types match syntactically) instead of by conversions that the kernel would have
   to re-check by expanding the whole chain at Qed (native lets are zeta-expanded by the conversion test, which is
   exponential in the depth of a carry chain). *)
Definition bind {A B : Type} (e : A) (f : A -> B) : B := f e.
Lemma bind_intro {A : Type} (e : A) (G : A -> Prop) : (forall x, x = e -> G x) -> bind e G.
Proof. intros H. exact (H e eq_refl). Qed.
