(* The composition: secp256k1_scalar_mul and secp256k1_scalar_sqr of the 32-bit-limb code (Gen/scalar8x32_mul.v,
   Gen/scalar8x32_sqr.v: the generated callers, which CALL the generated mul_512 / sqr_512 / reduce_512 in continuation-passing form)
   compute the product modulo the group order, canonically, for ALL limb values.  Proved from the three component theorems in
   weakest-precondition form; nothing about the components is re-proved here. *)
From Coq Require Import ZArith Lia List Bool.
Require Import Kernel.CSem Kernel.Bind Kernel.Scalar4x64 Kernel.Scalar8x32Check Kernel.Scalar8x32Mul512 Kernel.Scalar8x32Reduce512.
Require Import Gen.scalar8x32_mul_512 Gen.scalar8x32_sqr_512 Gen.scalar8x32_reduce_512 Gen.scalar8x32_mul Gen.scalar8x32_sqr.
Local Open Scope Z_scope.

Theorem scalar8x32_mul_correct a0 a1 a2 a3 a4 a5 a6 a7 b0 b1 b2 b3 b4 b5 b6 b7 :
  0 <= a0 < 2^32 -> 0 <= a1 < 2^32 -> 0 <= a2 < 2^32 -> 0 <= a3 < 2^32 -> 0 <= a4 < 2^32 -> 0 <= a5 < 2^32 -> 0 <= a6 < 2^32 -> 0 <= a7 < 2^32 -> 0 <= b0 < 2^32 -> 0 <= b1 < 2^32 -> 0 <= b2 < 2^32 -> 0 <= b3 < 2^32 -> 0 <= b4 < 2^32 -> 0 <= b5 < 2^32 -> 0 <= b6 < 2^32 -> 0 <= b7 < 2^32 ->
  forall Q : Z -> Z -> Z -> Z -> Z -> Z -> Z -> Z -> Prop,
  (forall r0 r1 r2 r3 r4 r5 r6 r7, (0 <= r0 < 2^32 /\ 0 <= r1 < 2^32 /\ 0 <= r2 < 2^32 /\ 0 <= r3 < 2^32 /\ 0 <= r4 < 2^32 /\ 0 <= r5 < 2^32 /\ 0 <= r6 < 2^32 /\ 0 <= r7 < 2^32) /\ val8w r0 r1 r2 r3 r4 r5 r6 r7 = (val8w a0 a1 a2 a3 a4 a5 a6 a7 * val8w b0 b1 b2 b3 b4 b5 b6 b7) mod N256 -> Q r0 r1 r2 r3 r4 r5 r6 r7) ->
  scalar8x32_mul_k a0 a1 a2 a3 a4 a5 a6 a7 b0 b1 b2 b3 b4 b5 b6 b7 Q.
Proof.
  intros Ha0 Ha1 Ha2 Ha3 Ha4 Ha5 Ha6 Ha7 Hb0 Hb1 Hb2 Hb3 Hb4 Hb5 Hb6 Hb7 Q HQ. unfold scalar8x32_mul_k.
  apply scalar8x32_mul_512_wp; try assumption.
  intros l0 l1 l2 l3 l4 l5 l6 l7 l8 l9 l10 l11 l12 l13 l14 l15 [Hr Hv].
  apply scalar8x32_reduce_512_wp; try (clear - Hr; tauto).
  intros r0 r1 r2 r3 r4 r5 r6 r7 [Hrr Hrv]. unfold red_spec in Hrv. apply HQ. split; [exact Hrr|]. rewrite Hrv, Hv. reflexivity.
Qed.

Theorem scalar8x32_sqr_correct a0 a1 a2 a3 a4 a5 a6 a7 :
  0 <= a0 < 2^32 -> 0 <= a1 < 2^32 -> 0 <= a2 < 2^32 -> 0 <= a3 < 2^32 -> 0 <= a4 < 2^32 -> 0 <= a5 < 2^32 -> 0 <= a6 < 2^32 -> 0 <= a7 < 2^32 ->
  forall Q : Z -> Z -> Z -> Z -> Z -> Z -> Z -> Z -> Prop,
  (forall r0 r1 r2 r3 r4 r5 r6 r7, (0 <= r0 < 2^32 /\ 0 <= r1 < 2^32 /\ 0 <= r2 < 2^32 /\ 0 <= r3 < 2^32 /\ 0 <= r4 < 2^32 /\ 0 <= r5 < 2^32 /\ 0 <= r6 < 2^32 /\ 0 <= r7 < 2^32) /\ val8w r0 r1 r2 r3 r4 r5 r6 r7 = (val8w a0 a1 a2 a3 a4 a5 a6 a7 * val8w a0 a1 a2 a3 a4 a5 a6 a7) mod N256 -> Q r0 r1 r2 r3 r4 r5 r6 r7) ->
  scalar8x32_sqr_k a0 a1 a2 a3 a4 a5 a6 a7 Q.
Proof.
  intros Ha0 Ha1 Ha2 Ha3 Ha4 Ha5 Ha6 Ha7 Q HQ. unfold scalar8x32_sqr_k.
  apply scalar8x32_sqr_512_wp; try assumption.
  intros l0 l1 l2 l3 l4 l5 l6 l7 l8 l9 l10 l11 l12 l13 l14 l15 [Hr Hv].
  apply scalar8x32_reduce_512_wp; try (clear - Hr; tauto).
  intros r0 r1 r2 r3 r4 r5 r6 r7 [Hrr Hrv]. unfold red_spec in Hrv. apply HQ. split; [exact Hrr|]. rewrite Hrv, Hv. reflexivity.
Qed.
