(* Proofs ABOUT three more generated branch-free primitives: scalar equality, the conditional move on ints, the parity of a
   normalized field element (Gen/scalar_eq.v, Gen/int_cmov.v, Gen/fe_impl_is_odd.v; regenerated from the C source on every run). *)
From Coq Require Import ZArith Lia List Bool.
Require Import Kernel.CSem Kernel.CtPrimitives Kernel.Field5x52 Kernel.ScalarAdd Gen.scalar_eq Gen.int_cmov Gen.fe_impl_is_odd.
Import ListNotations.
Local Open Scope Z_scope.
Ltac Zify.zify_post_hook ::= Z.div_mod_to_equations.

Theorem scalar_eq_correct a0 a1 a2 a3 b0 b1 b2 b3 :
  0 <= a0 -> 0 <= a1 -> 0 <= a2 -> 0 <= a3 -> 0 <= b0 -> 0 <= b1 -> 0 <= b2 -> 0 <= b3 ->
  scalar_eq a0 a1 a2 a3 b0 b1 b2 b3 = if (a0 =? b0) && (a1 =? b1) && (a2 =? b2) && (a3 =? b3) then 1 else 0.
Proof.
  intros. unfold scalar_eq, scalar_eq_k. cbv zeta.
  assert (L : forall x y, 0 <= x -> 0 <= y -> (Z.lor x y =? 0) = (x =? 0) && (y =? 0)).
  { intros x y Hx Hy. destruct (Z.eqb_spec (Z.lor x y) 0) as [E|E].
    - apply Z.lor_eq_0_iff in E. destruct E; subst. reflexivity.
    - destruct (Z.eqb_spec x 0), (Z.eqb_spec y 0); subst; try reflexivity. exfalso. apply E. reflexivity. }
  assert (X : forall x y, 0 <= x -> 0 <= y -> 0 <= Z.lxor x y) by (intros; apply Z.lxor_nonneg; tauto).
  assert (E : forall x y, (Z.lxor x y =? 0) = (x =? y)).
  { intros x y. destruct (Z.eqb_spec x y) as [->|Hn]. - rewrite Z.lxor_nilpotent. reflexivity.
    - destruct (Z.eqb_spec (Z.lxor x y) 0) as [E0|E0]; [exfalso; exact (Hn (proj1 (Z.lxor_eq_0_iff x y) E0))|reflexivity]. }
  rewrite !L, !E by (repeat first [apply Z.lor_nonneg; split | apply X | assumption]).
  destruct ((a0 =? b0) && (a1 =? b1) && (a2 =? b2) && (a3 =? b3)); reflexivity.
Qed.

Lemma sN32_u32 v : - 2^31 <= v < 2^31 -> sN 32 (u32 v) = v.
Proof.
  intros H. unfold sN, u32. cbv zeta. rewrite Z.mod_mod by lia. change (2^(32-1)) with (2^31).
  destruct (Z.ltb_spec (v mod 2^32) (2^31)); lia.
Qed.

Theorem int_cmov_correct r a flag :
  - 2^31 <= r < 2^31 -> - 2^31 <= a < 2^31 -> (flag = 0 \/ flag = 1) ->
  int_cmov r a flag = [if flag =? 1 then a else r].
Proof.
  intros Hr Ha Hf. unfold int_cmov, int_cmov_k. cbv zeta.
  assert (Ru : 0 <= u32 r < 2^32) by (unfold u32; lia). assert (Au : 0 <= u32 a < 2^32) by (unfold u32; lia).
  destruct Hf as [-> | ->].
  - change (u32 (u32 0 + (4294967295 - 0))) with 4294967295. change (4294967295 - 4294967295) with 0.
    rewrite land_all32, Z.land_0_r, Z.lor_0_r by lia. rewrite sN32_u32 by lia. reflexivity.
  - change (u32 (u32 1 + (4294967295 - 0))) with 0. change (4294967295 - 0) with 4294967295.
    rewrite land_all32, Z.land_0_r, Z.lor_0_l by lia. rewrite sN32_u32 by lia. reflexivity.
Qed.

Theorem fe_is_odd_correct n0 n1 n2 n3 n4 :
  0 <= n0 -> fe_impl_is_odd n0 = val5 n0 n1 n2 n3 n4 mod 2.
Proof.
  intros H. unfold fe_impl_is_odd, fe_impl_is_odd_k. cbv zeta.
  assert (L1 : Z.land n0 1 = n0 mod 2) by (change 1 with (Z.ones 1); apply Z.land_ones; lia).
  rewrite L1, sN32_small by lia. unfold val5. lia.
Qed.
