(* Proofs ABOUT the generated scalar range tests (Gen/scalar_check_overflow.v, Gen/scalar_is_high.v,
   regenerated from src/scalar_4x64_impl.h): the branch-free yes/no flag arithmetic decides exactly
   value >= n, respectively value > n/2, for ALL 4x64-bit limb values. *)
From Coq Require Import ZArith Lia List Bool.
Require Import Kernel.CSem Gen.scalar_check_overflow Gen.scalar_is_high.
Local Open Scope Z_scope.

Definition N256 := 0xFFFFFFFFFFFFFFFFFFFFFFFFFFFFFFFEBAAEDCE6AF48A03BBFD25E8CD0364141.
Definition val4 (d0 d1 d2 d3 : Z) := d0 + d1 * 2^64 + d2 * 2^128 + d3 * 2^192.

Ltac split_cmps :=
  rewrite ?Z.gtb_ltb, ?Z.geb_leb;
  repeat match goal with
  | |- context[?a <? ?b] => destruct (Z.ltb_spec a b)
  | |- context[?a <=? ?b] => destruct (Z.leb_spec a b)
  end.

Theorem scalar_check_overflow_correct d0 d1 d2 d3 :
  0 <= d0 < 2^64 -> 0 <= d1 < 2^64 -> 0 <= d2 < 2^64 -> 0 <= d3 < 2^64 ->
  scalar_check_overflow d0 d1 d2 d3 = if N256 <=? val4 d0 d1 d2 d3 then 1 else 0.
Proof.
  intros H0 H1 H2 H3. unfold scalar_check_overflow, scalar_check_overflow_k.
  destruct (Z.leb_spec N256 (val4 d0 d1 d2 d3)) as [Hv|Hv]; unfold N256, val4 in Hv;
  split_cmps; cbn [b2z]; try reflexivity; exfalso; lia.
Qed.

Theorem scalar_is_high_correct d0 d1 d2 d3 :
  0 <= d0 < 2^64 -> 0 <= d1 < 2^64 -> 0 <= d2 < 2^64 -> 0 <= d3 < 2^64 ->
  scalar_is_high d0 d1 d2 d3 = if N256 / 2 <? val4 d0 d1 d2 d3 then 1 else 0.
Proof.
  intros H0 H1 H2 H3. unfold scalar_is_high, scalar_is_high_k.
  change (N256 / 2) with 0x7FFFFFFFFFFFFFFFFFFFFFFFFFFFFFFF5D576E7357A4501DDFE92F46681B20A0.
  destruct (Z.ltb_spec 0x7FFFFFFFFFFFFFFFFFFFFFFFFFFFFFFF5D576E7357A4501DDFE92F46681B20A0 (val4 d0 d1 d2 d3)) as [Hv|Hv]; unfold val4 in Hv;
  split_cmps; cbn [b2z]; try reflexivity; exfalso; lia.
Qed.
