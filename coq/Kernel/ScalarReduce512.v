(* Proof ABOUT the generated 512 -> 256 bit scalar reduction (Gen/scalar_reduce_512.v: the portable C path of
   secp256k1_scalar_reduce_512 in src/scalar_4x64_impl.h with the final secp256k1_scalar_reduce translated in
   place): for ALL eight 64-bit limbs the result is the canonical residue modulo the group order n:
   limbs in range, value < n, value = input mod n.  The three folding stages (512 -> 385 -> 258 -> 256 bits,
   using 2^256 = n + N_C) never lose a carry. *)
From Coq Require Import ZArith Lia List Bool.
Require Import Kernel.CSem Kernel.Bind Kernel.Scalar4x64 Kernel.ScalarMul512 Gen.scalar_check_overflow Gen.scalar_reduce_512.
Import ListNotations.
Local Open Scope Z_scope.
Ltac Zify.zify_post_hook ::= Z.div_mod_to_equations.

Definition NC0 := 4624529908474429119.
Definition NC1 := 4994812053365940164.
Lemma NC_ok : NC0 + NC1 * 2^64 + 2^128 = 2^256 - N256.
Proof. reflexivity. Qed.

(* muladd with a 64-bit third word *)
Lemma muladd64_full c0 c1 c2 p : 0 <= c0 < 2^64 -> 0 <= c1 < 2^64 -> 0 <= c2 < 2^63 -> 0 <= p <= (2^64 - 1) * (2^64 - 1) ->
  let t := u128 p in let th := t / 2^64 in let tl := u64 t in
  let n0 := u64 (c0 + tl) in let th2 := u64 (th + u64 (b2z (n0 <? tl))) in
  let n1 := u64 (c1 + th2) in let n2 := u64 (c2 + u64 (b2z (n1 <? th2))) in
  n0 + n1 * 2^64 + n2 * 2^128 = c0 + c1 * 2^64 + c2 * 2^128 + p /\ 0 <= n0 < 2^64 /\ 0 <= n1 < 2^64 /\ c2 <= n2 <= c2 + 1.
Proof.
  intros H0 H1 H2 Hp. cbv zeta. unfold u128, u64. rewrite (Z.mod_small p (2^128)) by lia.
  assert (Hth : 0 <= p / 2^64 <= 2^64 - 2) by lia.
  set (tl := p mod 2^64). assert (Htl : 0 <= tl < 2^64) by (unfold tl; lia).
  rewrite (carry64 c0 tl) by lia.
  set (k0 := (c0 + tl) / 2^64). assert (Hk0 : 0 <= k0 <= 1) by (unfold k0; lia).
  rewrite (Z.mod_small k0) by lia. rewrite (Z.mod_small (p / 2^64 + k0)) by lia.
  set (th2 := p / 2^64 + k0). assert (Hth2 : 0 <= th2 < 2^64) by (unfold th2; lia).
  rewrite (carry64 c1 th2) by lia.
  set (k1 := (c1 + th2) / 2^64). assert (Hk1 : 0 <= k1 <= 1) by (unfold k1; lia).
  rewrite (Z.mod_small k1) by lia. rewrite (Z.mod_small (c2 + k1)) by lia.
  unfold k1, th2, k0, tl. lia.
Qed.

(* sumadd: (c0,c1,c2) += a *)
Lemma sumadd_full c0 c1 c2 a : 0 <= c0 < 2^64 -> 0 <= c1 < 2^64 -> 0 <= c2 < 2^63 -> 0 <= a < 2^64 ->
  let n0 := u64 (c0 + a) in let over := u32 (b2z (n0 <? a)) in
  let n1 := u64 (c1 + over) in let n2 := u64 (c2 + u64 (b2z (n1 <? over))) in
  n0 + n1 * 2^64 + n2 * 2^128 = c0 + c1 * 2^64 + c2 * 2^128 + a /\ 0 <= n0 < 2^64 /\ 0 <= n1 < 2^64 /\ c2 <= n2 <= c2 + 1.
Proof.
  intros H0 H1 H2 Ha. cbv zeta. unfold u64, u32.
  rewrite (carry64 c0 a) by lia.
  set (k0 := (c0 + a) / 2^64). assert (Hk0 : 0 <= k0 <= 1) by (unfold k0; lia).
  rewrite (Z.mod_small k0 (2^32)) by lia.
  rewrite (carry64 c1 k0) by lia.
  set (k1 := (c1 + k0) / 2^64). assert (Hk1 : 0 <= k1 <= 1) by (unfold k1; lia).
  rewrite (Z.mod_small k1) by lia. rewrite (Z.mod_small (c2 + k1)) by lia.
  unfold k1, k0. lia.
Qed.

(* sumadd_fast: (c0,c1) += a, no carry out of c1 *)
Lemma sumadd_fast_full c0 c1 a : 0 <= c0 < 2^64 -> 0 <= c1 < 2^64 - 1 -> 0 <= a < 2^64 ->
  let n0 := u64 (c0 + a) in let n1 := u64 (c1 + u64 (b2z (n0 <? a))) in
  n0 + n1 * 2^64 = c0 + c1 * 2^64 + a /\ 0 <= n0 < 2^64 /\ c1 <= n1 <= c1 + 1.
Proof.
  intros H0 H1 Ha. cbv zeta. unfold u64.
  rewrite (carry64 c0 a) by lia.
  set (k0 := (c0 + a) / 2^64). assert (Hk0 : 0 <= k0 <= 1) by (unfold k0; lia).
  rewrite (Z.mod_small k0) by lia. rewrite (Z.mod_small (c1 + k0)) by lia.
  unfold k0. lia.
Qed.

(* the constants N_C_0, N_C_1 appear in the generated code as the C expressions ~N_0 + 1 and ~N_1; they are replaced
   by their values only inside hypotheses (never in the big goal: Qed would have to re-convert the whole chain) *)
Ltac norm_in H :=
  try change (u64 (18446744073709551615 - 13822214165235122497 + 1)) with 4624529908474429119 in H;
  try change (18446744073709551615 - 13451932020343611451) with 4994812053365940164 in H.
Ltac norm_prod p :=
  lazymatch p with
  | ?a * ?k => let k' := eval vm_compute in k in constr:(a * k')
  | _ => p
  end.

(* muladd_fast with the tight bound on the second word (needed where the operand is tiny) *)
Lemma muladd_fast_fullb c0 c1 p : 0 <= c0 < 2^64 -> 0 <= c1 -> 0 <= p <= (2^64 - 1) * (2^64 - 1) -> c0 + c1 * 2^64 + p < 2^128 ->
  let t := u128 p in let th := t / 2^64 in let tl := u64 t in
  let n0 := u64 (c0 + tl) in let th2 := u64 (th + u64 (b2z (n0 <? tl))) in
  let n1 := u64 (c1 + th2) in
  n0 + n1 * 2^64 = c0 + c1 * 2^64 + p /\ 0 <= n0 < 2^64 /\ (0 <= n1 < 2^64 /\ n1 <= c1 + p / 2^64 + 1).
Proof.
  intros H0 H1 Hp Hs. pose proof (muladd_fast_full c0 c1 p H0 H1 Hp Hs) as S. cbv zeta in *.
  destruct S as [S1 [S2 S3]]. repeat split; try lia.
Qed.

(* ---- the same facts in equational form: the chain is walked with [bind_intro], which leaves one equation
        [x = e] per assignment; nothing is ever substituted into the remaining chain ---- *)
Lemma muladd64_eq c0 c1 c2 p t th tl n0 th2 n1 n2 :
  t = u128 p -> th = t / 2^64 -> tl = u64 t -> n0 = u64 (c0 + tl) -> th2 = u64 (th + u64 (b2z (n0 <? tl))) ->
  n1 = u64 (c1 + th2) -> n2 = u64 (c2 + u64 (b2z (n1 <? th2))) ->
  0 <= c0 < 2^64 -> 0 <= c1 < 2^64 -> 0 <= c2 < 2^63 -> 0 <= p <= (2^64 - 1) * (2^64 - 1) ->
  n0 + n1 * 2^64 + n2 * 2^128 = c0 + c1 * 2^64 + c2 * 2^128 + p /\ 0 <= n0 < 2^64 /\ 0 <= n1 < 2^64 /\ c2 <= n2 <= c2 + 1.
Proof. intros; subst; apply muladd64_full; assumption. Qed.
Lemma muladd_fast_eq c0 c1 p t th tl n0 th2 n1 :
  t = u128 p -> th = t / 2^64 -> tl = u64 t -> n0 = u64 (c0 + tl) -> th2 = u64 (th + u64 (b2z (n0 <? tl))) -> n1 = u64 (c1 + th2) ->
  0 <= c0 < 2^64 -> 0 <= c1 -> 0 <= p <= (2^64 - 1) * (2^64 - 1) -> c0 + c1 * 2^64 + p < 2^128 ->
  n0 + n1 * 2^64 = c0 + c1 * 2^64 + p /\ 0 <= n0 < 2^64 /\ (0 <= n1 < 2^64 /\ n1 <= c1 + p / 2^64 + 1).
Proof. intros; subst; apply muladd_fast_fullb; assumption. Qed.
Lemma sumadd_eq c0 c1 c2 a n0 over n1 n2 :
  n0 = u64 (c0 + a) -> over = u32 (b2z (n0 <? a)) -> n1 = u64 (c1 + over) -> n2 = u64 (c2 + u64 (b2z (n1 <? over))) ->
  0 <= c0 < 2^64 -> 0 <= c1 < 2^64 -> 0 <= c2 < 2^63 -> 0 <= a < 2^64 ->
  n0 + n1 * 2^64 + n2 * 2^128 = c0 + c1 * 2^64 + c2 * 2^128 + a /\ 0 <= n0 < 2^64 /\ 0 <= n1 < 2^64 /\ c2 <= n2 <= c2 + 1.
Proof. intros; subst; apply sumadd_full; assumption. Qed.
Lemma sumadd_fast_eq c0 c1 a n0 n1 :
  n0 = u64 (c0 + a) -> n1 = u64 (c1 + u64 (b2z (n0 <? a))) ->
  0 <= c0 < 2^64 -> 0 <= c1 < 2^64 - 1 -> 0 <= a < 2^64 ->
  n0 + n1 * 2^64 = c0 + c1 * 2^64 + a /\ 0 <= n0 < 2^64 /\ c1 <= n1 <= c1 + 1.
Proof. intros; subst; apply sumadd_fast_full; assumption. Qed.
Lemma split64_eq v r c : r = u64 v -> c = v / 2^64 -> v = r + c * 2^64 /\ 0 <= r < 2^64.
Proof. intros; subst; unfold u64; lia. Qed.
Lemma trunc64_eq v x : x = u64 v -> v = x + (v / 2^64) * 2^64 /\ 0 <= x < 2^64.
Proof. intros; subst; unfold u64; lia. Qed.

(* introduce the next assignment: a fresh variable named after the C variable, and its defining equation *)
Ltac bintro :=
  lazymatch goal with |- bind _ (fun x => _) =>
    apply bind_intro; let x' := fresh x in let H := fresh "Q" in intros x' H; cbv beta end.

Ltac keep_step :=
  lazymatch goal with |- bind ?e _ => first [is_var e | constr_eq e 0] end; bintro.

Ltac muladd64_step :=
  do 7 bintro;
  lazymatch goal with
  | Ht : ?t = u128 ?p, Hth : ?th = ?t / 2^64, Htl : ?tl = u64 ?t, H0 : ?n0 = u64 (?c0 + ?tl),
    Hth2 : ?th2 = u64 (?th + u64 (b2z (?n0 <? ?tl))), H1 : ?n1 = u64 (?c1 + ?th2), H2 : ?n2 = u64 (?c2 + u64 (b2z (?n1 <? ?th2))) |- _ =>
    let p' := norm_prod p in
    let A := fresh "A" in let B := fresh "B" in let C := fresh "C" in let D := fresh "D" in let S := fresh "S" in
    assert (A : 0 <= c0 < 2^64) by (timeout 120 lia); assert (B : 0 <= c1 < 2^64) by (timeout 120 lia); assert (C : 0 <= c2 < 2^63) by (timeout 120 lia);
    assert (D : 0 <= p' <= (2^64 - 1) * (2^64 - 1)) by (timeout 120 lia);
    pose proof (muladd64_eq c0 c1 c2 p' t th tl n0 th2 n1 n2 Ht Hth Htl H0 Hth2 H1 H2 A B C D) as S;
    clear A B C D Ht Hth Htl H0 Hth2 H1 H2;
    pose proof (proj1 S); pose proof (proj1 (proj2 S)); pose proof (proj1 (proj2 (proj2 S))); pose proof (proj2 (proj2 (proj2 S))); clear S
  end.

Ltac muladd_fast_step :=
  do 6 bintro;
  lazymatch goal with
  | Ht : ?t = u128 ?p, Hth : ?th = ?t / 2^64, Htl : ?tl = u64 ?t, H0 : ?n0 = u64 (?c0 + ?tl),
    Hth2 : ?th2 = u64 (?th + u64 (b2z (?n0 <? ?tl))), H1 : ?n1 = u64 (?c1 + ?th2) |- _ =>
    let p' := norm_prod p in
    let A := fresh "A" in let B := fresh "B" in let C := fresh "C" in let D := fresh "D" in let S := fresh "S" in
    assert (A : 0 <= c0 < 2^64) by (timeout 120 lia); assert (B : 0 <= c1) by (timeout 120 lia);
    assert (C : 0 <= p' <= (2^64 - 1) * (2^64 - 1)) by (timeout 120 lia); assert (D : c0 + c1 * 2^64 + p' < 2^128) by (timeout 120 lia);
    pose proof (muladd_fast_eq c0 c1 p' t th tl n0 th2 n1 Ht Hth Htl H0 Hth2 H1 A B C D) as S;
    clear A B C D Ht Hth Htl H0 Hth2 H1;
    pose proof (proj1 S); pose proof (proj1 (proj2 S)); pose proof (proj2 (proj2 S)); clear S
  end.

Ltac sumadd_step :=
  do 4 bintro;
  lazymatch goal with
  | H0 : ?n0 = u64 (?c0 + ?a), Ho : ?over = u32 (b2z (?n0 <? ?a)), H1 : ?n1 = u64 (?c1 + ?over), H2 : ?n2 = u64 (?c2 + u64 (b2z (?n1 <? ?over))) |- _ =>
    let A := fresh "A" in let B := fresh "B" in let C := fresh "C" in let D := fresh "D" in let S := fresh "S" in
    assert (A : 0 <= c0 < 2^64) by (timeout 120 lia); assert (B : 0 <= c1 < 2^64) by (timeout 120 lia); assert (C : 0 <= c2 < 2^63) by (timeout 120 lia);
    assert (D : 0 <= a < 2^64) by (timeout 120 lia);
    pose proof (sumadd_eq c0 c1 c2 a n0 over n1 n2 H0 Ho H1 H2 A B C D) as S;
    clear A B C D H0 Ho H1 H2;
    pose proof (proj1 S); pose proof (proj1 (proj2 S)); pose proof (proj1 (proj2 (proj2 S))); pose proof (proj2 (proj2 (proj2 S))); clear S
  end.

Ltac sumadd_fast_step :=
  do 2 bintro;
  lazymatch goal with
  | H0 : ?n0 = u64 (?c0 + ?a), H1 : ?n1 = u64 (?c1 + u64 (b2z (?n0 <? ?a))) |- _ =>
    let A := fresh "A" in let B := fresh "B" in let D := fresh "D" in let S := fresh "S" in
    assert (A : 0 <= c0 < 2^64) by (timeout 120 lia); assert (B : 0 <= c1 < 2^64 - 1) by (timeout 120 lia); assert (D : 0 <= a < 2^64) by (timeout 120 lia);
    pose proof (sumadd_fast_eq c0 c1 a n0 n1 H0 H1 A B D) as S;
    clear A B D H0 H1;
    pose proof (proj1 S); pose proof (proj1 (proj2 S)); pose proof (proj2 (proj2 S)); clear S
  end.

(* any other assignment: remove the wraps that provably do nothing from its equation *)
Ltac wrap_eq H :=
  norm_in H; unfold u128, u64, u32 in H; repeat (rewrite Z.mod_small in H by (timeout 300 lia)).
Ltac u128_step :=
  lazymatch goal with |- bind (u128 _) _ => idtac end; bintro;
  lazymatch goal with H : _ = u128 _ |- _ => wrap_eq H end.
(* low word / carry of an accumulator: r = v mod 2^64, c = v / 2^64, kept in linear form *)
Ltac split_step :=
  do 2 bintro;
  lazymatch goal with Hr : ?r = u64 ?v, Hc : ?c = ?v / 2^64 |- _ =>
    let S := fresh "S" in pose proof (split64_eq v r c Hr Hc) as S; clear Hr Hc;
    pose proof (proj1 S); pose proof (proj2 S); clear S;
    let P := fresh "P" in assert (P : 0 <= c) by (timeout 120 lia) end.
Ltac trunc_step :=
  lazymatch goal with |- bind (u64 ?v) _ => is_var v end; bintro;
  lazymatch goal with H : ?x = u64 ?v |- _ =>
    let cx := fresh "ctop" in let E := fresh "E" in
    let S := fresh "S" in pose proof (trunc64_eq v x H) as S; clear H;
    remember (v / 2^64) as cx eqn:E;
    pose proof (proj1 S); pose proof (proj2 S); clear S;
    let P := fresh "P" in assert (P : 0 <= cx) by (timeout 120 lia); clear E end.
(* p4 = c0 + m6: a sum of two carry counts *)
Ltac small_sum_step :=
  lazymatch goal with |- bind (u32 (u64 (_ + _))) _ => idtac end; bintro;
  lazymatch goal with H : ?x = u32 (u64 (?a + ?b)) |- _ =>
    let B := fresh "B" in assert (B : 0 <= a + b <= 12) by (timeout 120 lia);
    unfold u32, u64 in H; rewrite (Z.mod_small (a + b) (2^64)) in H by (timeout 120 lia); rewrite (Z.mod_small (a + b) (2^32)) in H by (timeout 120 lia) end.
Ltac u32_small_step :=
  lazymatch goal with |- bind (u32 ?v) _ => is_var v end; bintro;
  lazymatch goal with H : ?x = u32 ?v |- _ => unfold u32 in H; rewrite (Z.mod_small v (2^32)) in H by (timeout 120 lia) end.
Definition hidden (P : Prop) : Prop := P.
(* a use of the (separately proved) range test: replace it by its specification *)
Ltac overflow_step :=
  lazymatch goal with |- bind ?e _ => lazymatch e with context[scalar_check_overflow _ _ _ _] => idtac end end; bintro;
  lazymatch goal with E : context[scalar_check_overflow ?a ?b ?c ?d] |- _ =>
     let H := fresh "CO" in let co := fresh "co" in let Hb := fresh "COb" in let Eco := fresh "Eco" in
     pose proof (scalar_check_overflow_correct a b c d ltac:(timeout 120 lia) ltac:(timeout 120 lia) ltac:(timeout 120 lia) ltac:(timeout 120 lia)) as H;
     remember (scalar_check_overflow a b c d) as co eqn:Eco; clear Eco;
     assert (Hb : 0 <= co <= 1) by (rewrite H; destruct (N256 <=? val4 a b c d); lia);
     change (hidden (co = (if N256 <=? val4 a b c d then 1 else 0))) in H;
     unfold u128, u64, u32 in E; repeat (rewrite Z.mod_small in E by (timeout 300 lia))
  end.

(* r is the canonical residue of v modulo the group order (a definition, so that the arithmetic tactics do not look inside
   hypotheses that merely mention it) *)
Definition red_spec (v r : Z) : Prop := r = v mod N256.

(* weakest-precondition form: every continuation Q that holds of all canonical residues holds of the generated code run with Q *)
Theorem scalar_reduce_512_wp l0 l1 l2 l3 l4 l5 l6 l7 :
  0 <= l0 < 2^64 -> 0 <= l1 < 2^64 -> 0 <= l2 < 2^64 -> 0 <= l3 < 2^64 ->
  0 <= l4 < 2^64 -> 0 <= l5 < 2^64 -> 0 <= l6 < 2^64 -> 0 <= l7 < 2^64 ->
  forall Q : Z -> Z -> Z -> Z -> Prop,
  (forall r0 r1 r2 r3, (0 <= r0 < 2^64 /\ 0 <= r1 < 2^64 /\ 0 <= r2 < 2^64 /\ 0 <= r3 < 2^64) /\
    red_spec (val8 l0 l1 l2 l3 l4 l5 l6 l7) (val4 r0 r1 r2 r3) -> Q r0 r1 r2 r3) ->
  scalar_reduce_512_k l0 l1 l2 l3 l4 l5 l6 l7 Q.
Proof.
  intros H0 H1 H2 H3 H4 H5 H6 H7 Q HQ.
  unfold scalar_reduce_512_k.
  (* stage 1: 512 -> 385 bits *)
  repeat first [ muladd64_step | muladd_fast_step | sumadd_step | sumadd_fast_step | keep_step ].
  u32_small_step.
  assert (SM : m0 + m1 * 2^64 + m2 * 2^128 + m3 * 2^192 + m4 * 2^256 + m5 * 2^320 + m6 * 2^384 =
               l0 + l1 * 2^64 + l2 * 2^128 + l3 * 2^192 + (l4 + l5 * 2^64 + l6 * 2^128 + l7 * 2^192) * (4624529908474429119 + 4994812053365940164 * 2^64 + 2^128)) by (timeout 600 lia).
  assert (Bm : (0 <= m0 < 2^64 /\ 0 <= m1 < 2^64 /\ 0 <= m2 < 2^64 /\ 0 <= m3 < 2^64) /\ (0 <= m4 < 2^64 /\ 0 <= m5 < 2^64 /\ 0 <= m6 <= 3)) by (timeout 600 lia).
  clear - SM Bm HQ H0 H1 H2 H3 H4 H5 H6 H7.
  (* stage 2: 385 -> 258 bits *)
  repeat first [ muladd64_step | muladd_fast_step | sumadd_step | sumadd_fast_step | keep_step ].
  small_sum_step.
  assert (SP : p0 + p1 * 2^64 + p2 * 2^128 + p3 * 2^192 + p4 * 2^256 =
               m0 + m1 * 2^64 + m2 * 2^128 + m3 * 2^192 + (m4 + m5 * 2^64 + m6 * 2^128) * (4624529908474429119 + 4994812053365940164 * 2^64 + 2^128)) by (timeout 600 lia).
  assert (Bp : (0 <= p0 < 2^64 /\ 0 <= p1 < 2^64 /\ 0 <= p2 < 2^64 /\ 0 <= p3 < 2^64) /\ 0 <= p4 <= 12) by (timeout 600 lia).
  clear - SM Bm SP Bp HQ H0 H1 H2 H3 H4 H5 H6 H7.
  (* stage 3: 258 -> 256 bits, and the final conditional subtraction of n *)
  repeat first [ split_step | keep_step | overflow_step | u128_step | trunc_step ].
  bintro. cbv beta. apply HQ. clear HQ. unfold red_spec.
  unfold hidden in *.
  match goal with H : ?co = (if N256 <=? ?v then 1 else 0) |- _ => destruct (Z.leb_spec N256 v) as [Hv|Hv] end.
  all: unfold val4, val8, N256 in *.
  (* value after the third fold, and after the conditional addition of N_C *)
  all: assert (A1 : r_d0 + r_d1 * 2^64 + r_d2 * 2^128 + r_d3 * 2^192 + c * 2^256 =
                    p0 + p1 * 2^64 + p2 * 2^128 + p3 * 2^192 + p4 * (4624529908474429119 + 4994812053365940164 * 2^64 + 2^128)) by (timeout 600 lia).
  all: assert (A2 : r_d4 + r_d5 * 2^64 + r_d6 * 2^128 + r_d7 * 2^192 + ctop * 2^256 =
                    r_d0 + r_d1 * 2^64 + r_d2 * 2^128 + r_d3 * 2^192 + scalar_reduce1_overflow * (4624529908474429119 + 4994812053365940164 * 2^64 + 2^128)) by (timeout 600 lia).
  all: assert (A3 : c = 0 \/ c = 1) by (timeout 600 lia).
  all: split; [lia|].
  all: assert (RB : 0 <= r_d4 + r_d5 * 2^64 + r_d6 * 2^128 + r_d7 * 2^192 < 2^256) by (timeout 600 lia).
  all: assert (RR : 0 <= r_d0 + r_d1 * 2^64 + r_d2 * 2^128 + r_d3 * 2^192 < 2^256) by (timeout 600 lia).
  all: assert (PT : 0 <= ctop) by (timeout 600 lia).
  all: match goal with Q : _ = _ + ?co', CO' : ?co' = _ |- _ => rename Q into E5 end.
  all: clear - SM Bm SP Bp A1 A2 A3 CO E5 Hv RB RR PT H0 H1 H2 H3 H4 H5 H6 H7.
  all: apply (Z.mod_unique_pos _ _ ((l4 + l5 * 2^64 + l6 * 2^128 + l7 * 2^192) + (m4 + m5 * 2^64 + m6 * 2^128) + p4 + scalar_reduce1_overflow)).
  all: destruct A3; subst c co scalar_reduce1_overflow.
  all: lia.
Qed.

Theorem scalar_reduce_512_correct l0 l1 l2 l3 l4 l5 l6 l7 :
  0 <= l0 < 2^64 -> 0 <= l1 < 2^64 -> 0 <= l2 < 2^64 -> 0 <= l3 < 2^64 ->
  0 <= l4 < 2^64 -> 0 <= l5 < 2^64 -> 0 <= l6 < 2^64 -> 0 <= l7 < 2^64 ->
  scalar_reduce_512_k l0 l1 l2 l3 l4 l5 l6 l7 (fun r0 r1 r2 r3 =>
    (0 <= r0 < 2^64 /\ 0 <= r1 < 2^64 /\ 0 <= r2 < 2^64 /\ 0 <= r3 < 2^64) /\
    val4 r0 r1 r2 r3 = val8 l0 l1 l2 l3 l4 l5 l6 l7 mod N256).
Proof.
  intros. apply scalar_reduce_512_wp; try assumption. intros r0 r1 r2 r3 HP. exact HP.
Qed.
