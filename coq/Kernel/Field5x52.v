(* Proofs ABOUT the generated field multiplication / squaring (Gen/fe_mul_inner.v, Gen/fe_sqr_inner.v,
   regenerated from /repo/src/field_5x52_int128_impl.h on every run).  For ALL limb values within the
   magnitude contract (limbs < 2^56, top limb < 2^52): no 128-bit accumulator ever wraps, the output
   limbs are < 2^52 (top < 2^49), and the value is congruent to the product modulo p. *)
From Coq Require Import ZArith Lia List.
Require Import Kernel.CSem Gen.fe_mul_inner Gen.fe_sqr_inner.
Import ListNotations.
Local Open Scope Z_scope.

Definition P256 := 2^256 - 2^32 - 977.
Definition val5 (r0 r1 r2 r3 r4 : Z) := r0 + r1 * 2^52 + r2 * 2^104 + r3 * 2^156 + r4 * 2^208.

Lemma land_ones52 x : 0 <= x -> Z.land x 4503599627370495 = x mod 2^52.
Proof. intros. change 4503599627370495 with (Z.ones 52). apply Z.land_ones. lia. Qed.
Lemma land_ones48 x : 0 <= x -> Z.land x (4503599627370495 / 2^4) = x mod 2^48.
Proof. intros. change (4503599627370495 / 2^4) with (Z.ones 48). apply Z.land_ones. lia. Qed.
Lemma lor_shift4 a t : 0 <= a -> 0 <= t < 2^4 -> Z.lor (a * 2^4) t = a * 2^4 + t.
Proof.
  intros Ha Ht. rewrite <- Z.shiftl_mul_pow2 by lia.
  assert (Hl : Z.land (Z.shiftl a 4) t = 0).
  { apply Z.bits_inj'; intros k Hk; rewrite Z.land_spec, Z.bits_0.
    destruct (Z.ltb_spec k 4).
    - rewrite Z.shiftl_spec_low by lia. reflexivity.
    - rewrite <- (Z.mod_small t (2^4)) by lia.
      rewrite Z.mod_pow2_bits_high by lia. apply Bool.andb_false_r. }
  rewrite <- Z.lxor_lor by exact Hl. symmetry. apply Z.add_nocarry_lxor. exact Hl.
Qed.

Ltac Zify.zify_post_hook ::= Z.div_mod_to_equations.

Lemma mulb a b A B : 0 <= a <= A -> 0 <= b <= B -> 0 <= a * b <= A * B.
Proof. intros. split. apply Z.mul_nonneg_nonneg; lia. apply Z.mul_le_mono_nonneg; lia. Qed.

(* one step of symbolic execution: introduce the next let-bound variable and replace its wrapped
   definition by the unwrapped value, proving from the bounds in context that nothing wraps *)
Ltac step M R :=
  let x := fresh "v" in intro x;
  first [ match goal with x := u128 (?c + Z.land (u64 ?e) M * R) |- _ =>
            let H := fresh "E" in
            assert (H : x = c + (e mod 2^52) * R) by abstract (subst x; unfold u64; unfold M; rewrite land_ones52 by (apply Z.mod_pos_bound; lia);
               change (2^64) with (2^52 * 2^12);
               rewrite Z.rem_mul_r by lia;
               rewrite (Z.mul_comm (2^52)), Z.mod_add by lia; rewrite Z.mod_mod by lia;
               unfold u128, R in *; apply Z.mod_small; lia);
            clearbody x end
        | match goal with x := u128 ?e |- _ =>
            let H := fresh "E" in
            assert (H : x = e) by abstract (subst x; unfold u128, u64, R in *; apply Z.mod_small; lia);
            clearbody x end
        | match goal with x := Z.land (u64 ?e) M |- _ =>
            let H := fresh "E" in
            assert (H : x = e mod 2^52) by abstract (subst x; unfold u64; unfold M; rewrite land_ones52 by (apply Z.mod_pos_bound; lia);
               change (2^64) with (2^52 * 2^12);
               rewrite Z.rem_mul_r by lia;
               rewrite Z.mul_comm, Z.mod_add by lia; apply Z.mod_mod; lia);
            clearbody x end
        | match goal with x := Z.land ?e (M / 2^4) |- _ =>
            let H := fresh "E" in
            assert (H : x = e mod 2^48) by abstract (subst x; unfold M; apply land_ones48; lia);
            clearbody x end
        | match goal with x := Z.lor (u64 (?a * 2^4)) ?t |- _ =>
            let H := fresh "E" in
            assert (H : x = a * 2^4 + t) by abstract (subst x; unfold u64, R in *; rewrite Z.mod_small by lia; apply lor_shift4; lia);
            clearbody x end
        | match goal with x := u64 (u64 ?a + ?b) |- _ =>
            let H := fresh "E" in
            assert (H : x = a + b) by abstract (subst x; unfold u64, R in *; rewrite (Z.mod_small a) by lia; apply Z.mod_small; lia);
            clearbody x end
        | match goal with x := ?a * 2 |- _ => subst x end
        | match goal with x := ?e / ?k |- _ =>
            let H := fresh "E" in
            assert (H : x = e / k) by reflexivity; clearbody x end
        ].

(* a 128-bit value shifted right by 64 fits in 64 bits: its own quotient by 2^64 is zero.  These facts
   remove the (provably zero) quotients that appear when [u64 q] is expanded with Z.mod_eq. *)
Ltac shifted64_small R :=
  repeat match goal with H : ?q = ?e / 2^64 |- _ =>
    lazymatch goal with Hz : q / 2^64 = 0 |- _ => fail | _ => idtac end;
    let Hz := fresh "Zq" in
    assert (Hz : q / 2^64 = 0) by abstract (rewrite H; apply Z.div_small; unfold u64, R in *; lia) end.

(* weakest-precondition form (the continuation is arbitrary), so that callers translated as calls compose by [apply] *)
Theorem fe_mul_inner_wp a0 a1 a2 a3 a4 b0 b1 b2 b3 b4 (Q : Z -> Z -> Z -> Z -> Z -> Prop) :
  0 <= a0 < 2^56 -> 0 <= a1 < 2^56 -> 0 <= a2 < 2^56 -> 0 <= a3 < 2^56 -> 0 <= a4 < 2^52 ->
  0 <= b0 < 2^56 -> 0 <= b1 < 2^56 -> 0 <= b2 < 2^56 -> 0 <= b3 < 2^56 -> 0 <= b4 < 2^52 ->
  (forall r0 r1 r2 r3 r4,
    (0 <= r0 < 2^52 /\ 0 <= r1 < 2^52 /\ 0 <= r2 < 2^52 /\ 0 <= r3 < 2^52 /\ 0 <= r4 < 2^49) /\
    (val5 r0 r1 r2 r3 r4 - val5 a0 a1 a2 a3 a4 * val5 b0 b1 b2 b3 b4) mod P256 = 0 -> Q r0 r1 r2 r3 r4) ->
  fe_mul_inner_k a0 a1 a2 a3 a4 b0 b1 b2 b3 b4 Q.
Proof.
  intros Ha0 Ha1 Ha2 Ha3 Ha4 Hb0 Hb1 Hb2 Hb3 Hb4 HQ.
  pose proof (mulb a0 b0 (2^56-1) (2^56-1) ltac:(lia) ltac:(lia)) as P00.
  pose proof (mulb a0 b1 (2^56-1) (2^56-1) ltac:(lia) ltac:(lia)) as P01.
  pose proof (mulb a0 b2 (2^56-1) (2^56-1) ltac:(lia) ltac:(lia)) as P02.
  pose proof (mulb a0 b3 (2^56-1) (2^56-1) ltac:(lia) ltac:(lia)) as P03.
  pose proof (mulb a0 b4 (2^56-1) (2^52-1) ltac:(lia) ltac:(lia)) as P04.
  pose proof (mulb a1 b0 (2^56-1) (2^56-1) ltac:(lia) ltac:(lia)) as P10.
  pose proof (mulb a1 b1 (2^56-1) (2^56-1) ltac:(lia) ltac:(lia)) as P11.
  pose proof (mulb a1 b2 (2^56-1) (2^56-1) ltac:(lia) ltac:(lia)) as P12.
  pose proof (mulb a1 b3 (2^56-1) (2^56-1) ltac:(lia) ltac:(lia)) as P13.
  pose proof (mulb a1 b4 (2^56-1) (2^52-1) ltac:(lia) ltac:(lia)) as P14.
  pose proof (mulb a2 b0 (2^56-1) (2^56-1) ltac:(lia) ltac:(lia)) as P20.
  pose proof (mulb a2 b1 (2^56-1) (2^56-1) ltac:(lia) ltac:(lia)) as P21.
  pose proof (mulb a2 b2 (2^56-1) (2^56-1) ltac:(lia) ltac:(lia)) as P22.
  pose proof (mulb a2 b3 (2^56-1) (2^56-1) ltac:(lia) ltac:(lia)) as P23.
  pose proof (mulb a2 b4 (2^56-1) (2^52-1) ltac:(lia) ltac:(lia)) as P24.
  pose proof (mulb a3 b0 (2^56-1) (2^56-1) ltac:(lia) ltac:(lia)) as P30.
  pose proof (mulb a3 b1 (2^56-1) (2^56-1) ltac:(lia) ltac:(lia)) as P31.
  pose proof (mulb a3 b2 (2^56-1) (2^56-1) ltac:(lia) ltac:(lia)) as P32.
  pose proof (mulb a3 b3 (2^56-1) (2^56-1) ltac:(lia) ltac:(lia)) as P33.
  pose proof (mulb a3 b4 (2^56-1) (2^52-1) ltac:(lia) ltac:(lia)) as P34.
  pose proof (mulb a4 b0 (2^52-1) (2^56-1) ltac:(lia) ltac:(lia)) as P40.
  pose proof (mulb a4 b1 (2^52-1) (2^56-1) ltac:(lia) ltac:(lia)) as P41.
  pose proof (mulb a4 b2 (2^52-1) (2^56-1) ltac:(lia) ltac:(lia)) as P42.
  pose proof (mulb a4 b3 (2^52-1) (2^56-1) ltac:(lia) ltac:(lia)) as P43.
  pose proof (mulb a4 b4 (2^52-1) (2^52-1) ltac:(lia) ltac:(lia)) as P44.
  assert (Hprod : val5 a0 a1 a2 a3 a4 * val5 b0 b1 b2 b3 b4 =
     a0*b0 + (a0*b1 + a1*b0) * 2^52 + (a0*b2 + a1*b1 + a2*b0) * 2^104
     + (a0*b3 + a1*b2 + a2*b1 + a3*b0) * 2^156
     + (a0*b4 + a1*b3 + a2*b2 + a3*b1 + a4*b0) * 2^208
     + (a1*b4 + a2*b3 + a3*b2 + a4*b1) * 2^260
     + (a2*b4 + a3*b3 + a4*b2) * 2^312 + (a3*b4 + a4*b3) * 2^364 + a4*b4 * 2^416)
    by (unfold val5; ring).
  rewrite Hprod in HQ; clear Hprod.
  cbv beta delta [fe_mul_inner_k].
  generalize dependent (a0*b0); intros p00 ? ?.
  generalize dependent (a0*b1); intros p01 ? ?.
  generalize dependent (a0*b2); intros p02 ? ?.
  generalize dependent (a0*b3); intros p03 ? ?.
  generalize dependent (a0*b4); intros p04 ? ?.
  generalize dependent (a1*b0); intros p10 ? ?.
  generalize dependent (a1*b1); intros p11 ? ?.
  generalize dependent (a1*b2); intros p12 ? ?.
  generalize dependent (a1*b3); intros p13 ? ?.
  generalize dependent (a1*b4); intros p14 ? ?.
  generalize dependent (a2*b0); intros p20 ? ?.
  generalize dependent (a2*b1); intros p21 ? ?.
  generalize dependent (a2*b2); intros p22 ? ?.
  generalize dependent (a2*b3); intros p23 ? ?.
  generalize dependent (a2*b4); intros p24 ? ?.
  generalize dependent (a3*b0); intros p30 ? ?.
  generalize dependent (a3*b1); intros p31 ? ?.
  generalize dependent (a3*b2); intros p32 ? ?.
  generalize dependent (a3*b3); intros p33 ? ?.
  generalize dependent (a3*b4); intros p34 ? ?.
  generalize dependent (a4*b0); intros p40 ? ?.
  generalize dependent (a4*b1); intros p41 ? ?.
  generalize dependent (a4*b2); intros p42 ? ?.
  generalize dependent (a4*b3); intros p43 ? ?.
  generalize dependent (a4*b4); intros p44 ? ?.
  clear Ha0 Ha1 Ha2 Ha3 Ha4 Hb0 Hb1 Hb2 Hb3 Hb4.
  change (u64 (fe_mul_inner_R * 2^12)) with (fe_mul_inner_R * 2^12).
  change (fe_mul_inner_R / 2^4) with 0x1000003D1.
  repeat (step fe_mul_inner_M fe_mul_inner_R).
  match goal with HQ' : forall r0 r1 r2 r3 r4 : Z, _ |- _ => apply HQ'; clear HQ' end.
  shifted64_small fe_mul_inner_R.
  split.
  { abstract (unfold u64, fe_mul_inner_R in *; repeat split; try (subst; apply Z.mod_pos_bound; lia); try lia). }
  abstract (
  unfold u64, fe_mul_inner_R, val5 in *;
  repeat match goal with H : _ = _ |- _ => rewrite Z.mod_eq in H by lia end;
  repeat match goal with Hz : ?q / 2^64 = 0 |- _ => rewrite Hz in *; clear Hz end;
  repeat match goal with
  | H : ?q = ?e / ?k |- _ => rewrite <- H in *; clear H
  end;
  repeat match goal with H : ?v = _ |- _ => is_var v; subst v end;
  apply Z.mod_divide; [unfold P256; lia|];
  ring_simplify;
    repeat first [ apply Z.divide_add_r | apply Z.divide_sub_r ];
    try (apply Z.divide_mul_l; apply Z.mod_divide; [unfold P256; lia | vm_compute; reflexivity]);
    try (apply Z.divide_opp_r; apply Z.divide_mul_l; apply Z.mod_divide; [unfold P256; lia | vm_compute; reflexivity])).
Qed.

Theorem fe_mul_inner_correct a0 a1 a2 a3 a4 b0 b1 b2 b3 b4 :
  0 <= a0 < 2^56 -> 0 <= a1 < 2^56 -> 0 <= a2 < 2^56 -> 0 <= a3 < 2^56 -> 0 <= a4 < 2^52 ->
  0 <= b0 < 2^56 -> 0 <= b1 < 2^56 -> 0 <= b2 < 2^56 -> 0 <= b3 < 2^56 -> 0 <= b4 < 2^52 ->
  fe_mul_inner_k a0 a1 a2 a3 a4 b0 b1 b2 b3 b4 (fun r0 r1 r2 r3 r4 =>
  (0 <= r0 < 2^52 /\ 0 <= r1 < 2^52 /\ 0 <= r2 < 2^52 /\ 0 <= r3 < 2^52 /\ 0 <= r4 < 2^49) /\
  (val5 r0 r1 r2 r3 r4 - val5 a0 a1 a2 a3 a4 * val5 b0 b1 b2 b3 b4) mod P256 = 0).
Proof. intros. apply fe_mul_inner_wp; try assumption. intros r0 r1 r2 r3 r4 H'. exact H'. Qed.

