(* Proofs ABOUT further regenerated limb-level primitives (Gen/fe_impl_add.v, Gen/fe_impl_negate_unchecked.v,
   Gen/fe_impl_half.v, Gen/scalar_negate.v): exact value and magnitude contracts for ALL in-contract inputs. *)
From Coq Require Import ZArith Lia List Bool.
Require Import Kernel.CSem Kernel.Field5x52 Kernel.Scalar4x64 Kernel.CtPrimitives.
Require Import Gen.fe_impl_add Gen.fe_impl_negate_unchecked Gen.fe_impl_half Gen.scalar_is_zero Gen.scalar_negate.
Import ListNotations.
Local Open Scope Z_scope.
Ltac Zify.zify_post_hook ::= Z.div_mod_to_equations.

(* r += a: limb-wise, exact as long as no limb leaves 64 bits (magnitudes up to 2047 + 2047 are far inside) *)
Theorem fe_add_correct r0 r1 r2 r3 r4 a0 a1 a2 a3 a4 :
  0 <= r0 -> 0 <= r1 -> 0 <= r2 -> 0 <= r3 -> 0 <= r4 -> 0 <= a0 -> 0 <= a1 -> 0 <= a2 -> 0 <= a3 -> 0 <= a4 ->
  r0 + a0 < 2^64 -> r1 + a1 < 2^64 -> r2 + a2 < 2^64 -> r3 + a3 < 2^64 -> r4 + a4 < 2^64 ->
  fe_impl_add_k r0 r1 r2 r3 r4 a0 a1 a2 a3 a4 (fun s0 s1 s2 s3 s4 =>
    s0 = r0 + a0 /\ s1 = r1 + a1 /\ s2 = r2 + a2 /\ s3 = r3 + a3 /\ s4 = r4 + a4 /\
    val5 s0 s1 s2 s3 s4 = val5 r0 r1 r2 r3 r4 + val5 a0 a1 a2 a3 a4).
Proof.
  intros. unfold fe_impl_add_k, u64. cbv zeta. rewrite !Z.mod_small by lia. unfold val5. repeat split; lia.
Qed.

(* r = 2*(m+1)*p - a limb-wise: no limb underflows when a has magnitude <= m, the result has magnitude m+1 and is -a mod p *)
Theorem fe_negate_correct a0 a1 a2 a3 a4 m :
  0 <= m <= 31 ->
  0 <= a0 <= 2 * m * 4503599627370495 -> 0 <= a1 <= 2 * m * 4503599627370495 -> 0 <= a2 <= 2 * m * 4503599627370495 ->
  0 <= a3 <= 2 * m * 4503599627370495 -> 0 <= a4 <= 2 * m * 281474976710655 ->
  fe_impl_negate_unchecked_k a0 a1 a2 a3 a4 m (fun r0 r1 r2 r3 r4 =>
    (0 <= r0 <= 2 * (m + 1) * 4503599627370495 /\ 0 <= r1 <= 2 * (m + 1) * 4503599627370495 /\ 0 <= r2 <= 2 * (m + 1) * 4503599627370495 /\
     0 <= r3 <= 2 * (m + 1) * 4503599627370495 /\ 0 <= r4 <= 2 * (m + 1) * 281474976710655) /\
    val5 r0 r1 r2 r3 r4 = 2 * (m + 1) * P256 - val5 a0 a1 a2 a3 a4).
Proof.
  intros Hm H0 H1 H2 H3 H4. unfold fe_impl_negate_unchecked_k, u64. cbv zeta.
  rewrite (Z.mod_small (m + 1)) by lia.
  rewrite (Z.mod_small (4503595332402223 * 2)), (Z.mod_small (4503599627370495 * 2)), (Z.mod_small (281474976710655 * 2)) by lia.
  rewrite (Z.mod_small (4503595332402223 * 2 * (m + 1))), (Z.mod_small (4503599627370495 * 2 * (m + 1))), (Z.mod_small (281474976710655 * 2 * (m + 1))) by lia.
  rewrite !Z.mod_small by lia. unfold val5, P256. split; [repeat split; lia|lia].
Qed.

(* halving: adds p when the value is odd (branch-free mask), then shifts right across the limbs; exact for magnitude <= 31 *)
Theorem fe_half_correct t0 t1 t2 t3 t4 :
  0 <= t0 < 2^58 -> 0 <= t1 < 2^58 -> 0 <= t2 < 2^58 -> 0 <= t3 < 2^58 -> 0 <= t4 < 2^54 ->
  fe_impl_half_k t0 t1 t2 t3 t4 (fun r0 r1 r2 r3 r4 =>
    (0 <= r0 < 2^58 /\ 0 <= r1 < 2^58 /\ 0 <= r2 < 2^58 /\ 0 <= r3 < 2^58 /\ 0 <= r4 < 2^54) /\
    2 * val5 r0 r1 r2 r3 r4 = val5 t0 t1 t2 t3 t4 + (t0 mod 2) * P256).
Proof.
  intros H0 H1 H2 H3 H4. unfold fe_impl_half_k. cbv zeta.
  assert (L1 : forall x, 0 <= x -> Z.land x 1 = x mod 2) by (intros x Hx; change 1 with (Z.ones 1); apply Z.land_ones; lia).
  rewrite (L1 t0) by lia.
  assert (Hm : u64 (- (t0 mod 2)) / 2^12 = (t0 mod 2) * (2^52 - 1)).
  { unfold u64. assert (t0 mod 2 = 0 \/ t0 mod 2 = 1) as [E|E] by lia; rewrite E; reflexivity. }
  rewrite Hm.
  assert (Hl : Z.land 4503595332402223 ((t0 mod 2) * (2^52 - 1)) = (t0 mod 2) * 4503595332402223).
  { assert (t0 mod 2 = 0 \/ t0 mod 2 = 1) as [E|E] by lia; rewrite E; reflexivity. }
  rewrite Hl.
  set (b := t0 mod 2) in *. assert (Hb : 0 <= b <= 1) by (unfold b; lia).
  unfold u64. rewrite (Z.mod_small (t0 + b * 4503595332402223)), (Z.mod_small (t1 + b * (2^52 - 1))), (Z.mod_small (t2 + b * (2^52 - 1))),
    (Z.mod_small (t3 + b * (2^52 - 1))), (Z.mod_small (t4 + b * (2^52 - 1) / 2^4)) by lia.
  rewrite !L1 by lia.
  set (u0 := t0 + b * 4503595332402223). set (u1 := t1 + b * (2^52 - 1)). set (u2 := t2 + b * (2^52 - 1)). set (u3 := t3 + b * (2^52 - 1)).
  set (u4 := t4 + b * (2^52 - 1) / 2^4).
  assert (Hu4 : u4 = t4 + b * (2^48 - 1)) by (unfold u4; assert (b = 0 \/ b = 1) as [E|E] by lia; rewrite E; reflexivity).
  assert (He : u0 mod 2 = 0) by (unfold u0, b; lia).
  rewrite (Z.mod_small (u1 mod 2 * 2^51)), (Z.mod_small (u2 mod 2 * 2^51)), (Z.mod_small (u3 mod 2 * 2^51)), (Z.mod_small (u4 mod 2 * 2^51)) by lia.
  rewrite (Z.mod_small (u0 / 2^1 + u1 mod 2 * 2^51)), (Z.mod_small (u1 / 2^1 + u2 mod 2 * 2^51)), (Z.mod_small (u2 / 2^1 + u3 mod 2 * 2^51)),
    (Z.mod_small (u3 / 2^1 + u4 mod 2 * 2^51)) by (unfold u0, u1, u2, u3; lia).
  unfold val5, P256. split; [unfold u0, u1, u2, u3 in *; repeat split; lia|].
  unfold u0, u1, u2, u3 in *. lia.
Qed.

(* scalar negation: (n - a) mod n for a reduced a, through the all-ones / all-zero mask on "a is non-zero" *)
Theorem scalar_negate_correct a0 a1 a2 a3 :
  0 <= a0 < 2^64 -> 0 <= a1 < 2^64 -> 0 <= a2 < 2^64 -> 0 <= a3 < 2^64 -> val4 a0 a1 a2 a3 < N256 ->
  scalar_negate_k a0 a1 a2 a3 (fun r0 r1 r2 r3 =>
    (0 <= r0 < 2^64 /\ 0 <= r1 < 2^64 /\ 0 <= r2 < 2^64 /\ 0 <= r3 < 2^64) /\
    val4 r0 r1 r2 r3 = (N256 - val4 a0 a1 a2 a3) mod N256).
Proof.
  intros H0 H1 H2 H3 Hv. unfold scalar_negate_k. cbv zeta.
  rewrite (scalar_is_zero_correct a0 a1 a2 a3) by lia.
  change (u64 (13822214165235122497 + 1)) with 13822214165235122498.
  destruct ((a0 =? 0) && (a1 =? 0) && (a2 =? 0) && (a3 =? 0)) eqn:Ez.
  - apply andb_prop in Ez as [Ez E3]. apply andb_prop in Ez as [Ez E2]. apply andb_prop in Ez as [E0 E1].
    apply Z.eqb_eq in E0, E1, E2, E3. subst. change (1 =? 0) with false. cbn [b2z]. change (u64 (18446744073709551615 * u64 0)) with 0.
    rewrite !Z.land_0_r. unfold val4, N256. split; [lia|reflexivity].
  - change (0 =? 0) with true. cbn [b2z]. change (u64 (18446744073709551615 * u64 1)) with 18446744073709551615.
    assert (Hnz : val4 a0 a1 a2 a3 <> 0).
    { unfold val4. intro E. assert (a0 = 0 /\ a1 = 0 /\ a2 = 0 /\ a3 = 0) as [-> [-> [-> ->]]] by lia. discriminate Ez. }
    rewrite !land_all64 by (unfold u64; lia).
    unfold u128, u64.
    set (s0 := 18446744073709551615 - a0 + 13822214165235122498).
    rewrite (Z.mod_small s0 (2^128)) by (unfold s0; lia).
    set (s1 := s0 / 2^64 + (18446744073709551615 - a1)). rewrite (Z.mod_small s1 (2^128)) by (unfold s1, s0; lia).
    set (s1' := s1 + 13451932020343611451). rewrite (Z.mod_small s1' (2^128)) by (unfold s1', s1, s0; lia).
    set (s2 := s1' / 2^64 + (18446744073709551615 - a2)). rewrite (Z.mod_small s2 (2^128)) by (unfold s2, s1', s1, s0; lia).
    set (s2' := s2 + 18446744073709551614). rewrite (Z.mod_small s2' (2^128)) by (unfold s2', s2, s1', s1, s0; lia).
    set (s3 := s2' / 2^64 + (18446744073709551615 - a3)). rewrite (Z.mod_small s3 (2^128)) by (unfold s3, s2', s2, s1', s1, s0; lia).
    set (s3' := s3 + 18446744073709551615). rewrite (Z.mod_small s3' (2^128)) by (unfold s3', s3, s2', s2, s1', s1, s0; lia).
    split; [lia|].
    rewrite (Z.mod_small (N256 - val4 a0 a1 a2 a3)) by (unfold val4, N256 in *; lia).
    unfold val4, N256 in *. unfold s3', s3, s2', s2, s1', s1, s0. lia.
Qed.
