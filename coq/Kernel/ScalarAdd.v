(* Proofs ABOUT the generated scalar addition and halving (Gen/scalar_add.v with the final secp256k1_scalar_reduce
   translated in place, Gen/scalar_half.v): for ALL reduced operands the result is the canonical sum / half modulo n. *)
From Coq Require Import ZArith Lia List Bool.
Require Import Kernel.CSem Kernel.Bind Kernel.Scalar4x64 Kernel.CtPrimitives Kernel.ScalarMul512 Kernel.ScalarReduce512 Gen.scalar_check_overflow Gen.scalar_add Gen.scalar_half.
Import ListNotations.
Local Open Scope Z_scope.
Ltac Zify.zify_post_hook ::= Z.div_mod_to_equations.

Lemma sN32_small v : 0 <= v < 2^31 -> sN 32 v = v.
Proof. intros H. unfold sN. cbv zeta. rewrite Z.mod_small by lia. destruct (Z.ltb_spec v (2^(32-1))); [reflexivity|]. change (2^(32-1)) with (2^31) in *. lia. Qed.

Theorem scalar_add_correct a0 a1 a2 a3 b0 b1 b2 b3 :
  0 <= a0 < 2^64 -> 0 <= a1 < 2^64 -> 0 <= a2 < 2^64 -> 0 <= a3 < 2^64 ->
  0 <= b0 < 2^64 -> 0 <= b1 < 2^64 -> 0 <= b2 < 2^64 -> 0 <= b3 < 2^64 ->
  val4 a0 a1 a2 a3 < N256 -> val4 b0 b1 b2 b3 < N256 ->
  scalar_add_k a0 a1 a2 a3 b0 b1 b2 b3 (fun r0 r1 r2 r3 ret =>
    (0 <= r0 < 2^64 /\ 0 <= r1 < 2^64 /\ 0 <= r2 < 2^64 /\ 0 <= r3 < 2^64) /\
    val4 r0 r1 r2 r3 = (val4 a0 a1 a2 a3 + val4 b0 b1 b2 b3) mod N256 /\
    ret = (if N256 <=? val4 a0 a1 a2 a3 + val4 b0 b1 b2 b3 then 1 else 0)).
Proof.
  intros Ha0 Ha1 Ha2 Ha3 Hb0 Hb1 Hb2 Hb3 Ha Hb.
  unfold scalar_add_k.
  repeat first [ split_step | keep_step | u128_step ].
  (* overflow = carry out of 256 bits + "result >= n" *)
  bintro.
  match goal with E : context[scalar_check_overflow ?a ?b ?c ?d] |- _ =>
    pose proof (scalar_check_overflow_correct a b c d ltac:(lia) ltac:(lia) ltac:(lia) ltac:(lia)) as CO;
    remember (scalar_check_overflow a b c d) as co eqn:Eco; clear Eco;
    assert (COb : 0 <= co <= 1) by (rewrite CO; destruct (N256 <=? val4 a b c d); lia);
    change (hidden (co = (if N256 <=? val4 a b c d then 1 else 0))) in CO;
    unfold u64 in E; repeat (rewrite Z.mod_small in E by lia); rewrite sN32_small in E by lia
  end.
  u32_small_step.
  repeat first [ split_step | keep_step | u128_step | trunc_step ].
  bintro. keep_step. cbv beta.
  unfold hidden in *.
  match goal with H : ?co = (if N256 <=? ?v then 1 else 0) |- _ => destruct (Z.leb_spec N256 v) as [Hv|Hv] end.
  all: unfold val4, N256 in *.
  all: assert (A1 : r_d0 + r_d1 * 2^64 + r_d2 * 2^128 + r_d3 * 2^192 + t10 * 2^256 =
                    a0 + a1 * 2^64 + a2 * 2^128 + a3 * 2^192 + (b0 + b1 * 2^64 + b2 * 2^128 + b3 * 2^192)) by lia.
  all: assert (A2 : r_d4 + r_d5 * 2^64 + r_d6 * 2^128 + r_d7 * 2^192 + ctop * 2^256 =
                    r_d0 + r_d1 * 2^64 + r_d2 * 2^128 + r_d3 * 2^192 + scalar_reduce1_overflow * (4624529908474429119 + 4994812053365940164 * 2^64 + 2^128)) by lia.
  all: assert (A3 : t10 = 0 \/ t10 = 1) by lia.
  all: split; [lia|].
  all: assert (RB : 0 <= r_d4 + r_d5 * 2^64 + r_d6 * 2^128 + r_d7 * 2^192 < 2^256) by lia.
  all: assert (RR : 0 <= r_d0 + r_d1 * 2^64 + r_d2 * 2^128 + r_d3 * 2^192 < 2^256) by lia.
  all: assert (PT : 0 <= ctop) by lia.
  all: destruct A3 as [E10|E10].
  all: split; [first [apply (Z.mod_unique_pos _ _ 0); lia | apply (Z.mod_unique_pos _ _ 1); lia] |
               match goal with |- _ = (if ?c <=? ?v then 1 else 0) => destruct (Z.leb_spec c v); lia end].
Qed.

(* ---- halving ---- *)
Lemma lor_shift63 a t : 0 <= a -> 0 <= t < 2^63 -> Z.lor t (a * 2^63) = a * 2^63 + t.
Proof.
  intros Ha Ht. rewrite Z.lor_comm. rewrite <- Z.shiftl_mul_pow2 by lia.
  assert (Hl : Z.land (Z.shiftl a 63) t = 0).
  { apply Z.bits_inj'; intros k Hk; rewrite Z.land_spec, Z.bits_0.
    destruct (Z.ltb_spec k 63).
    - rewrite Z.shiftl_spec_low by lia. reflexivity.
    - rewrite <- (Z.mod_small t (2^63)) by lia.
      rewrite Z.mod_pow2_bits_high by lia. apply Bool.andb_false_r. }
  rewrite <- Z.lxor_lor by exact Hl. symmetry. apply Z.add_nocarry_lxor. exact Hl.
Qed.
Lemma half_word x y : 0 <= x < 2^64 -> 0 <= y < 2^64 -> Z.lor (x / 2^1) (u64 (y * 2^63)) = x / 2 + (y mod 2) * 2^63.
Proof.
  intros Hx Hy. assert (E : u64 (y * 2^63) = (y mod 2) * 2^63) by (unfold u64; lia).
  rewrite E. change (2^1) with 2. rewrite lor_shift63 by lia. lia.
Qed.
Lemma land_bitmask K b : 0 <= K < 2^64 -> b = 0 \/ b = 1 -> Z.land K (u64 (- b)) = b * K.
Proof. intros HK [-> | ->]; unfold u64. - change (- 0) with 0. rewrite Z.mod_0_l by lia. rewrite Z.land_0_r. lia.
  - change ((- (1)) mod 2^64) with 18446744073709551615. rewrite land_all64 by lia. lia. Qed.

Theorem scalar_half_correct a0 a1 a2 a3 :
  0 <= a0 < 2^64 -> 0 <= a1 < 2^64 -> 0 <= a2 < 2^64 -> 0 <= a3 < 2^64 -> val4 a0 a1 a2 a3 < N256 ->
  scalar_half_k a0 a1 a2 a3 (fun r0 r1 r2 r3 =>
    (0 <= r0 < 2^64 /\ 0 <= r1 < 2^64 /\ 0 <= r2 < 2^64 /\ 0 <= r3 < 2^64) /\
    2 * val4 r0 r1 r2 r3 = val4 a0 a1 a2 a3 + (a0 mod 2) * N256 /\ val4 r0 r1 r2 r3 < N256).
Proof.
  intros H0 H1 H2 H3 Hv. unfold scalar_half_k.
  assert (Hb : a0 mod 2 = 0 \/ a0 mod 2 = 1) by lia.
  assert (L1 : Z.land a0 1 = a0 mod 2) by (change 1 with (Z.ones 1); apply Z.land_ones; lia).
  change (u64 (16134479119472337056 + 1)) with 16134479119472337057.
  rewrite L1, !half_word by lia.
  bintro. match goal with Q : ?m = u64 (- (a0 mod 2)) |- _ => rewrite Q; clear Q m end.
  rewrite (land_bitmask 16134479119472337057), (land_bitmask 6725966010171805725), (land_bitmask 18446744073709551615), (land_bitmask 9223372036854775807) by (first [lia | exact Hb]).
  set (b := a0 mod 2) in *. assert (Hb01 : 0 <= b <= 1) by lia.
  repeat first [ split_step | u128_step | keep_step | bintro ].
  cbv beta.
  match goal with Q : ?r = u64 (u64 (u64 ?t + ?x) + ?y) |- _ =>
    assert (Er : r = t + x + y) by (rewrite Q; unfold u64; rewrite (Z.mod_small t) by lia; rewrite (Z.mod_small (t + x)) by lia; apply Z.mod_small; lia) end.
  unfold val4, N256 in *. split; [lia|]. split; lia.
Qed.
