(* Proof ABOUT the generated 32-bit-limb scalar range test (Gen/scalar8x32_check_overflow.v): the branch-free yes/no
   flag arithmetic over eight limbs decides exactly value >= n. *)
From Coq Require Import ZArith Lia List Bool.
Require Import Kernel.CSem Kernel.Scalar4x64 Gen.scalar8x32_check_overflow.
Local Open Scope Z_scope.

Definition val8w (d0 d1 d2 d3 d4 d5 d6 d7 : Z) := d0 + d1 * 2^32 + d2 * 2^64 + d3 * 2^96 + d4 * 2^128 + d5 * 2^160 + d6 * 2^192 + d7 * 2^224.

Definition val16w (l0 l1 l2 l3 l4 l5 l6 l7 l8 l9 l10 l11 l12 l13 l14 l15 : Z) := l0 + l1 * 2^32 + l2 * 2^64 + l3 * 2^96 + l4 * 2^128 + l5 * 2^160 + l6 * 2^192 + l7 * 2^224 + l8 * 2^256 + l9 * 2^288 + l10 * 2^320 + l11 * 2^352 + l12 * 2^384 + l13 * 2^416 + l14 * 2^448 + l15 * 2^480.

Ltac split_cmps :=
  rewrite ?Z.gtb_ltb, ?Z.geb_leb;
  repeat match goal with
  | |- context[?a <? ?b] => destruct (Z.ltb_spec a b)
  | |- context[?a <=? ?b] => destruct (Z.leb_spec a b)
  end.

Theorem scalar8x32_check_overflow_correct d0 d1 d2 d3 d4 d5 d6 d7 :
  0 <= d0 < 2^32 -> 0 <= d1 < 2^32 -> 0 <= d2 < 2^32 -> 0 <= d3 < 2^32 -> 0 <= d4 < 2^32 -> 0 <= d5 < 2^32 -> 0 <= d6 < 2^32 -> 0 <= d7 < 2^32 ->
  scalar8x32_check_overflow d0 d1 d2 d3 d4 d5 d6 d7 = if N256 <=? val8w d0 d1 d2 d3 d4 d5 d6 d7 then 1 else 0.
Proof.
  intros H0 H1 H2 H3 H4 H5 H6 H7. unfold scalar8x32_check_overflow, scalar8x32_check_overflow_k.
  change (u32 4294967295) with 4294967295. change (u32 4294967294) with 4294967294. change (u32 3132021990) with 3132021990.
  change (u32 2940772411) with 2940772411. change (u32 3218235020) with 3218235020. change (u32 3493216577) with 3493216577.
  destruct (Z.leb_spec N256 (val8w d0 d1 d2 d3 d4 d5 d6 d7)) as [Hv|Hv]; unfold N256, val8w in Hv;
  split_cmps; cbn [b2z]; try reflexivity; exfalso; lia.
Qed.
