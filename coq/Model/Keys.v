(* Model of the key API of src/secp256k1.c and modules/extrakeys. *)
From Coq Require Import ZArith List Bool.
Require Import Spec.Params Spec.Field Spec.Curve Spec.Bytes Spec.Sha256 Model.Base.
Import ListNotations.
Local Open Scope Z_scope.

Section Keys.
Variable P : Params.
Let n := cn P.
Notation G := (Curve.G P).
Notation pmul := (Curve.pmul P).
Notation padd := (Curve.padd P).
Notation pneg := (Curve.pneg P).

(* ---- parsing / serialising public keys ---- *)
Definition ec_pubkey_parse (input : bytes) : list arg :=
  match eckey_pubkey_parse P input with
  | Some Q => [AInt 1; ABytes (pk_obj Q)]
  | None => [AInt 0; ABytes (pk_obj_zero)]
  end.

(* flags: 258 = compressed, 2 = uncompressed. outlen = *outputlen on entry.
   result: ret, *outputlen after, output buffer (outlen bytes) *)
Definition ec_pubkey_serialize (outlen : Z) (obj : bytes) (flags : Z) : list arg :=
  let compressed := Z.testbit flags 8 in
  let need := if compressed then 33 else 65 in
  if outlen <? need then [AInt 0; AInt outlen; AIll 1]
  else if negb (Z.land flags 255 =? 2) then [AInt 0; AInt 0; ABytes (zeros (Z.to_nat outlen)); AIll 1]
  else match pk_load obj with
  | None => [AInt 0; AInt 0; ABytes (zeros (Z.to_nat outlen)); AIll 1]
  | Some Q =>
    let s := if compressed then ser33 Q else ser65 Q in
    [AInt 1; AInt need; ABytes (s ++ zeros (Z.to_nat outlen - length s))]
  end.

Definition xonly_pubkey_parse (input32 : bytes) : list arg :=
  match fe_of_b32 P input32 with
  | None => [AInt 0; ABytes pk_obj_zero]
  | Some x => match ge_set_xo P x false with
              | None => [AInt 0; ABytes pk_obj_zero]
              | Q => [AInt 1; ABytes (pk_obj Q)] end
  end.

Definition xonly_pubkey_serialize (obj : bytes) : list arg :=
  match pk_load obj with
  | None => [AInt 0; ABytes (zeros 32); AIll 1]
  | Some Q => [AInt 1; ABytes (fe_to_b32 (px Q))]
  end.

(* ---- secret / public key algebra ---- *)
Definition pubkey_create_pt (seckey : bytes) : option point :=
  match seckey_of_b32 P seckey with Some d => Some (pmul d G) | None => None end.

Definition ec_pubkey_create (seckey : bytes) : list arg :=
  match pubkey_create_pt seckey with
  | Some Q => [AInt 1; ABytes (pk_obj Q)]
  | None => [AInt 0; ABytes pk_obj_zero]
  end.

Definition ec_seckey_verify (seckey : bytes) : list arg :=
  [AInt (b2z (match seckey_of_b32 P seckey with Some _ => true | None => false end))].

Definition ec_seckey_negate (seckey : bytes) : list arg :=
  match seckey_of_b32 P seckey with
  | Some d => [AInt 1; ABytes (sc_to_b32 (sc_neg P d))]
  | None => [AInt 0; ABytes (zeros 32)]
  end.

Definition ec_pubkey_negate (obj : bytes) : list arg :=
  match pk_load obj with
  | None => [AInt 0; ABytes pk_obj_zero; AIll 1]
  | Some Q => [AInt 1; ABytes (pk_obj (pneg Q))]
  end.

(* helper: Some (key + tweak) iff tweak < n and sum non-zero *)
Definition seckey_tweak_add_helper (d : Z) (tweak : bytes) : option Z :=
  let '(t, ov) := sc_of_b32 P tweak in
  let s := sc_add P d t in
  if negb ov && negb (s =? 0) then Some s else None.

Definition ec_seckey_tweak_add (seckey tweak : bytes) : list arg :=
  match seckey_of_b32 P seckey with
  | None => [AInt 0; ABytes (zeros 32)]
  | Some d => match seckey_tweak_add_helper d tweak with
              | Some s => [AInt 1; ABytes (sc_to_b32 s)]
              | None => [AInt 0; ABytes (zeros 32)] end
  end.

Definition pubkey_tweak_add_helper (Q : point) (tweak : bytes) : option point :=
  let '(t, ov) := sc_of_b32 P tweak in
  if ov then None else
  match padd Q (pmul t G) with None => None | R => Some R end.

Definition ec_pubkey_tweak_add (obj tweak : bytes) : list arg :=
  match pk_load obj with
  | None => [AInt 0; ABytes pk_obj_zero; AIll 1]
  | Some Q => match pubkey_tweak_add_helper Q tweak with
              | Some R => [AInt 1; ABytes (pk_obj R)]
              | None => [AInt 0; ABytes pk_obj_zero] end
  end.

Definition ec_seckey_tweak_mul (seckey tweak : bytes) : list arg :=
  let '(t, ov) := sc_of_b32 P tweak in
  match seckey_of_b32 P seckey with
  | Some d => if negb ov && negb (t =? 0) then [AInt 1; ABytes (sc_to_b32 (sc_mul P d t))]
              else [AInt 0; ABytes (zeros 32)]
  | None => [AInt 0; ABytes (zeros 32)]
  end.

Definition ec_pubkey_tweak_mul (obj tweak : bytes) : list arg :=
  let '(t, ov) := sc_of_b32 P tweak in
  if ov then [AInt 0; ABytes pk_obj_zero] else
  match pk_load obj with
  | None => [AInt 0; ABytes pk_obj_zero; AIll 1]
  | Some Q => if t =? 0 then [AInt 0; ABytes pk_obj_zero]
              else [AInt 1; ABytes (pk_obj (pmul t Q))]
  end.

(* combine: objects with x = 0 raise one illegal callback each but the loop goes on with whatever
   pubkey_load left in Q (not modelled: generators never feed invalid objects here) *)
Definition ec_pubkey_combine (objs : list bytes) : list arg :=
  match objs with
  | [] => [AInt 0; ABytes pk_obj_zero; AIll 1]
  | _ =>
    let pts := map (fun o => match pk_load o with Some Q => Q | None => None end) objs in
    match psum P pts with
    | None => [AInt 0; ABytes pk_obj_zero]
    | R => [AInt 1; ABytes (pk_obj R)]
    end
  end.

(* comparison: compressed serialisations, invalid objects as 33 zero bytes (+1 callback each) *)
Definition cmp_key (obj : bytes) : bytes * Z :=
  match pk_load obj with Some Q => (ser33 Q, 0) | None => (zeros 33, 1) end.
Definition ec_pubkey_cmp (o1 o2 : bytes) : list arg :=
  let '(a, i1) := cmp_key o1 in let '(b, i2) := cmp_key o2 in
  with_ill (i1 + i2) [AInt (bytes_cmp a b)].

(* sorting specification: a stable insertion sort by the comparison key.  (The C heap sort is not
   stable; equal keys are byte-identical objects, so the observable result is the same.) *)
Fixpoint insert_sorted (x : bytes) (l : list bytes) : list bytes :=
  match l with
  | [] => [x]
  | y :: l' => if bytes_cmp (fst (cmp_key x)) (fst (cmp_key y)) <=? 0 then x :: l else y :: insert_sorted x l'
  end.
Definition sort_objs (l : list bytes) : list bytes := fold_right insert_sorted [] l.
Definition ec_pubkey_sort (objs : list bytes) : list arg := [AInt 1; ABytes (concat (sort_objs objs))].

(* ---- x-only and keypairs ---- *)
Definition even_y (Q : point) : point * Z :=
  match Q with Some (x, y) => if Z.odd y then (Some (x, mneg (cp P) y), 1) else (Q, 0) | None => (None, 0) end.

Definition xonly_pubkey_from_pubkey (obj : bytes) : list arg :=
  match pk_load obj with
  | None => [AInt 0; AIll 1]
  | Some Q => let '(R, par) := even_y Q in [AInt 1; ABytes (pk_obj R); AInt par]
  end.

Definition xonly_pubkey_tweak_add (xobj tweak : bytes) : list arg :=
  match pk_load xobj with
  | None => [AInt 0; ABytes pk_obj_zero; AIll 1]
  | Some Q => match pubkey_tweak_add_helper Q tweak with
              | Some R => [AInt 1; ABytes (pk_obj R)]
              | None => [AInt 0; ABytes pk_obj_zero] end
  end.

Definition xonly_pubkey_tweak_add_check (tweaked32 : bytes) (parity : Z) (xobj tweak : bytes) : list arg :=
  match pk_load xobj with
  | None => [AInt 0; AIll 1]
  | Some Q => match pubkey_tweak_add_helper Q tweak with
              | Some R => [AInt (b2z (bytes_eqb (fe_to_b32 (px R)) tweaked32 && (b2z (Z.odd (py R)) =? parity)))]
              | None => [AInt 0] end
  end.

(* keypair object canonical form: seckey32 || pk_obj (96 bytes) *)
Definition keypair_obj (d : Z) (Q : point) : bytes := sc_to_b32 d ++ pk_obj Q.
Definition keypair_create (seckey : bytes) : list arg :=
  match seckey_of_b32 P seckey with
  | Some d => [AInt 1; ABytes (keypair_obj d (pmul d G))]
  | None => [AInt 0; ABytes (zeros 96)]
  end.
(* keypair_load: pubkey part must load, secret part must be a valid key; each failure = callback *)
Definition keypair_load (kp : bytes) : option (Z * point) :=
  match pk_load (skipn 32 kp), seckey_of_b32 P (firstn 32 kp) with
  | Some Q, Some d => Some (d, Q)
  | _, _ => None
  end.
Definition keypair_xonly_pub (kp : bytes) : list arg :=
  match pk_load (skipn 32 kp) with
  | None => [AInt 0; ABytes pk_obj_zero; AIll 1]
  | Some Q => let '(R, par) := even_y Q in [AInt 1; ABytes (pk_obj R); AInt par]
  end.
Definition keypair_xonly_tweak_add (kp tweak : bytes) : list arg :=
  match keypair_load kp with
  | None => [AInt 0; ABytes (zeros 96); AIll 1]
  | Some (d, Q) =>
    let '(R, par) := even_y Q in
    let d' := if par =? 1 then sc_neg P d else d in
    match seckey_tweak_add_helper d' tweak, pubkey_tweak_add_helper R tweak with
    | Some s, Some T => [AInt 1; ABytes (keypair_obj s T)]
    | _, _ => [AInt 0; ABytes (zeros 96)]
    end
  end.
End Keys.
