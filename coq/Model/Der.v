(* Model of the strict DER codec of src/ecdsa_impl.h and of the signature-object API.
   The parser is written as a function on the remaining input (a suffix of the buffer); pointer
   arithmetic of the C code becomes list manipulation. *)
From Coq Require Import ZArith List Bool.
Require Import Spec.Params Spec.Field Spec.Curve Spec.Bytes Model.Base.
Import ListNotations.
Local Open Scope Z_scope.

(* secp256k1_der_read_len: input = bytes from *sigp to sigend.
   Some (len, rest) on success *)
Definition der_read_len (inp : bytes) : option (Z * bytes) :=
  match inp with
  | [] => None
  | b1 :: rest =>
    if b1 =? 0xFF then None
    else if Z.land b1 0x80 =? 0 then Some (b1, rest)
    else if b1 =? 0x80 then None
    else
      let lenleft := Z.land b1 0x7F in
      if Z.of_nat (length rest) <? lenleft then None
      else match rest with
      | [] => None   (* unreachable: lenleft >= 1 <= length rest *)
      | first :: _ =>
        if first =? 0 then None
        else if 8 <? lenleft then None
        else
          let lb := firstn (Z.to_nat lenleft) rest in
          let rest' := skipn (Z.to_nat lenleft) rest in
          let len := be_val lb in
          if Z.of_nat (length rest') <? len then None
          else if len <? 128 then None
          else Some (len, rest')
      end
  end.

Section Der.
Variable P : Params.

(* secp256k1_der_parse_integer: Some (scalar, rest) *)
Definition der_parse_integer (inp : bytes) : option (Z * bytes) :=
  match inp with
  | 0x02 :: rest =>
    match der_read_len rest with
    | None => None
    | Some (rlen, body) =>
      if (rlen =? 0) || (Z.of_nat (length body) <? rlen) then None
      else
        let b0 := nth 0 body 0 in let b1 := nth 1 body 0 in
        if (b0 =? 0) && (1 <? rlen) && (Z.land b1 0x80 =? 0) then None
        else if (b0 =? 0xFF) && (1 <? rlen) && (Z.land b1 0x80 =? 0x80) then None
        else
          let negative := Z.land b0 0x80 =? 0x80 in
          let skip := b0 =? 0 in
          let rlen' := if skip then rlen - 1 else rlen in
          let body' := if skip then tl body else body in
          let digits := firstn (Z.to_nat rlen') body' in
          let rest' := skipn (Z.to_nat rlen') body' in
          let overflow := negative || (32 <? rlen') in
          let '(v, ov2) := sc_of_b32 P digits in
          Some (if overflow || ov2 then 0 else v, rest')
    end
  | _ => None
  end.

(* secp256k1_ecdsa_sig_parse *)
Definition ecdsa_sig_parse (sig : bytes) : option (Z * Z) :=
  match sig with
  | 0x30 :: rest =>
    match der_read_len rest with
    | None => None
    | Some (rlen, body) =>
      if negb (rlen =? Z.of_nat (length body)) then None
      else match der_parse_integer body with
      | None => None
      | Some (r, rest1) =>
        match der_parse_integer rest1 with
        | None => None
        | Some (s, rest2) => match rest2 with [] => Some (r, s) | _ => None end
        end
      end
    end
  | _ => None
  end.

(* DER integer content bytes of a scalar: 33-byte buffer with leading zero, stripped *)
Fixpoint der_strip (fuel : nat) (b : bytes) : bytes :=
  match fuel with O => b | S f =>
    match b with
    | 0 :: (x :: _) as t => if x <? 0x80 then der_strip f t else b
    | _ => b
    end end.
Definition der_int (v : Z) : bytes := der_strip 32 (0 :: sc_to_b32 v).

(* secp256k1_ecdsa_sig_serialize: size = *size on entry; returns (ret, *size after, bytes written) *)
Definition ecdsa_sig_serialize (size : Z) (r s : Z) : Z * Z * bytes :=
  let rb := der_int r in let sb := der_int s in
  let lenR := Z.of_nat (length rb) in let lenS := Z.of_nat (length sb) in
  let need := 6 + lenS + lenR in
  if size <? need then (0, need, [])
  else (1, need, [0x30; 4 + lenS + lenR; 0x02; lenR] ++ rb ++ [0x02; lenS] ++ sb).

(* ---- signature-object API; canonical object = r32 || s32 ---- *)
Definition sig_obj (r s : Z) : bytes := sc_to_b32 r ++ sc_to_b32 s.
Definition sig_obj_r (o : bytes) : Z := be_val (firstn 32 o).
Definition sig_obj_s (o : bytes) : Z := be_val (skipn 32 o).

Definition ecdsa_signature_parse_der (input : bytes) : list arg :=
  match ecdsa_sig_parse input with
  | Some (r, s) => [AInt 1; ABytes (sig_obj r s)]
  | None => [AInt 0; ABytes (zeros 64)]
  end.

Definition ecdsa_signature_parse_compact (input64 : bytes) : list arg :=
  let '(r, ovr) := sc_of_b32 P (firstn 32 input64) in
  let '(s, ovs) := sc_of_b32 P (skipn 32 input64) in
  if ovr || ovs then [AInt 0; ABytes (zeros 64)] else [AInt 1; ABytes (sig_obj r s)].

(* outlen = *outputlen on entry; result: ret, *outputlen, bytes written (prefix of output) *)
Definition ecdsa_signature_serialize_der (outlen : Z) (obj : bytes) : list arg :=
  let '(ret, sz, out) := ecdsa_sig_serialize outlen (sig_obj_r obj) (sig_obj_s obj) in
  [AInt ret; AInt sz; ABytes out].

Definition ecdsa_signature_serialize_compact (obj : bytes) : list arg := [AInt 1; ABytes obj].

Definition ecdsa_signature_normalize (obj : bytes) : list arg :=
  let r := sig_obj_r obj in let s := sig_obj_s obj in
  if sc_is_high P s then [AInt 1; ABytes (sig_obj r (sc_neg P s))] else [AInt 0; ABytes (sig_obj r s)].
End Der.
