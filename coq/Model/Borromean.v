(* Model of src/modules/rangeproof/borromean_impl.h: Borromean ring signatures (shared by the
   rangeproof, surjection and whitelist modules).

   Conventions
   * scalars are [Z] already reduced (0 <= s < n); points are [Curve.point] ([None] = infinity);
   * the rings are laid out FLAT, as in C: [s] and [pubs] hold sum(rsizes) entries, ring i occupies
     the next [rsizes_i] entries; [rsizes]/[secidx] are [list nat];
   * [nrings] is the C argument of that name; only the first [nrings] entries of [rsizes] are used.
   * every early [return 0] of the C code is mirrored (see the comments "C:").  Situations in which the
     C code would read out of bounds (lists shorter than the ring layout says, secidx >= rsize) are
     outside the C contract; the model answers false / None there.
   * secp256k1_ecmult(&r, &pub, &ens, &s) computes ens*pub + s*G. *)
From Coq Require Import ZArith List Bool.
Require Import Spec.Params Spec.Field Spec.Curve Spec.Bytes Spec.Sha256 Model.Base.
Import ListNotations.
Local Open Scope Z_scope.

(* secp256k1_borromean_hash: SHA256(e || m || be32(ridx) || be32(eidx)) *)
Definition borromean_hash (m e : bytes) (ridx eidx : Z) : bytes :=
  sha256 (e ++ m ++ be_enc 4 ridx ++ be_enc 4 eidx).

Section Borromean.
Variable P : Params.
Notation G := (Curve.G P).
Notation pmul := (Curve.pmul P).
Notation padd := (Curve.padd P).

(* ens*pub + s*G *)
Definition bor_ecmult (pub : point) (ens s : Z) : point := padd (pmul ens pub) (pmul s G).

(* ------------------------------------------------------------------ verify *)
(* the inner [for j] loop of borromean_verify for ring [i]; [rem] = rsizes[i] - j entries still to do;
   [s], [pubs] start at index count.  Result: the last 33-byte [tmp] of the ring, the challenges
   used (evalues, in order), and the unconsumed tails of [s] and [pubs]. *)
Fixpoint verify_ring (m : bytes) (i j : Z) (rem : nat) (ens : Z) (overflow : bool)
                     (s : list Z) (pubs : list point)
  : option (bytes * list Z * list Z * list point) :=
  match rem with
  | O => None   (* not reached: called with rem >= 1 *)
  | S rem' =>
    match s, pubs with
    | sj :: s', pj :: pubs' =>
      (* C: if (overflow || scalar_is_zero(&s[count]) || scalar_is_zero(&ens) || gej_is_infinity(&pubs[count])) return 0; *)
      if overflow || (sj =? 0) || (ens =? 0) || is_inf pj then None else
      let R := bor_ecmult pj ens sj in
      (* C: if (gej_is_infinity(&rgej)) return 0; *)
      if is_inf R then None else
      let tmp := ser33 R in
      match rem' with
      | O => Some (tmp, [ens], s', pubs')                        (* j == rsizes[i]-1: tmp goes into sha256_e0 *)
      | S _ =>
        let '(ens', ov') := sc_of_b32 P (borromean_hash m tmp i (j + 1)) in
        match verify_ring m i (j + 1) rem' ens' ov' s' pubs' with
        | Some (t, evs, s'', pubs'') => Some (t, ens :: evs, s'', pubs'')
        | None => None
        end
      end
    | _, _ => None   (* outside the C contract: fewer than sum(rsizes) entries *)
    end
  end.

(* the outer [for i] loop: accumulates the bytes written into sha256_e0 and the evalues *)
Fixpoint verify_rings (m e0 : bytes) (i : Z) (rsizes : list nat) (s : list Z) (pubs : list point)
                      (acc : bytes) (evs : list Z) : option (bytes * list Z) :=
  match rsizes with
  | [] => Some (acc, evs)
  | O :: rs => verify_rings m e0 (i + 1) rs s pubs acc evs      (* empty ring: loop body never runs, nothing hashed *)
  | (S _ as rsz) :: rs =>
    let '(ens, ov) := sc_of_b32 P (borromean_hash m e0 i 0) in
    match verify_ring m i 0 rsz ens ov s pubs with
    | None => None
    | Some (tmp, ev, s', pubs') => verify_rings m e0 (i + 1) rs s' pubs' (acc ++ tmp) (evs ++ ev)
    end
  end.

(* secp256k1_borromean_verify with evalues != NULL: Some evalues iff it returns 1 *)
Definition borromean_verify_ev (e0 : bytes) (s : list Z) (pubs : list point) (rsizes : list nat)
                               (nrings : nat) (m : bytes) : option (list Z) :=
  if (length rsizes <? nrings)%nat then None else
  match verify_rings m e0 0 (firstn nrings rsizes) s pubs [] [] with
  | None => None
  | Some (acc, evs) =>
    (* C: return memcmp_var(e0, SHA256(tmp_0 || ... || tmp_{nrings-1} || m), 32) == 0 *)
    if bytes_eqb (firstn 32 e0) (sha256 (acc ++ m)) then Some evs else None
  end.

Definition borromean_verify (e0 : bytes) (s : list Z) (pubs : list point) (rsizes : list nat)
                            (nrings : nat) (m : bytes) : bool :=
  match borromean_verify_ev e0 s pubs rsizes nrings m with Some _ => true | None => false end.

(* ------------------------------------------------------------------ sign *)
(* first pass, [for (j = secidx[i]+1; j < rsizes[i]; j++)]: [s], [pubs] are the entries j.. of ring i *)
Fixpoint sign_fwd (m : bytes) (i j : Z) (tmp : bytes) (s : list Z) (pubs : list point) : option bytes :=
  match s, pubs with
  | sj :: s', pj :: pubs' =>
    let '(ens, ov) := sc_of_b32 P (borromean_hash m tmp i j) in
    (* C: if (overflow || scalar_is_zero(&ens)) return 0; *)
    if ov || (ens =? 0) then None else
    let R := bor_ecmult pj ens sj in
    (* C: if (gej_is_infinity(&rgej)) return 0; *)
    if is_inf R then None else
    sign_fwd m i (j + 1) (ser33 R) s' pubs'
  | _, _ => Some tmp
  end.

(* rings of the first pass; result: bytes written into sha256_e0 *)
Fixpoint sign_pass1 (m : bytes) (i : Z) (rsizes secidx : list nat) (k : list Z)
                    (s : list Z) (pubs : list point) (acc : bytes) : option bytes :=
  match rsizes, secidx, k with
  | [], _, _ => Some acc
  | rsz :: rs, sx :: sxs, ki :: ks =>
    let R := pmul ki G in
    (* C: ecmult_gen(k[i]); if (gej_is_infinity(&rgej)) return 0; *)
    if is_inf R then None else
    let si := firstn rsz s in let pi := firstn rsz pubs in
    match sign_fwd m i (Z.of_nat sx + 1) (ser33 R) (skipn (S sx) si) (skipn (S sx) pi) with
    | None => None
    | Some tmp => sign_pass1 m (i + 1) rs sxs ks (skipn rsz s) (skipn rsz pubs) (acc ++ tmp)
    end
  | _, _, _ => None
  end.

(* second pass, [for (j = 0; j < secidx[i]; j++)]: [s], [pubs] are entries 0..secidx-1 of ring i;
   result: the challenge at position secidx *)
Fixpoint sign_bwd (m : bytes) (i j : Z) (ens : Z) (s : list Z) (pubs : list point) : option Z :=
  match s, pubs with
  | sj :: s', pj :: pubs' =>
    let R := bor_ecmult pj ens sj in
    (* C: if (gej_is_infinity(&rgej)) return 0; *)
    if is_inf R then None else
    let '(ens', ov) := sc_of_b32 P (borromean_hash m (ser33 R) i (j + 1)) in
    (* C: if (overflow || scalar_is_zero(&ens)) return 0; *)
    if ov || (ens' =? 0) then None else
    sign_bwd m i (j + 1) ens' s' pubs'
  | _, _ => Some ens
  end.

Fixpoint sign_pass2 (m e0 : bytes) (i : Z) (rsizes secidx : list nat) (k sec : list Z)
                    (s : list Z) (pubs : list point) : option (list Z) :=
  match rsizes, secidx, k, sec with
  | [], _, _, _ => Some []
  | rsz :: rs, sx :: sxs, ki :: ks, xi :: xs =>
    let '(ens0, ov) := sc_of_b32 P (borromean_hash m e0 i 0) in
    (* C: if (overflow || scalar_is_zero(&ens)) return 0; *)
    if ov || (ens0 =? 0) then None else
    let si := firstn rsz s in let pi := firstn rsz pubs in
    match sign_bwd m i 0 ens0 (firstn sx si) (firstn sx pi) with
    | None => None
    | Some ens =>
      (* s[count+secidx] = k[i] - ens*sec[i];  C: if (scalar_is_zero(...)) return 0; *)
      let snew := sc_add P (sc_neg P (sc_mul P ens xi)) ki in
      if snew =? 0 then None else
      match sign_pass2 m e0 (i + 1) rs sxs ks xs (skipn rsz s) (skipn rsz pubs) with
      | None => None
      | Some rest => Some (firstn sx si ++ snew :: skipn (S sx) si ++ rest)
      end
    end
  | _, _, _, _ => None
  end.

Definition sum_nat (l : list nat) : nat := fold_right Nat.add O l.

(* layout preconditions of the C function (its VERIFY_CHECKs and implicit array sizes) *)
Definition sign_layout_ok (s : list Z) (pubs : list point) (k sec : list Z)
                          (rsizes secidx : list nat) : bool :=
  let nr := length rsizes in
  Nat.eqb (length secidx) nr && Nat.eqb (length k) nr && Nat.eqb (length sec) nr &&
  Nat.eqb (length s) (sum_nat rsizes) && Nat.eqb (length pubs) (sum_nat rsizes) &&
  forallb (fun ab => Nat.ltb (snd ab) (fst ab)) (combine rsizes secidx).

(* secp256k1_borromean_sign: [s] holds the forged values (the entries at the secret indices are
   ignored and overwritten).  Some (e0, s') iff the C function returns 1. *)
Definition borromean_sign (s : list Z) (pubs : list point) (k sec : list Z)
                          (rsizes secidx : list nat) (nrings : nat) (m : bytes)
  : option (bytes * list Z) :=
  let rsizes := firstn nrings rsizes in let secidx := firstn nrings secidx in
  let k := firstn nrings k in let sec := firstn nrings sec in
  if negb (Nat.eqb (length rsizes) nrings) then None else
  let tot := sum_nat rsizes in
  let s := firstn tot s in let pubs := firstn tot pubs in
  if negb (sign_layout_ok s pubs k sec rsizes secidx) then None else
  match sign_pass1 m 0 rsizes secidx k s pubs [] with
  | None => None
  | Some acc =>
    let e0 := sha256 (acc ++ m) in
    match sign_pass2 m e0 0 rsizes secidx k sec s pubs with
    | None => None
    | Some s' => Some (e0, s')
    end
  end.
End Borromean.
