(* Model of src/modules/rangeproof/{rangeproof_impl.h,main_impl.h}: Borromean range proofs.

   64-bit quantities are [Z] in [0,2^64); C's wrapping arithmetic is written [u64 (...)].
   Ring layouts are [list nat] (as Model/Borromean.v wants them).  Unbounded C loops (the
   rejection sampling of genrand) take fuel; out of fuel = [RFuel] = the model abstains. *)
From Coq Require Import ZArith List Bool.
Require Import Spec.Params Spec.Field Spec.Curve Spec.Bytes Spec.Sha256.
Require Import Model.Base Model.Pedersen Model.Borromean.
Import ListNotations.
Local Open Scope Z_scope.

Definition U64MAX : Z := 2^64 - 1.
Definition INT64MAX : Z := 2^63 - 1.
Definition u64 (x : Z) : Z := x mod 2^64.
(* secp256k1_clz64_var, for x > 0 *)
Definition clz64 (x : Z) : Z := 63 - Z.log2 x.

Inductive rp_result (A : Type) := ROk (a : A) | RFail | RFuel.
Arguments ROk {A} a. Arguments RFail {A}. Arguments RFuel {A}.

(* ------------------------------------------------------------------ range_proveparams *)
Record pparams := mkPP {
  pp_v : Z; pp_rings : Z; pp_rsizes : list nat; pp_npub : Z; pp_secidx : list nat;
  pp_min_value : Z; pp_mantissa : Z; pp_scale : Z; pp_exp : Z; pp_min_bits : Z }.

(* for (i = 0; i < exp && v2 <= UINT64_MAX/10; i++) { v /= 10; v2 *= 10; }  -> (i, v) *)
Fixpoint exp_loop (fuel : nat) (i v v2 : Z) : Z * Z :=
  match fuel with
  | O => (i, v)
  | S f => if v2 <=? U64MAX / 10 then exp_loop f (i + 1) (v / 10) (v2 * 10) else (i, v)
  end.

Definition ring_list {A} (rings : Z) (f : Z -> A) : list A :=
  map (fun i => f (Z.of_nat i)) (seq 0 (Z.to_nat rings)).
Definition ring_size (rings mantissa i : Z) : nat :=
  if (i <? rings - 1) || Z.even mantissa then 4%nat else 2%nat.
Definition digit (v i : Z) : Z := Z.land (Z.shiftr v (2 * i)) 3.

(* inputs: *min_value, *exp, *min_bits, value (the other C arguments are pure outputs) *)
Definition range_proveparams (min_value exp min_bits value : Z) : option pparams :=
  let exp := if min_value =? U64MAX then -1 else exp in
  if 0 <=? exp then
    if (negb (min_value =? 0) && (INT64MAX <? value)) || (negb (value =? 0) && (INT64MAX <=? min_value))
    then None else
    let max_bits := if min_value =? 0 then 64 else clz64 min_value in
    let min_bits := if max_bits <? min_bits then max_bits else min_bits in
    let exp := if (61 <? min_bits) || (INT64MAX <? value) then 0 else exp in
    let v0 := u64 (value - min_value) in
    let v2 := if min_bits =? 0 then 0 else Z.shiftr U64MAX (64 - min_bits) in
    let '(exp, v) := exp_loop (Z.to_nat exp) 0 v0 v2 in
    let scale := u64 (10 ^ exp) in
    let v2 := u64 (v * 10 ^ exp) in
    let min_value := u64 (value - v2) in
    let mantissa := if v =? 0 then 1 else 64 - clz64 v in
    let mantissa := if mantissa <? min_bits then min_bits else mantissa in
    let rings := Z.shiftr (mantissa + 1) 1 in
    let rsizes := ring_list rings (ring_size rings mantissa) in
    Some (mkPP v rings rsizes (Z.of_nat (sum_nat rsizes)) (ring_list rings (fun i => Z.to_nat (digit v i)))
               min_value mantissa scale exp min_bits)
  else
    (* a proof for an exact value *)
    Some (mkPP 0 1 [1%nat] 2 [O] value 0 1 0 min_bits).

(* ------------------------------------------------------------------ header *)
(* header bytes written by sign_impl *)
Definition header_bytes (pp : pparams) : bytes :=
  let nz := Nat.ltb 1 (nth 0 (pp_rsizes pp) O) in
  let b0 := Z.lor (if nz then Z.lor 64 (pp_exp pp) else 0) (if pp_min_value pp =? 0 then 0 else 32) in
  [b0] ++ (if nz then [pp_mantissa pp - 1] else [])
       ++ (if pp_min_value pp =? 0 then [] else be_enc 8 (pp_min_value pp)).

(* for (i = 0; i < exp; i++) { if (max > UINT64_MAX/10) return 0; max *= 10; scale *= 10; } *)
Fixpoint scale_loop (fuel : nat) (mx scale : Z) : option (Z * Z) :=
  match fuel with
  | O => Some (mx, scale)
  | S f => if U64MAX / 10 <? mx then None else scale_loop f (mx * 10) (u64 (scale * 10))
  end.

Record header := mkHdr { h_offset : Z; h_exp : Z; h_mantissa : Z; h_scale : Z; h_min : Z; h_max : Z }.

(* secp256k1_rangeproof_getheader_impl with *offset = 0 and plen = length proof *)
Definition getheader (proof : bytes) : option header :=
  let plen := Z.of_nat (length proof) in
  let b0 := nth 0 proof 0 in
  if (plen <? 65) || negb (Z.land b0 128 =? 0) then None else
  let has_nz := negb (Z.land b0 64 =? 0) in
  let has_min := negb (Z.land b0 32 =? 0) in
  match (if has_nz then
           let exp := Z.land b0 31 in
           if 18 <? exp then None else
           let mantissa := nth 1 proof 0 + 1 in
           if 64 <? mantissa then None else
           Some (exp, mantissa, Z.shiftr U64MAX (64 - mantissa), 2)
         else Some (-1, 0, 0, 1)) with
  | None => None
  | Some (exp, mantissa, max0, offset) =>
    match scale_loop (Z.to_nat exp) max0 1 with
    | None => None
    | Some (mx, scale) =>
      match (if has_min then
               if plen - offset <? 8 then None
               else Some (be_val (slice (Z.to_nat offset) 8 proof), offset + 8)
             else Some (0, offset)) with
      | None => None
      | Some (minv, offset') =>
        if U64MAX - minv <? mx then None
        else Some (mkHdr offset' exp mantissa scale minv (mx + minv))
      end
    end
  end.

(* secp256k1_rangeproof_info *)
Definition rangeproof_info (proof : bytes) : list arg :=
  match getheader proof with
  | None => [AInt 0]
  | Some h => [AInt 1; AInt (h_exp h); AInt (h_mantissa h); AInt (h_min h); AInt (h_max h)]
  end.

(* secp256k1_rangeproof_max_size *)
Definition rangeproof_max_size (max_value min_bits : Z) : Z :=
  let val_mantissa := if 0 <? max_value then 64 - clz64 max_value else 1 in
  let mantissa := if val_mantissa <? min_bits then min_bits else val_mantissa in
  let rings := (mantissa + 1) / 2 in
  let npubs := rings * 4 - 2 * (mantissa mod 2) in
  10 + 32 * (npubs + rings - 1) + 32 + (rings - 1 + 7) / 8.

Section Rangeproof.
Variable P : Params.
Let p := cp P.
Let n := cn P.
Notation G := (Curve.G P).
Notation pmul := (Curve.pmul P).
Notation padd := (Curve.padd P).
Notation pneg := (Curve.pneg P).
Notation pdbl := (Curve.pdbl P).

(* secp256k1_rangeproof_serialize_point *)
Definition ser_point (Q : point) : bytes := ser_quad P 0 Q.

(* ------------------------------------------------------------------ pub_expand *)
Fixpoint times10 (e : nat) (base : point) : point :=
  match e with
  | O => base
  | S e' => let tmp := pdbl base in times10 e' (padd (pdbl (pdbl tmp)) tmp)
  end.
(* pubs[npub+j] = pubs[npub+j-1] + base, j = 1 .. rsize-1 *)
Fixpoint expand_ring (cnt : nat) (prev base : point) : list point :=
  match cnt with O => [] | S c => let q := padd prev base in q :: expand_ring c q base end.
(* [firsts] = the first public key of every ring *)
Fixpoint expand_rings (firsts : list point) (rsizes : list nat) (base : point) : list point :=
  match firsts, rsizes with
  | f :: fs, rsz :: rs => (f :: expand_ring (Nat.pred rsz) f base) ++ expand_rings fs rs (pdbl (pdbl base))
  | _, _ => []
  end.
Definition pub_expand (firsts : list point) (exp : Z) (rsizes : list nat) (genp : point) : list point :=
  expand_rings firsts rsizes (times10 (Z.to_nat exp) (pneg genp)).

(* ------------------------------------------------------------------ genrand *)
Definition gen_fuel : nat := 16.
(* do { generate; set_b32 } while (overflow || is_zero) *)
Fixpoint gen_sec (fuel : nat) (d : drbg) : option (Z * drbg) :=
  match fuel with
  | O => None
  | S f => let '(tmp, d') := drbg_gen32 d in
           let '(x, ov) := sc_of_b32 P tmp in
           if ov || (x =? 0) then gen_sec f d' else Some (x, d')
  end.

(* inner loop over j: (message chunks after xor, s values, all s valid, rng) *)
Fixpoint genrand_ring (rsz : nat) (i j : Z) (prep : bytes) (d : drbg) : list bytes * list Z * bool * drbg :=
  match rsz with
  | O => ([], [], true, d)
  | S r =>
    let '(t, d1) := drbg_gen32 d in
    let t' := xor_bytes t (slice (Z.to_nat ((i * 4 + j) * 32)) 32 prep) in
    let '(sv, ov) := sc_of_b32 P t' in
    let '(ts, ss, ok, d2) := genrand_ring r i (j + 1) prep d1 in
    (t' :: ts, sv :: ss, negb (ov || (sv =? 0)) && ok, d2)
  end.

(* result: sec (one per ring), message chunks (one per pubkey, in npub order), s, ret *)
Fixpoint genrand_rings (rsizes : list nat) (i acc : Z) (prep : bytes) (d : drbg)
  : option (list Z * list bytes * list Z * bool) :=
  match rsizes with
  | [] => Some ([], [], [], true)
  | rsz :: rest =>
    match (match rest with
           | [] => Some (sc_neg P acc, d)                            (* i == rings-1: sec = -acc *)
           | _ => gen_sec gen_fuel (snd (drbg_gen32 d))              (* one output discarded first *)
           end) with
    | None => None
    | Some (sec_i, d1) =>
      let '(ts, ss, ok, d2) := genrand_ring rsz i 0 prep d1 in
      match genrand_rings rest (i + 1) (sc_add P acc sec_i) prep d2 with
      | None => None
      | Some (secs, ts', ss', ok') => Some (sec_i :: secs, ts ++ ts', ss ++ ss', ok && ok')
      end
    end
  end.

(* secp256k1_rangeproof_genrand; [hdr] = proof[0..len) *)
Definition genrand (prep : bytes) (rsizes : list nat) (nonce : bytes) (commit : point) (hdr : bytes)
                   (genp : point) : option (list Z * list bytes * list Z * bool) :=
  genrand_rings rsizes 0 0 prep
    (drbg_init (firstn 32 nonce ++ ser_point commit ++ ser_point genp ++ hdr)).

(* ------------------------------------------------------------------ sign *)
Definition set_chunk (k : nat) (chunk prep : bytes) : bytes :=
  firstn (32 * k) prep ++ chunk ++ skipn (32 * (k + 1)) prep.
Definition replace_nth {A} (k : nat) (x : A) (l : list A) : list A := firstn k l ++ x :: skipn (S k) l.

(* the loop computing the first public key of every ring: sec[i]*G + (secidx[i]*scale << 2i)*genp.
   Result: firsts, sign bits and x coordinates of the rings 0..rings-2; None = a point at infinity *)
Fixpoint digit_commits (secs : list Z) (secidx : list nat) (i : Z) (scale : Z) (genp : point)
  : option (list point) :=
  match secs, secidx with
  | sec_i :: secs', sx :: sxs =>
    let Q := pedersen_ecmult P sec_i (u64 (u64 (Z.of_nat sx * scale) * 2 ^ (2 * i))) genp in
    if is_inf Q then None else
    match digit_commits secs' sxs (i + 1) scale genp with
    | None => None
    | Some l => Some (Q :: l)
    end
  | _, _ => Some []
  end.

(* sign bits packed little-endian-within-byte: bit i of byte i>>3 *)
Fixpoint pack_bits (bits : list Z) (nbytes : nat) : bytes :=
  match nbytes with
  | O => []
  | S k => fold_right (fun b acc => b + 2 * acc) 0 (firstn 8 bits) :: pack_bits (skipn 8 bits) k
  end.
Definition point_flag (Q : point) : Z := nth 0 (ser_point Q) 0.

(* secp256k1_rangeproof_sign_impl.  [plen] = *plen on entry.  ROk proof iff it returns 1 (then
   *plen = length proof). *)
Definition rangeproof_sign_impl (plen min_value : Z) (commit : point) (blind nonce : bytes)
    (exp min_bits value : Z) (message extra_commit : option bytes) (genp : point) : rp_result bytes :=
  if (plen <? 65) || (value <? min_value) || (64 <? min_bits) || (min_bits <? 0) || (exp <? -1) || (18 <? exp)
  then RFail else
  match range_proveparams min_value exp min_bits value with
  | None => RFail
  | Some pp =>
    let rings := pp_rings pp in let rsizes := pp_rsizes pp in let secidx := pp_secidx pp in
    let hdr := header_bytes pp in
    let len := Z.of_nat (length hdr) in
    let msg := match message with Some m => m | None => [] end in
    let msg_len := Z.of_nat (length msg) in
    if (0 <? msg_len) && (128 * (rings - 1) <? msg_len) then RFail else
    if plen - len <? 32 * (pp_npub pp + rings - 1) + 32 + Z.shiftr (rings + 6) 3 then RFail else
    let last := Z.to_nat (rings - 1) in
    let rs_last := nth last rsizes O in
    let prep0 := msg ++ zeros (4096 - length msg) in
    let prep :=
      if Nat.ltb 1 rs_last then
        let idx0 := Nat.pred rs_last in
        let idx := if Nat.eqb (nth last secidx O) idx0 then Nat.pred idx0 else idx0 in
        let v8 := be_enc 8 (pp_v pp) in
        set_chunk (last * 4 + idx) ([128; 0; 0; 0; 0; 0; 0; 0] ++ v8 ++ v8 ++ v8) prep0
      else prep0 in
    match genrand prep rsizes nonce commit hdr genp with
    | None => RFuel
    | Some (secs, _, s, ok) =>
      if negb ok then RFail else
      (* k[i] = s[i*4 + secidx[i]] *)
      let k := map (fun ix => nth (fst ix * 4 + snd ix) s 0) (combine (seq 0 (length secidx)) secidx) in
      let '(stmp, ov) := sc_of_b32 P blind in
      let sec_last := sc_add P (nth last secs 0) stmp in
      if ov || (sec_last =? 0) then RFail else
      let secs := replace_nth last sec_last secs in
      match digit_commits secs secidx 0 (pp_scale pp) genp with
      | None => RFail
      | Some firsts =>
        let sent := firstn last firsts in        (* the digit commitments that are transmitted *)
        let signs := pack_bits (map point_flag sent) (Z.to_nat (Z.shiftr (rings + 6) 3)) in
        let xs := flat_map (fun Q => skipn 1 (ser_point Q)) sent in
        let pubs := pub_expand firsts (pp_exp pp) rsizes genp in
        let m := sha256 (ser_point commit ++ ser_point genp ++ hdr ++ flat_map ser_point sent
                         ++ match extra_commit with Some e => e | None => [] end) in
        match borromean_sign P s pubs k secs rsizes secidx (length rsizes) m with
        | None => RFail
        | Some (e0, s') => ROk (hdr ++ signs ++ xs ++ e0 ++ flat_map sc_to_b32 s')
        end
      end
    end
  end.

(* ------------------------------------------------------------------ rewind *)
Definition recover_x (k e s : Z) : Z := sc_mul P (sc_add P (sc_neg P s) k) (sc_inv P e).
Definition recover_k (x e s : Z) : Z := sc_add P s (sc_mul P x e).

(* the value-encoding test of rewind_inner on a 32-byte string *)
Definition value_encoding (tmp : bytes) : option Z :=
  if negb (Z.land (nth 0 tmp 0) 128 =? 0) && bytes_eqb (slice 16 8 tmp) (slice 24 8 tmp)
     && bytes_eqb (slice 8 8 tmp) (slice 16 8 tmp)
  then Some (be_val (slice 24 8 tmp)) else None.

(* message extraction loop of rewind_inner over all (i, j); [npub] counts pubkeys.
   Produces the concatenation of the 32-byte strings (truncated by the caller). *)
Fixpoint rewind_msg_ring (rsz : nat) (j npub : Z) (idx : Z) (sec_i : Z) (skip1 skip2 : Z)
                         (ev s : list Z) (prep : list bytes) : bytes :=
  match rsz with
  | O => []
  | S r =>
    let rest := rewind_msg_ring r (j + 1) (npub + 1) idx sec_i skip1 skip2 ev s prep in
    if (npub =? skip1) || (npub =? skip2) then rest else
    let k := Z.to_nat npub in
    let stmp := if idx =? j then recover_k sec_i (nth k ev 0) (nth k s 0) else nth k s 0 in
    xor_bytes (sc_to_b32 stmp) (nth k prep (zeros 32)) ++ rest
  end.
Fixpoint rewind_msg_rings (rsizes : list nat) (secs : list Z) (i npub value skip1 skip2 : Z)
                          (ev s : list Z) (prep : list bytes) : bytes :=
  match rsizes, secs with
  | rsz :: rs, sec_i :: secs' =>
    rewind_msg_ring rsz 0 npub (digit value i) sec_i skip1 skip2 ev s prep
    ++ rewind_msg_rings rs secs' (i + 1) (npub + Z.of_nat rsz) value skip1 skip2 ev s prep
  | _, _ => []
  end.

(* secp256k1_rangeproof_rewind_inner.  [mcap] = None when m or mlen is NULL, Some ( *mlen ) otherwise.
   Result: Some (blind, v, message written, mlen) iff it returns 1. *)
Definition rewind_inner (mcap : option Z) (ev s : list Z) (rsizes : list nat) (nonce : bytes)
    (commit : point) (hdr : bytes) (genp : point) : rp_result (Z * Z * bytes) :=
  match genrand (zeros 4096) rsizes nonce commit hdr genp with
  | None => RFuel
  | Some (secs, prep, s_orig, _) =>
    let rings := length rsizes in
    let last := Nat.pred rings in
    let rs_last := nth last rsizes O in
    if Nat.eqb rings 1 && Nat.eqb rs_last 1 then
      ROk (recover_x (nth 0 s_orig 0) (nth 0 ev 0) (nth 0 s 0), 0, [])
    else
      let base := (last * 4)%nat in
      let try j := let idx := (base + rs_last - 1 - j)%nat in
                   match value_encoding (xor_bytes (sc_to_b32 (nth idx s 0)) (nth idx prep (zeros 32))) with
                   | Some v => Some (v, idx, xor_bytes (sc_to_b32 (nth idx s 0)) (nth idx prep (zeros 32)))
                   | None => None end in
      match (match try O with Some r => Some (r, O) | None =>
               match try 1%nat with Some r => Some (r, 1%nat) | None => None end end) with
      | None => RFail                                  (* couldn't extract a value *)
      | Some ((value, idx, tmp), j) =>
        let prep := replace_nth idx tmp prep in
        let skip1 := Z.of_nat (rs_last - 1 - j) in
        let skip2 := digit value (Z.of_nat last) in
        if skip1 =? skip2 then RFail else                (* value is in wrong position *)
        let skip1 := skip1 + Z.of_nat base in let skip2 := skip2 + Z.of_nat base in
        let k2 := Z.to_nat skip2 in
        let stmp := recover_x (nth k2 s_orig 0) (nth k2 ev 0) (nth k2 s 0) in
        let sec_last := sc_neg P (nth last secs 0) in
        let blind := sc_add P stmp sec_last in
        match mcap with
        | None => ROk (blind, value, [])
        | Some cap =>
          if cap =? 0 then ROk (blind, value, []) else
          let secs := replace_nth last sec_last secs in
          ROk (blind, value, firstn (Z.to_nat cap) (rewind_msg_rings rsizes secs 0 0 value skip1 skip2 ev s prep))
        end
      end
  end.

(* ------------------------------------------------------------------ verify *)
Definition verify_layout (mantissa : Z) : list nat :=
  if mantissa =? 0 then [1%nat]
  else repeat 4%nat (Z.to_nat (Z.shiftr mantissa 1)) ++ (if Z.odd mantissa then [2%nat] else []).

(* the loop over the transmitted digit commitments: (points, bytes hashed); None = x >= p or not on curve *)
Fixpoint parse_digits (cnt : nat) (i : Z) (signs xs : bytes) : option (list point * bytes) :=
  match cnt with
  | O => Some ([], [])
  | S c =>
    let x32 := firstn 32 xs in
    match fe_of_b32 P x32 with
    | None => None
    | Some x =>
      let '((_, y), ok) := ge_set_xquad P x in
      if negb ok then None else
      let sgn := Z.testbit (nth (Z.to_nat (Z.shiftr i 3)) signs 0) (Z.land i 7) in
      let c0 : point := Some (x, if sgn then mneg p y else y) in
      match parse_digits c (i + 1) signs (skipn 32 xs) with
      | None => None
      | Some (pts, hashed) => Some (c0 :: pts, (if sgn then 1 else 0) :: x32 ++ hashed)
      end
    end
  end.

Fixpoint parse_scalars (cnt : nat) (b : bytes) : option (list Z) :=
  match cnt with
  | O => Some []
  | S c => let '(x, ov) := sc_of_b32 P (firstn 32 b) in
           if ov then None else
           match parse_scalars c (skipn 32 b) with None => None | Some l => Some (x :: l) end
  end.

Record verified := mkVer { v_min : Z; v_max : Z; v_rewind : option (Z * Z * bytes) }.

(* secp256k1_rangeproof_verify_impl.
   [nonce] = None for plain verification; Some nonce for rewind ([mcap] as in rewind_inner).
   ROk (min, max, rewind outputs) iff the C function returns 1. *)
Definition rangeproof_verify_impl (nonce : option bytes) (mcap : option Z) (commit : point) (proof : bytes)
    (extra_commit : option bytes) (genp : point) : rp_result verified :=
  match getheader proof with
  | None => RFail
  | Some h =>
    let plen := Z.of_nat (length proof) in
    let offset := h_offset h in
    let rsizes := verify_layout (h_mantissa h) in
    let rings := Z.of_nat (length rsizes) in
    let npub := Z.of_nat (sum_nat rsizes) in
    if plen - offset <? 32 * (npub + rings - 1) + 32 + Z.shiftr (rings + 6) 3 then RFail else
    let hdr := firstn (Z.to_nat offset) proof in
    let nsign := Z.to_nat (Z.shiftr (rings + 6) 3) in
    let signs := slice (Z.to_nat offset) nsign proof in
    (* spare sign bits must be zero *)
    if negb (Z.land (rings - 1) 7 =? 0) && negb (Z.shiftr (nth (Nat.pred nsign) signs 0) (Z.land (rings - 1) 7) =? 0)
    then RFail else
    let off1 := (Z.to_nat offset + nsign)%nat in
    let nsent := Z.to_nat (rings - 1) in
    match parse_digits nsent 0 signs (skipn off1 proof) with
    | None => RFail
    | Some (sent, hashed) =>
      let acc0 := if h_min h =? 0 then None else pmul (h_min h) genp in
      let accj := fold_left padd sent acc0 in
      let lastpub := padd (pneg accj) commit in
      if is_inf lastpub then RFail else
      let pubs := pub_expand (sent ++ [lastpub]) (h_exp h) rsizes genp in
      let off2 := (off1 + 32 * nsent)%nat in
      let e0 := slice off2 32 proof in
      match parse_scalars (Z.to_nat npub) (skipn (off2 + 32) proof) with
      | None => RFail                                                      (* a scalar >= n *)
      | Some s =>
        if negb (Z.of_nat off2 + 32 + 32 * npub =? plen) then RFail else  (* extra data *)
        let m := sha256 (ser_point commit ++ ser_point genp ++ hdr ++ hashed
                         ++ match extra_commit with Some e => e | None => [] end) in
        match borromean_verify_ev P e0 s pubs rsizes (length rsizes) m with
        | None => RFail
        | Some ev =>
          match nonce with
          | None => ROk (mkVer (h_min h) (h_max h) None)
          | Some nc =>
            match rewind_inner mcap ev s rsizes nc commit hdr genp with
            | RFuel => RFuel
            | RFail => RFail
            | ROk (blind, vv, msg) =>
              let vv := u64 (vv * h_scale h + h_min h) in
              let c2 := pedersen_ecmult P blind vv genp in
              if is_inf c2 then RFail else
              if negb (is_inf (padd (pneg c2) commit)) then RFail else
              ROk (mkVer (h_min h) (h_max h) (Some (blind, vv, msg)))
            end
          end
        end
      end
    end
  end.

(* ------------------------------------------------------------------ public API (main_impl.h) *)
(* rangeproof_sign #plen #min_value commit64 blind32 nonce32 #exp #min_bits #value msg|- extra|- gen64 *)
Definition rangeproof_sign (plen min_value : Z) (commit blind nonce : bytes) (exp min_bits value : Z)
    (message extra_commit : option bytes) (gen : bytes) : list arg :=
  match rangeproof_sign_impl plen min_value (commit_load P commit) blind nonce exp min_bits value
                             message extra_commit (gen_load gen) with
  | ROk proof => [AInt 1; AInt (Z.of_nat (length proof)); ABytes proof]
  | RFail => [AInt 0]
  | RFuel => abstain
  end.

Definition rangeproof_verify (commit proof : bytes) (extra_commit : option bytes) (gen : bytes) : list arg :=
  match rangeproof_verify_impl None None (commit_load P commit) proof extra_commit (gen_load gen) with
  | ROk v => [AInt 1; AInt (v_min v); AInt (v_max v)]
  | RFail => [AInt 0]
  | RFuel => abstain
  end.

(* mcap: None = message_out and outlen NULL *)
Definition rangeproof_rewind (nonce commit proof : bytes) (extra_commit : option bytes) (gen : bytes)
                             (mcap : option Z) : list arg :=
  match rangeproof_verify_impl (Some nonce) mcap (commit_load P commit) proof extra_commit (gen_load gen) with
  | ROk v =>
    match v_rewind v with
    | Some (blind, value, msg) =>
      [AInt 1; ABytes (sc_to_b32 blind); AInt value; ABytes msg; AInt (v_min v); AInt (v_max v)]
    | None => [AInt 1]
    end
  | RFail => [AInt 0]
  | RFuel => abstain
  end.
End Rangeproof.
