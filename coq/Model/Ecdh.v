(* Model of modules/ecdh: secp256k1_ecdh with the default hash, and with a caller-supplied hash function
   passed as a function argument [h : x32 -> y32 -> (return value, bytes written to output)]. *)
From Coq Require Import ZArith List Bool.
Require Import Spec.Params Spec.Field Spec.Curve Spec.Bytes Spec.Sha256 Model.Base.
Import ListNotations.
Local Open Scope Z_scope.

Definition ecdh_hashfn := bytes -> bytes -> Z * bytes.

(* ecdh_hash_function_sha256: SHA256(version || x32), version = 0x02 | (y32[31] & 1) *)
Definition ecdh_hash_sha256 : ecdh_hashfn :=
  fun x32 y32 => (1, sha256 (Z.lor (Z.land (last y32 0) 1) 2 :: x32)).

Section Ecdh.
Variable P : Params.
Notation pmul := (Curve.pmul P).

(* the scalar the multiplication is done with, and the failure flag:
   scalar_set_b32 + overflow |= is_zero + cmov(s, one, overflow) *)
Definition ecdh_scalar (seckey : bytes) : Z * bool :=
  let '(s, ov) := sc_of_b32 P seckey in
  let overflow := ov || (s =? 0) in
  (if overflow then 1 else s, overflow).

(* secp256k1_ecdh for a loadable key object.  The hash function is called in every case (with the
   coordinates of 1*Q when the secret is invalid) and its output is left in the buffer; the return
   value is  !!ret & !overflow. *)
Definition ecdh_pt (h : ecdh_hashfn) (Q : point) (seckey : bytes) : list arg :=
  let '(s, overflow) := ecdh_scalar seckey in
  let R := pmul s Q in
  let '(hret, out) := h (fe_to_b32 (px R)) (fe_to_b32 (py R)) in
  [AInt (b2z (negb (hret =? 0) && negb overflow)); ABytes out].

(* an object that does not load makes the C code continue with an unspecified point (the return value
   of pubkey_load is ignored after the illegal callback): not modelled, the case is malformed *)
Definition ecdh (h : ecdh_hashfn) (obj seckey : bytes) : list arg :=
  match pk_load obj with
  | None => bad_case
  | Some Q => ecdh_pt h Q seckey
  end.
End Ecdh.
