(* Model of src/modules/whitelist/{main_impl.h,whitelist_impl.h}: whitelist ring signatures.

   Objects: secp256k1_whitelist_signature {n_keys; data[32*256]} is the record [wsig]; its observable
   part is (n_keys, the first 32*(1+n_keys) data bytes).  Public keys travel as pk objects (x32||y32).

   FINDING F1 (DESIGN.md section 6).  The C function secp256k1_whitelist_verify, as coded on the
   unchanged tree, has no lower bound on the ring size and accepts n_keys = 0 with the 33-byte signature
   00 || SHA256(SHA256(ser33(W))).  Property C16 demands that an empty key list never verifies.
   [whitelist_verify] below is the PROPERTY-conforming function (it has the guard n_keys = 0 -> reject, the
   one-line repair of the C code); [whitelist_verify_as_coded] is the faithful transcription of the
   unchanged C code, kept to state the refutation lemma. *)
From Coq Require Import ZArith List Bool.
Require Import Spec.Params Spec.Field Spec.Curve Spec.Bytes Spec.Sha256.
Require Import Model.Base Model.Der Model.Ecdsa Model.Borromean.
Import ListNotations.
Local Open Scope Z_scope.

Record wsig := mkWsig { ws_n : Z; ws_data : bytes }.

Definition WL_MAX_KEYS : Z := 255.
Definition WL_DATA_LEN : nat := Z.to_nat 8192.    (* 32 * (1 + 255) *)

Definition wl_pad_to (k : nat) (l : bytes) : bytes := firstn k (l ++ zeros k).
Definition wsig_len (nk : Z) : Z := 1 + 32 * (nk + 1).
Definition wsig_out (s : wsig) : list arg :=
  [AInt (ws_n s); ABytes (firstn (Z.to_nat (32 * (ws_n s + 1))) (ws_data s))].

(* secp256k1_whitelist_signature_parse: Some sig iff it returns 1 *)
Definition wl_parse (input : bytes) : option wsig :=
  match input with
  | [] => None
  | nk :: rest =>
    if (WL_MAX_KEYS <? nk) || negb (Z.of_nat (length input) =? wsig_len nk) then None
    else Some (mkWsig nk rest)
  end.

Definition whitelist_signature_parse (input : bytes) : list arg :=
  match wl_parse input with
  | Some s => AInt 1 :: wsig_out s
  | None => [AInt 0]          (* object after a failed parse (n_keys is already overwritten): unspecified *)
  end.

Definition wl_serialize_bytes (s : wsig) : bytes :=
  (ws_n s mod 256) :: firstn (Z.to_nat (32 * (ws_n s + 1))) (ws_data s).

(* result: ret, *output_len after the call, bytes written (success only) *)
Definition whitelist_signature_serialize (outlen : Z) (s : wsig) : list arg :=
  if outlen <? wsig_len (ws_n s) then [AInt 0; AInt outlen]
  else [AInt 1; AInt (wsig_len (ws_n s)); ABytes (wl_serialize_bytes s)].

Definition whitelist_signature_n_keys (s : wsig) : list arg := [AInt (ws_n s)].

Section Whitelist.
Variable P : Params.
Notation G := (Curve.G P).
Notation pmul := (Curve.pmul P).
Notation padd := (Curve.padd P).

(* secp256k1_whitelist_hash_pubkey: None iff it returns 0 *)
Definition hash_pubkey (Q : point) : option Z :=
  match Q with
  | None => None
  | Some _ =>
    let '(t, ov) := sc_of_b32 P (sha256 (ser33 Q)) in
    if ov || (t =? 0) then None else Some t
  end.

(* secp256k1_whitelist_tweak_pubkey: the point is left unchanged when hashing fails (its return value is
   ignored by the caller) *)
Definition tweak_pubkey (T : point) : point :=
  match hash_pubkey T with Some t => pmul t T | None => T end.

(* secp256k1_whitelist_compute_tweaked_privkey: None iff it returns 0 *)
Definition compute_tweaked_privkey (online_key summed_key : bytes) : option Z :=
  let '(sk, ov) := sc_of_b32 P summed_key in
  if ov || (sk =? 0) then None else
  match hash_pubkey (pmul sk G) with
  | None => None
  | Some tweak =>
    let '(so, ov2) := sc_of_b32 P online_key in
    if ov2 || (so =? 0) then None else Some (sc_add P (sc_mul P sk tweak) so)
  end.

(* a pk object the library would refuse to load (ARG_CHECK in secp256k1_pubkey_load) *)
Definition pk_bad (o : bytes) : bool := match pk_load o with None => true | Some _ => false end.
Definition pk_pt (o : bytes) : point := match pk_load o with Some Q => Q | None => None end.

(* secp256k1_whitelist_compute_keys_and_message: message hash and ring keys
     online_i + H(offline_i + W) * (offline_i + W)   for i < n_keys *)
Definition key_obj (l : list bytes) (i : nat) : bytes := nth i l (zeros 64).
Definition ring_key (sub : point) (online offline : point) : point :=
  padd (tweak_pubkey (padd offline sub)) online.
Definition compute_keys (online offline : list bytes) (nk : nat) (sub : bytes) : list point :=
  map (fun i => ring_key (pk_pt sub) (pk_pt (key_obj online i)) (pk_pt (key_obj offline i))) (seq 0 nk).
Definition compute_message (online offline : list bytes) (nk : nat) (sub : bytes) : bytes :=
  sha256 (ser33 (pk_pt sub) ++
          flat_map (fun i => ser33 (pk_pt (key_obj offline i)) ++ ser33 (pk_pt (key_obj online i))) (seq 0 nk)).
(* number of illegal-argument callbacks fired by the pubkey loads *)
Definition count_bad (online offline : list bytes) (nk : nat) (sub : bytes) : Z :=
  b2z (pk_bad sub) +
  fold_right Z.add 0 (map (fun i => b2z (pk_bad (key_obj offline i)) + b2z (pk_bad (key_obj online i))) (seq 0 nk)).

(* ring scalars data[32(i+1)..], i < n_keys: None iff one overflows or is zero *)
Fixpoint wl_load_scalars (chunks : list bytes) : option (list Z) :=
  match chunks with
  | [] => Some []
  | c :: rest =>
    let '(s, ov) := sc_of_b32 P c in
    if ov || (s =? 0) then None else
    match wl_load_scalars rest with None => None | Some l => Some (s :: l) end
  end.
Definition wl_chunks (data : bytes) (k : nat) : list bytes :=
  map (fun i => firstn 32 (skipn (32 + 32 * i)%nat data)) (seq 0 k).

(* secp256k1_whitelist_verify; [guard] = whether the rejection test contains  sig->n_keys == 0 *)
Definition verify_prelude_rejects (guard : bool) (s : wsig) (n_keys : Z) : bool :=
  (guard && (ws_n s =? 0)) || (WL_MAX_KEYS <? ws_n s) || negb (ws_n s =? n_keys).
Definition verify_gen (guard : bool) (s : wsig) (online offline : list bytes) (n_keys : Z) (sub : bytes) : bool :=
  if verify_prelude_rejects guard s n_keys then false else
  let nk := Z.to_nat (ws_n s) in
  match wl_load_scalars (wl_chunks (ws_data s) nk) with
  | None => false
  | Some sc =>
    borromean_verify P (firstn 32 (ws_data s)) sc (compute_keys online offline nk sub) [nk] 1
                     (compute_message online offline nk sub)
  end.
(* exactly as coded on the unchanged tree: no lower bound on the ring size *)
Definition whitelist_verify_as_coded := verify_gen false.
(* what property C16 demands (= the C code with  sig->n_keys == 0 ||  added to its rejection test) *)
Definition whitelist_verify := verify_gen true.

(* API wrapper: when a pubkey load fires the illegal callback the C code carries on with an invalid
   group element; the return value is then unspecified (masked to 0 on both sides), the callback count
   is compared *)
Definition api_verify (guard : bool) (s : wsig) (online offline : list bytes) (n_keys : Z) (sub : bytes) : list arg :=
  if verify_prelude_rejects guard s n_keys then [AInt 0] else
  let nk := Z.to_nat (ws_n s) in
  match wl_load_scalars (wl_chunks (ws_data s) nk) with
  | None => [AInt 0]
  | Some _ =>
    let bad := count_bad online offline nk sub in
    if 0 <? bad then [AInt 0; AIll bad] else [AInt (b2z (verify_gen guard s online offline n_keys sub))]
  end.

(* parse the serialized signature, then verify it (the W object must be loadable: otherwise the case is
   malformed) : ret of parse, [ret of verify] *)
Definition whitelist_parse_verify (guard : bool) (input : bytes) (online offline : list bytes) (n_keys : Z)
                                  (sub : bytes) : list arg :=
  if pk_bad sub then bad_case else
  match wl_parse input with
  | None => [AInt 0]
  | Some s => AInt 1 :: api_verify guard s online offline n_keys sub
  end.

(* ------------------------------------------------------------------ sign *)
(* msg32[0] ^= i + 1; msg32[1] ^= (i + 1) / 0x100; *)
Definition xor_msg (msg : bytes) (i : Z) : bytes :=
  match msg with
  | b0 :: b1 :: rest => Z.lxor b0 ((i + 1) mod 256) :: Z.lxor b1 (((i + 1) / 256) mod 256) :: rest
  | _ => msg
  end.
(* the forged scalars s_i = RFC6979(msg ^ (i+1), key, count); None iff one overflows or is zero *)
Fixpoint gen_s (idxs : list nat) (count : nat) (msg key32 : bytes) : option (list Z) :=
  match idxs with
  | [] => Some []
  | i :: rest =>
    let '(s, ov) := sc_of_b32 P (nonce_rfc6979 P (xor_msg msg (Z.of_nat i)) key32 None None count) in
    if ov || (s =? 0) then None else
    match gen_s rest count msg key32 with None => None | Some l => Some (s :: l) end
  end.
(* the while(1) loop: None = out of fuel *)
Fixpoint sign_nonces (fuel count : nat) (msg key32 : bytes) (nk : nat) : option (Z * list Z) :=
  match fuel with
  | O => None
  | S f =>
    let '(non, ov) := sc_of_b32 P (nonce_rfc6979 P msg key32 None None count) in
    if ov || (non =? 0) then sign_nonces f (S count) msg key32 nk else
    match gen_s (seq 0 nk) count msg key32 with
    | None => sign_nonces f (S count) msg key32 nk
    | Some ss => Some (non, ss)
    end
  end.

Inductive wl_sign_result := WSignOk (s : wsig) | WSignFail | WSignOutOfFuel.

(* secp256k1_whitelist_sign after its ARG_CHECKs, valid pk objects *)
Definition whitelist_sign_core (online offline : list bytes) (nk : nat) (sub : bytes)
                               (online_key summed_key : bytes) (index : nat) : wl_sign_result :=
  let pubs := compute_keys online offline nk sub in
  let msg := compute_message online offline nk sub in
  match compute_tweaked_privkey online_key summed_key with
  | None => WSignFail
  | Some sec =>
    match sign_nonces 64 0 msg (sc_to_b32 sec) nk with
    | None => WSignOutOfFuel
    | Some (non, ss) =>
      match borromean_sign P ss pubs [non] [sec] [nk] [index] 1 msg with
      | None => WSignFail
      | Some (e0, s') => WSignOk (mkWsig (Z.of_nat nk) (e0 ++ flat_map sc_to_b32 s'))
      end
    end
  end.

(* the signature object after a failed call is unspecified (partly written): not compared *)
Definition whitelist_sign (online offline : list bytes) (n_keys : Z) (sub : bytes)
                          (online_key summed_key : bytes) (index : Z) : list arg :=
  if (WL_MAX_KEYS <? n_keys) || negb (index <? n_keys) then [AInt 0; AIll 1] else
  let nk := Z.to_nat n_keys in
  let bad := count_bad online offline nk sub in
  if 0 <? bad then [AInt 0; AIll bad] else
  match whitelist_sign_core online offline nk sub online_key summed_key (Z.to_nat index) with
  | WSignOk s => AInt 1 :: wsig_out s
  | WSignFail => [AInt 0]
  | WSignOutOfFuel => abstain
  end.
End Whitelist.
