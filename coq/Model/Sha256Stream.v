(* Model of the streaming SHA-256 object of src/hash_impl.h: state words, pending bytes of the current
   block, byte counter.  sha_write mirrors the three steps of secp256k1_sha256_write (complete the pending
   block, compress whole blocks straight from the input, keep the rest), sha_finalize mirrors
   secp256k1_sha256_finalize (padding written through sha_write). *)
From Coq Require Import ZArith List Bool.
Require Import Spec.Bytes Spec.Sha256.
Import ListNotations.
Local Open Scope Z_scope.

Record sha_ctx := mk_sha { sst : sha_state; sbuf : bytes; sbytes : Z }.

Definition sha_initialize : sha_ctx := {| sst := sha_iv; sbuf := []; sbytes := 0 |}.
Definition sha_initialize_midstate (nbytes : Z) (s : sha_state) : sha_ctx := {| sst := s; sbuf := []; sbytes := nbytes |}.

Definition sha_write (c : sha_ctx) (data : bytes) : sha_ctx :=
  let bufsize := length (sbuf c) in
  let chunk_len := (64 - bufsize)%nat in
  (* step 1: the input completes the pending block *)
  let '(s1, buf1, data1) :=
    if negb (Nat.eqb bufsize 0) && Nat.leb chunk_len (length data)
    then (sha_compress (sst c) (sbuf c ++ firstn chunk_len data), [], skipn chunk_len data)
    else (sst c, sbuf c, data) in
  (* step 2: whole blocks are compressed directly from the input *)
  let nblk := (length data1 / 64)%nat in
  let '(s2, data2) :=
    if Nat.leb 64 (length data1)
    then (sha_blocks (length data1) s1 (firstn (nblk * 64) data1), skipn (nblk * 64) data1)
    else (s1, data1) in
  (* step 3: the rest is appended to the buffer *)
  {| sst := s2; sbuf := buf1 ++ data2; sbytes := sbytes c + Z.of_nat (length data) |}.

Definition sha_finalize (c : sha_ctx) : bytes :=
  let padlen := Z.to_nat (1 + ((119 - (sbytes c mod 64)) mod 64)) in
  let c1 := sha_write c (firstn padlen (0x80 :: zeros 63)) in
  let c2 := sha_write c1 (be_enc 4 ((sbytes c / 2^29) mod 2^32) ++ be_enc 4 ((sbytes c * 8) mod 2^32)) in
  sha_out (sst c2).

Definition sha256_stream (chunks : list bytes) : bytes := sha_finalize (fold_left sha_write chunks sha_initialize).
