(* Dispatcher for the musig group (properties C12, C13): op name + wire arguments -> wire results.
   Argument conventions are documented next to the C ops in harness/ops_musig.h. *)
From Coq Require Import ZArith List Bool String.
Require Import Spec.Params Spec.Field Spec.Curve Spec.Bytes Spec.Sha256.
Require Import Model.Base Model.Keys Model.Schnorr Model.Musig Model.MusigNonceSM.
Import ListNotations.
Local Open Scope Z_scope.

Fixpoint mchunks (fuel : nat) (k : nat) (b : bytes) : list bytes :=
  match fuel with O => [] | S f =>
    match b with [] => [] | _ => firstn k b :: mchunks f k (skipn k b) end end.
Definition mchunk_list (k : nat) (b : bytes) : list bytes := mchunks (S (List.length b)) k b.

(* palette lookup: index 255 or out of range = NULL *)
Definition pal (l : list bytes) (i : Z) : option bytes :=
  if (i <? 0) || (255 <=? i) then None else nth_error l (Z.to_nat i).
Definition pal_idx {A} (l : list A) (i : Z) : option nat :=
  if (i <? 0) || (255 <=? i) then None
  else if Nat.ltb (Z.to_nat i) (List.length l) then Some (Z.to_nat i) else None.

Record env := mkEnv { e_kps : list bytes; e_caches : list bytes; e_sessions : list bytes; e_msgs : list bytes;
                      e_extras : list bytes; e_ctrs : list bytes; e_blobs : list bytes }.

(* one 10-byte op record: code slot flags a b c d e f _ *)
Definition noop : op := OPoke 100000 [].
Definition decode_op (e : env) (nslots : nat) (rs : list bytes) (r : bytes) : op :=
  let g k := nth k r 255 in
  let slot := if Nat.ltb (Z.to_nat (g 1%nat)) nslots then Some (Z.to_nat (g 1%nat)) else None in
  let want := negb (Z.testbit (g 2%nat) 0) in
  let code := g 0%nat in
  if code =? 1 then
    OGen slot want (pal_idx rs (g 3%nat))
         (option_map (firstn 32) (pal (e_kps e) (g 4%nat)))
         (option_map (skipn 32) (pal (e_kps e) (g 5%nat)))
         (pal (e_msgs e) (g 6%nat)) (pal (e_caches e) (g 7%nat)) (pal (e_extras e) (g 8%nat))
  else if code =? 2 then
    match pal (e_ctrs e) (g 3%nat) with
    | None => noop
    | Some c => OGenCtr slot want (be_val c) (pal (e_kps e) (g 4%nat))
                        (pal (e_msgs e) (g 6%nat)) (pal (e_caches e) (g 7%nat)) (pal (e_extras e) (g 8%nat))
    end
  else if code =? 3 then
    OSign slot want (pal (e_kps e) (g 4%nat)) (pal (e_caches e) (g 7%nat)) (pal (e_sessions e) (g 3%nat))
  else if code =? 4 then
    match slot, pal (e_blobs e) (g 3%nat) with
    | Some k, Some b => OPoke k b
    | _, _ => noop
    end
  else noop.

Definition show_opt (o : option bytes) : arg := match o with Some b => ABytes b | None => ABytes [] end.

Local Open Scope string_scope.
Section Api.
Variable P : Params.

Definition musig_history (a : list arg) : list arg :=
  let B i := get_bytes (nth_arg i a) in
  let slots0 := mchunk_list 132 (B 0%nat) in
  let rands0 := mchunk_list 32 (B 1%nat) in
  let e := mkEnv (mchunk_list 96 (B 2%nat)) (mchunk_list 197 (B 3%nat)) (mchunk_list 133 (B 4%nat))
                 (mchunk_list 32 (B 5%nat)) (mchunk_list 32 (B 6%nat)) (mchunk_list 8 (B 7%nat))
                 (mchunk_list 132 (B 8%nat)) in
  let ops := map (decode_op e (List.length slots0) rands0) (mchunk_list 10 (B 9%nat)) in
  let '(_, res) := run P (init_state slots0 rands0) ops in
  with_ill (fold_left (fun acc x => (acc + o_ill (fst x))%Z) res 0%Z)
    (flat_map (fun x => [AInt (o_ret (fst x)); AInt (o_ill (fst x)); ABytes (List.concat (snd x));
                         show_opt (o_rand (fst x)); show_opt (o_sig (fst x))]) res).

Definition dispatch_musig (op : string) (a : list arg) : list arg :=
  let B i := get_bytes (nth_arg (Z.to_nat i) a) in
  let I i := get_int (nth_arg (Z.to_nat i) a) in
  let O i := opt_bytes (nth_arg (Z.to_nat i) a) in
  let W i := negb (I i =? 0)%Z in
  if op =? "musig_pubkey_agg" then
    musig_pubkey_agg P (W 1) (W 2) (option_map (mchunk_list 64) (O 0))
  else if op =? "musig_pubkey_get" then musig_pubkey_get P (W 1) (O 0)
  else if op =? "musig_pubkey_ec_tweak_add" then musig_pubkey_tweak_add P false (W 2) (O 0) (O 1)
  else if op =? "musig_pubkey_xonly_tweak_add" then musig_pubkey_tweak_add P true (W 2) (O 0) (O 1)
  else if op =? "musig_nonce_gen" then musig_nonce_gen P (W 0) (W 1) (O 2) (O 3) (O 4) (O 5) (O 6) (O 7)
  else if op =? "musig_nonce_gen_counter" then musig_nonce_gen_counter P (W 0) (W 1) (I 2) (O 3) (O 4) (O 5) (O 6)
  else if op =? "musig_pubnonce_parse" then musig_pubnonce_parse P (B 0)
  else if op =? "musig_pubnonce_serialize" then musig_pubnonce_serialize (B 0)
  else if op =? "musig_aggnonce_parse" then musig_aggnonce_parse P (B 0)
  else if op =? "musig_aggnonce_serialize" then musig_aggnonce_serialize (B 0)
  else if op =? "musig_partial_sig_parse" then musig_partial_sig_parse P (B 0)
  else if op =? "musig_partial_sig_serialize" then musig_partial_sig_serialize (B 0)
  else if op =? "musig_nonce_agg" then musig_nonce_agg P (option_map (mchunk_list 132) (O 0))
  else if op =? "musig_nonce_process" then musig_nonce_process P (O 0) (O 1) (O 2) (O 3)
  else if op =? "musig_partial_sign" then musig_partial_sign P (O 0) (W 1) (O 2) (O 3) (O 4)
  else if op =? "musig_partial_sig_verify" then musig_partial_sig_verify P (O 0) (O 1) (O 2) (O 3) (O 4)
  else if op =? "musig_partial_sig_agg" then musig_partial_sig_agg P (O 0) (option_map (mchunk_list 36) (O 1))
  else if op =? "musig_nonce_parity" then musig_nonce_parity P (O 0)
  else if op =? "musig_adapt" then musig_adapt P (O 0) (O 1) (I 2)
  else if op =? "musig_extract_adaptor" then musig_extract_adaptor P (O 0) (O 1) (I 2)
  else if op =? "musig_history" then musig_history a
  else if op =? "schnorrsig_verify" then schnorrsig_verify P (B 0) (B 1) (B 2)
  else bad_case.
End Api.
