From Coq Require Import ZArith List Bool String.
Require Import Spec.Params Spec.Bytes Model.Base Model.Context.
Import ListNotations.
Local Open Scope Z_scope.
(* comb_bits is 258 in the default build (COMB_BLOCKS 43, COMB_TEETH 6, COMB_SPACING 1) *)
Definition dispatch_context (P : Params) (op : string) (a : list arg) : list arg :=
  if (op =? "ctx_history")%string then ctx_history P (get_int (nth_arg 2%nat a)) (get_bytes (nth_arg 0%nat a)) (get_bytes (nth_arg 1%nat a))
  else if (op =? "ctx_alloc_count")%string then [AInt 1; AInt 1; AInt 0; AInt 0; AInt 0]
  else bad_case.
