(* Model of modules/musig (keyagg_impl.h, session_impl.h, adaptor_impl.h).

   Opaque objects are exchanged in a CANONICAL form that both drivers print (harness/ops_musig.h
   converts the raw C objects, whose point fields are memcpy'd secp256k1_ge_storage):
     keyagg_cache (197) = magic4 || Q.x32 || Q.y32 || second.x32 || second.y32 (64 zero bytes = none)
                          || pks_hash32 || parity_acc byte || tweak32
     secnonce     (132) = magic4 || k1_32 || k2_32 || pk.x32 || pk.y32
     pubnonce     (132) = magic4 || R1.x32||R1.y32 || R2.x32||R2.y32
     aggnonce     (132) = magic4 || R1 ext64 || R2 ext64              (64 zero bytes = infinity)
     session      (133) = magic4 || parity byte || fin_nonce32 || b32 || e32 || s_part32   (= raw object)
     partial_sig  (36)  = magic4 || s32                                                    (= raw object)
   No proofs in this file. *)
From Coq Require Import ZArith List Bool.
Require Import Spec.Params Spec.Field Spec.Curve Spec.Bytes Spec.Sha256 Model.Base Model.Keys Model.Schnorr.
Import ListNotations.
Local Open Scope Z_scope.

Definition magic_cache : bytes := [0xf4; 0xad; 0xbb; 0xdf].
Definition magic_secnonce : bytes := [0x22; 0x0e; 0xdc; 0xf1].
Definition magic_pubnonce : bytes := [0xf5; 0x7a; 0x3d; 0xa0].
Definition magic_aggnonce : bytes := [0xa8; 0xb7; 0xe4; 0x67].
Definition magic_session : bytes := [0x9d; 0xed; 0xe9; 0x17].
Definition magic_psig : bytes := [0xeb; 0xfb; 0x1a; 0x32].

Definition tag_keyagg_list : bytes := [75;101;121;65;103;103;32;108;105;115;116].                            (* "KeyAgg list" *)
Definition tag_keyagg_coef : bytes := [75;101;121;65;103;103;32;99;111;101;102;102;105;99;105;101;110;116].  (* "KeyAgg coefficient" *)
Definition tag_musig_aux : bytes := [77;117;83;105;103;47;97;117;120].                                       (* "MuSig/aux" *)
Definition tag_musig_nonce : bytes := [77;117;83;105;103;47;110;111;110;99;101].                             (* "MuSig/nonce" *)
Definition tag_musig_noncecoef : bytes := [77;117;83;105;103;47;110;111;110;99;101;99;111;101;102].          (* "MuSig/noncecoef" *)

(* secp256k1_ge_from_bytes on the canonical form: no validity check at all *)
Definition pt_of_c64 (b : bytes) : point := Some (be_val (firstn 32 b), be_val (skipn 32 b)).
(* secp256k1_ge_from_bytes_ext: 64 zero bytes = infinity *)
Definition pt_of_c64_ext (b : bytes) : point := if is_zero_bytes b then None else pt_of_c64 b.

(* ------------------------------------------------------------------ nonce derivation (hash layout) *)
(* secp256k1_nonce_function_musig_helper *)
Definition nonce_helper (prefix_size : nat) (data : option bytes) (len : Z) : bytes :=
  zeros (prefix_size - 1) ++ match data with Some d => [len] ++ d | None => [0] end.

(* the bytes fed to the "MuSig/nonce" tagged hash for output i (i = 0, 1) *)
Definition nonce_hash_input (rand pk33 : bytes) (aggpk32 msg32 extra32 : option bytes) (i : Z) : bytes :=
  rand ++ nonce_helper 1 (Some pk33) 33 ++ nonce_helper 1 aggpk32 32
       ++ match msg32 with Some _ => [1] ++ nonce_helper 8 msg32 32 | None => [0] end
       ++ nonce_helper 4 extra32 32 ++ [i].

(* the 32 bytes "rand": with a secret key, H_aux(session_secrand) xor seckey; without, session_secrand *)
Definition nonce_rand (session_secrand : bytes) (seckey32 : option bytes) : bytes :=
  match seckey32 with
  | Some sk => xor_bytes (tagged_hash tag_musig_aux session_secrand) sk
  | None => session_secrand
  end.

(* secp256k1_musig_nonce_gen_counter: buf = be64(counter) || 24 zero bytes *)
Definition counter_buf (cnt : Z) : bytes := be_enc 8 cnt ++ zeros 24.

Section Musig.
Variable P : Params.
Let n := cn P.
Let p := cp P.
Notation G := (Curve.G P).
Notation pmul := (Curve.pmul P).
Notation padd := (Curve.padd P).
Notation pneg := (Curve.pneg P).

Definition sc_b (b : bytes) : Z := fst (sc_of_b32 P b).      (* scalar_set_b32 ignoring overflow *)

(* secp256k1_nonce_function_musig *)
Definition nonce_fn_musig (session_secrand : bytes) (msg32 seckey32 : option bytes) (pk33 : bytes)
                          (aggpk32 extra32 : option bytes) : Z * Z :=
  let rand := nonce_rand session_secrand seckey32 in
  (sc_b (tagged_hash tag_musig_nonce (nonce_hash_input rand pk33 aggpk32 msg32 extra32 0)),
   sc_b (tagged_hash tag_musig_nonce (nonce_hash_input rand pk33 aggpk32 msg32 extra32 1))).

(* ------------------------------------------------------------------ keyagg cache *)
Record cache_i := mkCache { c_pk : point; c_second : point; c_hash : bytes; c_parity : Z; c_tweak : Z }.

Definition cache_save (c : cache_i) : bytes :=
  magic_cache ++ pk_obj (c_pk c) ++ pk_obj (c_second c) ++ c_hash c ++ [c_parity c] ++ sc_to_b32 (c_tweak c).

(* secp256k1_keyagg_cache_load: None = ARG_CHECK on the magic fails (one illegal callback) *)
Definition cache_load (c : bytes) : option cache_i :=
  if bytes_eqb (firstn 4 c) magic_cache then
    Some (mkCache (pt_of_c64 (slice 4 64 c)) (pt_of_c64_ext (slice 68 64 c)) (slice 132 32 c)
                  (Z.land (nth 164 c 0) 1) (sc_b (slice 165 32 c)))
  else None.

(* secp256k1_musig_keyaggcoef_internal *)
Definition keyaggcoef (pks_hash : bytes) (pk second : point) : Z :=
  if negb (is_inf second) && point_eqb pk second then 1
  else sc_b (tagged_hash tag_keyagg_coef (pks_hash ++ ser33 pk)).

(* the "second key" search of secp256k1_musig_pubkey_agg: first object different from objs[0];
   inl second | inr tt = that object does not load (illegal callback) *)
Fixpoint find_second (first : bytes) (rest : list bytes) : point + unit :=
  match rest with
  | [] => inl None
  | o :: r => if bytes_eqb first o then find_second first r
              else match pk_load o with Some Q => inl Q | None => inr tt end
  end.

(* all objects load (secp256k1_musig_compute_pks_hash serialises each) *)
Fixpoint load_all (objs : list bytes) : option (list point) :=
  match objs with
  | [] => Some []
  | o :: r => match pk_load o with
              | None => None
              | Some Q => match load_all r with Some l => Some (Q :: l) | None => None end
              end
  end.

Definition pks_hash_of (pts : list point) : bytes := tagged_hash tag_keyagg_list (flat_map ser33 pts).

Definition keyagg_point (pks_hash : bytes) (second : point) (pts : list point) : point :=
  psum P (map (fun Q => pmul (keyaggcoef pks_hash Q second) Q) pts).

(* secp256k1_musig_pubkey_agg.  want_agg / want_cache: the two optional outputs are non-NULL.
   pubkeys: None = NULL array pointer.  Result: ret, agg_pk object, cache (zeros = untouched). *)
Definition out_opt (want : bool) (b : bytes) : arg := if want then ABytes b else ANone.

Definition musig_pubkey_agg (want_agg want_cache : bool) (pubkeys : option (list bytes)) : list arg :=
  let fail ill := with_ill ill [AInt 0; out_opt want_agg pk_obj_zero; out_opt want_cache (zeros 197)] in
  match pubkeys with
  | None => fail 1
  | Some [] => fail 1
  | Some (first :: rest) =>
    match find_second first rest with
    | inr _ => fail 1
    | inl second =>
      match load_all (first :: rest) with
      | None => fail 1
      | Some pts =>
        let h := pks_hash_of pts in
        match keyagg_point h second pts with
        | None => abstain       (* aggregate at infinity: needs a hash preimage; VERIFY_CHECK only in C *)
        | Q =>
          [AInt 1; out_opt want_agg (pk_obj (fst (even_y P Q)));
           out_opt want_cache (cache_save (mkCache Q second h 0 0))]
        end
      end
    end
  end.

(* secp256k1_musig_pubkey_get *)
Definition musig_pubkey_get (want_out : bool) (cache : option bytes) : list arg :=
  if negb want_out then [AInt 0; ANone; AIll 1] else
  match cache with
  | None => [AInt 0; ABytes pk_obj_zero; AIll 1]
  | Some c => match cache_load c with
              | None => [AInt 0; ABytes pk_obj_zero; AIll 1]
              | Some ci => [AInt 1; ABytes (pk_obj (c_pk ci))]
              end
  end.

(* one tweak step on the internal cache: None = failure after loading (overflow / infinity) *)
Definition tweak_step (xonly : bool) (ci : cache_i) (tweak32 : bytes) : option cache_i :=
  let '(t, ov) := sc_of_b32 P tweak32 in
  if ov then None else
  let flip := xonly && Z.odd (py (c_pk ci)) in
  let Q0 := if flip then pneg (c_pk ci) else c_pk ci in
  let par := if flip then Z.lxor (c_parity ci) 1 else c_parity ci in
  let tw0 := if flip then sc_neg P (c_tweak ci) else c_tweak ci in
  match padd Q0 (pmul t G) with
  | None => None
  | Q' => Some (mkCache Q' (c_second ci) (c_hash ci) par (sc_add P tw0 t))
  end.

(* secp256k1_musig_pubkey_{ec,xonly}_tweak_add: ret, output pubkey, cache afterwards *)
Definition musig_pubkey_tweak_add (xonly want_out : bool) (cache tweak32 : option bytes) : list arg :=
  let co := match cache with Some c => ABytes c | None => ANone end in
  match cache, tweak32 with
  | Some c, Some t =>
    match cache_load c with
    | None => [AInt 0; out_opt want_out pk_obj_zero; co; AIll 1]
    | Some ci =>
      match tweak_step xonly ci t with
      | None => [AInt 0; out_opt want_out pk_obj_zero; co]
      | Some ci' => [AInt 1; out_opt want_out (pk_obj (c_pk ci')); ABytes (cache_save ci')]
      end
    end
  | _, _ => [AInt 0; out_opt want_out pk_obj_zero; co; AIll 1]
  end.

(* ------------------------------------------------------------------ nonce generation *)
Definition secnonce_save (k1 k2 : Z) (pk : point) : bytes :=
  magic_secnonce ++ sc_to_b32 k1 ++ sc_to_b32 k2 ++ pk_obj pk.
Definition pubnonce_save (R1 R2 : point) : bytes := magic_pubnonce ++ pk_obj R1 ++ pk_obj R2.
Definition aggnonce_save (R1 R2 : point) : bytes := magic_aggnonce ++ pk_obj R1 ++ pk_obj R2.

(* outcome of secp256k1_musig_nonce_gen_internal, before the two scalar multiplications:
   NgIll pz    : an ARG_CHECK / object load failed (one callback, return 0); pz = pubnonce was already zeroed
   NgDone ok k1 k2 pk : ran to the end; ok = the secret key (if given) was valid *)
Inductive ng_res := NgIll (pubnonce_zeroed : bool) | NgDone (ok : bool) (k1 k2 : Z) (pk : point).

Definition nonce_gen_internal (want_pubnonce : bool) (input_nonce : bytes) (seckey pubkey msg32 cache extra32 : option bytes) : ng_res :=
  if negb want_pubnonce then NgIll false else
  match pubkey with
  | None => NgIll true
  | Some pko =>
    let ok := match seckey with
              | Some sk => match seckey_of_b32 P sk with Some _ => true | None => false end
              | None => true end in
    let agg := match cache with
               | None => Some None
               | Some c => match cache_load c with
                           | None => None
                           | Some ci => Some (Some (fe_to_b32 (px (c_pk ci))))
                           end
               end in
    match agg with
    | None => NgIll true
    | Some aggpk32 =>
      match pk_load pko with
      | None => NgIll true
      | Some pk =>
        let '(k1, k2) := nonce_fn_musig input_nonce msg32 seckey (ser33 pk) aggpk32 extra32 in
        NgDone ok k1 k2 pk
      end
    end
  end.

(* the secret-nonce object after nonce_gen_internal, given that the caller had zeroed it before *)
Definition ng_secnonce (r : ng_res) : bytes :=
  match r with
  | NgDone true k1 k2 pk => secnonce_save k1 k2 pk
  | _ => zeros 132
  end.
(* the public-nonce object; [before] = its content on entry (only survives if the pointer check failed) *)
Definition ng_pubnonce (r : ng_res) : bytes :=
  match r with
  | NgDone _ k1 k2 _ => pubnonce_save (pmul k1 G) (pmul k2 G)
  | NgIll _ => zeros 132
  end.
Definition ng_ret (r : ng_res) : bool := match r with NgDone ok _ _ _ => ok | NgIll _ => false end.
Definition ng_ill (r : ng_res) : Z := match r with NgIll _ => 1 | _ => 0 end.

(* secp256k1_musig_nonce_gen without the public nonce (which costs two scalar multiplications and is
   not needed by the history machine): (ret, illegal callbacks, secnonce after, session_secrand32 after, rest)
   secnonce_before / want_secnonce: content on entry, pointer non-NULL *)
Record ngen_out := mkNgen { ng_r : bool; ng_i : Z; ng_sec : bytes; ng_rand : option bytes; ng_res_of : option ng_res }.

Definition nonce_gen_sec (want_secnonce : bool) (secnonce_before : bytes) (want_pubnonce : bool)
           (session_secrand32 seckey pubkey msg32 cache extra32 : option bytes) : ngen_out :=
  if negb want_secnonce then mkNgen false 1 secnonce_before session_secrand32 None else
  match session_secrand32 with
  | None => mkNgen false 1 (zeros 132) None None
  | Some rand =>
    if is_zero_bytes rand then mkNgen false 0 (zeros 132) (Some rand) None else
    let r := nonce_gen_internal want_pubnonce rand seckey pubkey msg32 cache extra32 in
    mkNgen (ng_ret r) (ng_ill r) (ng_secnonce r)
           (Some (if ng_ret r then zeros 32 else rand)) (Some r)
  end.

Definition opt_arg (o : option bytes) : arg := match o with Some b => ABytes b | None => ANone end.

(* wire result: ret, secnonce (zeros = untouched/NULL printed as none), pubnonce, session_secrand32 after *)
Definition musig_nonce_gen (want_secnonce want_pubnonce : bool)
           (session_secrand32 seckey pubkey msg32 cache extra32 : option bytes) : list arg :=
  let o := nonce_gen_sec want_secnonce (zeros 132) want_pubnonce session_secrand32 seckey pubkey msg32 cache extra32 in
  with_ill (ng_i o)
    [AInt (b2z (ng_r o)); out_opt want_secnonce (ng_sec o);
     out_opt want_pubnonce (match ng_res_of o with Some r => ng_pubnonce r | None => zeros 132 end);
     opt_arg (ng_rand o)].

(* secp256k1_musig_nonce_gen_counter, secret part *)
Definition nonce_gen_counter_sec (want_secnonce : bool) (secnonce_before : bytes) (want_pubnonce : bool)
           (cnt : Z) (keypair msg32 cache extra32 : option bytes) : ngen_out :=
  if negb want_secnonce then mkNgen false 1 secnonce_before None None else
  match keypair with
  | None => mkNgen false 1 (zeros 132) None None
  | Some kp =>
    let r := nonce_gen_internal want_pubnonce (counter_buf cnt) (Some (firstn 32 kp)) (Some (skipn 32 kp)) msg32 cache extra32 in
    mkNgen (ng_ret r) (ng_ill r) (ng_secnonce r) None (Some r)
  end.

Definition musig_nonce_gen_counter (want_secnonce want_pubnonce : bool) (cnt : Z)
           (keypair msg32 cache extra32 : option bytes) : list arg :=
  let o := nonce_gen_counter_sec want_secnonce (zeros 132) want_pubnonce cnt keypair msg32 cache extra32 in
  with_ill (ng_i o)
    [AInt (b2z (ng_r o)); out_opt want_secnonce (ng_sec o);
     out_opt want_pubnonce (match ng_res_of o with Some r => ng_pubnonce r | None => zeros 132 end)].

(* ------------------------------------------------------------------ parse / serialise *)
Definition musig_pubnonce_parse (in66 : bytes) : list arg :=
  match eckey_pubkey_parse P (firstn 33 in66), eckey_pubkey_parse P (skipn 33 in66) with
  | Some R1, Some R2 => [AInt 1; ABytes (pubnonce_save R1 R2)]
  | _, _ => [AInt 0; ABytes (zeros 132)]
  end.

Definition pubnonce_load (o : bytes) : option (point * point) :=
  if bytes_eqb (firstn 4 o) magic_pubnonce then Some (pt_of_c64 (slice 4 64 o), pt_of_c64 (slice 68 64 o)) else None.
Definition aggnonce_load (o : bytes) : option (point * point) :=
  if bytes_eqb (firstn 4 o) magic_aggnonce then Some (pt_of_c64_ext (slice 4 64 o), pt_of_c64_ext (slice 68 64 o)) else None.

Definition musig_pubnonce_serialize (o : bytes) : list arg :=
  match pubnonce_load o with
  | None => [AInt 0; ABytes (zeros 66); AIll 1]
  | Some (R1, R2) => [AInt 1; ABytes (ser33 R1 ++ ser33 R2)]
  end.

Definition musig_aggnonce_parse (in66 : bytes) : list arg :=
  match ge_parse_ext P (firstn 33 in66), ge_parse_ext P (skipn 33 in66) with
  | Some R1, Some R2 => [AInt 1; ABytes (aggnonce_save R1 R2)]
  | _, _ => [AInt 0; ABytes (zeros 132)]
  end.

Definition musig_aggnonce_serialize (o : bytes) : list arg :=
  match aggnonce_load o with
  | None => [AInt 0; ABytes (zeros 66); AIll 1]
  | Some (R1, R2) => [AInt 1; ABytes (ge_serialize_ext R1 ++ ge_serialize_ext R2)]
  end.

Definition psig_save (s : Z) : bytes := magic_psig ++ sc_to_b32 s.
Definition psig_load (o : bytes) : option Z :=
  if bytes_eqb (firstn 4 o) magic_psig then Some (sc_b (skipn 4 o)) else None.

Definition musig_partial_sig_parse (in32 : bytes) : list arg :=
  let '(s, ov) := sc_of_b32 P in32 in
  if ov then [AInt 0; ABytes (zeros 36)] else [AInt 1; ABytes (psig_save s)].

Definition musig_partial_sig_serialize (o : bytes) : list arg :=
  if bytes_eqb (firstn 4 o) magic_psig then [AInt 1; ABytes (skipn 4 o)] else [AInt 0; ABytes (zeros 32); AIll 1].

(* ------------------------------------------------------------------ nonce aggregation and processing *)
Fixpoint sum_pubnonces (objs : list bytes) (acc : point * point) : option (point * point) :=
  match objs with
  | [] => Some acc
  | o :: r => match pubnonce_load o with
              | None => None
              | Some (R1, R2) => sum_pubnonces r (padd (fst acc) R1, padd (snd acc) R2)
              end
  end.

Definition musig_nonce_agg (pubnonces : option (list bytes)) : list arg :=
  match pubnonces with
  | None => [AInt 0; ABytes (zeros 132); AIll 1]
  | Some [] => [AInt 0; ABytes (zeros 132); AIll 1]
  | Some l => match sum_pubnonces l (None, None) with
              | None => [AInt 0; ABytes (zeros 132); AIll 1]
              | Some (R1, R2) => [AInt 1; ABytes (aggnonce_save R1 R2)]
              end
  end.

Record session_i := mkSession { s_parity : Z; s_fin : bytes; s_b : Z; s_e : Z; s_part : Z }.
Definition session_save (s : session_i) : bytes :=
  magic_session ++ [s_parity s] ++ s_fin s ++ sc_to_b32 (s_b s) ++ sc_to_b32 (s_e s) ++ sc_to_b32 (s_part s).
Definition session_load (o : bytes) : option session_i :=
  if bytes_eqb (firstn 4 o) magic_session then
    Some (mkSession (nth 4 o 0) (slice 5 32 o) (sc_b (slice 37 32 o)) (sc_b (slice 69 32 o)) (sc_b (slice 101 32 o)))
  else None.

(* secp256k1_musig_nonce_process_internal: (parity, fin_nonce32, b) *)
Definition nonce_process_internal (R1 R2 : point) (agg_pk32 msg : bytes) : Z * bytes * Z :=
  let b := sc_b (tagged_hash tag_musig_noncecoef (ge_serialize_ext R1 ++ ge_serialize_ext R2 ++ agg_pk32 ++ msg)) in
  let F := match padd R1 (pmul b R2) with None => G | F => F end in
  (b2z (Z.odd (py F)), fe_to_b32 (px F), b).

(* the tweak term e * tacc (sign by the parity of the aggregate key) that aggregation adds to the sum *)
Definition session_s_part (ci : cache_i) (e : Z) : Z :=
  if c_tweak ci =? 0 then 0
  else let et := sc_mul P e (c_tweak ci) in
       if Z.odd (py (c_pk ci)) then sc_neg P et else et.

Definition musig_nonce_process (aggnonce msg32 cache adaptor : option bytes) : list arg :=
  match aggnonce, msg32, cache with
  | Some an, Some msg, Some c =>
    match cache_load c with
    | None => [AInt 0; ABytes (zeros 133); AIll 1]
    | Some ci =>
      let agg_pk32 := fe_to_b32 (px (c_pk ci)) in
      match aggnonce_load an with
      | None => [AInt 0; ABytes (zeros 133); AIll 1]
      | Some (R1, R2) =>
        let R1' := match adaptor with
                   | None => Some R1
                   | Some a => match pk_load a with Some T => Some (padd R1 T) | None => None end
                   end in
        match R1' with
        | None => [AInt 0; ABytes (zeros 133); AIll 1]
        | Some R1a =>
          let '(par, fin, b) := nonce_process_internal R1a R2 agg_pk32 msg in
          let e := challenge P fin msg agg_pk32 in
          [AInt 1; ABytes (session_save (mkSession par fin b e (session_s_part ci e)))]
        end
      end
    end
  | _, _, _ => [AInt 0; ABytes (zeros 133); AIll 1]
  end.

(* ------------------------------------------------------------------ partial signing *)
(* secp256k1_musig_secnonce_load: None = one of its two ARG_CHECKs failed *)
Definition secnonce_load (o : bytes) : option (Z * Z * point) :=
  if bytes_eqb (firstn 4 o) magic_secnonce then
    if is_zero_bytes (slice 4 64 o) then None
    else Some (sc_b (slice 4 32 o), sc_b (slice 36 32 o), pt_of_c64 (slice 68 64 o))
  else None.

(* the signature scalar: sk = (+-d) * mu (sign: parity of the aggregate key XOR parity_acc), k negated for an
   odd final nonce, s = e*sk + k1 + b*k2 *)
Definition partial_sign_scalar (ci : cache_i) (si : session_i) (k1 k2 : Z) (pk : point) (d : Z) : Z :=
  let d1 := if xorb (Z.odd (py (c_pk ci))) (c_parity ci =? 1) then sc_neg P d else d in
  let mu := keyaggcoef (c_hash ci) pk (c_second ci) in
  let sk := sc_mul P d1 mu in
  let neg_k := negb (s_parity si =? 0) in
  let k1' := if neg_k then sc_neg P k1 else k1 in
  let k2' := if neg_k then sc_neg P k2 else k2 in
  sc_add P (sc_mul P (s_e si) sk) (sc_add P k1' (sc_mul P (s_b si) k2')).

(* result of secp256k1_musig_partial_sign on a non-NULL secnonce whose content on entry is [sec]:
   (ret, illegal callbacks, signature scalar if one was written).  The secnonce itself is ALWAYS
   zeroed by the caller of this function ([partial_sign] below): the wipe follows the load directly. *)
Definition partial_sign_core (sec : bytes) (want_sig : bool) (keypair cache session : option bytes) : bool * Z * option Z :=
  match secnonce_load sec with
  | None => (false, 1, None)
  | Some (k1, k2, pk) =>
    if negb want_sig then (false, 1, None) else
    match keypair, cache, session with
    | Some kp, Some c, Some se =>
      match keypair_load P kp with
      | None => (false, 1, None)
      | Some (d, kpk) =>
        if negb (point_eqb pk kpk) then (false, 1, None) else
        match cache_load c with
        | None => (false, 1, None)
        | Some ci =>
          match session_load se with
          | None => (false, 1, None)
          | Some si => (true, 0, Some (partial_sign_scalar ci si k1 k2 pk d))
          end
        end
      end
    | _, _, _ => (false, 1, None)
    end
  end.

(* full call: secnonce = None is the NULL pointer.  Returns (ret, ill, sig object after (zeros = untouched), secnonce after) *)
Definition partial_sign (secnonce : option bytes) (want_sig : bool) (keypair cache session : option bytes)
  : bool * Z * bytes * option bytes :=
  match secnonce with
  | None => (false, 1, zeros 36, None)
  | Some sec =>
    let '(ret, ill, s) := partial_sign_core sec want_sig keypair cache session in
    (ret, ill, match s with Some v => psig_save v | None => zeros 36 end, Some (zeros 132))
  end.

Definition musig_partial_sign (secnonce : option bytes) (want_sig : bool) (keypair cache session : option bytes) : list arg :=
  let '(ret, ill, sig, sec') := partial_sign secnonce want_sig keypair cache session in
  with_ill ill [AInt (b2z ret); out_opt want_sig sig; opt_arg sec'].

(* ------------------------------------------------------------------ partial verification, aggregation *)
(* the verification equation of secp256k1_musig_partial_sig_verify on loaded values:
   -s*G + (e*mu, sign by g*gacc)*pk + (R1 + b*R2, negated for an odd final nonce) is infinity *)
Definition partial_sig_verify_core (ci : cache_i) (si : session_i) (s : Z) (R1 R2 pk : point) : bool :=
  let Re := padd R1 (pmul (s_b si) R2) in
  let mu := keyaggcoef (c_hash ci) pk (c_second ci) in
  let e0 := sc_mul P (s_e si) mu in
  let e := if xorb (Z.odd (py (c_pk ci))) (c_parity ci =? 1) then sc_neg P e0 else e0 in
  let Re' := if s_parity si =? 0 then Re else pneg Re in
  is_inf (padd (padd (pmul e pk) (pmul (sc_neg P s) G)) Re').

Definition musig_partial_sig_verify (psig pubnonce pubkey cache session : option bytes) : list arg :=
  match psig, pubnonce, pubkey, cache, session with
  | Some sg, Some pn, Some pko, Some c, Some se =>
    match session_load se with
    | None => [AInt 0; AIll 1]
    | Some si =>
      match pubnonce_load pn with
      | None => [AInt 0; AIll 1]
      | Some (R1, R2) =>
        match pk_load pko with
        | None => [AInt 0; AIll 1]
        | Some pk =>
          match cache_load c with
          | None => [AInt 0; AIll 1]
          | Some ci =>
            match psig_load sg with
            | None => [AInt 0; AIll 1]
            | Some s => [AInt (b2z (partial_sig_verify_core ci si s R1 R2 pk))]
            end
          end
        end
      end
    end
  | _, _, _, _, _ => [AInt 0; AIll 1]
  end.

Fixpoint sum_psigs (objs : list bytes) (acc : Z) : option Z :=
  match objs with
  | [] => Some acc
  | o :: r => match psig_load o with None => None | Some s => sum_psigs r (sc_add P acc s) end
  end.

Definition musig_partial_sig_agg (session : option bytes) (sigs : option (list bytes)) : list arg :=
  match session, sigs with
  | Some se, Some (s0 :: l) =>
    match session_load se with
    | None => [AInt 0; ABytes (zeros 64); AIll 1]
    | Some si => match sum_psigs (s0 :: l) (s_part si) with
                 | None => [AInt 0; ABytes (zeros 64); AIll 1]
                 | Some s => [AInt 1; ABytes (s_fin si ++ sc_to_b32 s)]
                 end
    end
  | _, _ => [AInt 0; ABytes (zeros 64); AIll 1]
  end.

(* ------------------------------------------------------------------ adaptor *)
Definition musig_nonce_parity (session : option bytes) : list arg :=
  match session with
  | None => [AInt 0; AInt 0; AIll 1]
  | Some se => match session_load se with
               | None => [AInt 0; AInt 0; AIll 1]
               | Some si => [AInt 1; AInt (s_parity si)]
               end
  end.

(* scalar level *)
Definition adapt_scalar (s t : Z) (parity : Z) : Z := sc_add P s (if parity =? 0 then t else sc_neg P t).
Definition extract_scalar (s_final s_pre : Z) (parity : Z) : Z :=
  let d := sc_add P (sc_neg P s_final) s_pre in if parity =? 0 then sc_neg P d else d.

Definition musig_adapt (pre_sig64 sec_adaptor32 : option bytes) (parity : Z) : list arg :=
  match pre_sig64, sec_adaptor32 with
  | Some pre, Some ta =>
    if negb ((parity =? 0) || (parity =? 1)) then [AInt 0; ABytes (zeros 64); AIll 1] else
    let '(s, ov) := sc_of_b32 P (skipn 32 pre) in
    if ov then [AInt 0; ABytes (zeros 64)] else
    let '(t, ovt) := sc_of_b32 P ta in
    [AInt (b2z (negb ovt)); ABytes (firstn 32 pre ++ sc_to_b32 (adapt_scalar s t parity))]
  | _, _ => [AInt 0; ABytes (zeros 64); AIll 1]
  end.

Definition musig_extract_adaptor (sig64 pre_sig64 : option bytes) (parity : Z) : list arg :=
  match sig64, pre_sig64 with
  | Some sg, Some pre =>
    if negb ((parity =? 0) || (parity =? 1)) then [AInt 0; ABytes (zeros 32); AIll 1] else
    let '(sf, ovf) := sc_of_b32 P (skipn 32 sg) in
    let '(s, ov) := sc_of_b32 P (skipn 32 pre) in
    if ov then [AInt 0; ABytes (zeros 32)] else
    [AInt (b2z (negb ovf)); ABytes (sc_to_b32 (extract_scalar sf s parity))]
  | _, _ => [AInt 0; ABytes (zeros 32); AIll 1]
  end.
End Musig.
