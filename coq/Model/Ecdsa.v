(* Model of ECDSA verification, signing (RFC 6979 retry loop) and public-key recovery. *)
From Coq Require Import ZArith List Bool.
Require Import Spec.Params Spec.Field Spec.Curve Spec.Bytes Spec.Sha256 Model.Base Model.Der.
Import ListNotations.
Local Open Scope Z_scope.

Section Ecdsa.
Variable P : Params.
Let n := cn P.
Let p := cp P.
Notation G := (Curve.G P).
Notation pmul := (Curve.pmul P).
Notation padd := (Curve.padd P).

(* secp256k1_ecdsa_sig_verify on scalars r,s,m in [0,n) and a point Q *)
Definition sig_verify (r s : Z) (Q : point) (m : Z) : bool :=
  if (r =? 0) || (s =? 0) then false else
  let sn := sc_inv P s in
  let u1 := sc_mul P sn m in let u2 := sc_mul P sn r in
  match padd (pmul u2 Q) (pmul u1 G) with
  | None => false
  | Some (x, _) =>
    (* the two comparisons of the C code: xr == x, or xr + n < p and xr + n == x *)
    (x =? r) || ((r <? p - n) && (x =? r + n))
  end.

Definition ecdsa_verify (sigobj msg32 pkobj : bytes) : list arg :=
  let m := fst (sc_of_b32 P msg32) in
  let r := sig_obj_r sigobj in let s := sig_obj_s sigobj in
  if sc_is_high P s then [AInt 0]
  else match pk_load pkobj with
  | None => [AInt 0; AIll 1]
  | Some Q => [AInt (b2z (sig_verify r s Q m))]
  end.

(* nonce_function_rfc6979: key32 || (msg mod n) || [data32] || [algo16], counter-th output *)
Definition nonce_rfc6979 (msg32 key32 : bytes) (algo16 data : option bytes) (counter : nat) : bytes :=
  let msgmod := sc_to_b32 (fst (sc_of_b32 P msg32)) in
  let seed := key32 ++ msgmod ++ (match data with Some d => d | None => [] end)
                    ++ (match algo16 with Some a => a | None => [] end) in
  drbg_nth counter (drbg_init seed).

(* nonce sources available to the harness.
   kind 0: noncefp = NULL (context-aware RFC 6979); kind 1: secp256k1_nonce_function_rfc6979 passed
   explicitly; kind 2: test function "nonce = data32 at the first attempt, the retry counter afterwards" ; kind 3: test function
   that behaves like kind 2 but returns 0 (fails) when counter == fail_at; kind 4: an invalid all-zero nonce at the first attempt,
   the library's RFC 6979 function with the same counter afterwards.
   Result: None = callback returned 0. *)
Definition nonce_fn (kind : Z) (msg32 key32 : bytes) (data : option bytes) (counter : nat) : option bytes :=
  if (kind =? 0) || (kind =? 1) then Some (nonce_rfc6979 msg32 key32 None data counter)
  else if kind =? 4 then Some (if Nat.eqb counter 0 then zeros 32 else nonce_rfc6979 msg32 key32 None data counter)
  else
    let d := match data with Some d => d | None => zeros 33 end in
    let base := be_val (firstn 32 d) in
    let fail_at := nth 32 d 255 in
    if (kind =? 3) && (Z.of_nat counter =? fail_at) then None
    else Some (be_enc 32 (if Nat.eqb counter 0 then base else Z.of_nat counter)).

(* secp256k1_ecdsa_sig_sign: (ret, r, s, recid) *)
Definition sig_sign (d m k : Z) : bool * Z * Z * Z :=
  match pmul k G with
  | None => (false, 0, 0, 0)   (* unreachable for 0 < k < n *)
  | Some (x, y) =>
    let r := x mod n in
    let overflow := n <=? x in
    let recid := Z.lor (Z.shiftl (b2z overflow) 1) (b2z (Z.odd y)) in
    let s := sc_mul P (sc_inv P k) (sc_add P (sc_mul P r d) m) in
    let high := sc_is_high P s in
    let s' := if high then sc_neg P s else s in
    let recid' := if high then Z.lxor recid 1 else recid in
    (negb (r =? 0) && negb (s' =? 0), r, s', recid')
  end.

Inductive sign_result := SignOk (r s recid : Z) | SignFail | SignOutOfFuel.

(* the retry loop of secp256k1_ecdsa_sign_inner (without sign-to-contract) *)
Fixpoint sign_loop (fuel : nat) (counter : nat) (kind : Z) (msg32 seckey : bytes) (data : option bytes)
                   (d m : Z) : sign_result :=
  match fuel with
  | O => SignOutOfFuel
  | S f =>
    match nonce_fn kind msg32 seckey data counter with
    | None => SignFail
    | Some nonce32 =>
      match seckey_of_b32 P nonce32 with
      | Some k =>
        let '(ok, r, s, recid) := sig_sign d m k in
        if ok then SignOk r s recid
        else sign_loop f (S counter) kind msg32 seckey data d m
      | None => sign_loop f (S counter) kind msg32 seckey data d m
      end
    end
  end.

Definition sign_fuel : nat := 16.

Definition sign_inner (kind : Z) (msg32 seckey : bytes) (data : option bytes) : sign_result :=
  let sec := seckey_of_b32 P seckey in
  let d := match sec with Some d => d | None => 1 end in
  let m := fst (sc_of_b32 P msg32) in
  match sign_loop sign_fuel 0 kind msg32 seckey data d m with
  | SignOk r s recid => match sec with Some _ => SignOk r s recid | None => SignFail end
  | x => x
  end.

Definition ecdsa_sign (kind : Z) (msg32 seckey : bytes) (data : option bytes) : list arg :=
  match sign_inner kind msg32 seckey data with
  | SignOk r s _ => [AInt 1; ABytes (sig_obj r s)]
  | SignFail => [AInt 0; ABytes (zeros 64)]
  | SignOutOfFuel => abstain
  end.

(* recoverable signatures: canonical object = r32 || s32 || recid *)
Definition ecdsa_sign_recoverable (kind : Z) (msg32 seckey : bytes) (data : option bytes) : list arg :=
  match sign_inner kind msg32 seckey data with
  | SignOk r s recid => [AInt 1; ABytes (sig_obj r s ++ [recid])]
  | SignFail => [AInt 0; ABytes (zeros 65)]
  | SignOutOfFuel => abstain
  end.

Definition recoverable_parse_compact (input64 : bytes) (recid : Z) : list arg :=
  if (recid <? 0) || (3 <? recid) then [AInt 0; AIll 1] else
  let '(r, ovr) := sc_of_b32 P (firstn 32 input64) in
  let '(s, ovs) := sc_of_b32 P (skipn 32 input64) in
  if ovr || ovs then [AInt 0; ABytes (zeros 65)] else [AInt 1; ABytes (sig_obj r s ++ [recid])].

Definition recoverable_serialize_compact (obj : bytes) : list arg :=
  [AInt 1; ABytes (firstn 64 obj); AInt (nth 64 obj 0)].
Definition recoverable_convert (obj : bytes) : list arg := [AInt 1; ABytes (firstn 64 obj)].

(* secp256k1_ecdsa_sig_recover *)
Definition sig_recover (r s m recid : Z) : option point :=
  if (r =? 0) || (s =? 0) then None else
  let hi := Z.testbit recid 1 in
  if hi && (p - n <=? r) then None else
  let fx := if hi then r + n else r in
  match lift_x P fx (Z.testbit recid 0) with
  | None => None
  | X =>
    let rn := sc_inv P r in
    let u1 := sc_neg P (sc_mul P rn m) in
    let u2 := sc_mul P rn s in
    match padd (pmul u2 X) (pmul u1 G) with
    | None => None
    | Q => Some Q
    end
  end.

Definition ecdsa_recover (obj msg32 : bytes) : list arg :=
  let m := fst (sc_of_b32 P msg32) in
  match sig_recover (sig_obj_r (firstn 64 obj)) (sig_obj_s (firstn 64 obj)) m (nth 64 obj 0) with
  | Some Q => [AInt 1; ABytes (pk_obj Q)]
  | None => [AInt 0; ABytes pk_obj_zero]
  end.
End Ecdsa.
