(* Dispatcher for the ecdsa_adaptor module: op name + wire arguments -> wire results. *)
From Coq Require Import ZArith List Bool String.
Require Import Spec.Params Spec.Field Spec.Curve Spec.Bytes Spec.Sha256.
Require Import Model.Base Model.Ecdsa Model.Adaptor.
Import ListNotations.
Local Open Scope Z_scope.
Local Open Scope string_scope.

Section Api.
Variable P : Params.
Definition dispatch_adaptor (op : string) (a : list arg) : list arg :=
  let B i := get_bytes (nth_arg (Z.to_nat i) a) in
  let I i := get_int (nth_arg (Z.to_nat i) a) in
  let O i := opt_bytes (nth_arg (Z.to_nat i) a) in
  (* #kind seckey32 enckey_obj msg32 ndata|- *)
  if op =? "adaptor_encrypt" then adaptor_encrypt P (I 0) (B 1) (B 2) (B 3) (O 4)
  (* sig162 pubkey_obj msg32 enckey_obj *)
  else if op =? "adaptor_verify" then adaptor_verify P (B 0) (B 1) (B 2) (B 3)
  (* deckey32 sig162 *)
  else if op =? "adaptor_decrypt" then adaptor_decrypt P (B 0) (B 1)
  (* sigobj sig162 enckey_obj *)
  else if op =? "adaptor_recover" then adaptor_recover P (B 0) (B 1) (B 2)
  (* msg32 key32 pk33 algo|- data32|- *)
  else if op =? "adaptor_nonce" then adaptor_nonce (B 0) (B 1) (B 2) (O 3) (O 4)
  (* sigobj msg32 pkobj: plain ECDSA verification of decrypted signatures (Model/Ecdsa.v) *)
  else if op =? "ecdsa_verify" then ecdsa_verify P (B 0) (B 1) (B 2)
  else bad_case.
End Api.
