(* Model of modules/ellswift (ElligatorSwift, BIP-324): forward map with its remapped exceptional cases,
   the 8-branch partial inverse, the SHA-256 driven encoding search, encode / create / decode / xdh.

   Field elements are Z in [0,p); every C field operation is the corresponding operation mod p.
   fe_sqrt is the candidate root a^((p+1)/4) (the same value the C addition chain computes),
   fe_is_square_var is "the candidate squares back" (0 is a square), fe_inv of 0 is 0.
   The constants c1..c4 are (+-sqrt(-3) +- 1)/2 in the secp256k1 FIELD; the small test groups of the
   repository live over the same field, so they are not part of [Params].

   Two checks of this model have no counterpart in the production C code (they are VERIFY_CHECKs or
   test-only there): [decode] checks that the final x is on the curve, [encode]/[create] check that what
   they output decodes to the key.  A failing model check prints #-96, which the implementation never
   prints, so it would surface as a disagreement. *)
From Coq Require Import ZArith List Bool.
Require Import Spec.Params Spec.Field Spec.Curve Spec.Bytes Spec.Sha256 Model.Base.
Import ListNotations.
Local Open Scope Z_scope.

Definition ell_c1 : Z := 0x851695d49a83f8ef919bb86153cbcb16630fb68aed0a766a3ec693d68e6afa40.
Definition ell_c2 : Z := 0x7ae96a2b657c07106e64479eac3434e99cf0497512f58995c1396c28719501ee.
Definition ell_c3 : Z := 0x7ae96a2b657c07106e64479eac3434e99cf0497512f58995c1396c28719501ef.
Definition ell_c4 : Z := 0x851695d49a83f8ef919bb86153cbcb16630fb68aed0a766a3ec693d68e6afa41.

Definition tag_ell_encode : bytes := [115;101;99;112;50;53;54;107;49;95;101;108;108;115;119;105;102;116;95;101;110;99;111;100;101].
Definition tag_ell_create : bytes := [115;101;99;112;50;53;54;107;49;95;101;108;108;115;119;105;102;116;95;99;114;101;97;116;101].
Definition tag_ell_bip324 : bytes := [98;105;112;51;50;52;95;101;108;108;115;119;105;102;116;95;120;111;110;108;121;95;101;99;100;104].

Definition model_check_failed : list arg := [AInt (-96)].
Definition ell_fuel : nat := 4096.

(* caller-supplied xdh hash: x32 -> ell_a64 -> ell_b64 -> (return value, bytes written to output) *)
Definition xdh_hashfn := bytes -> bytes -> bytes -> Z * bytes.

Section Ellswift.
Variable P : Params.
Let p := cp P.
Let b := cb P.
Notation pmul := (Curve.pmul P).
Notation G := (Curve.G P).

Definition fsqrt_cand (a : Z) : Z := mpow p a ((p + 1) / 4).
Definition fis_square (a : Z) : bool := mis_square p a.
Definition fmul (x y : Z) : Z := mmul p x y.
Definition fneg (x : Z) : Z := mneg p x.

(* secp256k1_ge_x_on_curve_var / secp256k1_ge_x_frac_on_curve_var *)
Definition x_on_curve (x : Z) : bool := fis_square ((x * x * x + b) mod p).
Definition x_frac_on_curve (xn xd : Z) : bool :=
  fis_square ((xd * xn * xn * xn + b * (xd * xd * xd * xd)) mod p).

(* secp256k1_ellswift_xswiftec_frac_var: (u, t) -> xn/xd.  u, t already reduced mod p. *)
Definition xswiftec_frac (u t : Z) : Z * Z :=
  let u1 := if u =? 0 then 1 else u in
  let s0 := if t =? 0 then 1 else (t * t) mod p in
  let g := (u1 * u1 * u1 + b) mod p in
  let s := if (g + s0) mod p =? 0 then (4 * s0) mod p else s0 in
  let gs := (g + s) mod p in
  let d := (3 * s * u1 * u1) mod p in
  let n := (d * u1 - gs * gs) mod p in
  if x_frac_on_curve n d then (n, d)                       (* x3 *)
  else
    let n2 := (u1 * (ell_c1 * s + ell_c2 * g)) mod p in
    if x_frac_on_curve n2 gs then (n2, gs)                 (* x2 *)
    else ((- (n2 + u1 * gs)) mod p, gs).                   (* x1 = -(x2+u) *)

Definition xswiftec (u t : Z) : Z :=
  let '(xn, xd) := xswiftec_frac u t in fmul xn (minv p xd).

(* secp256k1_ellswift_swiftec_var: None would be a failed VERIFY_CHECK *)
Definition swiftec (u t : Z) : point := lift_x P (xswiftec u t) (Z.odd t).

(* secp256k1_ellswift_xswiftec_inv_var, c in 0..7 *)
Definition xswiftec_inv (x u c : Z) : option Z :=
  let sv :=
    if Z.land c 2 =? 0 then
      let m := (- (u + x)) mod p in
      if x_on_curve m then None else
      let s0 := (- (m * m) + u * x) mod p in                 (* -(u^2 + u*x + x^2) *)
      let g := (u * u * u + b) mod p in
      if negb (fis_square (fmul s0 g)) then None else
      Some (fmul (minv p s0) g, x)
    else
      let s := (x - u) mod p in
      if negb (fis_square s) then None else
      let q := (- (s * (4 * (u * u * u + b) + 3 * s * u * u))) mod p in
      if negb (fis_square q) then None else
      let r := fsqrt_cand q in
      if (Z.land c 1 =? 1) && (r =? 0) then None else
      if s =? 0 then None else
      Some (s, fmul ((fmul (minv p s) r - u) mod p) ((p + 1) / 2))
  in
  match sv with
  | None => None
  | Some (s, v) =>
    let w := fsqrt_cand s in
    let c5 := Z.land c 5 in
    let m := if (c5 =? 0) || (c5 =? 5) then fneg w else w in
    let k := if Z.land c 1 =? 1 then ell_c4 else ell_c3 in
    Some (fmul m ((fmul u k + v) mod p))
  end.

(* secp256k1_ellswift_prng: SHA256 midstate of the tagged hash, then the bytes written by the caller,
   then the 4-byte little-endian counter *)
Definition ell_prng (tag pre : bytes) (cnt : Z) : bytes := tagged_hash tag (pre ++ le_enc 4 cnt).

(* secp256k1_ellswift_xelligatorswift_var.  State: counter, 3-bit branch values left in the pool, the pool. *)
Fixpoint xelligatorswift (fuel : nat) (x : Z) (tag pre : bytes) (cnt nleft : Z) (pool : bytes) : option (bytes * Z) :=
  match fuel with
  | O => None
  | S f =>
    let '(cnt, nleft, pool) := if nleft =? 0 then (cnt + 1, 64, ell_prng tag pre cnt) else (cnt, nleft, pool) in
    let nleft := nleft - 1 in
    let branch := Z.land (Z.shiftr (nth (Z.to_nat (nleft / 2)) pool 0) (4 * (nleft mod 2))) 7 in
    let u32 := ell_prng tag pre cnt in
    let u := be_val u32 mod p in
    match xswiftec_inv x u branch with
    | Some t => Some (u32, t)
    | None => xelligatorswift f x tag pre ((cnt + 1) mod 2 ^ 32) nleft pool
    end
  end.

(* secp256k1_ellswift_elligatorswift_var: sign of t follows the parity of y *)
Definition elligatorswift (Q : point) (tag pre : bytes) : option bytes :=
  match xelligatorswift ell_fuel (px Q) tag pre 0 0 [] with
  | None => None
  | Some (u32, t) =>
    let t' := if Bool.eqb (Z.odd t) (Z.odd (py Q)) then t else fneg t in
    Some (u32 ++ fe_to_b32 t')
  end.

(* secp256k1_ellswift_decode as a point *)
Definition decode_pt (ell64 : bytes) : point :=
  let u := be_val (firstn 32 ell64) mod p in
  let t := be_val (skipn 32 ell64) mod p in
  swiftec u t.

Definition ellswift_decode (ell64 : bytes) : list arg :=
  match decode_pt ell64 with
  | None => model_check_failed
  | Q => [AInt 1; ABytes (pk_obj Q)]
  end.

(* common tail of encode / create: search, then the model-only round-trip check *)
Definition ell_finish (Q : point) (tag pre : bytes) : list arg :=
  match elligatorswift Q tag pre with
  | None => abstain
  | Some ell64 => if point_eqb (decode_pt ell64) Q then [AInt 1; ABytes ell64] else model_check_failed
  end.

Definition ellswift_encode (obj rnd32 : bytes) : list arg :=
  match pk_load obj with
  | None => [AInt 0; ABytes (zeros 64); AIll 1]
  | Some Q => ell_finish Q tag_ell_encode ((ser33 Q ++ zeros 31) ++ rnd32)
  end.

Definition ellswift_create (seckey32 : bytes) (aux : option bytes) : list arg :=
  match seckey_of_b32 P seckey32 with
  | None => [AInt 0; ABytes (zeros 64)]
  | Some d =>
    ell_finish (pmul d G) tag_ell_create
               (seckey32 ++ zeros 32 ++ match aux with Some a => a | None => [] end)
  end.

(* the three hash choices of xdh *)
Definition xdh_hash_bip324 : xdh_hashfn :=
  fun x32 a b => (1, tagged_hash tag_ell_bip324 (a ++ b ++ x32)).
Definition xdh_hash_prefix (data64 : bytes) : xdh_hashfn :=
  fun x32 a b => (1, sha256 (data64 ++ a ++ b ++ x32)).

(* secp256k1_ellswift_xdh; party <> 0 means "we are B": the remote key is ell_a *)
Definition ellswift_xdh (h : xdh_hashfn) (ell_a ell_b seckey32 : bytes) (party : Z) : list arg :=
  let theirs := if party =? 0 then ell_b else ell_a in
  let u := be_val (firstn 32 theirs) mod p in
  let t := be_val (skipn 32 theirs) mod p in
  let '(xn, xd) := xswiftec_frac u t in
  let '(s, ov) := sc_of_b32 P seckey32 in
  let overflow := ov || (s =? 0) in
  let s' := if overflow then 1 else s in
  match lift_x P (fmul xn (minv p xd)) false with
  | None => model_check_failed
  | Q =>
    let '(hret, out) := h (fe_to_b32 (px (pmul s' Q))) ell_a ell_b in
    [AInt (b2z (negb (hret =? 0) && negb overflow)); ABytes out]
  end.
End Ellswift.
