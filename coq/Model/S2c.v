(* Model of modules/ecdsa_s2c (sign-to-contract, ECDSA anti-exfil protocol), of src/eccommit_impl.h
   and of the sign-to-contract branch of secp256k1_ecdsa_sign_inner (src/secp256k1.c).
   The plain signing loop lives in Model/Ecdsa.v; the s2c variant of the loop is written here and
   reuses [sig_sign] and [nonce_rfc6979] from there. *)
From Coq Require Import ZArith List Bool.
Require Import Spec.Params Spec.Field Spec.Curve Spec.Bytes Spec.Sha256.
Require Import Model.Base Model.Keys Model.Der Model.Ecdsa.
Import ListNotations.
Local Open Scope Z_scope.

(* "s2c/ecdsa/point", "s2c/ecdsa/data" *)
Definition tag_s2c_point : bytes := [115;50;99;47;101;99;100;115;97;47;112;111;105;110;116].
Definition tag_s2c_data : bytes := [115;50;99;47;101;99;100;115;97;47;100;97;116;97].

(* the two hard-coded midstates of the C code, copied literally (Proofs/S2cProofs.v proves that they
   are the states after absorbing SHA256(tag)||SHA256(tag)) *)
Definition midstate_s2c_point : sha_state :=
  [0xa9b21c7b; 0x358c3e3e; 0x0b6863d1; 0xc62b2035; 0xb44b40ce; 0x254a8912; 0x0f85d0d4; 0x8a5bf91c].
Definition midstate_s2c_data : sha_state :=
  [0xfeefd675; 0x73166c99; 0xe2309cb8; 0x6d458113; 0x01d3a512; 0x00e18112; 0x37ee0874; 0x421fc55f].

Section S2c.
Variable P : Params.
Let n := cn P.
Notation G := (Curve.G P).
Notation pmul := (Curve.pmul P).
Notation padd := (Curve.padd P).

(* ---------------------------------------------------------------- openings *)
(* secp256k1_ecdsa_s2c_opening_parse = ec_pubkey_parse on exactly 33 bytes.
   result: ret, opening object (reported only when ret = 1: "its value is unspecified" otherwise) *)
Definition s2c_opening_parse (input33 : bytes) : list arg :=
  match eckey_pubkey_parse P (firstn 33 input33) with
  | Some Q => [AInt 1; ABytes (pk_obj Q)]
  | None => [AInt 0]
  end.

(* secp256k1_ecdsa_s2c_opening_serialize = ec_pubkey_serialize(compressed) into 33 bytes *)
Definition s2c_opening_serialize (obj : bytes) : list arg :=
  match pk_load obj with
  | None => [AInt 0; ABytes (zeros 33); AIll 1]
  | Some Q => [AInt 1; ABytes (ser33 Q)]
  end.

(* ---------------------------------------------------------------- eccommit_impl.h *)
(* secp256k1_ec_commit_tweak with a sha object initialised to midstate [mid] (64 bytes absorbed):
   None = point at infinity *)
Definition ec_commit_tweak (mid : sha_state) (Q : point) (data : bytes) : option bytes :=
  if is_inf Q then None else Some (sha256_from mid 64 (ser33 Q ++ data)).

(* secp256k1_ec_commit: Q + hash(Q, data)*G; None = infinity / tweak >= n / result infinity *)
Definition ec_commit (mid : sha_state) (Q : point) (data : bytes) : option point :=
  match ec_commit_tweak mid Q data with
  | None => None
  | Some tweak => pubkey_tweak_add_helper P Q tweak
  end.

(* secp256k1_ec_commit_seckey: k + hash(Q, data); None = infinity / tweak >= n / sum zero *)
Definition ec_commit_seckey (mid : sha_state) (k : Z) (Q : point) (data : bytes) : option Z :=
  match ec_commit_tweak mid Q data with
  | None => None
  | Some tweak => seckey_tweak_add_helper P k tweak
  end.

(* ---------------------------------------------------------------- signing *)
(* hash of the committed data that is fed to RFC 6979 as extra data (secp256k1_ecdsa_s2c_sign) *)
Definition s2c_data_hash (data32 : bytes) : bytes := sha256_from midstate_s2c_data 64 data32.

Inductive s2c_result :=
| S2cOk (r s : Z) (opening : point)
| S2cFail (opening : option point)    (* ret = 0; the opening that was stored, if one was *)
| S2cRetryAfterTweak                  (* sig_sign failed (r = 0 or s = 0) AFTER the nonce was tweaked: the C code
                                         retries with the already finalised s2c_sha object; needs a nonce with
                                         x(k'G) mod n = 0 or s = 0, cryptographically unreachable - the model
                                         abstains *)
| S2cOutOfFuel.

(* the retry loop of secp256k1_ecdsa_sign_inner with s2c_data32 != NULL, noncefp = NULL:
   nonce = RFC 6979 (key, msg mod n, extra data ndata, counter); opening = nonce*G;
   signing nonce = nonce + H(opening, data32) *)
Fixpoint s2c_sign_loop (fuel : nat) (counter : nat) (msg32 seckey ndata data32 : bytes) (d m : Z) : s2c_result :=
  match fuel with
  | O => S2cOutOfFuel
  | S f =>
    let nonce32 := nonce_rfc6979 P msg32 seckey None (Some ndata) counter in
    match seckey_of_b32 P nonce32 with
    | None => s2c_sign_loop f (S counter) msg32 seckey ndata data32 d m
    | Some k =>
      let Rn := pmul k G in                               (* original public nonce: stored as the opening *)
      match ec_commit_seckey midstate_s2c_point k Rn data32 with
      | None => S2cFail (Some Rn)
      | Some k' =>
        let '(ok, r, s, _) := sig_sign P d m k' in
        if ok then S2cOk r s Rn else S2cRetryAfterTweak
      end
    end
  end.

(* (the API functions come in two layers: [.._fuel] with the loop bound as a parameter - theorems are stated
   for every bound - and the instance with [sign_fuel] that the drivers run) *)
Definition s2c_sign_inner_fuel (fuel : nat) (msg32 seckey data32 : bytes) : s2c_result :=
  let ndata := s2c_data_hash data32 in
  let sec := seckey_of_b32 P seckey in
  let d := match sec with Some d => d | None => 1 end in
  let m := fst (sc_of_b32 P msg32) in
  match s2c_sign_loop fuel 0 msg32 seckey ndata data32 d m with
  | S2cOk r s Q => match sec with Some _ => S2cOk r s Q | None => S2cFail (Some Q) end
  | x => x
  end.

(* secp256k1_ecdsa_s2c_sign; want_opening = false models s2c_opening == NULL.
   result: ret, signature object, opening object (only when requested and ret = 1: on failure the C code
   leaves whatever nonce point it stored last, which the header does not specify) *)
Definition ecdsa_s2c_sign_fuel (fuel : nat) (msg32 seckey data32 : bytes) (want_opening : bool) : list arg :=
  match s2c_sign_inner_fuel fuel msg32 seckey data32 with
  | S2cOk r s Q => [AInt 1; ABytes (sig_obj r s)] ++ (if want_opening then [ABytes (pk_obj Q)] else [])
  | S2cFail _ => [AInt 0; ABytes (zeros 64)]
  | _ => abstain
  end.
Definition ecdsa_s2c_sign (msg32 seckey data32 : bytes) (want_opening : bool) : list arg :=
  ecdsa_s2c_sign_fuel sign_fuel msg32 seckey data32 want_opening.

Definition anti_exfil_sign (msg32 seckey host_data32 : bytes) : list arg :=
  ecdsa_s2c_sign msg32 seckey host_data32 false.

(* ---------------------------------------------------------------- commitment verification *)
Definition ecdsa_s2c_verify_commit (sigobj data32 opening_obj : bytes) : list arg :=
  match pk_load opening_obj with
  | None => [AInt 0; AIll 1]
  | Some Q =>
    match ec_commit midstate_s2c_point Q data32 with
    | None => [AInt 0]
    | Some C =>
      let sigr := fst (sc_of_b32 P (firstn 32 sigobj)) in
      let x_scalar := fst (sc_of_b32 P (fe_to_b32 (px C))) in        (* commitment x mod n, overflow ignored *)
      [AInt (b2z (sigr =? x_scalar))]
    end
  end.

(* ---------------------------------------------------------------- anti-exfil *)
Definition anti_exfil_host_commit (rand32 : bytes) : list arg :=
  [AInt 1; ABytes (sha256_from midstate_s2c_data 64 rand32)].

(* the loop of secp256k1_ecdsa_anti_exfil_signer_commit: secp256k1_nonce_function_default (RFC 6979 bound to
   the static context) with the host commitment as extra data, until the nonce is a valid key *)
Fixpoint signer_commit_loop (fuel : nat) (count : nat) (msg32 seckey32 rand_commitment32 : bytes) : option point :=
  match fuel with
  | O => None
  | S f =>
    match seckey_of_b32 P (nonce_rfc6979 P msg32 seckey32 None (Some rand_commitment32) count) with
    | Some k => Some (pmul k G)
    | None => signer_commit_loop f (S count) msg32 seckey32 rand_commitment32
    end
  end.

Definition anti_exfil_signer_commit_fuel (fuel : nat) (msg32 seckey32 rand_commitment32 : bytes) : list arg :=
  match signer_commit_loop fuel 0 msg32 seckey32 rand_commitment32 with
  | Some R => [AInt 1; ABytes (pk_obj R)]
  | None => abstain
  end.
Definition anti_exfil_signer_commit (msg32 seckey32 rand_commitment32 : bytes) : list arg :=
  anti_exfil_signer_commit_fuel sign_fuel msg32 seckey32 rand_commitment32.

(* secp256k1_anti_exfil_host_verify: verify_commit && ecdsa_verify (short-circuit: when the commitment check
   fails ecdsa_verify is not called, so its illegal callback cannot fire) *)
Definition anti_exfil_host_verify (sigobj msg32 pkobj host_data32 opening_obj : bytes) : list arg :=
  let vc := ecdsa_s2c_verify_commit sigobj host_data32 opening_obj in
  if get_int (nth_arg 0 vc) =? 1 then ecdsa_verify P sigobj msg32 pkobj else vc.

(* ---------------------------------------------------------------- one whole protocol run (history) *)
(* host commits to rho, signer commits (opening Q1), signer signs with rho' (rho' = rho in an honest
   run) and exports its opening Q2, host verifies the signature against rho and Q1.
   result: commitment, Q1 of signer_commit, ret/sig/Q2 of s2c_sign, ret of host_verify *)
Definition anti_exfil_protocol_fuel (fuel : nat) (msg32 seckey pkobj rho rho' : bytes) : list arg :=
  let c := sha256_from midstate_s2c_data 64 rho in
  match signer_commit_loop fuel 0 msg32 seckey c, s2c_sign_inner_fuel fuel msg32 seckey rho' with
  | Some Q1, S2cOk r s Q2 =>
    [ABytes c; ABytes (pk_obj Q1); AInt 1; ABytes (sig_obj r s); ABytes (pk_obj Q2)]
      ++ anti_exfil_host_verify (sig_obj r s) msg32 pkobj rho (pk_obj Q1)
  | Some Q1, S2cFail _ => [ABytes c; ABytes (pk_obj Q1); AInt 0]
  | _, _ => abstain
  end.
Definition anti_exfil_protocol (msg32 seckey pkobj rho rho' : bytes) : list arg :=
  anti_exfil_protocol_fuel sign_fuel msg32 seckey pkobj rho rho'.
End S2c.
