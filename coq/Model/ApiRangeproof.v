(* Dispatcher for the range-proof API (properties C09, C10); also re-exports the generator /
   Pedersen ops (a range-proof case usually needs commitments and generators).
   Wire formats (C side: harness/ops_rangeproof.h):
     rangeproof_sign #plen #min_value commit64 blind32 nonce32 #exp #min_bits #value msg|- extra|- gen64
                                                       -> ret [#len proof]
     rangeproof_verify commit64 proof extra|- gen64    -> ret [#min #max]
     rangeproof_rewind nonce32 commit64 proof extra|- gen64 #msgcap|-
                                                       -> ret [blind32 #value msg #min #max]
     rangeproof_info proof                             -> ret [#exp #mantissa #min #max]
     rangeproof_max_size #max_value #min_bits          -> #size
     range_proveparams #min_value #exp #min_bits #value
                     -> ret [#v #rings rsizes(1 byte each) #npub secidx(1 byte each) #min_value #mantissa #scale #exp #min_bits]
   Bracketed outputs are present only when ret = 1. *)
From Coq Require Import ZArith List Bool String.
Require Import Spec.Params Spec.Field Spec.Curve Spec.Bytes Spec.Sha256.
Require Import Model.Base Model.Pedersen Model.Borromean Model.Rangeproof Model.ApiPedersen.
Import ListNotations.
Local Open Scope Z_scope.
Local Open Scope string_scope.

Definition proveparams_args (min_value exp min_bits value : Z) : list arg :=
  match range_proveparams min_value exp min_bits value with
  | None => [AInt 0]
  | Some pp => [AInt 1; AInt (pp_v pp); AInt (pp_rings pp); ABytes (map Z.of_nat (pp_rsizes pp)); AInt (pp_npub pp);
                ABytes (map Z.of_nat (pp_secidx pp)); AInt (pp_min_value pp); AInt (pp_mantissa pp);
                AInt (pp_scale pp); AInt (pp_exp pp); AInt (pp_min_bits pp)]
  end.

Section Api.
Variable P : Params.
Definition dispatch_rangeproof (op : string) (a : list arg) : list arg :=
  let B i := get_bytes (nth_arg (Z.to_nat i) a) in
  let I i := get_int (nth_arg (Z.to_nat i) a) in
  let O i := opt_bytes (nth_arg (Z.to_nat i) a) in
  if op =? "rangeproof_sign" then
    rangeproof_sign P (I 0) (I 1) (B 2) (B 3) (B 4) (I 5) (I 6) (I 7) (O 8) (O 9) (B 10)
  else if op =? "rangeproof_verify" then rangeproof_verify P (B 0) (B 1) (O 2) (B 3)
  else if op =? "rangeproof_rewind" then
    rangeproof_rewind P (B 0) (B 1) (B 2) (O 3) (B 4)
      (match nth_arg 5%nat a with AInt c => Some c | _ => None end)
  else if op =? "rangeproof_info" then rangeproof_info (B 0)
  else if op =? "rangeproof_max_size" then [AInt (rangeproof_max_size (I 0) (I 1))]
  else if op =? "range_proveparams" then proveparams_args (I 0) (I 1) (I 2) (I 3)
  else dispatch_pedersen P op a.
End Api.
