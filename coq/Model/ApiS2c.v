(* Dispatcher for the ecdsa_s2c module: op name + wire arguments -> wire results.
   Every op takes a trailing integer "alt" on the wire (which SHA-256 compression function the C side
   installs in the context: 0 = built-in, 1 = the harness' own second implementation).  The model
   ignores it: a correct replacement cannot change any result. *)
From Coq Require Import ZArith List Bool String.
Require Import Spec.Params Spec.Field Spec.Curve Spec.Bytes Spec.Sha256.
Require Import Model.Base Model.S2c.
Import ListNotations.
Local Open Scope Z_scope.
Local Open Scope string_scope.

Section Api.
Variable P : Params.
Definition dispatch_s2c (op : string) (a : list arg) : list arg :=
  let B i := get_bytes (nth_arg (Z.to_nat i) a) in
  let I i := get_int (nth_arg (Z.to_nat i) a) in
  (* input33 [#alt] *)
  if op =? "s2c_opening_parse" then s2c_opening_parse P (B 0)
  (* opening_obj [#alt] *)
  else if op =? "s2c_opening_serialize" then s2c_opening_serialize (B 0)
  (* msg32 seckey32 data32 #want_opening [#alt] *)
  else if op =? "ecdsa_s2c_sign" then ecdsa_s2c_sign P (B 0) (B 1) (B 2) (negb (Z.eqb (I 3) 0))
  (* sigobj data32 opening_obj [#alt] *)
  else if op =? "ecdsa_s2c_verify_commit" then ecdsa_s2c_verify_commit P (B 0) (B 1) (B 2)
  (* rand32 [#alt] *)
  else if op =? "anti_exfil_host_commit" then anti_exfil_host_commit (B 0)
  (* msg32 seckey32 rand_commitment32 [#alt] *)
  else if op =? "anti_exfil_signer_commit" then anti_exfil_signer_commit P (B 0) (B 1) (B 2)
  (* msg32 seckey32 host_data32 [#alt] *)
  else if op =? "anti_exfil_sign" then anti_exfil_sign P (B 0) (B 1) (B 2)
  (* sigobj msg32 pkobj host_data32 opening_obj [#alt] *)
  else if op =? "anti_exfil_host_verify" then anti_exfil_host_verify P (B 0) (B 1) (B 2) (B 3) (B 4)
  (* msg32 seckey32 pkobj rho rho' [#altmask] *)
  else if op =? "anti_exfil_protocol" then anti_exfil_protocol P (B 0) (B 1) (B 2) (B 3) (B 4)
  else bad_case.
End Api.
