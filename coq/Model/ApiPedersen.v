(* Dispatcher for the generator / Pedersen-commitment API (property C08).
   Wire formats (fields in order; see harness/ops_pedersen.h for the C side):
     generator_h                                         -> gen64
     generator_parse in33                                -> ret [gen64]
     generator_serialize gen64                           -> ret out33
     generator_generate key32                            -> ret [gen64]
     generator_generate_blinded key32 blind32            -> ret [gen64]
     pedersen_commitment_parse in33                      -> ret [commit64]
     pedersen_commitment_serialize commit64              -> ret out33
     pedersen_commit blind32 #value gen64                -> ret [commit64]
     pedersen_blind_sum blinds(32*n) #npositive          -> ret [out32]
     pedersen_verify_tally pos(64*k) neg(64*l)           -> ret
     pedersen_blind_generator_blind_sum values(8*n, big endian) gblinds(32*n) blinds(32*n) #n_total #n_inputs
                                                         -> ret [new last blinding factor]
   Bracketed outputs are present only when ret = 1. *)
From Coq Require Import ZArith List Bool String.
Require Import Spec.Params Spec.Field Spec.Curve Spec.Bytes Spec.Sha256.
Require Import Model.Base Model.Pedersen.
Import ListNotations.
Local Open Scope Z_scope.
Local Open Scope string_scope.

Fixpoint pchunks (fuel : nat) (k : nat) (b : bytes) : list bytes :=
  match fuel with O => [] | S f =>
    match b with [] => [] | _ => firstn k b :: pchunks f k (skipn k b) end end.
Definition pchunk_list (k : nat) (b : bytes) : list bytes := pchunks (S (List.length b)) k b.

Section Api.
Variable P : Params.
Definition dispatch_pedersen (op : string) (a : list arg) : list arg :=
  let B i := get_bytes (nth_arg (Z.to_nat i) a) in
  let I i := get_int (nth_arg (Z.to_nat i) a) in
  if op =? "generator_h" then [ABytes generator_h_bytes]
  else if op =? "generator_parse" then generator_parse P (B 0)
  else if op =? "generator_serialize" then generator_serialize P (B 0)
  else if op =? "generator_generate" then generator_generate P (B 0)
  else if op =? "generator_generate_blinded" then generator_generate_blinded P (B 0) (B 1)
  else if op =? "pedersen_commitment_parse" then pedersen_commitment_parse P (B 0)
  else if op =? "pedersen_commitment_serialize" then pedersen_commitment_serialize P (B 0)
  else if op =? "pedersen_commit" then pedersen_commit P (B 0) (I 1) (B 2)
  else if op =? "pedersen_blind_sum" then pedersen_blind_sum P (pchunk_list 32 (B 0)) (I 1)
  else if op =? "pedersen_verify_tally" then pedersen_verify_tally P (pchunk_list 64 (B 0)) (pchunk_list 64 (B 1))
  else if op =? "pedersen_blind_generator_blind_sum" then
    pedersen_blind_generator_blind_sum P (map be_val (pchunk_list 8 (B 0))) (pchunk_list 32 (B 1))
                                       (pchunk_list 32 (B 2)) (I 3) (I 4)
  else bad_case.
End Api.
