(* Model of modules/bppp: generator lists (create / parse / serialize / destroy with an allocation
   counter), the two-points-in-65-bytes codec, log2 / power-of-two helpers, the transcript
   challenge, the norm commitment, the norm-argument prover and verifier
   (src/modules/bppp/{main_impl.h,bppp_util.h,bppp_transcript_impl.h,bppp_norm_product_impl.h}).

   Vectors are lists; the in-place folding of the C arrays (a[i/2] <- f(a[i], a[i+1])) is
   [map f (combine (evens a) (odds a))].  Multi-exponentiations (ecmult_multi_var with or without
   scratch, Strauss/Pippenger/simple) are sums of [pmul]: only their results are modelled.

   The hash-to-curve used by generator derivation (secp256k1_generator_generate, Shallue-van de
   Woestijne map of modules/generator/main_impl.h) is a PRIVATE copy here ([bp_svdw],
   [bp_generator_generate]): Model/Pedersen.v of the rangeproof group did not exist when this file
   was written.  No proofs in this file. *)
From Coq Require Import ZArith List Bool.
Require Import Spec.Params Spec.Field Spec.Curve Spec.Bytes Spec.Sha256 Model.Base.
Import ListNotations.
Local Open Scope Z_scope.

Definition tag_bppp_commitment : bytes :=      (* "Bulletproofs_pp/v0/commitment" *)
  [66;117;108;108;101;116;112;114;111;111;102;115;95;112;112;47;118;48;47;99;111;109;109;105;116;109;101;110;116].
Definition gen_prefix1 : bytes := [49;115;116;32;103;101;110;101;114;97;116;105;111;110;58;32].  (* "1st generation: " *)
Definition gen_prefix2 : bytes := [50;110;100;32;103;101;110;101;114;97;116;105;111;110;58;32].  (* "2nd generation: " *)

(* secp256k1_bppp_sha256_tagged_commitment_init: the C code hard-codes this midstate *)
Definition bppp_midstate : sha_state := tagged_midstate tag_bppp_commitment.

(* elements at even / odd positions *)
Fixpoint evens {A} (l : list A) : list A :=
  match l with [] => [] | [a] => [a] | a :: _ :: r => a :: evens r end.
Fixpoint odds {A} (l : list A) : list A :=
  match l with [] => [] | [_] => [] | _ :: b :: r => b :: odds r end.
Definition pairs {A} (l : list A) : list (A * A) := combine (evens l) (odds l).
(* a[i/2] <- f (a[i], a[i+1]) for i = 0,2,..  -- done by the C code only when the length is > 1 *)
Definition fold_pairs {A} (f : A * A -> A) (l : list A) : list A :=
  match l with _ :: _ :: _ => map f (pairs l) | _ => l end.

(* byte string -> list of k-byte chunks (the last one may be shorter) *)
Fixpoint chunks_f (fuel : nat) (k : nat) (b : bytes) : list bytes :=
  match fuel with O => [] | S f =>
    match b with [] => [] | _ => firstn k b :: chunks_f f k (skipn k b) end end.
Definition chunks (k : nat) (b : bytes) : list bytes := chunks_f (S (length b)) k b.

(* secp256k1_is_power_of_two / secp256k1_bppp_log2 (floor log2, argument > 0) *)
Definition is_pow2 (x : Z) : bool := (0 <? x) && (Z.land x (x - 1) =? 0).
Definition bppp_log2 (x : Z) : Z := Z.log2 x.

(* ROUND_TO_ALIGN with ALIGNMENT = 16, secp256k1_scratch_alloc on a scratch space with [max] bytes
   of which [used] are allocated: None = returns NULL *)
Definition round_align (x : Z) : Z := (x + 15) / 16 * 16.
Definition scratch_alloc (max used size : Z) : option Z :=
  let r := round_align size in if max - used <? r then None else Some (used + r).
(* a sequence of allocations all of which must succeed *)
Fixpoint scratch_allocs (max used : Z) (sizes : list Z) : bool :=
  match sizes with
  | [] => true
  | s :: r => match scratch_alloc max used s with None => false | Some u => scratch_allocs max u r end
  end.
Definition sizeof_scalar : Z := 32.

Section Bppp.
Variable P : Params.
Let n := cn P.
Let p := cp P.
Notation G := (Curve.G P).
Notation pmul := (Curve.pmul P).
Notation padd := (Curve.padd P).
Notation pneg := (Curve.pneg P).
Notation smul := (sc_mul P).
Notation sadd := (sc_add P).

(* ------------------------------------------------------------------ generator derivation *)
(* shallue_van_de_woestijne (modules/generator/main_impl.h).  negc = -sqrt(-3), d = (sqrt(-3)-1)/2
   are the constants of the C code (specific to the secp256k1 field).  fe_sqrt returns the
   candidate root a^((p+1)/4) whether or not a is a square; fe_inv(0) = 0. *)
Definition svdw_negc : Z := 0xf5d2d456caf80e20dcc88f3d586869d339e092ea25eb132b8272d850e32a03dd.
Definition svdw_d : Z := 0x851695d49a83f8ef919bb86153cbcb16630fb68aed0a766a3ec693d68e6afa40.
Definition sqrt_cand (a : Z) : Z := mpow p a ((p + 1) / 4).
Definition is_sq_cand (a r : Z) : bool := (r * r) mod p =? a mod p.

Definition bp_svdw (t : Z) : point :=
  let t2 := mmul p t t in
  let x3d := mneg p (mmul p 3 t2) in
  let wd := madd p t2 (cb P + 1) in
  let jinv := minv p (mmul p wd x3d) in
  let x1 := madd p (mmul p (mmul p (mmul p svdw_negc t2) x3d) jinv) svdw_d in
  let x2 := mneg p (madd p x1 1) in
  let x3 := madd p (mmul p (mmul p (mmul p wd wd) wd) jinv) 1 in
  let f x := madd p (mmul p (mmul p x x) x) (cb P) in
  let y1 := sqrt_cand (f x1) in let y2 := sqrt_cand (f x2) in let y3 := sqrt_cand (f x3) in
  let aq := is_sq_cand (f x1) y1 in let bq := is_sq_cand (f x2) y2 in
  let '(x, y) := if aq then (x1, y1) else if bq then (x2, y2) else (x3, y3) in
  Some (x, if Z.odd t then mneg p y else y).

(* secp256k1_generator_generate: None = returns 0 (a hash >= p; the caller CHECKs, i.e. aborts) or
   the two mapped points cancel (VERIFY_CHECK only in C; unreachable in practice) *)
Definition bp_generator_generate (key32 : bytes) : option point :=
  match fe_of_b32 P (sha256 (gen_prefix1 ++ key32)), fe_of_b32 P (sha256 (gen_prefix2 ++ key32)) with
  | Some t1, Some t2 =>
    match padd (bp_svdw t1) (bp_svdw t2) with None => None | Q => Some Q end
  | _, _ => None
  end.

(* secp256k1_bppp_generators_create: the i-th generator is derived from the i-th output of the
   RFC6979 HMAC-DRBG seeded with G.x || G.y *)
Fixpoint gens_from (d : drbg) (k : nat) : list (option point) :=
  match k with
  | O => []
  | S m => bp_generator_generate (fst (drbg_gen32 d)) :: gens_from (snd (drbg_gen32 d)) m
  end.
Definition gens_seed : bytes := fe_to_b32 (cgx P) ++ fe_to_b32 (cgy P).
Definition gens_create (k : nat) : list (option point) := gens_from (drbg_init gens_seed) k.

(* all-or-nothing *)
Fixpoint sequence {A} (l : list (option A)) : option (list A) :=
  match l with
  | [] => Some []
  | None :: _ => None
  | Some a :: r => match sequence r with Some r' => Some (a :: r') | None => None end
  end.

(* secp256k1_generator_serialize / secp256k1_generator_parse on one generator *)
Definition bp_gen_ser1 (Q : point) : bytes :=
  match Q with
  | Some (x, y) => (if mis_square p y then 10 else 11) :: fe_to_b32 x
  | None => zeros 33            (* never a member of a generator list *)
  end.
Definition bp_gen_parse1 (b : bytes) : option point :=
  match b with
  | [] => None
  | tag :: xb =>
    if negb (Z.land tag 254 =? 10) then None else
    match fe_of_b32 P xb with
    | None => None
    | Some x =>
      let a := (x * x * x + cb P) mod p in
      let r := sqrt_cand a in
      if is_sq_cand a r then Some (Some (x, if Z.odd tag then mneg p r else r)) else None
    end
  end.

Definition gens_serialize (l : list point) : bytes := flat_map bp_gen_ser1 l.
(* data_len % 33 = 0 is checked by the caller *)
Definition gens_parse_list (data : bytes) : option (list point) := sequence (map bp_gen_parse1 (chunks 33 data)).

(* generators_parse with the number of heap objects alive when it returns: the length check comes
   before the two allocations; a bad point frees both *)
Definition gens_parse (data : bytes) : option (list point) * Z :=
  if negb (Z.of_nat (length data) mod 33 =? 0) then (None, 0)
  else match gens_parse_list data with
       | Some l => (Some l, 2)
       | None => (None, 2 - 2)
       end.

(* ------------------------------------------------------------------ two points in 65 bytes *)
Definition serialize_points (X R : point) : bytes :=
  let tx := ge_serialize_ext X in let tr := ge_serialize_ext R in
  Z.lor (Z.shiftl (Z.land (hd 0 tx) 1) 1) (Z.land (hd 0 tr) 1) :: tl tx ++ tl tr.

(* idx = 0: first point, otherwise second point *)
Definition parse_one_of_points (in65 : bytes) (idx : Z) : option point :=
  let b0 := hd 0 in65 in
  let i := if idx =? 0 then 0 else 1 in
  if 3 <? b0 then None else
  let xb := slice (Z.to_nat (1 + 32 * i)) 32 in65 in
  let sign := Z.land b0 (2 - i) in
  if negb (is_zero_bytes xb) then ge_parse_ext P (Z.lor 2 (Z.shiftr sign (1 - i)) :: xb)
  else if negb (sign =? 0) then None
  else ge_parse_ext P (zeros 33).

(* ------------------------------------------------------------------ transcript *)
(* the transcript is the byte string written so far after the tagged midstate;
   secp256k1_bppp_challenge_scalar hashes a copy extended by le64(idx) *)
Definition challenge (tr : bytes) (idx : Z) : Z :=
  fst (sc_of_b32 P (sha256_from bppp_midstate 64 (tr ++ le_enc 8 idx))).

(* ------------------------------------------------------------------ scalar vectors *)
Definition ip (a b : list Z) : Z :=
  fold_left (fun acc xy => sadd acc (smul (fst xy) (snd xy))) (combine a b) 0.
(* sum a_i b_i mu^(i+1) *)
Fixpoint wip_from (mu_pow mu : Z) (ab : list (Z * Z)) (acc : Z) : Z :=
  match ab with
  | [] => acc
  | xy :: r => wip_from (smul mu_pow mu) mu r (sadd acc (smul (smul (fst xy) (snd xy)) mu_pow))
  end.
Definition wip (a b : list Z) (mu : Z) : Z := wip_from mu mu (combine a b) 0.

(* multi-exponentiation *)
Definition msm (sp : list (Z * point)) : point :=
  fold_left (fun acc s => padd acc (pmul (fst s) (snd s))) sp None.

(* secp256k1_bppp_commit: v G + <n, Gs> + <l, Hs>, v = |n|^2_mu + <l, c> *)
Definition norm_commit (gens : list point) (nv lv cv : list Z) (mu : Z) : point :=
  let v := sadd (wip nv nv mu) (ip lv cv) in
  msm ((v, G) :: combine (nv ++ lv) gens).

(* ------------------------------------------------------------------ prover *)
Definition x_point (rho_f rho_inv mu_sq : Z) (gv hv : list point) (nv lv cv : list Z) : point :=
  let w := smul (wip (evens nv) (odds nv) mu_sq) rho_inv in
  let x_v := sadd (sadd (sadd w w) (ip (evens cv) (odds lv))) (ip (odds cv) (evens lv)) in
  let gt := flat_map (fun sg : (Z * Z) * (point * point) =>
                        let '((n0, n1), (g0, g1)) := sg in [(smul n1 rho_f, g0); (smul n0 rho_inv, g1)])
                     (combine (pairs nv) (pairs gv)) in
  let ht := flat_map (fun sh : (Z * Z) * (point * point) =>
                        let '((l0, l1), (h0, h1)) := sh in [(l1, h0); (l0, h1)])
                     (combine (pairs lv) (pairs hv)) in
  msm ((x_v, G) :: gt ++ ht).

Definition r_point (mu_sq : Z) (gv hv : list point) (nv lv cv : list Z) : point :=
  let r_v := sadd (wip (odds nv) (odds nv) mu_sq) (ip (odds cv) (odds lv)) in
  msm ((r_v, G) :: combine (odds nv) (odds gv) ++ combine (odds lv) (odds hv)).

(* one iteration of the while loop: the 65 proof bytes, the challenge, the folded vectors *)
Definition prove_round (tr : bytes) (rho_f mu_f : Z) (gv hv : list point) (nv lv cv : list Z)
  : bytes * (list point * list point) * (list Z * list Z * list Z) :=
  let rho_inv := sc_inv P rho_f in
  let mu_sq := smul mu_f mu_f in
  let X := x_point rho_f rho_inv mu_sq gv hv nv lv cv in
  let R := r_point mu_sq gv hv nv lv cv in
  let pr := serialize_points X R in
  let gamma := challenge (tr ++ pr) 0 in
  let nv' := fold_pairs (fun ab => sadd (smul (fst ab) rho_inv) (smul (snd ab) gamma)) nv in
  let gv' := fold_pairs (fun ab => padd (pmul rho_f (fst ab)) (pmul gamma (snd ab))) gv in
  let cv' := fold_pairs (fun ab => sadd (fst ab) (smul (snd ab) gamma)) cv in
  let lv' := fold_pairs (fun ab => sadd (fst ab) (smul (snd ab) gamma)) lv in
  let hv' := fold_pairs (fun ab => padd (pmul gamma (snd ab)) (fst ab)) hv in
  (pr, (gv', hv'), (nv', lv', cv')).

Fixpoint prove_loop (fuel : nat) (tr : bytes) (rho_f mu_f : Z) (gv hv : list point) (nv lv cv : list Z)
                    (acc : bytes) : option bytes :=
  if (Nat.leb (length nv) 1) && (Nat.leb (length lv) 1) then
    Some (acc ++ sc_to_b32 (hd 0 nv) ++ sc_to_b32 (hd 0 lv))
  else match fuel with
  | O => None
  | S f =>
    let '(pr, (gv', hv'), (nv', lv', cv')) := prove_round tr rho_f mu_f gv hv nv lv cv in
    prove_loop f (tr ++ pr) mu_f (smul mu_f mu_f) gv' hv' nv' lv' cv' (acc ++ pr)
  end.

(* secp256k1_bppp_rangeproof_norm_product_prove; gens = Gs (length nv) followed by Hs (length lv).
   Preconditions of the C function (VERIFY_CHECK only): lengths are powers of two,
   length gens = length nv + length lv, length cv = length lv, proof buffer large enough. *)
Definition norm_prove (tr : bytes) (rho : Z) (gens : list point) (nv lv cv : list Z) : option bytes :=
  let gl := length nv in
  prove_loop (length nv + length lv) tr rho (smul rho rho) (firstn gl gens) (skipn gl gens) nv lv cv [].

(* ------------------------------------------------------------------ verifier *)
(* the checks made before any group operation; Some (n, l, log_g_len, n_rounds) when they pass *)
Definition verify_pre (scratch_max : Z) (proof : bytes) (rho : Z) (n_gens g_len h_len : Z)
  : option (Z * Z * Z * Z) :=
  if (g_len =? 0) || (h_len =? 0) then None else
  let log_g := bppp_log2 g_len in
  let log_h := bppp_log2 h_len in
  let n_rounds := Z.max log_g log_h in
  if negb (n_gens =? h_len + g_len) || negb (Z.of_nat (length proof) =? 65 * n_rounds + 64) then None else
  if negb (is_pow2 g_len) || negb (is_pow2 h_len) then None else
  let nn := sc_of_b32 P (slice (Z.to_nat (n_rounds * 65)) 32 proof) in
  if snd nn then None else
  let ll := sc_of_b32 P (slice (Z.to_nat (n_rounds * 65 + 32)) 32 proof) in
  if snd ll then None else
  if rho =? 0 then None else
  if negb (scratch_allocs scratch_max 0 [n_rounds * sizeof_scalar; g_len * sizeof_scalar;
                                         h_len * sizeof_scalar; log_g * sizeof_scalar]) then None else
  Some (fst nn, fst ll, log_g, n_rounds).

(* the X and R points of every round (ec_mult_verify_cb1 fails on the first bad encoding) *)
Definition verify_points (proof : bytes) (n_rounds : nat) : option (list (point * point)) :=
  sequence (map (fun i => let in65 := slice (65 * i) 65 proof in
                          match parse_one_of_points in65 0, parse_one_of_points in65 1 with
                          | Some X, Some R => Some (X, R)
                          | _, _ => None
                          end) (seq 0 n_rounds)).

(* gammas: the transcript absorbs the 65 bytes of each round in turn *)
Fixpoint verify_gammas (tr : bytes) (rounds : list bytes) : list Z :=
  match rounds with
  | [] => []
  | r :: rest => challenge (tr ++ r) 0 :: verify_gammas (tr ++ r) rest
  end.

(* s[i] = s[i - 2^j] * f_j for 2^j <= i < 2^(j+1) *)
Fixpoint s_vector (s : list Z) (factors : list Z) : list Z :=
  match factors with
  | [] => s
  | f :: r => s_vector (s ++ map (fun x => smul x f) s) r
  end.

(* rho^(2^k) *)
Fixpoint sqr_iter (k : nat) (x : Z) : Z := match k with O => x | S m => sqr_iter m (smul x x) end.
(* secp256k1_bppp_powers_of_rho: x, x^2, x^4, ... (k entries) *)
Fixpoint powers_of_rho (k : nat) (x : Z) : list Z :=
  match k with O => [] | S m => x :: powers_of_rho m (smul x x) end.

Definition verify_equation (proof tr : bytes) (rho : Z) (gens : list point) (cv : list Z) (commit : point)
                           (nn ll log_g n_rounds : Z) (xr : list (point * point)) : bool :=
  let lg := Z.to_nat log_g in
  let nr := Z.to_nat n_rounds in
  let log_h := Z.to_nat (bppp_log2 (Z.of_nat (length cv))) in
  let rho_inv := sc_inv P rho in
  let rho_inv_pows := powers_of_rho lg rho_inv in
  let rho_f := sqr_iter lg rho in
  let gammas := verify_gammas tr (firstn nr (chunks 65 proof)) in
  let s_g := s_vector [smul (smul nn rho_f) rho_inv]
                      (map (fun gr => smul (fst gr) (snd gr)) (combine (firstn lg gammas) rho_inv_pows)) in
  let s_h := s_vector [ll] (firstn log_h gammas) in
  let h_c := ip cv s_h in
  let mu_f := smul rho_f rho_f in
  let v := sadd (smul (smul nn nn) mu_f) h_c in
  let res1 := msm ((1, commit) ::
                   flat_map (fun gxr : Z * (point * point) =>
                               let '(g, (X, R)) := gxr in [(g, X); (sadd (smul g g) (sc_neg P 1), R)])
                            (combine gammas xr)) in
  let res2 := msm ((v, G) :: combine (s_g ++ s_h) gens) in
  point_eqb res1 res2.

(* secp256k1_bppp_rangeproof_norm_product_verify.  scratch_max: size of the (non-NULL) scratch space;
   rho is a reduced scalar; gens = g_vec->gens (g_vec->n = length gens); g_len = n_vec length;
   cv = c_vec (c_vec_len = length cv) *)
Definition norm_verify (scratch_max : Z) (proof tr : bytes) (rho : Z) (gens : list point) (g_len : Z)
                       (cv : list Z) (commit : point) : bool :=
  match verify_pre scratch_max proof rho (Z.of_nat (length gens)) g_len (Z.of_nat (length cv)) with
  | None => false
  | Some (nn, ll, log_g, n_rounds) =>
    match verify_points proof (Z.to_nat n_rounds) with
    | None => false
    | Some xr => verify_equation proof tr rho gens cv commit nn ll log_g n_rounds xr
    end
  end.

(* ------------------------------------------------------------------ wire-level operations *)
(* canonical form of a group element on the wire: x||y, 64 zero bytes = infinity; None = not a
   point (malformed case) *)
Definition pt_of_canon (b : bytes) : option point :=
  if negb (Nat.eqb (length b) 64) then None
  else if is_zero_bytes b then Some None
  else let Q := Some (be_val (firstn 32 b), be_val (skipn 32 b)) in
       if on_curve P Q then Some Q else None.
Definition pts_of_canon (b : bytes) : option (list point) :=
  if negb (Nat.eqb (length b mod 64) 0) then None else sequence (map pt_of_canon (chunks 64 b)).
Definition finite_pts_of_canon (b : bytes) : option (list point) :=
  match pts_of_canon b with
  | Some l => if forallb (fun Q => negb (is_inf Q)) l then Some l else None
  | None => None
  end.
Definition scalars_of (b : bytes) : option (list Z) :=
  if negb (Nat.eqb (length b mod 32) 0) then None
  else Some (map (fun c => fst (sc_of_b32 P c)) (chunks 32 b)).
Definition canon_pts (l : list point) : bytes := flat_map pk_obj l.

(* bppp_gens_create #n -> 1, serialization, live allocations after destroy *)
Definition op_gens_create (k : Z) : list arg :=
  if (k <? 0) || (4096 <? k) then bad_case else
  match sequence (gens_create (Z.to_nat k)) with
  | None => abstain
  | Some l => [AInt 1; ABytes (canon_pts l); ABytes (gens_serialize l); AInt 0]
  end.

(* bppp_gens_parse data -> ret, live allocations after parse, [canonical points, re-serialization,]
   live allocations after destroy *)
Definition op_gens_parse (data : arg) : list arg :=
  match data with
  | ABytes d =>
    match gens_parse d with
    | (Some l, live) => [AInt 1; AInt live; ABytes (canon_pts l); ABytes (gens_serialize l); AInt (live - 2)]
    | (None, live) => [AInt 0; AInt live; AInt live]
    end
  | _ => [AInt 0; AInt 0; AInt 0; AIll 1]
  end.

(* bppp_gens_serialize gens64 #buflen -> ret, *data_len after, buffer *)
Definition op_gens_serialize (gens : bytes) (buflen : Z) : list arg :=
  match finite_pts_of_canon gens with
  | None => bad_case
  | Some l =>
    if (buflen <? 0) || (1000000 <? buflen) then bad_case else
    let need := 33 * Z.of_nat (length l) in
    if buflen <? need then [AInt 0; AInt buflen; AIll 1]
    else [AInt 1; AInt need; ABytes (gens_serialize l ++ zeros (Z.to_nat (buflen - need)))]
  end.

Definition op_points_serialize (X R : bytes) : list arg :=
  match pt_of_canon X, pt_of_canon R with
  | Some X, Some R => [ABytes (serialize_points X R)]
  | _, _ => bad_case
  end.
Definition op_points_parse (in65 : bytes) (idx : Z) : list arg :=
  if negb (Nat.eqb (length in65) 65) || negb ((idx =? 0) || (idx =? 1)) then bad_case else
  match parse_one_of_points in65 idx with
  | Some Q => [AInt 1; ABytes (pk_obj Q)]
  | None => [AInt 0]
  end.

Definition op_log2 (x : Z) : list arg :=
  if (x <=? 0) || (2 ^ 64 <=? x) then bad_case else [AInt (bppp_log2 x); AInt (b2z (is_pow2 x))].

Definition op_challenge (tr : bytes) (idx : Z) : list arg :=
  if (idx <? 0) || (2 ^ 64 <=? idx) then bad_case else [ABytes (sc_to_b32 (challenge tr idx))].

(* bppp_commit gens64 n_vec l_vec c_vec mu #scratch *)
Definition op_commit (gens nv lv cv mu : bytes) : list arg :=
  match finite_pts_of_canon gens, scalars_of nv, scalars_of lv, scalars_of cv with
  | Some g, Some nv, Some lv, Some cv =>
    if negb (Nat.eqb (length g) (length nv + length lv)) || negb (Nat.eqb (length cv) (length lv))
       || negb (Nat.eqb (length mu) 32) then bad_case
    else [AInt 1; ABytes (pk_obj (norm_commit g nv lv cv (fst (sc_of_b32 P mu))))]
  | _, _, _, _ => bad_case
  end.

(* bppp_prove transcript rho gens64 n_vec l_vec c_vec #scratch -> 1, proof *)
Definition op_prove (tr rho gens nv lv cv : bytes) : list arg :=
  match finite_pts_of_canon gens, scalars_of nv, scalars_of lv, scalars_of cv with
  | Some g, Some nv, Some lv, Some cv =>
    if negb (Nat.eqb (length g) (length nv + length lv)) || negb (Nat.eqb (length cv) (length lv))
       || negb (Nat.eqb (length rho) 32)
       || negb (is_pow2 (Z.of_nat (length nv))) || negb (is_pow2 (Z.of_nat (length lv))) then bad_case
    else match norm_prove tr (fst (sc_of_b32 P rho)) g nv lv cv with
         | Some pf => [AInt 1; ABytes pf]
         | None => abstain
         end
  | _, _, _, _ => bad_case
  end.

(* bppp_verify transcript rho gens64 #g_len c_vec commit64 proof #scratch -> ret *)
Definition op_verify (tr rho gens : bytes) (g_len : Z) (cv commit proof : bytes) (scratch : Z) : list arg :=
  match finite_pts_of_canon gens, scalars_of cv, pt_of_canon commit with
  | Some g, Some cv, Some C =>
    if negb (Nat.eqb (length rho) 32) || (g_len <? 0) || (2 ^ 32 <? g_len) || (scratch <? 0) then bad_case
    else [AInt (b2z (norm_verify scratch proof tr (fst (sc_of_b32 P rho)) g g_len cv C))]
  | _, _, _ => bad_case
  end.
End Bppp.
