(* Dispatcher for the core API (keys, ECDSA, recovery, Schnorr, DER): op name + wire arguments ->
   wire results.  The OCaml driver calls [dispatch_core] and nothing else. *)
From Coq Require Import ZArith List Bool String.
Require Import Spec.Params Spec.Field Spec.Curve Spec.Bytes Spec.Sha256.
Require Import Model.Base Model.Keys Model.Der Model.Ecdsa Model.Schnorr.
Import ListNotations.
Local Open Scope Z_scope.
Local Open Scope string_scope.

Fixpoint chunks (fuel : nat) (k : nat) (b : bytes) : list bytes :=
  match fuel with O => [] | S f =>
    match b with [] => [] | _ => firstn k b :: chunks f k (skipn k b) end end.
Definition chunk_list (k : nat) (b : bytes) : list bytes := chunks (S (List.length b)) k b.

Section Api.
Variable P : Params.
Definition dispatch_core (op : string) (a : list arg) : list arg :=
  let B i := get_bytes (nth_arg (Z.to_nat i) a) in
  let I i := get_int (nth_arg (Z.to_nat i) a) in
  let O i := opt_bytes (nth_arg (Z.to_nat i) a) in
  if op =? "ec_pubkey_parse" then ec_pubkey_parse P (B 0)
  else if op =? "ec_pubkey_serialize" then ec_pubkey_serialize (I 0) (B 1) (I 2)
  else if op =? "xonly_pubkey_parse" then xonly_pubkey_parse P (B 0)
  else if op =? "xonly_pubkey_serialize" then xonly_pubkey_serialize (B 0)
  else if op =? "ec_pubkey_create" then ec_pubkey_create P (B 0)
  else if op =? "ec_seckey_verify" then ec_seckey_verify P (B 0)
  else if op =? "ec_seckey_negate" then ec_seckey_negate P (B 0)
  else if op =? "ec_pubkey_negate" then ec_pubkey_negate P (B 0)
  else if op =? "ec_seckey_tweak_add" then ec_seckey_tweak_add P (B 0) (B 1)
  else if op =? "ec_pubkey_tweak_add" then ec_pubkey_tweak_add P (B 0) (B 1)
  else if op =? "ec_seckey_tweak_mul" then ec_seckey_tweak_mul P (B 0) (B 1)
  else if op =? "ec_pubkey_tweak_mul" then ec_pubkey_tweak_mul P (B 0) (B 1)
  else if op =? "ec_pubkey_combine" then ec_pubkey_combine P (chunk_list 64 (B 0))
  else if op =? "ec_pubkey_cmp" then ec_pubkey_cmp (B 0) (B 1)
  else if op =? "ec_pubkey_sort" then ec_pubkey_sort (chunk_list 64 (B 0))
  else if op =? "xonly_pubkey_from_pubkey" then xonly_pubkey_from_pubkey P (B 0)
  else if op =? "xonly_pubkey_tweak_add" then xonly_pubkey_tweak_add P (B 0) (B 1)
  else if op =? "xonly_pubkey_tweak_add_check" then xonly_pubkey_tweak_add_check P (B 0) (I 1) (B 2) (B 3)
  else if op =? "keypair_create" then keypair_create P (B 0)
  else if op =? "keypair_xonly_pub" then keypair_xonly_pub P (B 0)
  else if op =? "keypair_xonly_tweak_add" then keypair_xonly_tweak_add P (B 0) (B 1)
  else if op =? "ecdsa_signature_parse_der" then ecdsa_signature_parse_der P (B 0)
  else if op =? "ecdsa_signature_parse_compact" then ecdsa_signature_parse_compact P (B 0)
  else if op =? "ecdsa_signature_serialize_der" then ecdsa_signature_serialize_der (I 0) (B 1)
  else if op =? "ecdsa_signature_serialize_compact" then ecdsa_signature_serialize_compact (B 0)
  else if op =? "ecdsa_signature_normalize" then ecdsa_signature_normalize P (B 0)
  else if op =? "ecdsa_verify" then ecdsa_verify P (B 0) (B 1) (B 2)
  else if op =? "ecdsa_sign" then ecdsa_sign P (I 0) (B 1) (B 2) (O 3)
  else if op =? "ecdsa_sign_recoverable" then ecdsa_sign_recoverable P (I 0) (B 1) (B 2) (O 3)
  else if op =? "recoverable_parse_compact" then recoverable_parse_compact P (B 0) (I 1)
  else if op =? "recoverable_serialize_compact" then recoverable_serialize_compact (B 0)
  else if op =? "recoverable_convert" then recoverable_convert (B 0)
  else if op =? "ecdsa_recover" then ecdsa_recover P (B 0) (B 1)
  else if op =? "ecdsa_sign_alias" then ecdsa_sign P (I 0) (B 1) (B 2) (O 3)
  else if op =? "schnorrsig_sign32_alias" then schnorrsig_sign32 P (B 0) (B 1) (O 2)
  else if op =? "schnorrsig_sign32" then schnorrsig_sign32 P (B 0) (B 1) (O 2)
  else if op =? "schnorrsig_sign_custom" then
    schnorrsig_sign_custom P (B 0) (B 1)
      (match nth_arg 2%nat a with ABytes magic => Some (magic, I 3, O 4) | _ => None end)
  else if op =? "nonce_function_bip340" then nonce_function_bip340_direct (B 0) (B 1) (B 2) (O 3) (O 4)
  else if op =? "nonce_function_rfc6979" then [AInt 1; ABytes (nonce_rfc6979 P (B 0) (B 1) (O 2) (O 3) (Z.to_nat (I 4)))]
  else if op =? "schnorrsig_verify" then schnorrsig_verify P (B 0) (B 1) (B 2)
  else if op =? "sha256" then [ABytes (sha256 (B 0))]
  else if op =? "hmac_sha256" then [ABytes (hmac_sha256 (B 0) (B 1))]
  else if op =? "tagged_sha256" then [AInt 1; ABytes (tagged_hash (B 0) (B 1))]
  else if op =? "rfc6979" then [ABytes (drbg_nth (Z.to_nat (I 1)) (drbg_init (B 0)))]
  else bad_case.
End Api.
