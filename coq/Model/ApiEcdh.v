(* Dispatcher of the ecdh group (property C18): ECDH and ElligatorSwift.  Wire arguments:
     ecdh                   pkobj seckey32 #kind data|-      kind 0: hashfp = NULL, 1: secp256k1_ecdh_hash_function_sha256,
                                                             2: test callback (64 bytes out, returns 1), 3: same but returns 0
     ellswift_encode        pkobj rnd32
     ellswift_create        seckey32 aux32|-
     ellswift_decode        ell64
     ellswift_xdh           ell_a64 ell_b64 seckey32 #party #kind data|-
                                                             kind 0: bip324, 1: prefix (data = 64 bytes), 2: test callback (returns 1),
                                                             3: test callback returning 0, 4: hashfp = NULL
     ellswift_xswiftec      u32 t32                          (static function; inputs reduced mod p)  -> x32
     ellswift_xswiftec_inv  x32 u32 #c                       (static function)  -> ret [t32]
   The test callbacks are defined twice, here and in harness/ops_ecdh.h. *)
From Coq Require Import ZArith List Bool String.
Require Import Spec.Params Spec.Field Spec.Curve Spec.Bytes Spec.Sha256.
Require Import Model.Base Model.Ecdh Model.Ellswift.
Import ListNotations.
Local Open Scope Z_scope.

(* first byte xor-ed with data[0] when a data pointer is given *)
Definition xor_first (out : bytes) (data : option bytes) : bytes :=
  match data, out with
  | Some (d0 :: _), o0 :: rest => Z.lxor o0 d0 :: rest
  | _, _ => out
  end.

Definition ecdh_test_hash (ret : Z) (data : option bytes) : ecdh_hashfn :=
  fun x32 y32 => (ret, xor_first (y32 ++ x32) data).

Definition xdh_test_hash (ret : Z) (data : option bytes) : xdh_hashfn :=
  fun x32 a b =>
    (ret, xor_first (map (fun t => Z.lxor (Z.lxor (fst (fst t)) (snd (fst t))) (snd t))
                         (combine (combine x32 (firstn 32 a)) (skipn 32 b))) data).

Section Api.
Variable P : Params.

Definition dispatch_ecdh (op : string) (a : list arg) : list arg :=
  let A i := nth_arg i a in
  let B i := get_bytes (nth_arg i a) in
  let I i := get_int (nth_arg i a) in
  let O i := opt_bytes (nth_arg i a) in
  let p := cp P in
  if String.eqb op "ecdh"%string then
    let kind := I 2%nat in
    if (kind =? 0) || (kind =? 1) then ecdh P ecdh_hash_sha256 (B 0%nat) (B 1%nat)
    else if kind =? 2 then ecdh P (ecdh_test_hash 1 (O 3%nat)) (B 0%nat) (B 1%nat)
    else if kind =? 3 then ecdh P (ecdh_test_hash 0 (O 3%nat)) (B 0%nat) (B 1%nat)
    else bad_case
  else if String.eqb op "ellswift_encode"%string then ellswift_encode P (B 0%nat) (B 1%nat)
  else if String.eqb op "ellswift_create"%string then ellswift_create P (B 0%nat) (O 1%nat)
  else if String.eqb op "ellswift_decode"%string then ellswift_decode P (B 0%nat)
  else if String.eqb op "ellswift_xdh"%string then
    let kind := I 4%nat in
    let run h := ellswift_xdh P h (B 0%nat) (B 1%nat) (B 2%nat) (I 3%nat) in
    if (kind =? 0) || (kind =? 5) then run xdh_hash_bip324
    else if (kind =? 1) || (kind =? 6) then run (xdh_hash_prefix (B 5%nat))
    else if kind =? 2 then run (xdh_test_hash 1 (O 5%nat))
    else if kind =? 3 then run (xdh_test_hash 0 (O 5%nat))
    else if kind =? 4 then [AInt 0; AIll 1]
    else bad_case
  else if String.eqb op "ellswift_xswiftec"%string then
    [ABytes (fe_to_b32 (xswiftec P (be_val (B 0%nat) mod p) (be_val (B 1%nat) mod p)))]
  else if String.eqb op "ellswift_xswiftec_inv"%string then
    match xswiftec_inv P (be_val (B 0%nat) mod p) (be_val (B 1%nat) mod p) (I 2%nat) with
    | Some t => [AInt 1; ABytes (fe_to_b32 t)]
    | None => [AInt 0]
    end
  else bad_case.
End Api.
