(* Runs the GENERATED kernel functions (Gen/*.v, regenerated from the C source) so that the translator
   can be validated against the compiled C functions on concrete inputs. *)
From Coq Require Import ZArith List Bool String.
Require Import Spec.Params Spec.Bytes Model.Base Gen.fe_mul_inner Gen.fe_sqr_inner.
Require Import Gen.fe10x26_ntz Gen.fe10x26_cmov Gen.gej_add_ge32 Gen.gej_add_ge Gen.fe10x26_add Gen.fe10x26_negate Gen.fe10x26_mul_int Gen.fe10x26_half Gen.gej_double32 Gen.ge_set_gej_zinv32 Gen.ge_set_ge_zinv32 Gen.gej_rescale32 Gen.ge_set_gej_zinv Gen.ge_set_ge_zinv Gen.gej_rescale Gen.gej_double Gen.scalar_eq Gen.fe_impl_get_b32 Gen.scalar_set_b32 Gen.scalar_get_b32 Gen.scalar_is_zero Gen.scalar_cmov Gen.fe_impl_cmov Gen.fe_storage_cmov Gen.int_cmov Gen.scalar_check_overflow Gen.scalar_is_high Gen.scalar_cond_negate Gen.scalar_negate Gen.fe_impl_normalize Gen.fe_impl_normalize_weak Gen.fe_impl_normalizes_to_zero Gen.fe_impl_negate_unchecked Gen.fe_impl_add Gen.fe_impl_half Gen.fe_impl_is_odd Gen.scalar_mul_512 Gen.scalar_sqr_512 Gen.scalar_reduce_512 Gen.scalar8x32_mul_512 Gen.scalar8x32_sqr_512 Gen.scalar8x32_check_overflow Gen.scalar8x32_reduce_512 Gen.scalar8x32_mul Gen.scalar8x32_sqr Gen.scalar_mul_512b Gen.scalar_sqr_512b Gen.scalar_mul Gen.scalar_sqr Gen.scalar_add Gen.scalar_half Gen.fe_impl_set_b32_limit Gen.fe10x26_mul_inner Gen.fe10x26_sqr_inner.
Import ListNotations.
Local Open Scope Z_scope.
Definition dispatch_gen (P : Params) (op : string) (a : list arg) : list arg :=
  let I i := get_int (nth_arg i a) in
  if (op =? "fe_mul_inner_raw")%string then
    map AInt (fe_mul_inner (I 0%nat) (I 1%nat) (I 2%nat) (I 3%nat) (I 4%nat) (I 5%nat) (I 6%nat) (I 7%nat) (I 8%nat) (I 9%nat))
  else if (op =? "fe_sqr_inner_raw")%string then
    map AInt (fe_sqr_inner (I 0%nat) (I 1%nat) (I 2%nat) (I 3%nat) (I 4%nat))
  else if (op =? "raw_scalar_is_zero")%string then [AInt (scalar_is_zero (I 0%nat) (I 1%nat) (I 2%nat) (I 3%nat))]
  else if (op =? "raw_scalar_cmov")%string then map AInt (scalar_cmov (I 0%nat) (I 1%nat) (I 2%nat) (I 3%nat) (I 4%nat) (I 5%nat) (I 6%nat) (I 7%nat) (I 8%nat))
  else if (op =? "raw_fe_impl_cmov")%string then map AInt (fe_impl_cmov (I 0%nat) (I 1%nat) (I 2%nat) (I 3%nat) (I 4%nat) (I 5%nat) (I 6%nat) (I 7%nat) (I 8%nat) (I 9%nat) (I 10%nat))
  else if (op =? "raw_fe_storage_cmov")%string then map AInt (fe_storage_cmov (I 0%nat) (I 1%nat) (I 2%nat) (I 3%nat) (I 4%nat) (I 5%nat) (I 6%nat) (I 7%nat) (I 8%nat))
  else if (op =? "raw_int_cmov")%string then map AInt (int_cmov (I 0%nat) (I 1%nat) (I 2%nat))
  else if (op =? "raw_scalar_check_overflow")%string then [AInt (scalar_check_overflow (I 0%nat) (I 1%nat) (I 2%nat) (I 3%nat))]
  else if (op =? "raw_scalar_is_high")%string then [AInt (scalar_is_high (I 0%nat) (I 1%nat) (I 2%nat) (I 3%nat))]
  else if (op =? "raw_scalar_cond_negate")%string then map AInt (scalar_cond_negate (I 0%nat) (I 1%nat) (I 2%nat) (I 3%nat) (I 4%nat))
  else if (op =? "raw_scalar_negate")%string then map AInt (scalar_negate (I 0%nat) (I 1%nat) (I 2%nat) (I 3%nat))
  else if (op =? "raw_fe_impl_normalize")%string then map AInt (fe_impl_normalize (I 0%nat) (I 1%nat) (I 2%nat) (I 3%nat) (I 4%nat))
  else if (op =? "raw_fe_impl_normalize_weak")%string then map AInt (fe_impl_normalize_weak (I 0%nat) (I 1%nat) (I 2%nat) (I 3%nat) (I 4%nat))
  else if (op =? "raw_fe_impl_normalizes_to_zero")%string then [AInt (fe_impl_normalizes_to_zero (I 0%nat) (I 1%nat) (I 2%nat) (I 3%nat) (I 4%nat))]
  else if (op =? "raw_fe_impl_negate_unchecked")%string then map AInt (fe_impl_negate_unchecked (I 0%nat) (I 1%nat) (I 2%nat) (I 3%nat) (I 4%nat) (I 5%nat))
  else if (op =? "raw_fe_impl_add")%string then map AInt (fe_impl_add (I 0%nat) (I 1%nat) (I 2%nat) (I 3%nat) (I 4%nat) (I 5%nat) (I 6%nat) (I 7%nat) (I 8%nat) (I 9%nat))
  else if (op =? "raw_fe_impl_half")%string then map AInt (fe_impl_half (I 0%nat) (I 1%nat) (I 2%nat) (I 3%nat) (I 4%nat))
  else if (op =? "raw_fe_impl_is_odd")%string then [AInt (fe_impl_is_odd (I 0%nat))]
  else if (op =? "raw_scalar_mul_512")%string then map AInt (scalar_mul_512 (I 0%nat) (I 1%nat) (I 2%nat) (I 3%nat) (I 4%nat) (I 5%nat) (I 6%nat) (I 7%nat))
  else if (op =? "raw_scalar_sqr_512")%string then map AInt (scalar_sqr_512 (I 0%nat) (I 1%nat) (I 2%nat) (I 3%nat))
  else if (op =? "raw_scalar_reduce_512")%string then map AInt (scalar_reduce_512 (I 0%nat) (I 1%nat) (I 2%nat) (I 3%nat) (I 4%nat) (I 5%nat) (I 6%nat) (I 7%nat))
  else if (op =? "raw8x32_mul_512")%string then map AInt (scalar8x32_mul_512 (I 0%nat) (I 1%nat) (I 2%nat) (I 3%nat) (I 4%nat) (I 5%nat) (I 6%nat) (I 7%nat) (I 8%nat) (I 9%nat) (I 10%nat) (I 11%nat) (I 12%nat) (I 13%nat) (I 14%nat) (I 15%nat))
  else if (op =? "raw8x32_sqr_512")%string then map AInt (scalar8x32_sqr_512 (I 0%nat) (I 1%nat) (I 2%nat) (I 3%nat) (I 4%nat) (I 5%nat) (I 6%nat) (I 7%nat))
  else if (op =? "raw8x32_reduce_512")%string then map AInt (scalar8x32_reduce_512 (I 0%nat) (I 1%nat) (I 2%nat) (I 3%nat) (I 4%nat) (I 5%nat) (I 6%nat) (I 7%nat) (I 8%nat) (I 9%nat) (I 10%nat) (I 11%nat) (I 12%nat) (I 13%nat) (I 14%nat) (I 15%nat))
  else if (op =? "raw8x32_check_overflow")%string then [AInt (scalar8x32_check_overflow (I 0%nat) (I 1%nat) (I 2%nat) (I 3%nat) (I 4%nat) (I 5%nat) (I 6%nat) (I 7%nat))]
  else if (op =? "raw8x32_mul")%string then map AInt (scalar8x32_mul (I 0%nat) (I 1%nat) (I 2%nat) (I 3%nat) (I 4%nat) (I 5%nat) (I 6%nat) (I 7%nat) (I 8%nat) (I 9%nat) (I 10%nat) (I 11%nat) (I 12%nat) (I 13%nat) (I 14%nat) (I 15%nat))
  else if (op =? "raw8x32_sqr")%string then map AInt (scalar8x32_sqr (I 0%nat) (I 1%nat) (I 2%nat) (I 3%nat) (I 4%nat) (I 5%nat) (I 6%nat) (I 7%nat))
  else if (op =? "raw_scalar_mul_512b")%string then map AInt (scalar_mul_512b (I 0%nat) (I 1%nat) (I 2%nat) (I 3%nat) (I 4%nat) (I 5%nat) (I 6%nat) (I 7%nat))
  else if (op =? "raw_scalar_sqr_512b")%string then map AInt (scalar_sqr_512b (I 0%nat) (I 1%nat) (I 2%nat) (I 3%nat))
  else if (op =? "raw_scalar_mul")%string then map AInt (scalar_mul (I 0%nat) (I 1%nat) (I 2%nat) (I 3%nat) (I 4%nat) (I 5%nat) (I 6%nat) (I 7%nat))
  else if (op =? "raw_scalar_sqr")%string then map AInt (scalar_sqr (I 0%nat) (I 1%nat) (I 2%nat) (I 3%nat))
  else if (op =? "raw_scalar_add")%string then map AInt (scalar_add (I 0%nat) (I 1%nat) (I 2%nat) (I 3%nat) (I 4%nat) (I 5%nat) (I 6%nat) (I 7%nat))
  else if (op =? "raw_scalar_half")%string then map AInt (scalar_half (I 0%nat) (I 1%nat) (I 2%nat) (I 3%nat))
  else if (op =? "raw_ge_set_gej_zinv")%string then map AInt (ge_set_gej_zinv (I 0%nat) (I 1%nat) (I 2%nat) (I 3%nat) (I 4%nat) (I 5%nat) (I 6%nat) (I 7%nat) (I 8%nat) (I 9%nat) (I 10%nat) (I 11%nat) (I 12%nat) (I 13%nat) (I 14%nat) (I 15%nat))
  else if (op =? "raw_ge_set_ge_zinv")%string then map AInt (ge_set_ge_zinv (I 0%nat) (I 1%nat) (I 2%nat) (I 3%nat) (I 4%nat) (I 5%nat) (I 6%nat) (I 7%nat) (I 8%nat) (I 9%nat) (I 10%nat) (I 11%nat) (I 12%nat) (I 13%nat) (I 14%nat) (I 15%nat))
  else if (op =? "raw_gej_rescale")%string then map AInt (gej_rescale (I 0%nat) (I 1%nat) (I 2%nat) (I 3%nat) (I 4%nat) (I 5%nat) (I 6%nat) (I 7%nat) (I 8%nat) (I 9%nat) (I 10%nat) (I 11%nat) (I 12%nat) (I 13%nat) (I 14%nat) (I 15%nat) (I 16%nat) (I 17%nat) (I 18%nat) (I 19%nat))
  else if (op =? "raw_fe10x26_add")%string then map AInt (fe10x26_add (I 0%nat) (I 1%nat) (I 2%nat) (I 3%nat) (I 4%nat) (I 5%nat) (I 6%nat) (I 7%nat) (I 8%nat) (I 9%nat) (I 10%nat) (I 11%nat) (I 12%nat) (I 13%nat) (I 14%nat) (I 15%nat) (I 16%nat) (I 17%nat) (I 18%nat) (I 19%nat))
  else if (op =? "raw_fe10x26_negate")%string then map AInt (fe10x26_negate (I 0%nat) (I 1%nat) (I 2%nat) (I 3%nat) (I 4%nat) (I 5%nat) (I 6%nat) (I 7%nat) (I 8%nat) (I 9%nat) (I 10%nat))
  else if (op =? "raw_fe10x26_mul_int")%string then map AInt (fe10x26_mul_int (I 0%nat) (I 1%nat) (I 2%nat) (I 3%nat) (I 4%nat) (I 5%nat) (I 6%nat) (I 7%nat) (I 8%nat) (I 9%nat) (I 10%nat))
  else if (op =? "raw_fe10x26_half")%string then map AInt (fe10x26_half (I 0%nat) (I 1%nat) (I 2%nat) (I 3%nat) (I 4%nat) (I 5%nat) (I 6%nat) (I 7%nat) (I 8%nat) (I 9%nat))
  else if (op =? "raw_ge_set_gej_zinv32")%string then map AInt (ge_set_gej_zinv32 (I 0%nat) (I 1%nat) (I 2%nat) (I 3%nat) (I 4%nat) (I 5%nat) (I 6%nat) (I 7%nat) (I 8%nat) (I 9%nat) (I 10%nat) (I 11%nat) (I 12%nat) (I 13%nat) (I 14%nat) (I 15%nat) (I 16%nat) (I 17%nat) (I 18%nat) (I 19%nat) (I 20%nat) (I 21%nat) (I 22%nat) (I 23%nat) (I 24%nat) (I 25%nat) (I 26%nat) (I 27%nat) (I 28%nat) (I 29%nat) (I 30%nat))
  else if (op =? "raw_ge_set_ge_zinv32")%string then map AInt (ge_set_ge_zinv32 (I 0%nat) (I 1%nat) (I 2%nat) (I 3%nat) (I 4%nat) (I 5%nat) (I 6%nat) (I 7%nat) (I 8%nat) (I 9%nat) (I 10%nat) (I 11%nat) (I 12%nat) (I 13%nat) (I 14%nat) (I 15%nat) (I 16%nat) (I 17%nat) (I 18%nat) (I 19%nat) (I 20%nat) (I 21%nat) (I 22%nat) (I 23%nat) (I 24%nat) (I 25%nat) (I 26%nat) (I 27%nat) (I 28%nat) (I 29%nat) (I 30%nat))
  else if (op =? "raw_gej_rescale32")%string then map AInt (gej_rescale32 (I 0%nat) (I 1%nat) (I 2%nat) (I 3%nat) (I 4%nat) (I 5%nat) (I 6%nat) (I 7%nat) (I 8%nat) (I 9%nat) (I 10%nat) (I 11%nat) (I 12%nat) (I 13%nat) (I 14%nat) (I 15%nat) (I 16%nat) (I 17%nat) (I 18%nat) (I 19%nat) (I 20%nat) (I 21%nat) (I 22%nat) (I 23%nat) (I 24%nat) (I 25%nat) (I 26%nat) (I 27%nat) (I 28%nat) (I 29%nat) (I 30%nat) (I 31%nat) (I 32%nat) (I 33%nat) (I 34%nat) (I 35%nat) (I 36%nat) (I 37%nat) (I 38%nat) (I 39%nat))
  else if (op =? "raw_gej_double32")%string then map AInt (gej_double32 (I 0%nat) (I 1%nat) (I 2%nat) (I 3%nat) (I 4%nat) (I 5%nat) (I 6%nat) (I 7%nat) (I 8%nat) (I 9%nat) (I 10%nat) (I 11%nat) (I 12%nat) (I 13%nat) (I 14%nat) (I 15%nat) (I 16%nat) (I 17%nat) (I 18%nat) (I 19%nat) (I 20%nat) (I 21%nat) (I 22%nat) (I 23%nat) (I 24%nat) (I 25%nat) (I 26%nat) (I 27%nat) (I 28%nat) (I 29%nat) (I 30%nat))
  else if (op =? "raw_gej_add_ge")%string then map AInt (gej_add_ge (I 0%nat) (I 1%nat) (I 2%nat) (I 3%nat) (I 4%nat) (I 5%nat) (I 6%nat) (I 7%nat) (I 8%nat) (I 9%nat) (I 10%nat) (I 11%nat) (I 12%nat) (I 13%nat) (I 14%nat) (I 15%nat) (I 16%nat) (I 17%nat) (I 18%nat) (I 19%nat) (I 20%nat) (I 21%nat) (I 22%nat) (I 23%nat) (I 24%nat) (I 25%nat))
  else if (op =? "raw_fe10x26_ntz")%string then [AInt (fe10x26_ntz (I 0%nat) (I 1%nat) (I 2%nat) (I 3%nat) (I 4%nat) (I 5%nat) (I 6%nat) (I 7%nat) (I 8%nat) (I 9%nat))]
  else if (op =? "raw_fe10x26_cmov")%string then map AInt (fe10x26_cmov (I 0%nat) (I 1%nat) (I 2%nat) (I 3%nat) (I 4%nat) (I 5%nat) (I 6%nat) (I 7%nat) (I 8%nat) (I 9%nat) (I 10%nat) (I 11%nat) (I 12%nat) (I 13%nat) (I 14%nat) (I 15%nat) (I 16%nat) (I 17%nat) (I 18%nat) (I 19%nat) (I 20%nat))
  else if (op =? "raw_gej_add_ge32")%string then map AInt (gej_add_ge32 (I 0%nat) (I 1%nat) (I 2%nat) (I 3%nat) (I 4%nat) (I 5%nat) (I 6%nat) (I 7%nat) (I 8%nat) (I 9%nat) (I 10%nat) (I 11%nat) (I 12%nat) (I 13%nat) (I 14%nat) (I 15%nat) (I 16%nat) (I 17%nat) (I 18%nat) (I 19%nat) (I 20%nat) (I 21%nat) (I 22%nat) (I 23%nat) (I 24%nat) (I 25%nat) (I 26%nat) (I 27%nat) (I 28%nat) (I 29%nat) (I 30%nat) (I 31%nat) (I 32%nat) (I 33%nat) (I 34%nat) (I 35%nat) (I 36%nat) (I 37%nat) (I 38%nat) (I 39%nat) (I 40%nat) (I 41%nat) (I 42%nat) (I 43%nat) (I 44%nat) (I 45%nat) (I 46%nat) (I 47%nat) (I 48%nat) (I 49%nat) (I 50%nat))
  else if (op =? "raw_gej_double")%string then map AInt (gej_double (I 0%nat) (I 1%nat) (I 2%nat) (I 3%nat) (I 4%nat) (I 5%nat) (I 6%nat) (I 7%nat) (I 8%nat) (I 9%nat) (I 10%nat) (I 11%nat) (I 12%nat) (I 13%nat) (I 14%nat) (I 15%nat))
  else if (op =? "raw_scalar_eq")%string then [AInt (scalar_eq (I 0%nat) (I 1%nat) (I 2%nat) (I 3%nat) (I 4%nat) (I 5%nat) (I 6%nat) (I 7%nat))]
  else if (op =? "raw_fe_impl_get_b32")%string then map AInt (fe_impl_get_b32 (I 0%nat) (I 1%nat) (I 2%nat) (I 3%nat) (I 4%nat))
  else if (op =? "raw_scalar_set_b32")%string then map AInt (scalar_set_b32 (I 0%nat) (I 1%nat) (I 2%nat) (I 3%nat) (I 4%nat) (I 5%nat) (I 6%nat) (I 7%nat) (I 8%nat) (I 9%nat) (I 10%nat) (I 11%nat) (I 12%nat) (I 13%nat) (I 14%nat) (I 15%nat) (I 16%nat) (I 17%nat) (I 18%nat) (I 19%nat) (I 20%nat) (I 21%nat) (I 22%nat) (I 23%nat) (I 24%nat) (I 25%nat) (I 26%nat) (I 27%nat) (I 28%nat) (I 29%nat) (I 30%nat) (I 31%nat))
  else if (op =? "raw_scalar_get_b32")%string then map AInt (scalar_get_b32 (I 0%nat) (I 1%nat) (I 2%nat) (I 3%nat))
  else if (op =? "raw_fe_impl_set_b32_limit")%string then map AInt (fe_impl_set_b32_limit (I 0%nat) (I 1%nat) (I 2%nat) (I 3%nat) (I 4%nat) (I 5%nat) (I 6%nat) (I 7%nat) (I 8%nat) (I 9%nat) (I 10%nat) (I 11%nat) (I 12%nat) (I 13%nat) (I 14%nat) (I 15%nat) (I 16%nat) (I 17%nat) (I 18%nat) (I 19%nat) (I 20%nat) (I 21%nat) (I 22%nat) (I 23%nat) (I 24%nat) (I 25%nat) (I 26%nat) (I 27%nat) (I 28%nat) (I 29%nat) (I 30%nat) (I 31%nat))
  else if (op =? "raw_fe10x26_mul_inner")%string then map AInt (fe10x26_mul_inner (I 0%nat) (I 1%nat) (I 2%nat) (I 3%nat) (I 4%nat) (I 5%nat) (I 6%nat) (I 7%nat) (I 8%nat) (I 9%nat) (I 10%nat) (I 11%nat) (I 12%nat) (I 13%nat) (I 14%nat) (I 15%nat) (I 16%nat) (I 17%nat) (I 18%nat) (I 19%nat))
  else if (op =? "raw_fe10x26_sqr_inner")%string then map AInt (fe10x26_sqr_inner (I 0%nat) (I 1%nat) (I 2%nat) (I 3%nat) (I 4%nat) (I 5%nat) (I 6%nat) (I 7%nat) (I 8%nat) (I 9%nat))
  else bad_case.
