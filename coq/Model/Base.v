(* Common vocabulary of the executable API model: wire values, scalar/field byte codecs, canonical
   forms of the opaque objects.  No proofs in Model/ files. *)
From Coq Require Import ZArith List Bool.
Require Import Spec.Params Spec.Field Spec.Curve Spec.Bytes Spec.Sha256.
Import ListNotations.
Local Open Scope Z_scope.

(* one field of a case line / result line *)
Inductive arg :=
| ANone                 (* NULL pointer / absent *)
| AInt (z : Z)
| ABytes (b : bytes)
| AIll (k : Z).         (* result only: illegal-argument callback fired k times *)

Definition get_bytes (a : arg) : bytes := match a with ABytes b => b | _ => [] end.
Definition get_int (a : arg) : Z := match a with AInt z => z | _ => 0 end.
Definition is_none (a : arg) : bool := match a with ANone => true | _ => false end.
Definition nth_arg (n : nat) (l : list arg) : arg := nth n l ANone.
Definition opt_bytes (a : arg) : option bytes := match a with ABytes b => Some b | _ => None end.

Definition abstain : list arg := [AInt (-99)].     (* model ran out of fuel: no verdict *)
Definition bad_case : list arg := [AInt (-98)].    (* malformed case line *)

Section Base.
Variable P : Params.
Let p := cp P.
Let n := cn P.

(* secp256k1_scalar_set_b32: value mod n and overflow flag *)
Definition sc_of_b32 (b : bytes) : Z * bool := let v := be_val b in (v mod n, n <=? v).
Definition sc_to_b32 (s : Z) : bytes := be_enc 32 s.
(* secp256k1_scalar_set_b32_seckey: Some s iff 0 < value < n *)
Definition seckey_of_b32 (b : bytes) : option Z :=
  let v := be_val b in if (0 <? v) && (v <? n) then Some v else None.
Definition sc_is_high (s : Z) : bool := n / 2 <? s.
Definition sc_neg (s : Z) : Z := mneg n s.
Definition sc_add (a b : Z) : Z := madd n a b.
Definition sc_mul (a b : Z) : Z := mmul n a b.
Definition sc_inv (a : Z) : Z := minv n a.

(* secp256k1_fe_set_b32_limit: Some v iff v < p *)
Definition fe_of_b32 (b : bytes) : option Z := let v := be_val b in if v <? p then Some v else None.
Definition fe_to_b32 (x : Z) : bytes := be_enc 32 x.

(* canonical form of secp256k1_pubkey / xonly_pubkey objects: x||y big endian (64 bytes);
   the all-zero object is 64 zero bytes *)
Definition pk_obj (Q : point) : bytes :=
  match Q with Some (x, y) => fe_to_b32 x ++ fe_to_b32 y | None => zeros 64 end.
Definition pk_obj_zero : bytes := zeros 64.
(* secp256k1_pubkey_load: None = ARG_CHECK(!fe_is_zero(x)) fails -> illegal callback *)
Definition pk_load (o : bytes) : option point :=
  let x := be_val (firstn 32 o) in let y := be_val (skipn 32 o) in
  if x =? 0 then None else Some (Some (x, y)).

(* ge_set_xo_var *)
Definition ge_set_xo (x : Z) (odd : bool) : point := lift_x P x odd.

(* compressed / uncompressed serialisation of a non-infinite point *)
Definition ser33 (Q : point) : bytes :=
  match Q with Some (x, y) => (if Z.odd y then 3 else 2) :: fe_to_b32 x | None => zeros 33 end.
Definition ser65 (Q : point) : bytes :=
  match Q with Some (x, y) => 4 :: fe_to_b32 x ++ fe_to_b32 y | None => zeros 65 end.

(* secp256k1_eckey_pubkey_parse *)
Definition eckey_pubkey_parse (b : bytes) : option point :=
  match b with
  | [] => None
  | tag :: rest =>
    if (Nat.eqb (length b) 33) && ((tag =? 2) || (tag =? 3)) then
      match fe_of_b32 rest with
      | None => None
      | Some x => match ge_set_xo x (tag =? 3) with None => None | Q => Some Q end
      end
    else if (Nat.eqb (length b) 65) && ((tag =? 4) || (tag =? 6) || (tag =? 7)) then
      match fe_of_b32 (firstn 32 rest), fe_of_b32 (skipn 32 rest) with
      | Some x, Some y =>
        if ((tag =? 6) || (tag =? 7)) && negb (Bool.eqb (Z.odd y) (tag =? 7)) then None
        else if on_curve P (Some (x, y)) then Some (Some (x, y)) else None
      | _, _ => None
      end
    else None
  end.

(* ge_parse_ext / ge_serialize_ext (33 zero bytes = infinity) *)
Definition ge_parse_ext (b : bytes) : option point :=
  if is_zero_bytes b then Some None else eckey_pubkey_parse b.
Definition ge_serialize_ext (Q : point) : bytes := ser33 Q.

Definition with_ill (k : Z) (l : list arg) : list arg := if 0 <? k then l ++ [AIll k] else l.
Definition b2z (b : bool) : Z := if b then 1 else 0.
End Base.
