(* Dispatcher for the bppp group (property C19): op name + wire arguments -> wire results.
   C side: harness/ops_bppp.h. *)
From Coq Require Import ZArith List Bool String.
Require Import Spec.Params Spec.Field Spec.Curve Spec.Bytes Spec.Sha256.
Require Import Model.Base Model.Bppp.
Import ListNotations.
Local Open Scope Z_scope.
Local Open Scope string_scope.

Section Api.
Variable P : Params.
Definition dispatch_bppp (op : string) (a : list arg) : list arg :=
  let B i := get_bytes (nth_arg (Z.to_nat i) a) in
  let I i := get_int (nth_arg (Z.to_nat i) a) in
  if op =? "bppp_gens_create" then op_gens_create P (I 0)
  else if op =? "bppp_gens_parse" then op_gens_parse P (nth_arg 0 a)
  else if op =? "bppp_gens_serialize" then op_gens_serialize P (B 0) (I 1)
  else if op =? "bppp_points_serialize" then op_points_serialize P (B 0) (B 1)
  else if op =? "bppp_points_parse" then op_points_parse P (B 0) (I 1)
  else if op =? "bppp_log2" then op_log2 (I 0)
  else if op =? "bppp_challenge" then op_challenge P (B 0) (I 1)
  else if op =? "bppp_commit" then op_commit P (B 0) (B 1) (B 2) (B 3) (B 4)
  else if op =? "bppp_prove" then op_prove P (B 0) (B 1) (B 2) (B 3) (B 4) (B 5)
  else if op =? "bppp_verify" then op_verify P (B 0) (B 1) (B 2) (I 3) (B 4) (B 5) (B 6) (I 7)
  else bad_case.
End Api.
