(* Dispatcher for the arithmetic / hashing kernel (C05): every internal C function is compared with
   its mathematical definition (Spec/Field.v, Spec/Curve.v, Spec/Sha256.v). *)
From Coq Require Import ZArith List Bool String Ascii.
Require Import Spec.Params Spec.Field Spec.Curve Spec.Bytes Spec.Sha256 Model.Base Model.Sha256Stream.
Import ListNotations.
Local Open Scope Z_scope.

Fixpoint str_bytes (s : string) : bytes :=
  match s with EmptyString => [] | String c r => Z.of_N (N_of_ascii c) :: str_bytes r end.
Definition is_name (b : bytes) (s : string) : bool := bytes_eqb b (str_bytes s).

(* secp256k1_rfc6979_hmac_sha256_generate for an arbitrary output length *)
Fixpoint drbg_blocks (fuel : nat) (k v : bytes) (outlen : Z) : bytes * bytes :=
  match fuel with O => ([], v) | S f =>
    if outlen <=? 0 then ([], v) else
    let v' := hmac_sha256 k v in
    let '(rest, vf) := drbg_blocks f k v' (outlen - 32) in
    (firstn (Z.to_nat (Z.min 32 outlen)) v' ++ rest, vf) end.
Definition drbg_gen (d : drbg) (outlen : Z) : bytes * drbg :=
  let '(v, k, retry) := d in
  let '(v, k) := if retry then let k' := hmac_sha256 k (v ++ [0]) in (hmac_sha256 k' v, k') else (v, k) in
  let '(out, v') := drbg_blocks (Z.to_nat (outlen / 32 + 2)) k v outlen in
  (out, (v', k, true)).
Fixpoint drbg_multi (d : drbg) (lens : list Z) : list arg :=
  match lens with [] => [] | l :: r => let '(o, d') := drbg_gen d l in ABytes o :: drbg_multi d' r end.

(* the writes performed by the sha256_chunks op: data is cut at the given (sorted, in-range) positions;
   cuts that go backwards or beyond the data are skipped, as in the C op *)
Fixpoint cut_chunks (pos : nat) (cuts : list Z) (data : bytes) : list bytes :=
  match cuts with
  | [] => [skipn pos data]
  | c :: r => let c' := Z.to_nat c in
              if (c <? 0) || (c' <? pos)%nat || (List.length data <? c')%nat then cut_chunks pos r data
              else firstn (c' - pos) (skipn pos data) :: cut_chunks c' r data
  end.

Section Kernel.
Variable P : Params.
Notation p := (cp P).
Notation n := (cn P).

Definition feb (x : Z) : arg := ABytes (be_enc 32 (x mod p)).
Definition scb (x : Z) : arg := ABytes (be_enc 32 (x mod n)).
Definition ptb (Q : point) : arg := ABytes (pk_obj Q).
Definition wire_pt (b : bytes) : point :=
  if is_zero_bytes b then None else Some (be_val (firstn 32 b) mod p, be_val (skipn 32 b) mod p).
Definition cmp3 (a b : Z) : Z := if a <? b then -1 else if b <? a then 1 else 0.

Definition fe_op (name : bytes) (a32 b32 : bytes) (k : Z) : list arg :=
  let a := be_val a32 mod p in let b := be_val b32 mod p in
  let N := is_name name in
  if N "mul"%string || N "mul_alias"%string then [feb (a * b)]
  else if N "sqr"%string then [feb (a * a)]
  else if N "add"%string then [feb (a + b)]
  else if N "add_int"%string then [feb (a + k)]
  else if N "negate"%string then [feb (- a)]
  else if N "mul_int"%string then [feb (a * k)]
  else if N "half"%string then [feb (a * minv p 2)]
  else if N "normalize"%string || N "normalize_var"%string || N "normalize_weak"%string || N "storage"%string then [feb a]
  else if N "ntz"%string then [AInt (b2z (a =? 0)); AInt (b2z (a =? 0))]
  else if N "inv"%string then [feb (minv p a); feb (minv p a)]
  else if N "sqrt"%string then
    (match msqrt p a with Some _ => [AInt 1; feb a; AInt 1] | None => [AInt 0; AInt 0] end)
  else if N "cmp"%string then [AInt (cmp3 a b); AInt (b2z (a =? b))]
  else if N "equal"%string then [AInt (b2z (a =? b))]
  else if N "is_odd_zero"%string then [AInt (b2z (Z.odd a)); AInt (b2z (a =? 0))]
  else if N "set_b32"%string then [AInt (b2z (be_val a32 <? p)); feb a]
  else if N "cmov"%string then [feb (if k =? 0 then a else b)]
  else bad_case.

Definition lambda : Z := 0x5363AD4CC05C30E0A5261C028812645A122E22EA20816678DF02967C1B23BD72.
Definition minus_b1 : Z := 0xE4437ED6010E88286F547FA90ABFE4C3.
Definition minus_b2 : Z := 0xFFFFFFFFFFFFFFFFFFFFFFFFFFFFFFFE8A280AC50774346DD765CDA83DB1562C.
Definition g1 : Z := 0x3086D221A7D46BCDE86C90E49284EB153DAA8A1471E8CA7FE893209A45DBB031.
Definition g2 : Z := 0xE4437ED6010E88286F547FA90ABFE4C4221208AC9DF506C61571B4AE8AC47F71.
Definition beta : Z := 0x7ae96a2b657c07106e64479eac3434e99cf0497512f58995c1396c28719501ee.
Definition mul_shift (a b shift : Z) : Z := (a * b + 2 ^ (shift - 1)) / 2 ^ shift.

Definition sc_op (name : bytes) (a32 b32 : bytes) (k : Z) : list arg :=
  let a := be_val a32 mod n in let b := be_val b32 mod n in
  let N := is_name name in
  if N "set_b32"%string then [scb a; AInt (b2z (n <=? be_val a32)); AInt (b2z ((0 <? be_val a32) && (be_val a32 <? n)))]
  else if N "add"%string then [scb (a + b); AInt (b2z (n <=? a + b))]
  else if N "mul"%string then [scb (a * b)]
  else if N "sqr"%string then [scb (a * a)]
  else if N "negate"%string then [scb (- a)]
  else if N "half"%string then [scb (a * minv n 2)]
  else if N "inverse"%string then [scb (minv n a); scb (minv n a)]
  else if N "is"%string then [AInt (b2z (a =? 0)); AInt (b2z (a =? 1)); AInt (b2z (Z.even a)); AInt (b2z (n / 2 <? a)); AInt (b2z (a =? b))]
  else if N "cond_negate"%string then [scb (if k =? 0 then a else - a); AInt (if k =? 0 then 1 else -1)]
  else if N "cadd_bit"%string then [scb (a + (if Z.shiftr k 8 =? 0 then 0 else 2 ^ (Z.land k 255)))]
  else if N "cmov"%string then [scb (if k =? 0 then a else b)]
  else if N "split_128"%string then [scb (a mod 2 ^ 128); scb (a / 2 ^ 128)]
  else if N "split_lambda"%string then
    let c1 := mul_shift a g1 384 in let c2 := mul_shift a g2 384 in
    let r2 := (c1 * minus_b1 + c2 * minus_b2) mod n in
    let r1 := (a - r2 * lambda) mod n in [scb r1; scb r2]
  else if N "mul_shift"%string then [scb (mul_shift a b k)]
  else if N "get_bits"%string then
    let off := Z.land k 255 in let cnt := Z.shiftr k 8 in
    let v := (a / 2 ^ off) mod 2 ^ cnt in
    if ((off + cnt - 1) / 32) =? (off / 32) then [AInt v; AInt v] else [AInt v]
  else if N "set_int"%string then [scb (k mod 2 ^ 32); scb (k mod 2 ^ 64)]
  else bad_case.

Definition ge_op (name : bytes) (P64 Q64 : bytes) (k : Z) : list arg :=
  let A := wire_pt P64 in let B := wire_pt Q64 in
  let N := is_name name in
  if N "add_var"%string || N "add_ge_var"%string then [ptb (padd P A B); ptb (padd P A B)]
  else if N "add_ge"%string || N "add_zinv_var"%string then [ptb (padd P A B)]
  else if N "double"%string then [ptb (pdbl P A); ptb (pdbl P A); ptb (pdbl P A)]
  else if N "neg"%string then [ptb (pneg P A); ptb (pneg P A)]
  else if N "set_gej"%string then [ptb A; ptb A]
  else if N "eq"%string then
    [AInt (b2z (point_eqb A B)); AInt (b2z (point_eqb A B)); AInt (b2z (point_eqb A B))] ++
    (match A with None => [] | Some (x, _) => [AInt (b2z (x =? be_val (firstn 32 Q64) mod p))] end)
  else if N "valid"%string then [AInt (b2z (negb (is_inf A) && on_curve P A)); AInt (b2z (is_inf A))]
  else if N "mul_lambda"%string then [ptb (match A with Some (x, y) => Some ((beta * x) mod p, y) | None => None end)]
  else if N "cmov"%string then [ptb (if k =? 0 then A else B)]
  else if N "storage"%string then [ptb A]
  else if N "set_xo"%string then
    let x := be_val (firstn 32 P64) mod p in
    (match lift_x P x (negb (k =? 0)) with
     | Some Q => [AInt 1; ptb (Some Q); AInt 1]
     | None => [AInt 0; AInt 0] end)
  else bad_case.

Definition sc_arg (a : arg) : Z := match a with ABytes b => be_val b mod n | _ => 0 end.

Fixpoint multi_sum (pts : list bytes) (scs : list bytes) : point :=
  match pts, scs with
  | pb :: pr, sb :: sr => padd P (pmul P (be_val sb mod n) (wire_pt pb)) (multi_sum pr sr)
  | _, _ => None end.

Fixpoint chunks (fuel : nat) (k : nat) (b : bytes) : list bytes :=
  match fuel with O => [] | S f =>
    match b with [] => [] | _ => firstn k b :: chunks f k (skipn k b) end end.
Definition chunk_list (k : nat) (b : bytes) : list bytes := chunks (S (List.length b)) k b.

Definition dispatch_kernel (op : string) (a : list arg) : list arg :=
  let B i := get_bytes (nth_arg (Z.to_nat i) a) in
  let I i := get_int (nth_arg (Z.to_nat i) a) in
  if (op =? "fe_op")%string then fe_op (B 0) (B 1) (B 2) (I 5)
  else if (op =? "sc_op")%string then sc_op (B 0) (B 1) (B 2) (I 3)
  else if (op =? "ge_op")%string then ge_op (B 0) (B 1) (B 2) (I 5)
  else if (op =? "ge_set_all")%string then map (fun b => ptb (wire_pt b)) (chunk_list 64 (B 0))
  else if (op =? "ecmult")%string then
    [ptb (padd P (pmul P (sc_arg (nth_arg 1 a)) (wire_pt (B 0))) (pmul P (sc_arg (nth_arg 2 a)) (G P)))]
  else if (op =? "ecmult_gen")%string then [ptb (pmul P (sc_arg (nth_arg 0 a)) (G P))]
  else if (op =? "ecmult_const")%string then [ptb (pmul P (sc_arg (nth_arg 1 a)) (wire_pt (B 0)))]
  else if (op =? "ecmult_const_xonly")%string then
    let xn := be_val (B 0) mod p in
    let xd := match nth_arg 1 a with ABytes d => be_val d mod p | _ => 1 end in
    let x := mmul p xn (minv p xd) in
    (match lift_x P x false with
     | None => [AInt 0]
     | Some Q => [AInt 1; feb (px (pmul P (sc_arg (nth_arg 2 a)) (Some Q)))] end)
  else if (op =? "ecmult_multi")%string then
    [AInt 1; ptb (padd P (multi_sum (chunk_list 64 (B 3)) (chunk_list 32 (B 4))) (pmul P (sc_arg (nth_arg 2 a)) (G P)))]
  else if (op =? "wnaf")%string then [AInt 1; scb (be_val (B 0))]
  else if (op =? "sha256_chunks")%string then [ABytes (sha256_stream (cut_chunks 0 (map get_int (tl a)) (B 0)))]
  else if (op =? "hmac_chunks")%string then [ABytes (hmac_sha256 (B 0) (B 1))]
  else if (op =? "rfc6979_multi")%string then drbg_multi (drbg_init (B 0)) (map get_int (tl a))
  else if (op =? "sha256_midstate")%string then
    [ABytes (sha_out (tagged_midstate (B 0))); AInt 64; ABytes (tagged_hash (B 0) (B 1))]
  else bad_case.
End Kernel.
