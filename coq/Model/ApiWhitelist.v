(* Dispatcher for the whitelist module (property C16): op name + wire arguments -> wire results.
   A signature object travels as two fields  #n_keys  data  (data zero-extended to the C array);
   key lists as concatenated pk objects (x32||y32 each). *)
From Coq Require Import ZArith List Bool String.
Require Import Spec.Params Spec.Field Spec.Curve Spec.Bytes Spec.Sha256.
Require Import Model.Base Model.Borromean Model.Whitelist.
Import ListNotations.
Local Open Scope Z_scope.
Local Open Scope string_scope.

Fixpoint wl_chunks_of (fuel : nat) (k : nat) (b : bytes) : list bytes :=
  match fuel with O => [] | S f =>
    match b with [] => [] | _ => firstn k b :: wl_chunks_of f k (skipn k b) end end.
Definition wl_chunk_list (k : nat) (b : bytes) : list bytes := wl_chunks_of (S (List.length b)) k b.

Section Api.
Variable P : Params.
Definition dispatch_whitelist (op : string) (a : list arg) : list arg :=
  let B i := get_bytes (nth_arg (Z.to_nat i) a) in
  let I i := get_int (nth_arg (Z.to_nat i) a) in
  let SG i := mkWsig (I i) (wl_pad_to WL_DATA_LEN (B (i + 1))) in
  let KL i := wl_chunk_list 64 (B i) in
  if op =? "whitelist_signature_parse" then whitelist_signature_parse (B 0)
  else if op =? "whitelist_signature_serialize" then
    if ((0 <=? I 1) && (I 1 <=? 255))%Z then whitelist_signature_serialize (I 0) (SG 1) else bad_case
  else if op =? "whitelist_signature_n_keys" then whitelist_signature_n_keys (SG 0)
  else if op =? "whitelist_verify" then api_verify P true (SG 0) (KL 2) (KL 3) (I 4) (B 5)
  else if op =? "whitelist_verify_as_coded" then api_verify P false (SG 0) (KL 2) (KL 3) (I 4) (B 5)
  else if op =? "whitelist_parse_verify" then whitelist_parse_verify P true (B 0) (KL 1) (KL 2) (I 3) (B 4)
  else if op =? "whitelist_parse_verify_as_coded" then whitelist_parse_verify P false (B 0) (KL 1) (KL 2) (I 3) (B 4)
  else if op =? "whitelist_sign" then whitelist_sign P (KL 0) (KL 1) (I 2) (B 3) (B 4) (B 5) (I 6)
  else bad_case.
End Api.
