(* Model of src/modules/generator/{main_impl.h,pedersen_impl.h}: generators, Pedersen commitments.

   Canonical wire form of the opaque objects
   * secp256k1_generator: its 64 data bytes x32||y32 (that IS the C representation);
   * secp256k1_pedersen_commitment: x32||y32 of the point it holds (the C object stores
     data[0] = 9 ^ is_square(y), data[1..32] = x; harness/ops_pedersen.h converts with
     ge_set_xy + commitment_save one way and commitment_load the other way).  [commit_load] below
     mirrors that conversion, so that for an on-curve (x,y) it is the identity. *)
From Coq Require Import ZArith List Bool.
Require Import Spec.Params Spec.Field Spec.Curve Spec.Bytes Spec.Sha256 Model.Base.
Import ListNotations.
Local Open Scope Z_scope.

(* constants of shallue_van_de_woestijne (main_impl.h:140-141): -sqrt(-3) and (sqrt(-3)-1)/2 mod p *)
Definition svdw_negc : Z := 0xf5d2d456caf80e20dcc88f3d586869d339e092ea25eb132b8272d850e32a03dd.
Definition svdw_d : Z := 0x851695d49a83f8ef919bb86153cbcb16630fb68aed0a766a3ec693d68e6afa40.

(* secp256k1_generator_h_internal *)
Definition generator_h_bytes : bytes :=
  [0x50; 0x92; 0x9b; 0x74; 0xc1; 0xa0; 0x49; 0x54; 0xb7; 0x8b; 0x4b; 0x60; 0x35; 0xe9; 0x7a; 0x5e;
   0x07; 0x8a; 0x5a; 0x0f; 0x28; 0xec; 0x96; 0xd5; 0x47; 0xbf; 0xee; 0x9a; 0xce; 0x80; 0x3a; 0xc0;
   0x31; 0xd3; 0xc6; 0x86; 0x39; 0x73; 0x92; 0x6e; 0x04; 0x9e; 0x63; 0x7c; 0xb1; 0xb5; 0xf4; 0x0a;
   0x36; 0xda; 0xc2; 0x8a; 0xf1; 0x76; 0x69; 0x68; 0xc3; 0x0c; 0x23; 0x13; 0xf3; 0xa3; 0x89; 0x04].

Definition prefix_1st : bytes := [49;115;116;32;103;101;110;101;114;97;116;105;111;110;58;32].  (* "1st generation: " *)
Definition prefix_2nd : bytes := [50;110;100;32;103;101;110;101;114;97;116;105;111;110;58;32].  (* "2nd generation: " *)

Section Pedersen.
Variable P : Params.
Let p := cp P.
Let n := cn P.
Notation G := (Curve.G P).
Notation pmul := (Curve.pmul P).
Notation padd := (Curve.padd P).
Notation pneg := (Curve.pneg P).

(* secp256k1_fe_sqrt: always writes the candidate a^((p+1)/4); returns whether it is a root *)
Definition fe_sqrt (a : Z) : Z * bool :=
  let r := mpow p a ((p + 1) / 4) in (r, (r * r) mod p =? a mod p).
(* secp256k1_fe_is_square_var *)
Definition fe_is_square (a : Z) : bool := snd (fe_sqrt a).
Definition curve_rhs (x : Z) : Z := (x * x * x + cb P) mod p.

(* secp256k1_ge_set_xquad: y = the candidate root of x^3+b (itself a square when a root) *)
Definition ge_set_xquad (x : Z) : (Z * Z) * bool :=
  let '(y, ok) := fe_sqrt (curve_rhs x) in ((x, y), ok).
(* secp256k1_ge_x_on_curve_var *)
Definition x_on_curve (x : Z) : bool := fe_is_square (curve_rhs x).

(* ---------------------------------------------------------------- objects *)
(* secp256k1_generator_load (coordinates are expected < p; VERIFY_CHECKed in C) *)
Definition gen_load (o : bytes) : point := Some (be_val (firstn 32 o), be_val (firstn 32 (skipn 32 o))).

(* the point held by the commitment object made from canonical x||y:
   commitment_save (data[0] = 9 ^ is_square(y)) followed by commitment_load *)
Definition commit_flag_of_y (y : Z) : bool := negb (fe_is_square y).        (* data[0] & 1 *)
Definition commit_point (x : Z) (flag : bool) : point :=
  let '((x', y), _) := ge_set_xquad x in Some (x', if flag then mneg p y else y).
Definition commit_load (o : bytes) : point :=
  commit_point (be_val (firstn 32 o) mod p) (commit_flag_of_y (be_val (firstn 32 (skipn 32 o)))).

(* secp256k1_rangeproof_serialize_point / the 33-byte forms: [flag + base; x] *)
Definition ser_quad (base : Z) (Q : point) : bytes :=
  match Q with
  | Some (x, y) => (base + (if fe_is_square y then 0 else 1)) :: fe_to_b32 x
  | None => base :: zeros 32
  end.

(* ---------------------------------------------------------------- generator parse / serialize *)
Definition generator_parse (input : bytes) : list arg :=
  let b0 := nth 0 input 0 in
  if negb (Z.land b0 0xFE =? 10) then [AInt 0] else
  match fe_of_b32 P (firstn 32 (skipn 1 input)) with
  | None => [AInt 0]
  | Some x =>
    let '((_, y), ok) := ge_set_xquad x in
    if negb ok then [AInt 0] else
    let y' := if Z.odd b0 then mneg p y else y in
    [AInt 1; ABytes (pk_obj (Some (x, y')))]
  end.

(* output[0] = 11 ^ is_square(y) *)
Definition generator_serialize (gen : bytes) : list arg :=
  [AInt 1; ABytes (ser_quad 10 (gen_load gen))].

(* ---------------------------------------------------------------- generator generation *)
Definition shallue_van_de_woestijne (t : Z) : point :=
  let b := cb P in
  let t2 := mmul p t t in
  let x1a := mmul p svdw_negc t2 in
  let x3d := mneg p (mmul p 3 t2) in
  let wd := madd p t2 (b + 1) in
  let jinv := minv p (mmul p wd x3d) in
  let x1 := madd p (mmul p (mmul p x1a x3d) jinv) svdw_d in
  let x2 := mneg p (madd p x1 1) in
  let x3 := madd p (mmul p (mmul p (mmul p wd wd) wd) jinv) 1 in
  let '(y1, alphaquad) := fe_sqrt (curve_rhs x1) in
  let '(y2, betaquad) := fe_sqrt (curve_rhs x2) in
  let '(y3, _) := fe_sqrt (curve_rhs x3) in
  let '(x, y) := if alphaquad then (x1, y1) else if betaquad then (x2, y2) else (x3, y3) in
  Some (x, if Z.odd t then mneg p y else y).

(* secp256k1_generator_generate_internal: (ret, point saved into gen) *)
Definition generator_generate_internal (key32 : bytes) (blind32 : option bytes) : bool * point :=
  let '(accum0, ret0) :=
    match blind32 with
    | Some b => let '(bl, ov) := sc_of_b32 P b in (pmul bl G, negb ov)
    | None => (None, true)
    end in
  let h1 := sha256 (prefix_1st ++ key32) in
  let ok1 := match fe_of_b32 P h1 with Some _ => true | None => false end in
  let add1 := shallue_van_de_woestijne (be_val h1 mod p) in
  let accum1 := padd accum0 add1 in
  let h2 := sha256 (prefix_2nd ++ key32) in
  let ok2 := match fe_of_b32 P h2 with Some _ => true | None => false end in
  let add2 := shallue_van_de_woestijne (be_val h2 mod p) in
  (ret0 && ok1 && ok2, padd accum1 add2).

(* the generator object is only reported when the call succeeded (the header specifies nothing
   about *gen on failure) *)
Definition generator_generate (key32 : bytes) : list arg :=
  let '(ret, Q) := generator_generate_internal key32 None in
  if ret then [AInt 1; ABytes (pk_obj Q)] else [AInt 0].
Definition generator_generate_blinded (key32 blind32 : bytes) : list arg :=
  let '(ret, Q) := generator_generate_internal key32 (Some blind32) in
  if ret then [AInt 1; ABytes (pk_obj Q)] else [AInt 0].

(* ---------------------------------------------------------------- commitments *)
Definition pedersen_commitment_parse (input : bytes) : list arg :=
  let b0 := nth 0 input 0 in
  if negb (Z.land b0 0xFE =? 8) then [AInt 0] else
  match fe_of_b32 P (firstn 32 (skipn 1 input)) with
  | None => [AInt 0]
  | Some x =>
    if negb (x_on_curve x) then [AInt 0] else
    [AInt 1; ABytes (pk_obj (commit_point x (Z.odd b0)))]
  end.

Definition pedersen_commitment_serialize (obj : bytes) : list arg :=
  [AInt 1; ABytes (ser_quad 8 (commit_load obj))].

(* secp256k1_pedersen_ecmult: sec*G + value*genp *)
Definition pedersen_ecmult (sec value : Z) (genp : point) : point :=
  padd (pmul sec G) (pmul value genp).

(* Some point iff the C function returns 1 *)
Definition pedersen_commit_pt (blind : bytes) (value : Z) (gen : bytes) : option point :=
  let '(sec, ov) := sc_of_b32 P blind in
  if ov then None else
  match pedersen_ecmult sec value (gen_load gen) with
  | None => None
  | R => Some R
  end.

Definition pedersen_commit (blind : bytes) (value : Z) (gen : bytes) : list arg :=
  match pedersen_commit_pt blind value gen with
  | Some R => [AInt 1; ABytes (pk_obj R)]
  | None => [AInt 0]
  end.

(* secp256k1_pedersen_blind_sum core loop: None = some blind overflowed *)
Fixpoint blind_sum_loop (i npositive : nat) (acc : Z) (blinds : list bytes) : option Z :=
  match blinds with
  | [] => Some acc
  | b :: rest =>
    let '(x, ov) := sc_of_b32 P b in
    if ov then None else
    let x' := if Nat.leb npositive i then sc_neg P x else x in
    blind_sum_loop (S i) npositive (sc_add P acc x') rest
  end.

Definition pedersen_blind_sum (blinds : list bytes) (npositive : Z) : list arg :=
  if Z.of_nat (length blinds) <? npositive then [AInt 0; AIll 1] else
  match blind_sum_loop 0 (Z.to_nat npositive) 0 blinds with
  | None => [AInt 0]
  | Some acc => [AInt 1; ABytes (sc_to_b32 acc)]
  end.

Definition pedersen_verify_tally (pos neg : list bytes) : list arg :=
  let accn := fold_left padd (map commit_load neg) None in
  let acc := fold_left padd (map commit_load pos) (pneg accn) in
  [AInt (b2z (is_inf acc))].

(* secp256k1_pedersen_blind_generator_blind_sum loop: (sum, last tmp); None = overflow *)
Fixpoint bgbs_loop (i n_inputs : nat) (sum tmp : Z) (l : list (Z * bytes * bytes)) : option (Z * Z) :=
  match l with
  | [] => Some (sum, tmp)
  | (v, gb, bf) :: rest =>
    let '(r, ov1) := sc_of_b32 P gb in
    if ov1 then None else
    let '(r', ov2) := sc_of_b32 P bf in
    if ov2 then None else
    let addend := sc_add P (sc_mul P (v mod n) r) r' in
    let addend' := if Nat.ltb i n_inputs then sc_neg P addend else addend in
    bgbs_loop (S i) n_inputs (sc_add P sum addend') r' rest
  end.

(* values, generator blinds, blinding factors all of length n_total.  Result: ret and the new
   value of blinding_factor[n_total-1] *)
Definition pedersen_blind_generator_blind_sum (values : list Z) (gblinds blinds : list bytes)
                                              (n_total n_inputs : Z) : list arg :=
  if n_total <=? n_inputs then [AInt 0; AIll 1] else
  match bgbs_loop 0 (Z.to_nat n_inputs) 0 0 (combine (combine values gblinds) blinds) with
  | None => [AInt 0]
  | Some (sum, tmp) => [AInt 1; ABytes (sc_to_b32 (sc_add P tmp (sc_neg P sum)))]
  end.
End Pedersen.
