(* Dispatcher of the half-aggregation group (property C17).  Wire arguments:
     schnorrsig_inc_aggregate  aggsig|-  #len|-  pks|-  msgs|-  sigs|-  #n_before #n_new
     schnorrsig_aggregate      aggsig|-  #len|-  pks|-  msgs|-  sigs|-  #n
     schnorrsig_aggverify      pks|-  msgs|-  #n  aggsig|-            (aggsig_len = length of aggsig)
   pks = concatenated canonical key objects (64 bytes each), msgs = concatenated 32-byte messages,
   sigs = concatenated 64-byte signatures.  aggsig is the whole caller buffer; #len (the value of
   *aggsig_len) must not exceed its size, and when the call gets past its length check the arrays
   must hold n entries: otherwise the C side would read out of bounds, the case is malformed (#-98). *)
From Coq Require Import ZArith List Bool String.
Require Import Spec.Params Spec.Field Spec.Curve Spec.Bytes Spec.Sha256.
Require Import Model.Base Model.Halfagg.
Import ListNotations.
Local Open Scope Z_scope.

Fixpoint chunks_h (fuel : nat) (k : nat) (b : bytes) : list bytes :=
  match fuel with O => [] | S f =>
    match b with [] => [] | _ => firstn k b :: chunks_h f k (skipn k b) end end.
Definition chunk_list_h (k : nat) (b : bytes) : list bytes := chunks_h (S (List.length b)) k b.

Section Api.
Variable P : Params.

Definition opt_chunks (k : nat) (a : arg) : option (list bytes) :=
  match a with ABytes b => Some (chunk_list_h k b) | _ => None end.
Definition blen (a : arg) : Z := Z.of_nat (List.length (get_bytes a)).

Definition inc_wire (aggsig alen pks msgs sigs : arg) (nb nn : Z) : list arg :=
  let n := (nb + nn) mod size_max in
  let len := get_int alen in
  let reads := negb (is_none aggsig) && negb (is_none alen) && (nb <=? n)
               && negb ((len / 32 <=? 0) || (len / 32 - 1 <? n)) in
  if (nb <? 0) || (nn <? 0) || (size_max <=? nb) || (size_max <=? nn) || (len <? 0) then bad_case
  else if negb (is_none aggsig) && negb (is_none alen) && (blen aggsig <? len) then bad_case
  else if reads && ((negb (is_none pks) && (blen pks <? 64 * n)) || (negb (is_none msgs) && (blen msgs <? 32 * n))
                    || (negb (is_none sigs) && (blen sigs <? 64 * nn))) then bad_case
  else halfagg_inc P (opt_bytes aggsig) (match alen with AInt z => Some z | _ => None end)
                   (opt_chunks 64 pks) (opt_chunks 32 msgs) (opt_chunks 64 sigs) nb nn.

Definition dispatch_halfagg (op : string) (a : list arg) : list arg :=
  let A i := nth_arg i a in
  if String.eqb op "schnorrsig_inc_aggregate"%string then
    inc_wire (A 0%nat) (A 1%nat) (A 2%nat) (A 3%nat) (A 4%nat) (get_int (A 5%nat)) (get_int (A 6%nat))
  else if String.eqb op "schnorrsig_aggregate"%string then
    inc_wire (A 0%nat) (A 1%nat) (A 2%nat) (A 3%nat) (A 4%nat) 0 (get_int (A 5%nat))
  else if String.eqb op "schnorrsig_aggverify"%string then
    let n := get_int (A 2%nat) in
    let len := blen (A 3%nat) in
    let reads := negb (is_none (A 3%nat)) && negb ((len / 32 <=? 0) || negb (len / 32 - 1 =? n) || negb (len mod 32 =? 0)) in
    if (n <? 0) || (size_max <=? n) then bad_case
    else if reads && ((negb (is_none (A 0%nat)) && (blen (A 0%nat) <? 64 * n))
                      || (negb (is_none (A 1%nat)) && (blen (A 1%nat) <? 32 * n))) then bad_case
    else halfagg_aggverify P (opt_chunks 64 (A 0%nat)) (opt_chunks 32 (A 1%nat)) n (opt_bytes (A 3%nat)) len
  else bad_case.
End Api.
