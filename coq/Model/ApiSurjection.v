(* Dispatcher for the surjection-proof module (property C11): op name + wire arguments -> wire results.
   A proof object travels as three fields  #n_inputs  bitmap  data  (bitmap / data shorter than the C
   arrays are zero-extended); fixed asset tags as concatenated 32-byte strings; ephemeral tags
   (secp256k1_generator) as concatenated x32||y32 strings. *)
From Coq Require Import ZArith List Bool String.
Require Import Spec.Params Spec.Field Spec.Curve Spec.Bytes Spec.Sha256.
Require Import Model.Base Model.Borromean Model.Surjection.
Import ListNotations.
Local Open Scope Z_scope.
Local Open Scope string_scope.

Fixpoint sj_chunks (fuel : nat) (k : nat) (b : bytes) : list bytes :=
  match fuel with O => [] | S f =>
    match b with [] => [] | _ => firstn k b :: sj_chunks f k (skipn k b) end end.
Definition sj_chunk_list (k : nat) (b : bytes) : list bytes := sj_chunks (S (List.length b)) k b.

Section Api.
Variable P : Params.
Definition dispatch_surjection (op : string) (a : list arg) : list arg :=
  let B i := get_bytes (nth_arg (Z.to_nat i) a) in
  let I i := get_int (nth_arg (Z.to_nat i) a) in
  (* proof object starting at argument i *)
  let PR i := mkProof (I i) (pad_to 32 (B (i + 1))) (pad_to SJ_DATA_LEN (B (i + 2))) in
  let ok_obj i := ((0 <=? I i) && (I i <=? 256))%Z in
  if op =? "surjectionproof_parse" then surjectionproof_parse (B 0)
  else if op =? "surjectionproof_serialize" then
    if ok_obj 1 then surjectionproof_serialize (I 0) (PR 1) else bad_case
  else if op =? "surjectionproof_info" then
    if ok_obj 0 then surjectionproof_info (PR 0) else bad_case
  else if op =? "surjectionproof_initialize" then
    surjectionproof_initialize (sj_chunk_list 32 (B 0)) (I 1) (B 2) (I 3) (B 4)
  else if op =? "surjectionproof_allocate_initialized" then
    surjectionproof_allocate_initialized (sj_chunk_list 32 (B 0)) (I 1) (B 2) (I 3) (B 4)
  else if op =? "surjectionproof_generate" then
    if ok_obj 0 then surjectionproof_generate P (PR 0) (sj_chunk_list 64 (B 3)) (B 4) (I 5) (B 6) (B 7) else bad_case
  else if op =? "surjectionproof_verify" then
    if ok_obj 0 then surjectionproof_verify P (PR 0) (sj_chunk_list 64 (B 3)) (B 4) else bad_case
  else bad_case.
End Api.
