(* History machine for MuSig secret nonces (property C13).

   State: a pool of secret-nonce objects (132 canonical bytes each) and a pool of caller-owned
   session_secrand32 buffers, plus GHOST bookkeeping that no operation reads: every event that puts bytes
   into a slot (nonce_gen, nonce_gen_counter, poke = the caller overwriting the object himself)
   gets a fresh identifier; every partial signature that is produced is logged with the identifier
   of the slot content it was computed from.

   step : state -> op -> state * out     run : state -> list op -> state * list out
   No proofs in this file. *)
From Coq Require Import ZArith List Bool.
Require Import Spec.Params Spec.Field Spec.Curve Spec.Bytes Spec.Sha256 Model.Base Model.Keys Model.Musig.
Import ListNotations.
Local Open Scope Z_scope.

Record state := mkState {
  slots : list bytes;          (* secnonce objects *)
  rands : list bytes;          (* session_secrand32 buffers owned by the caller *)
  ids : list nat;              (* ghost: identifier of the event that last filled each slot *)
  next_id : nat;               (* ghost *)
  siglog : list (nat * Z)      (* ghost: (identifier, signature scalar) of every signature produced *)
}.

Inductive op :=
| OGen (slot : option nat) (want_pubnonce : bool) (rand : option nat)
       (seckey pubkey msg32 cache extra32 : option bytes)
| OGenCtr (slot : option nat) (want_pubnonce : bool) (cnt : Z) (keypair msg32 cache extra32 : option bytes)
| OSign (slot : option nat) (want_sig : bool) (keypair cache session : option bytes)
| OPoke (slot : nat) (blob : bytes).

Record out := mkOut { o_ret : Z; o_ill : Z; o_rand : option bytes; o_sig : option bytes }.

Fixpoint set_nth {A} (k : nat) (v : A) (l : list A) : list A :=
  match l, k with
  | [], _ => []
  | _ :: r, O => v :: r
  | x :: r, S k' => x :: set_nth k' v r
  end.

(* a slot / buffer index outside the pool is the NULL pointer *)
Definition get_slot (s : state) (i : option nat) : option bytes :=
  match i with Some k => nth_error (slots s) k | None => None end.
Definition get_rand (s : state) (i : option nat) : option bytes :=
  match i with Some k => nth_error (rands s) k | None => None end.
Definition slot_id (s : state) (k : nat) : nat := nth k (ids s) O.

Section SM.
Variable P : Params.

(* a nonce-generation event on an existing slot k: new content, fresh identifier *)
Definition fill (s : state) (k : nat) (content : bytes) (rands' : list bytes) : state :=
  mkState (set_nth k content (slots s)) rands' (set_nth k (next_id s) (ids s)) (S (next_id s)) (siglog s).

Definition step (s : state) (o : op) : state * out :=
  match o with
  | OGen slot want_pub rand seckey pubkey msg32 cache extra32 =>
    let before := match get_slot s slot with Some b => b | None => [] end in
    let want_sec := match get_slot s slot with Some _ => true | None => false end in
    let r := nonce_gen_sec P want_sec before want_pub (get_rand s rand) seckey pubkey msg32 cache extra32 in
    let rands' := match rand, get_rand s rand, ng_rand r with
                  | Some ri, Some _, Some nb => set_nth ri nb (rands s)
                  | _, _, _ => rands s end in
    let s' := match slot, get_slot s slot with
              | Some k, Some _ => fill s k (ng_sec r) rands'
              | _, _ => s end in
    (s', mkOut (b2z (ng_r r)) (ng_i r) (match get_rand s rand with Some _ => ng_rand r | None => None end) None)
  | OGenCtr slot want_pub cnt keypair msg32 cache extra32 =>
    let before := match get_slot s slot with Some b => b | None => [] end in
    let want_sec := match get_slot s slot with Some _ => true | None => false end in
    let r := nonce_gen_counter_sec P want_sec before want_pub cnt keypair msg32 cache extra32 in
    let s' := match slot, get_slot s slot with
              | Some k, Some _ => fill s k (ng_sec r) (rands s)
              | _, _ => s end in
    (s', mkOut (b2z (ng_r r)) (ng_i r) None None)
  | OSign slot want_sig keypair cache session =>
    match slot, get_slot s slot with
    | Some k, Some sec =>
      let '(ret, ill, sg) := partial_sign_core P sec want_sig keypair cache session in
      let log' := match sg with Some v => (slot_id s k, v) :: siglog s | None => siglog s end in
      (mkState (set_nth k (zeros 132) (slots s)) (rands s) (ids s) (next_id s) log',
       mkOut (b2z ret) ill None
             (if want_sig then Some (match sg with Some v => psig_save v | None => zeros 36 end) else None))
    | _, _ => (s, mkOut 0 1 None (if want_sig then Some (zeros 36) else None))
    end
  | OPoke k blob =>
    match nth_error (slots s) k with
    | Some _ => (fill s k blob (rands s), mkOut 1 0 None None)
    | None => (s, mkOut 0 0 None None)
    end
  end.

(* run a history, collecting the outputs and the slot pool after every step *)
Fixpoint run (s : state) (ops : list op) : state * list (out * list bytes) :=
  match ops with
  | [] => (s, [])
  | o :: r => let '(s1, x) := step s o in
              let '(s2, xs) := run s1 r in (s2, (x, slots s1) :: xs)
  end.

Definition final (s : state) (ops : list op) : state := fold_left (fun st o => fst (step st o)) ops s.
End SM.

Definition init_state (slots0 rands0 : list bytes) : state :=
  mkState slots0 rands0 (seq 0 (length slots0)) (length slots0) [].
