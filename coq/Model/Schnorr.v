(* Model of modules/schnorrsig (BIP-340). *)
From Coq Require Import ZArith List Bool.
Require Import Spec.Params Spec.Field Spec.Curve Spec.Bytes Spec.Sha256 Model.Base Model.Keys.
Import ListNotations.
Local Open Scope Z_scope.

Definition tag_bip340_nonce : bytes := [66;73;80;48;51;52;48;47;110;111;110;99;101].       (* "BIP0340/nonce" *)
Definition tag_bip340_aux : bytes := [66;73;80;48;51;52;48;47;97;117;120].                    (* "BIP0340/aux" *)
Definition tag_bip340_challenge : bytes := [66;73;80;48;51;52;48;47;99;104;97;108;108;101;110;103;101].

Section Schnorr.
Variable P : Params.
Let n := cn P.
Let p := cp P.
Notation G := (Curve.G P).
Notation pmul := (Curve.pmul P).
Notation padd := (Curve.padd P).
Notation pneg := (Curve.pneg P).

(* nonce_function_bip340_impl with algo = "BIP0340/nonce" (data = aux_rand32 or NULL) *)
Definition nonce_bip340 (msg key32 pk32 : bytes) (aux : option bytes) : bytes :=
  let mask := tagged_hash tag_bip340_aux (match aux with Some a => a | None => zeros 32 end) in
  tagged_hash tag_bip340_nonce (xor_bytes key32 mask ++ pk32 ++ msg).

(* the exported secp256k1_nonce_function_bip340 called directly: algo NULL -> 0; otherwise the tagged hash with tag algo *)
Definition nonce_function_bip340_direct (msg key32 pk32 : bytes) (algo aux : option bytes) : list arg :=
  match algo with
  | None => [AInt 0]
  | Some tag =>
    let mask := tagged_hash tag_bip340_aux (match aux with Some a => a | None => zeros 32 end) in
    [AInt 1; ABytes (tagged_hash tag (xor_bytes key32 mask ++ pk32 ++ msg))]
  end.

Definition challenge (r32 msg pk32 : bytes) : Z :=
  fst (sc_of_b32 P (tagged_hash tag_bip340_challenge (r32 ++ pk32 ++ msg))).

(* nonce kinds: 0 = default (noncefp NULL), 1 = secp256k1_nonce_function_bip340 named explicitly (documented to be the same), 2 = test function returning
   ndata's 32 bytes as the nonce, 3 = test function returning 0 (failure) *)
Definition schnorr_nonce (kind : Z) (msg key32 pk32 : bytes) (ndata : option bytes) : option bytes :=
  if (kind =? 0) || (kind =? 1) then Some (nonce_bip340 msg key32 pk32 ndata)
  else if kind =? 2 then Some (match ndata with Some d => firstn 32 d | None => zeros 32 end)
  else None.

Definition schnorrsig_sign_internal (msg kp : bytes) (kind : Z) (ndata : option bytes) : list arg :=
  match keypair_load P kp with
  | None => [AInt 0; ABytes (zeros 64); AIll 1]
  | Some (d0, Q) =>
    let d := if Z.odd (py Q) then sc_neg P d0 else d0 in
    let seckey := sc_to_b32 d in
    let pk32 := fe_to_b32 (px Q) in
    match schnorr_nonce kind msg seckey pk32 ndata with
    | None => [AInt 0; ABytes (zeros 64)]
    | Some nonce32 =>
      let k0 := fst (sc_of_b32 P nonce32) in
      if k0 =? 0 then [AInt 0; ABytes (zeros 64)] else
      let R := pmul k0 G in
      let k := if Z.odd (py R) then sc_neg P k0 else k0 in
      let r32 := fe_to_b32 (px R) in
      let e := challenge r32 msg pk32 in
      [AInt 1; ABytes (r32 ++ sc_to_b32 (sc_add P (sc_mul P e d) k))]
    end
  end.

Definition schnorrsig_sign32 (msg32 kp : bytes) (aux : option bytes) : list arg :=
  schnorrsig_sign_internal msg32 kp 0 aux.

(* extraparams: magic (4 bytes) present?, nonce kind, ndata *)
Definition schnorrsig_sign_custom (msg kp : bytes) (extra : option (bytes * Z * option bytes)) : list arg :=
  match extra with
  | None => schnorrsig_sign_internal msg kp 0 None
  | Some (magic, kind, ndata) =>
    if bytes_eqb magic [0xda; 0x6f; 0xb3; 0x8c] then schnorrsig_sign_internal msg kp kind ndata
    else [AInt 0; AIll 1]
  end.

Definition schnorrsig_verify (sig64 msg xobj : bytes) : list arg :=
  match fe_of_b32 P (firstn 32 sig64) with
  | None => [AInt 0]
  | Some rx =>
    let '(s, ov) := sc_of_b32 P (skipn 32 sig64) in
    if ov then [AInt 0] else
    match pk_load xobj with
    | None => [AInt 0; AIll 1]
    | Some Q =>
      let e := challenge (firstn 32 sig64) msg (fe_to_b32 (px Q)) in
      match padd (pmul (sc_neg P e) Q) (pmul s G) with
      | None => [AInt 0]
      | Some (x, y) => [AInt (b2z (negb (Z.odd y) && (x =? rx)))]
      end
    end
  end.
End Schnorr.
