(* Model of src/modules/surjection/{main_impl.h,surjection_impl.h}: surjection proofs.

   Objects
   * secp256k1_surjectionproof {n_inputs; used_inputs[32]; data[32*257]} is the record [sproof]; its
     observable part is (n_inputs, the first ceil(n/8) bitmap bytes, the first 32*(1+popcount) data bytes)
     - exactly what serialisation shows ([proof_out]).
   * secp256k1_fixed_asset_tag = 32 bytes; secp256k1_generator (ephemeral tag) = x32 || y32 (the object's
     own byte layout, see generator_load / generator_save).
   The unbounded C loops (rejection sampling in csprng_next, "draw until an unused index comes") take
   explicit fuel; exhaustion makes the API function answer [abstain]. *)
From Coq Require Import ZArith List Bool.
Require Import Spec.Params Spec.Field Spec.Curve Spec.Bytes Spec.Sha256 Model.Base Model.Borromean.
Import ListNotations.
Local Open Scope Z_scope.

Record sproof := mkProof { sp_n : Z; sp_used : bytes; sp_data : bytes }.

Definition SJ_MAX_N_INPUTS : Z := 256.
Definition SJ_MAX_USED_INPUTS : Z := 256.
Definition SJ_DATA_LEN : nat := Z.to_nat 8224.   (* 32 * (1 + 256) *)

(* zero-extend / truncate to exactly k bytes (fixed-size C arrays) *)
Definition pad_to (k : nat) (l : bytes) : bytes := firstn k (l ++ zeros k).

(* secp256k1_count_bits_set *)
Definition popcount8 (b : Z) : Z :=
  b2z (Z.testbit b 0) + b2z (Z.testbit b 1) + b2z (Z.testbit b 2) + b2z (Z.testbit b 3) +
  b2z (Z.testbit b 4) + b2z (Z.testbit b 5) + b2z (Z.testbit b 6) + b2z (Z.testbit b 7).
Fixpoint count_bits (l : bytes) : Z :=
  match l with [] => 0 | b :: t => popcount8 b + count_bits t end.

Definition bitmap_len (n : Z) : Z := (n + 7) / 8.
Definition used_prefix (pr : sproof) : bytes := firstn (Z.to_nat (bitmap_len (sp_n pr))) (sp_used pr).
(* secp256k1_surjectionproof_n_used_inputs / n_total_inputs / serialized_size *)
Definition n_used_inputs (pr : sproof) : Z := count_bits (used_prefix pr).
Definition n_total_inputs (pr : sproof) : Z := sp_n pr.
Definition sig_len (pr : sproof) : Z := 32 * (1 + n_used_inputs pr).
Definition serialized_size (pr : sproof) : Z := 2 + bitmap_len (sp_n pr) + sig_len pr.

(* observable part of a proof object, as three wire fields *)
Definition proof_out (pr : sproof) : list arg :=
  [AInt (sp_n pr); ABytes (used_prefix pr); ABytes (firstn (Z.to_nat (sig_len pr)) (sp_data pr))].

(* the padding mask  (unsigned char)((~0U) << (n % 8)) *)
Definition padding_mask (n : Z) : Z := Z.land (Z.shiftl 255 (n mod 8)) 255.

(* secp256k1_surjectionproof_parse: Some proof iff it returns 1 *)
Definition parse (input : bytes) : option sproof :=
  let len := Z.of_nat (length input) in
  if len <? 2 then None else
  let n := nth 1 input 0 * 256 + nth 0 input 0 in
  if SJ_MAX_N_INPUTS <? n then None else
  let bl := bitmap_len n in
  if len <? 2 + bl then None else
  if negb (n mod 8 =? 0) && negb (Z.land (nth (Z.to_nat (2 + bl - 1)) input 0) (padding_mask n) =? 0) then None else
  let bm := firstn (Z.to_nat bl) (skipn 2 input) in
  let slen := 32 * (1 + count_bits bm) in
  if negb (len =? 2 + bl + slen) then None else
  Some (mkProof n bm (skipn (Z.to_nat (2 + bl)) input)).

Definition surjectionproof_parse (input : bytes) : list arg :=
  match parse input with
  | Some pr => AInt 1 :: proof_out pr
  | None => [AInt 0]       (* the object after a failed parse is unspecified: not compared *)
  end.

(* the byte string secp256k1_surjectionproof_serialize writes *)
Definition serialize_bytes (pr : sproof) : bytes :=
  [sp_n pr mod 256; (sp_n pr / 256) mod 256] ++ used_prefix pr ++ firstn (Z.to_nat (sig_len pr)) (sp_data pr).

(* result: ret, *outputlen after the call, the bytes written (success only) *)
Definition surjectionproof_serialize (outlen : Z) (pr : sproof) : list arg :=
  if outlen <? serialized_size pr then [AInt 0; AInt outlen]
  else [AInt 1; AInt (serialized_size pr); ABytes (serialize_bytes pr)].

Definition surjectionproof_info (pr : sproof) : list arg :=
  [AInt (n_total_inputs pr); AInt (n_used_inputs pr); AInt (serialized_size pr)].

(* ------------------------------------------------------------------ csprng *)
Definition csprng := (bytes * Z)%type.    (* state[32], state_i *)
Definition csprng_init (seed : bytes) : csprng := (seed, 0).

Fixpoint csprng_next (fuel : nat) (c : csprng) (rand_max : Z) : option (Z * csprng) :=
  match fuel with
  | O => None
  | S f =>
    let big := 256 <? rand_max in
    let inc := if big then 2 else 1 in
    let range := if big then 65535 else 255 in
    let limit := ((range + 1) / rand_max) * rand_max in
    let '(st, i) := c in
    let '(st, i) := if 32 <=? i + inc then (sha256 st, 0) else (st, i) in
    let v := nth (Z.to_nat i) st 0 in
    let v := if big then v * 256 + nth (Z.to_nat (i + 1)) st 0 else v in
    let c' := (st, i + inc) in
    if v <? limit then Some (v mod rand_max, c') else csprng_next f c' rand_max
  end.

(* ------------------------------------------------------------------ bitmap *)
Fixpoint upd {A} (i : nat) (v : A) (l : list A) : list A :=
  match l with
  | [] => []
  | x :: t => match i with O => v :: t | S i' => x :: upd i' v t end
  end.
Definition bit_test (used : bytes) (i : Z) : bool := Z.testbit (nth (Z.to_nat (i / 8)) used 0) (i mod 8).
Definition bit_set (used : bytes) (i : Z) : bytes :=
  upd (Z.to_nat (i / 8)) (Z.lor (nth (Z.to_nat (i / 8)) used 0) (2 ^ (i mod 8))) used.

(* ------------------------------------------------------------------ initialize *)
Definition CSPRNG_FUEL : nat := Z.to_nat 4096.
Definition PICK_FUEL : nat := Z.to_nat 65536.

(* inner while(1): draw until an index not yet used comes; every draw that hits the output tag
   records it (found), also when the index was already used *)
Fixpoint pick_index (fuel : nat) (c : csprng) (n : Z) (tags : list bytes) (out : bytes)
                    (used : bytes) (found : option Z) : option (bytes * csprng * option Z) :=
  match fuel with
  | O => None
  | S f =>
    match csprng_next CSPRNG_FUEL c n with
    | None => None
    | Some (idx, c') =>
      let found' := if bytes_eqb (nth (Z.to_nat idx) tags []) out then Some idx else found in
      if bit_test used idx then pick_index f c' n tags out used found'
      else Some (bit_set used idx, c', found')
    end
  end.

Fixpoint pick_n (k : nat) (c : csprng) (n : Z) (tags : list bytes) (out : bytes)
                (used : bytes) (found : option Z) : option (bytes * csprng * option Z) :=
  match k with
  | O => Some (used, c, found)
  | S k' =>
    match pick_index PICK_FUEL c n tags out used found with
    | None => None
    | Some (used', c', found') => pick_n k' c' n tags out used' found'
    end
  end.

Inductive init_result := InitOk (iterations index : Z) (used : bytes) | InitFail | InitOutOfFuel.

(* outer while(1); [fuel] = max(1, n_max_iterations) is exact, not a cut-off *)
Fixpoint init_loop (fuel : nat) (iters : Z) (c : csprng) (n n_to_use : Z) (tags : list bytes) (out : bytes)
                   (n_max : Z) : init_result :=
  match fuel with
  | O => InitOutOfFuel
  | S f =>
    match pick_n (Z.to_nat n_to_use) c n tags out (zeros 32) None with
    | None => InitOutOfFuel
    | Some (used, c', found) =>
      let iters' := iters + 1 in
      match found with
      | Some idx => InitOk iters' idx used
      | None => if n_max <=? iters' then InitFail else init_loop f iters' c' n n_to_use tags out n_max
      end
    end
  end.

Definition initialize (tags : list bytes) (n_to_use : Z) (out : bytes) (n_max : Z) (seed : bytes) : init_result :=
  let n := Z.of_nat (length tags) in
  init_loop (Z.to_nat (Z.max 1 n_max)) 0 (csprng_init seed) n n_to_use tags out n_max.

(* result: ret (= number of iterations), then on success input_index and the proof object.
   On failure the proof object is unspecified (it holds the last subset tried): not compared. *)
Definition surjectionproof_initialize (tags : list bytes) (n_to_use : Z) (out : bytes) (n_max : Z) (seed : bytes) : list arg :=
  let n := Z.of_nat (length tags) in
  if (SJ_MAX_N_INPUTS <? n) || (SJ_MAX_USED_INPUTS <? n_to_use) || (n <? n_to_use) then [AInt 0; AIll 1] else
  match initialize tags n_to_use out n_max seed with
  | InitOk it idx used => [AInt it; AInt idx] ++ proof_out (mkProof n used (zeros SJ_DATA_LEN))
  | InitFail => [AInt 0]
  | InitOutOfFuel => abstain
  end.

(* allocate_initialized + destroy: ret, live allocations after the call, [index, proof], live allocations
   after destroy *)
Definition surjectionproof_allocate_initialized (tags : list bytes) (n_to_use : Z) (out : bytes) (n_max : Z) (seed : bytes) : list arg :=
  let n := Z.of_nat (length tags) in
  if (SJ_MAX_N_INPUTS <? n) || (SJ_MAX_USED_INPUTS <? n_to_use) || (n <? n_to_use) then [AInt 0; AInt 0; AInt 0; AIll 1] else
  match initialize tags n_to_use out n_max seed with
  | InitOk it idx used => [AInt it; AInt 1; AInt idx] ++ proof_out (mkProof n used (zeros SJ_DATA_LEN)) ++ [AInt 0]
  | InitFail => [AInt 0; AInt 0; AInt 0]
  | InitOutOfFuel => abstain
  end.

(* ------------------------------------------------------------------ ring keys, message, forged scalars *)
Section Surjection.
Variable P : Params.
Notation padd := (Curve.padd P).
Notation pneg := (Curve.pneg P).

(* secp256k1_generator_load *)
Definition tag_load (t : bytes) : point := Some (be_val (firstn 32 t), be_val (firstn 32 (skipn 32 t))).
(* 33 bytes hashed per tag by surjection_genmessage *)
Definition tag_ser33 (t : bytes) : bytes := (2 + Z.land (nth 63 t 0) 1) :: firstn 32 t.

Definition genmessage (in_tags : list bytes) (out_tag : bytes) : bytes :=
  sha256 (flat_map tag_ser33 in_tags ++ tag_ser33 out_tag).

(* secp256k1_surjection_genrand: note the 36-byte buffer is REUSED: the hash of round i overwrites
   bytes 0..31, so round i+1 hashes le32(i+1) || hash_i[4..31] || key[28..31] *)
Fixpoint genrand_loop (k : nat) (i : Z) (buf : bytes) : option (list Z) :=
  match k with
  | O => Some []
  | S k' =>
    let inp := le_enc 4 i ++ skipn 4 buf in
    let h := sha256 inp in
    let '(s, ov) := sc_of_b32 P h in
    if ov then None else
    match genrand_loop k' (i + 1) (h ++ skipn 32 inp) with
    | None => None
    | Some l => Some (s :: l)
    end
  end.
Definition genrand (ns : nat) (key : Z) : option (list Z) := genrand_loop ns 0 (zeros 4 ++ sc_to_b32 key).

(* secp256k1_surjection_compute_public_keys: ring keys (output - input_i) for the used i, and the ring
   position of input_index (0 when input_index is not a used input, as in C) *)
Fixpoint compute_public_keys (in_tags : list bytes) (i : Z) (used : bytes) (out : point) (input_index : Z)
                             (j : Z) : list point * Z :=
  match in_tags with
  | [] => ([], 0)
  | t :: rest =>
    if bit_test used i then
      let '(keys, ridx) := compute_public_keys rest (i + 1) used out input_index (j + 1) in
      (padd (pneg (tag_load t)) out :: keys, if input_index =? i then j else ridx)
    else compute_public_keys rest (i + 1) used out input_index j
  end.

(* scalars of the proof: data[32+32i .. ), i < n_used; None iff one overflows *)
Fixpoint load_scalars (chunks : list bytes) : option (list Z) :=
  match chunks with
  | [] => Some []
  | c :: rest =>
    let '(s, ov) := sc_of_b32 P c in
    if ov then None else
    match load_scalars rest with None => None | Some l => Some (s :: l) end
  end.
Definition data_chunks (data : bytes) (k : nat) : list bytes :=
  map (fun i => firstn 32 (skipn (32 + 32 * i)%nat data)) (seq 0 k).

(* secp256k1_surjectionproof_verify *)
Definition verify (pr : sproof) (in_tags : list bytes) (out_tag : bytes) : bool :=
  let n_total := n_total_inputs pr in
  let n_used := n_used_inputs pr in
  if (n_used =? 0) || (n_total <? n_used) || negb (n_total =? Z.of_nat (length in_tags)) then false else
  if SJ_MAX_USED_INPUTS <? n_used then false else
  let pubs := fst (compute_public_keys in_tags 0 (sp_used pr) (tag_load out_tag) 0 0) in
  match load_scalars (data_chunks (sp_data pr) (Z.to_nat n_used)) with
  | None => false
  | Some s =>
    borromean_verify P (firstn 32 (sp_data pr)) s pubs [Z.to_nat n_used] 1 (genmessage in_tags out_tag)
  end.

Definition surjectionproof_verify (pr : sproof) (in_tags : list bytes) (out_tag : bytes) : list arg :=
  [AInt (b2z (verify pr in_tags out_tag))].

(* secp256k1_surjectionproof_generate: Some proof' iff it returns 1 (then proof' has e0 and the ring
   scalars written into data); the illegal-callback path (no used input) is separated in the wrapper *)
Definition generate (pr : sproof) (in_tags : list bytes) (out_tag : bytes) (input_index : Z)
                    (in_key out_key : bytes) : option sproof :=
  let n_used := n_used_inputs pr in
  let '(tmps, ov1) := sc_of_b32 P in_key in
  if ov1 then None else
  let '(bk, ov2) := sc_of_b32 P out_key in
  if ov2 then None else
  if existsb (fun t => bytes_eqb t out_tag) in_tags then None else
  let blinding_key := sc_add P bk (sc_neg P tmps) in
  let n_total := n_total_inputs pr in
  if (n_total <? n_used) || negb (n_total =? Z.of_nat (length in_tags)) then None else
  let '(pubs, ridx) := compute_public_keys in_tags 0 (sp_used pr) (tag_load out_tag) input_index 0 in
  let msg := genmessage in_tags out_tag in
  match genrand (Z.to_nat n_used) blinding_key with
  | None => None
  | Some bs =>
    let nonce := nth (Z.to_nat ridx) bs 0 in
    let bs' := upd (Z.to_nat ridx) 0 bs in
    match borromean_sign P bs' pubs [nonce] [blinding_key] [Z.to_nat n_used] [Z.to_nat ridx] 1 msg with
    | None => None
    | Some (e0, s') =>
      let sig := e0 ++ flat_map sc_to_b32 s' in
      Some (mkProof (sp_n pr) (sp_used pr) (sig ++ skipn (length sig) (sp_data pr)))
    end
  end.

(* on failure the proof object is unspecified (e0 may or may not have been written): not compared *)
Definition surjectionproof_generate (pr : sproof) (in_tags : list bytes) (out_tag : bytes) (input_index : Z)
                                    (in_key out_key : bytes) : list arg :=
  if n_used_inputs pr =? 0 then [AInt 0; AIll 1] else
  match generate pr in_tags out_tag input_index in_key out_key with
  | Some pr' => AInt 1 :: proof_out pr'
  | None => [AInt 0]
  end.
End Surjection.
