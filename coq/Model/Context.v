(* Model of the context object as far as it can influence results: the scalar/point blinding of the
   fixed-base multiplication (src/ecmult_gen_impl.h), which is re-derived at every randomisation and
   chained on the previous value.  Everything else in a context (callbacks, the SHA-256 compression
   function pointer) is not an input of any API model: the API models take no context at all. *)
From Coq Require Import ZArith List Bool.
Require Import Spec.Params Spec.Field Spec.Curve Spec.Bytes Spec.Sha256 Model.Base.
Import ListNotations.
Local Open Scope Z_scope.

Section Context.
Variable P : Params.
Variable comb_bits : Z.                 (* COMB_BLOCKS * COMB_TEETH * COMB_SPACING, 258 in the default build *)
Notation n := (cn P).
Notation p := (cp P).

Record gen_ctx := mkctx { soff : Z;      (* scalar_offset *)
                          goff : point;  (* ge_offset *)
                          pblind : Z }.  (* proj_blind *)

(* secp256k1_ecmult_gen_scalar_diff: 2^(COMB_BITS-1) - 1/2 *)
Definition scalar_diff : Z := (2 ^ (comb_bits - 1) - minv n 2) mod n.

(* comb(d, G/2) = (2d - (2^COMB_BITS - 1)) * (G/2) = (d - diff) * G *)
Definition ecmult_gen (c : gen_ctx) (k : Z) : point :=
  padd P (pmul P ((k + soff c - scalar_diff) mod n) (G P)) (goff c).

(* secp256k1_ecmult_gen_blind(ctx, NULL) - also the state after context creation *)
Definition ctx_reset : gen_ctx :=
  {| soff := (1 + scalar_diff) mod n; goff := pneg P (G P); pblind := 1 |}.

(* secp256k1_ecmult_gen_blind(ctx, seed32) *)
Definition ctx_randomize (c : gen_ctx) (seed32 : bytes) : gen_ctx :=
  let rng := drbg_init (be_enc 32 (soff c) ++ seed32) in
  let '(o1, rng1) := drbg_gen32 rng in
  let '(o2, _) := drbg_gen32 rng1 in
  let f0 := be_val o1 mod p in
  let f := if f0 =? 0 then 1 else f0 in
  let b0 := be_val o2 mod n in
  let b := if b0 =? 0 then 1 else b0 in
  {| soff := ((- b) mod n + scalar_diff) mod n; goff := ecmult_gen c b; pblind := f |}.

Inductive ctx_op := OpRandomize (seed : bytes) | OpReset | OpClone.
Definition ctx_step (c : gen_ctx) (o : ctx_op) : gen_ctx :=
  match o with OpRandomize s => ctx_randomize c s | OpReset => ctx_reset | OpClone => c end.
Definition ctx_run (ops : list ctx_op) : gen_ctx := fold_left ctx_step ops ctx_reset.
End Context.

(* wire op: history = list of (kind, seed) flattened: bytes 05 seed32 | 06 | 03 ; then scalars to multiply *)
Fixpoint parse_hist (fuel : nat) (b : bytes) : list ctx_op :=
  match fuel with O => [] | S f =>
    match b with
    | 5 :: r => OpRandomize (firstn 32 r) :: parse_hist f (skipn 32 r)
    | 6 :: r => OpReset :: parse_hist f r
    | _ :: r => OpClone :: parse_hist f r
    | [] => [] end end.

Definition ctx_history (P : Params) (comb_bits : Z) (hist : bytes) (k32 : bytes) : list arg :=
  let c := ctx_run P comb_bits (parse_hist (length hist) hist) in
  [ABytes (be_enc 32 (soff c)); ABytes (pk_obj (goff c)); ABytes (be_enc 32 (pblind c));
   ABytes (pk_obj (ecmult_gen P comb_bits c (be_val k32 mod cn P)))].
