(* Model of modules/ecdsa_adaptor (main_impl.h, dleq_impl.h): the 162-byte codec, the hardened nonce
   function, DLEQ prove/verify, encrypt / verify / decrypt / recover.
   Mirrors the decisions of the C code (order of checks, which outputs are zeroed); group operations
   are the affine textbook ones of Spec/Curve.v. *)
From Coq Require Import ZArith List Bool.
Require Import Spec.Params Spec.Field Spec.Curve Spec.Bytes Spec.Sha256 Model.Base Model.Der.
Import ListNotations.
Local Open Scope Z_scope.

(* "ECDSAadaptor/non", "ECDSAadaptor/aux", "DLEQ" *)
Definition tag_adaptor_non : bytes := [69;67;68;83;65;97;100;97;112;116;111;114;47;110;111;110].
Definition tag_adaptor_aux : bytes := [69;67;68;83;65;97;100;97;112;116;111;114;47;97;117;120].
Definition tag_dleq : bytes := [68;76;69;81].

(* the three hard-coded midstates of the C code, copied literally (Proofs/AdaptorProofs.v proves that
   they are the states after absorbing SHA256(tag)||SHA256(tag)) *)
Definition midstate_adaptor_non : sha_state :=
  [0x791dae43; 0xe52d3b44; 0x37f9edea; 0x9bfd2ab1; 0xcfb0f44d; 0xccf1d880; 0xd18f2c13; 0xa37b9024].
Definition midstate_adaptor_aux : sha_state :=
  [0xd14c7bd9; 0x095d35e6; 0xb8490a88; 0xfb00ef74; 0x0baa488f; 0x69366693; 0x1c81c5ba; 0xc33b296a].
Definition midstate_dleq : sha_state :=
  [0x8cc4beac; 0x2e011f3f; 0x355c75fb; 0x3ba6a2c5; 0xe96f3aef; 0x180530fd; 0x94582499; 0x577fd564].

(* SHA-256 state chosen by nonce_function_ecdsa_adaptor_impl for the tag [algo] *)
Definition adaptor_tag_state (algo : bytes) : sha_state :=
  if bytes_eqb algo tag_adaptor_non then midstate_adaptor_non
  else if bytes_eqb algo tag_dleq then midstate_dleq
  else tagged_midstate algo.

(* nonce_function_ecdsa_adaptor: algo = None models algo == NULL (returns 0);
   data = 32 bytes of auxiliary randomness or NULL *)
Definition nonce_function_ecdsa_adaptor (msg32 key32 pk33 : bytes) (algo data : option bytes) : option bytes :=
  match algo with
  | None => None
  | Some al =>
    let key := match data with
               | Some d => xor_bytes (sha256_from midstate_adaptor_aux 64 d) key32
               | None => key32
               end in
    Some (sha256_from (adaptor_tag_state al) 64 (key ++ pk33 ++ msg32))
  end.

(* nonce sources available to the harness (harness/ops_adaptor.h):
   kind 0: noncefp = NULL; kind 1: secp256k1_nonce_function_ecdsa_adaptor passed explicitly
           (data = aux_rand32 or NULL);
   kind 2: test function, data = k_main32 || k_dleq32 || sel : returns k_main32 when asked with the
           16-byte algo, k_dleq32 when asked with the 4-byte algo "DLEQ";
   kind 3: as kind 2 but fails (returns 0 without writing) for the main nonce if sel = 0, for the DLEQ
           nonce if sel = 1, for both if sel = 2. *)
Definition adaptor_nonce_fn (kind : Z) (msg32 key32 pk33 algo : bytes) (data : option bytes) : option bytes :=
  if (kind =? 0) || (kind =? 1) then
    nonce_function_ecdsa_adaptor msg32 key32 pk33 (Some algo) (match data with Some d => Some (firstn 32 d) | None => None end)
  else
    let d := match data with Some d => d | None => zeros 65 end in
    let is_dleq := Nat.eqb (length algo) 4 in
    let sel := nth 64 d 0 in
    if (kind =? 3) && ((sel =? 2) || (if is_dleq then sel =? 1 else sel =? 0)) then None
    else Some (if is_dleq then slice 32 32 d else slice 0 32 d).

Section Adaptor.
Variable P : Params.
Let n := cn P.
Let p := cp P.
Notation G := (Curve.G P).
Notation pmul := (Curve.pmul P).
Notation padd := (Curve.padd P).

(* ---------------------------------------------------------------- DLEQ (dleq_impl.h) *)
(* secp256k1_dleq_challenge: tagged hash of p1, gen2, p2, r1, r2 reduced mod n (overflow ignored) *)
Definition dleq_challenge (gen2 r1 r2 p1 p2 : point) : Z :=
  fst (sc_of_b32 P (sha256_from midstate_dleq 64 (ser33 p1 ++ ser33 gen2 ++ ser33 p2 ++ ser33 r1 ++ ser33 r2))).

(* secp256k1_dleq_nonce: None = nonce function failed or nonce = 0 mod n *)
Definition dleq_nonce (kind : Z) (sk32 gen2_33 p1_33 p2_33 : bytes) (ndata : option bytes) : option Z :=
  let buf := sha256 (p1_33 ++ p2_33) in
  match adaptor_nonce_fn kind buf sk32 gen2_33 tag_dleq ndata with
  | None => None
  | Some nonce => let k := fst (sc_of_b32 P nonce) in if k =? 0 then None else Some k
  end.

(* secp256k1_dleq_prove: proof (s, e) that log_G p1 = log_gen2 p2 = sk *)
Definition dleq_prove (kind : Z) (sk : Z) (p1 gen2 p2 : point) (ndata : option bytes) : option (Z * Z) :=
  match dleq_nonce kind (sc_to_b32 sk) (ser33 gen2) (ser33 p1) (ser33 p2) ndata with
  | None => None
  | Some k =>
    let r1 := pmul k G in let r2 := pmul k gen2 in
    let e := dleq_challenge gen2 r1 r2 p1 p2 in
    Some (sc_add P (sc_mul P e sk) k, e)
  end.

(* secp256k1_dleq_verify *)
Definition dleq_verify (s e : Z) (p1 gen2 p2 : point) : bool :=
  let e_neg := sc_neg P e in
  let r1 := padd (pmul e_neg p1) (pmul s G) in          (* R1 = s*G - e*P1 *)
  let r2 := padd (pmul s gen2) (pmul e_neg p2) in       (* R2 = s*gen2 - e*P2 *)
  if is_inf r1 || is_inf r2 then false
  else sc_add P (dleq_challenge gen2 r1 r2 p1 p2) e_neg =? 0.

(* ---------------------------------------------------------------- 162-byte codec *)
Definition adaptor_sig_serialize (R Rp : point) (sp e s : Z) : bytes :=
  ser33 R ++ ser33 Rp ++ sc_to_b32 sp ++ sc_to_b32 e ++ sc_to_b32 s.

(* secp256k1_ecdsa_adaptor_sig_deserialize with every output requested (adaptor_verify):
   (R, sigr, R', s', e, s) *)
Definition adaptor_sig_deserialize_full (b : bytes) : option (point * Z * point * Z * Z * Z) :=
  match eckey_pubkey_parse P (slice 0 33 b) with
  | None => None
  | Some R =>
    let sigr := fst (sc_of_b32 P (slice 1 32 b)) in
    if sigr =? 0 then None else
    match eckey_pubkey_parse P (slice 33 33 b) with
    | None => None
    | Some Rp =>
      match seckey_of_b32 P (slice 66 32 b) with
      | None => None
      | Some sp =>
        let e := fst (sc_of_b32 P (slice 98 32 b)) in
        let '(s, ov) := sc_of_b32 P (slice 130 32 b) in
        if ov then None else Some (R, sigr, Rp, sp, e, s)
      end
    end
  end.

(* the same function as called by decrypt and recover: r = rp = e = s = NULL; only (sigr, s') *)
Definition adaptor_sig_deserialize_part (b : bytes) : option (Z * Z) :=
  let sigr := fst (sc_of_b32 P (slice 1 32 b)) in
  if sigr =? 0 then None else
  match seckey_of_b32 P (slice 66 32 b) with
  | None => None
  | Some sp => Some (sigr, sp)
  end.

(* ---------------------------------------------------------------- encrypt *)
(* result: ret, adaptor_sig162.  An enckey object that does not load fires the illegal callback and
   leaves the output buffer untouched (not reported). *)
Definition adaptor_encrypt (kind : Z) (seckey32 enckey_obj msg32 : bytes) (ndata : option bytes) : list arg :=
  match pk_load enckey_obj with
  | None => [AInt 0; AIll 1]
  | Some Y =>
    let buf33 := ser33 Y in
    let '(ret1, nonce32) := match adaptor_nonce_fn kind msg32 seckey32 buf33 tag_adaptor_non ndata with
                            | Some nb => (true, nb)
                            | None => (false, zeros 32)
                            end in
    let k0 := fst (sc_of_b32 P nonce32) in
    let ret2 := ret1 && negb (k0 =? 0) in
    let k := if ret2 then k0 else 1 in
    let R := pmul k Y in            (* R  = k*Y *)
    let Rp := pmul k G in           (* R' = k*G *)
    match dleq_prove kind k Rp Y R ndata with
    | None => [AInt 0; ABytes (zeros 162)]
    | Some (ds, de) =>
      let sko := seckey_of_b32 P seckey32 in
      let ret3 := ret2 && (match sko with Some _ => true | None => false end) in
      let sk := if ret3 then (match sko with Some d => d | None => 1 end) else 1 in
      let m := fst (sc_of_b32 P msg32) in
      let sigr := fst (sc_of_b32 P (fe_to_b32 (px R))) in
      let ret4 := ret3 && negb (sigr =? 0) in
      let sp := sc_mul P (sc_inv P k) (sc_add P (sc_mul P sigr sk) m) in     (* s' = k^-1 (m + R.x * x) *)
      let ret5 := ret4 && negb (sp =? 0) in
      if ret5 then [AInt 1; ABytes (adaptor_sig_serialize R Rp sp de ds)]
      else [AInt 0; ABytes (zeros 162)]
    end
  end.

(* ---------------------------------------------------------------- verify *)
Definition adaptor_verify (sig162 pkobj msg32 enckey_obj : bytes) : list arg :=
  match adaptor_sig_deserialize_full sig162 with
  | None => [AInt 0]
  | Some (R, sigr, Rp, sp, de, ds) =>
    match pk_load enckey_obj with
    | None => [AInt 0; AIll 1]
    | Some Y =>
      if negb (dleq_verify ds de Rp Y R) then [AInt 0] else
      let m := fst (sc_of_b32 P msg32) in
      match pk_load pkobj with
      | None => [AInt 0; AIll 1]
      | Some X =>
        let sn := sc_inv P sp in
        let u1 := sc_mul P sn m in let u2 := sc_mul P sn sigr in
        let D := padd (pmul u2 X) (pmul u1 G) in          (* s'^-1 (m*G + R.x*X) *)
        if is_inf D then [AInt 0] else [AInt (b2z (point_eqb D Rp))]
      end
    end
  end.

(* ---------------------------------------------------------------- decrypt *)
(* result: ret, signature object (all-zero on failure) *)
Definition adaptor_decrypt (deckey32 sig162 : bytes) : list arg :=
  let '(deckey, ov) := sc_of_b32 P deckey32 in
  match adaptor_sig_deserialize_part sig162 with
  | None => [AInt 0; ABytes (zeros 64)]
  | Some (sigr, sp) =>
    if negb ov && negb (deckey =? 0) then
      let s := sc_mul P (sc_inv P deckey) sp in            (* s = s' * y^-1 *)
      let s' := if sc_is_high P s then sc_neg P s else s in
      [AInt 1; ABytes (sig_obj sigr s')]
    else [AInt 0; ABytes (zeros 64)]
  end.

(* ---------------------------------------------------------------- recover *)
(* result: ret, deckey32 (reported only when ret = 1: the header does not specify it on failure) *)
Definition adaptor_recover (sigobj sig162 enckey_obj : bytes) : list arg :=
  match adaptor_sig_deserialize_part sig162 with
  | None => [AInt 0]
  | Some (adaptor_sigr, sp) =>
    let r := fst (sc_of_b32 P (firstn 32 sigobj)) in
    let s := fst (sc_of_b32 P (skipn 32 sigobj)) in
    let ret := (adaptor_sigr =? r) && negb (s =? 0) in
    let deckey := sc_mul P (sc_inv P s) sp in              (* y = s^-1 * s' *)
    let E := pmul deckey G in                              (* expected encryption key, up to sign *)
    match pk_load enckey_obj with
    | None => [AInt 0; AIll 1]
    | Some Y =>
      if negb (px E =? px Y) then [AInt 0]
      else
        let deckey' := if Bool.eqb (Z.odd (py E)) (Z.odd (py Y)) then deckey else sc_neg P deckey in
        if ret then [AInt 1; ABytes (sc_to_b32 deckey')] else [AInt 0]
    end
  end.

(* the exported nonce function called directly: ret, nonce32 *)
Definition adaptor_nonce (msg32 key32 pk33 : bytes) (algo data : option bytes) : list arg :=
  match nonce_function_ecdsa_adaptor msg32 key32 pk33 algo data with
  | Some nb => [AInt 1; ABytes nb]
  | None => [AInt 0]
  end.
End Adaptor.
