(* Model of modules/schnorrsig_halfagg (half-aggregation of BIP-340 signatures):
   secp256k1_schnorrsig_inc_aggregate, _aggregate, _aggverify.

   The running SHA-256 object of the C code (tagged midstate, then r_i || pk_i || m_i written for every
   i, a COPY finalised after every triple) is modelled by the byte string written so far ([pre]): the
   randomizer of index i is the tagged hash of the first i+1 triples.  The loop state is a left fold. *)
From Coq Require Import ZArith List Bool.
Require Import Spec.Params Spec.Field Spec.Curve Spec.Bytes Spec.Sha256 Model.Base Model.Schnorr.
Import ListNotations.
Local Open Scope Z_scope.

Definition tag_halfagg : bytes :=          (* "HalfAgg/randomizer" *)
  [72;97;108;102;65;103;103;47;114;97;110;100;111;109;105;122;101;114].

Definition size_max : Z := 2 ^ 64.         (* size_t of the LP64 targets the harness is built for *)

(* one new signature as the loop sees it: r_i (32 bytes), serialised x-only key, message, s_i (32 bytes) *)
Definition item := (bytes * bytes * bytes * bytes)%type.
Definition item_r (it : item) : bytes := let '(r, _, _, _) := it in r.
Definition item_km (it : item) : bytes * bytes := let '(_, pk, m, _) := it in (pk, m).

(* bytes hashed by the prefix loop: for every already aggregated index the r_i found IN THE AGGREGATE,
   then the key, then the message *)
Fixpoint prefix_bytes (agg : bytes) (kms : list (bytes * bytes)) : bytes :=
  match kms with
  | [] => []
  | (pk, m) :: t => firstn 32 agg ++ pk ++ m ++ prefix_bytes (skipn 32 agg) t
  end.

Section Halfagg.
Variable P : Params.
Notation G := (Curve.G P).
Notation pmul := (Curve.pmul P).
Notation padd := (Curve.padd P).
Notation pneg := (Curve.pneg P).

(* z_i: tagged hash of everything written so far, reduced mod n (overflow ignored by the C code) *)
Definition hz (pre : bytes) : Z := fst (sc_of_b32 P (tagged_hash tag_halfagg pre)).

(* one iteration of the aggregation loop; state = (bytes hashed so far, index i, running s).
   s_i is read with scalar_set_b32(.., NULL): silently reduced.  z_0 = 1 implicitly. *)
Definition agg_step (st : bytes * Z * Z) (it : item) : bytes * Z * Z :=
  let '(pre, i, s) := st in
  let '(r, pk, m, sb) := it in
  let pre' := pre ++ r ++ pk ++ m in
  let si := fst (sc_of_b32 P sb) in
  let zs := if i =? 0 then si else sc_mul P si (hz pre') in
  (pre', i + 1, sc_add P s zs).

Definition agg_fold (new : list item) (st : bytes * Z * Z) : bytes * Z * Z := fold_left agg_step new st.

(* the data path of inc_aggregate once every check has passed: [agg] is the whole caller buffer,
   [before] the (key, message) pairs of the n_before signatures already inside, [new] the new ones.
   Result: the whole buffer afterwards (bytes behind 32*(n+1) are not touched). *)
Definition inc_items (agg : bytes) (before : list (bytes * bytes)) (new : list item) : bytes :=
  let nb := length before in
  let s0 := if Nat.eqb nb 0 then 0 else fst (sc_of_b32 P (slice (32 * nb) 32 agg)) in
  let st := agg_fold new (prefix_bytes agg before, Z.of_nat nb, s0) in
  firstn (32 * nb) agg ++ flat_map item_r new ++ sc_to_b32 (snd st)
    ++ skipn (32 * (nb + length new + 1)) agg.

(* xonly_pubkey_serialize of an object: None = the illegal-argument callback fired *)
Definition xonly_ser (obj : bytes) : option bytes :=
  match pk_load obj with Some Q => Some (fe_to_b32 (px Q)) | None => None end.

Fixpoint all_some {A} (l : list (option A)) : option (list A) :=
  match l with
  | [] => Some []
  | None :: _ => None
  | Some x :: t => match all_some t with Some r => Some (x :: r) | None => None end
  end.

Definition mk_item (kms : (bytes * bytes) * bytes) : item :=
  let '((pk, m), sig) := kms in (firstn 32 sig, pk, m, skipn 32 sig).

(* secp256k1_schnorrsig_inc_aggregate.  Result: ret, *aggsig_len afterwards, the aggsig buffer afterwards.
   Every failure leaves both untouched (all writes happen after the last check). *)
Definition halfagg_inc (aggsig : option bytes) (alen : option Z) (pks msgs sigs : option (list bytes))
                       (n_before n_new : Z) : list arg :=
  match aggsig, alen with
  | None, _ | _, None =>       (* ARG_CHECK(aggsig != NULL), ARG_CHECK(aggsig_len != NULL) *)
    [AInt 0; match alen with Some l => AInt l | None => ANone end;
     match aggsig with Some a => ABytes a | None => ANone end; AIll 1]
  | Some agg, Some len =>
    let ill := [AInt 0; AInt len; ABytes agg; AIll 1] in
    let n := (n_before + n_new) mod size_max in
    if (match sigs with None => negb (n_new =? 0) | _ => false end) then ill
    else if n <? n_before then ill
    else if (match pks with None => negb (n =? 0) | _ => false end) then ill
    else if (match msgs with None => negb (n =? 0) | _ => false end) then ill
    else if (len / 32 <=? 0) || (len / 32 - 1 <? n) then [AInt 0; AInt len; ABytes agg]
    else
      let lst o := match o with Some l => l | None => [] end in
      let nn := Z.to_nat n in let nbn := Z.to_nat n_before in
      match all_some (map xonly_ser (firstn nn (lst pks))) with
      | None => ill
      | Some ks =>
        let kms := combine ks (firstn nn (lst msgs)) in
        let new := map mk_item (combine (skipn nbn kms) (lst sigs)) in
        [AInt 1; AInt (32 * (n + 1)); ABytes (inc_items agg (firstn nbn kms) new)]
      end
  end.

Definition halfagg_aggregate (aggsig : option bytes) (alen : option Z) (pks msgs sigs : option (list bytes)) (n : Z) :=
  halfagg_inc aggsig alen pks msgs sigs 0 n.

(* ---- verification ---- *)
(* loop over (key object, message, r_i); state = (bytes hashed so far, index, rhs).
   inl = early return of the API call, inr = rhs after the last index *)
Fixpoint aggv_loop (its : list (bytes * bytes * bytes)) (pre : bytes) (i : Z) (rhs : point) : list arg + point :=
  match its with
  | [] => inr rhs
  | (pko, m, r) :: t =>
    match pk_load pko with
    | None => inl [AInt 0; AIll 1]
    | Some Q =>
      let pk32 := fe_to_b32 (px Q) in
      let pre' := pre ++ r ++ pk32 ++ m in
      match fe_of_b32 P r with
      | None => inl [AInt 0]
      | Some rx =>
        match ge_set_xo P rx false with
        | None => inl [AInt 0]
        | R =>
          let e := challenge P r m pk32 in
          let T := padd (pmul e Q) R in
          let T' := if i =? 0 then T else pmul (hz pre') T in
          aggv_loop t pre' (i + 1) (padd rhs T')
        end
      end
    end
  end.

Fixpoint chunks32 (k : nat) (b : bytes) : list bytes :=
  match k with O => [] | S k' => firstn 32 b :: chunks32 k' (skipn 32 b) end.

Definition halfagg_aggverify (pks msgs : option (list bytes)) (n : Z) (aggsig : option bytes) (len : Z) : list arg :=
  if (match pks with None => negb (n =? 0) | _ => false end) then [AInt 0; AIll 1]
  else if (match msgs with None => negb (n =? 0) | _ => false end) then [AInt 0; AIll 1]
  else match aggsig with
  | None => [AInt 0; AIll 1]
  | Some agg =>
    if (len / 32 <=? 0) || negb (len / 32 - 1 =? n) || negb (len mod 32 =? 0) then [AInt 0]
    else
      let lst o := match o with Some l => l | None => [] end in
      let nn := Z.to_nat n in
      let its := combine (combine (firstn nn (lst pks)) (firstn nn (lst msgs))) (chunks32 nn agg) in
      match aggv_loop its [] 0 None with
      | inl res => res
      | inr rhs =>
        let '(s, ov) := sc_of_b32 P (slice (32 * nn) 32 agg) in
        if ov then [AInt 0]
        else [AInt (b2z (is_inf (padd (pneg (pmul s G)) rhs)))]
      end
  end.
End Halfagg.
