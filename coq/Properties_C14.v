(* C14 - ECDSA adaptor signatures: the 162-byte format is checked exactly, verification is the DLEQ proof
   and the adaptor equation of the specification, recovery refuses unrelated signatures, failures zero the
   outputs.  Only statements here; proofs are in Proofs/AdaptorProofs.v.
   Model: Model/Adaptor.v (tied to the C code by the correspondence check of ./check C14). *)
From Coq Require Import ZArith List Bool Lia.
Require Import Spec.Params Spec.Field Spec.Curve Spec.Bytes Spec.Sha256.
Require Import Model.Base Model.Der Model.Adaptor.
Require Import Proofs.MathFacts Proofs.EcdsaProofs Proofs.SecpConsts Proofs.Toy Proofs.AdaptorProofs Proofs.AdaptorComplete.
Import ListNotations.
Local Open Scope Z_scope.
Notation S := secp256k1.

(* The three midstates hard-coded in the C code are the SHA-256 states after SHA256(tag)||SHA256(tag). *)
Theorem midstates_correct :
  tagged_midstate tag_adaptor_non = midstate_adaptor_non /\
  tagged_midstate tag_adaptor_aux = midstate_adaptor_aux /\
  tagged_midstate tag_dleq = midstate_dleq.
Proof. exact midstates_correct. Qed.
Print Assumptions midstates_correct.

(* Hence the hardened nonce function is the BIP-340 style tagged hash
   H_algo((key xor H_aux(aux)) || pk33 || msg32) for EVERY algo string (the two fast paths included). *)
Theorem nonce_function_eq_tagged :
  forall msg32 key32 pk33 algo data,
    nonce_function_ecdsa_adaptor msg32 key32 pk33 (Some algo) data =
    Some (tagged_hash algo ((match data with
                             | Some d => xor_bytes (tagged_hash tag_adaptor_aux d) key32
                             | None => key32 end) ++ pk33 ++ msg32)).
Proof. exact nonce_function_eq_tagged. Qed.
Print Assumptions nonce_function_eq_tagged.

(* Which of the five fields are range-checked, and how: R and R' must be valid compressed points; R.x is
   reduced mod n silently and must be non-zero; s' must be in [1, n) (no reduction); e is reduced mod n
   silently; the DLEQ response s must be < n. *)
Theorem codec_exact :
  forall b R sigr Rp sp e s,
    adaptor_sig_deserialize_full S b = Some (R, sigr, Rp, sp, e, s) <->
    ( eckey_pubkey_parse S (slice 0 33 b) = Some R /\
      sigr = be_val (slice 1 32 b) mod cn S /\ sigr <> 0 /\
      eckey_pubkey_parse S (slice 33 33 b) = Some Rp /\
      sp = be_val (slice 66 32 b) /\ 0 < sp < cn S /\
      e = be_val (slice 98 32 b) mod cn S /\
      s = be_val (slice 130 32 b) mod cn S /\ be_val (slice 130 32 b) < cn S ).
Proof. exact (codec_exact S). Qed.
Print Assumptions codec_exact.

(* decrypt and recover only look at R.x (non-zero mod n, NOT required to be on the curve) and s' *)
Theorem codec_part_exact :
  forall b sigr sp,
    adaptor_sig_deserialize_part S b = Some (sigr, sp) <->
    ( sigr = be_val (slice 1 32 b) mod cn S /\ sigr <> 0 /\ sp = be_val (slice 66 32 b) /\ 0 < sp < cn S ).
Proof. exact (codec_part_exact S). Qed.
Print Assumptions codec_part_exact.

(* a 33-byte point field is accepted exactly when: tag 2 or 3, x < p, x^3 + 7 is a square *)
Theorem point_field_exact :
  forall tag xs R, length xs = 32%nat ->
    (eckey_pubkey_parse S (tag :: xs) = Some R <->
     ((tag = 2 \/ tag = 3) /\ be_val xs < cp S /\ lift_x S (be_val xs) (tag =? 3) = R /\ R <> None)).
Proof. exact (parse33_exact S). Qed.
Print Assumptions point_field_exact.

(* Verification returns 1 exactly when the specification holds: the string deserializes, the DLEQ proof
   verifies for (R', Y, R) and R' = s'^-1 (m*G + R.x*X), not the point at infinity. *)
Theorem verify_eq_spec :
  forall sig162 pkobj msg32 encobj X Y,
    pk_load pkobj = Some X -> pk_load encobj = Some Y ->
    adaptor_verify S sig162 pkobj msg32 encobj =
    [AInt (b2z (adaptor_verify_spec S sig162 X (fst (sc_of_b32 S msg32)) Y))].
Proof. exact (verify_eq_spec S). Qed.
Print Assumptions verify_eq_spec.

Theorem dleq_verify_exact :
  forall s e p1 gen2 p2,
    dleq_verify S s e p1 gen2 p2 = true <->
    (let r1 := padd S (pmul S (sc_neg S e) p1) (pmul S s (G S)) in
     let r2 := padd S (pmul S s gen2) (pmul S (sc_neg S e) p2) in
     r1 <> None /\ r2 <> None /\ sc_add S (dleq_challenge S gen2 r1 r2 p1 p2) (sc_neg S e) = 0).
Proof. exact (dleq_verify_exact S). Qed.
Print Assumptions dleq_verify_exact.

(* named rejections: for ALL other inputs *)
Theorem verify_rejects_zero_sp :
  forall sig162 pkobj msg32 encobj,
    be_val (slice 66 32 sig162) = 0 -> adaptor_verify S sig162 pkobj msg32 encobj = [AInt 0].
Proof. exact (verify_rejects_zero_sp S). Qed.
Print Assumptions verify_rejects_zero_sp.
Theorem verify_rejects_sp_ge_n :
  forall sig162 pkobj msg32 encobj,
    cn S <= be_val (slice 66 32 sig162) -> adaptor_verify S sig162 pkobj msg32 encobj = [AInt 0].
Proof. exact (verify_rejects_sp_ge_n S). Qed.
Print Assumptions verify_rejects_sp_ge_n.
Theorem verify_rejects_dleq_scalar_ge_n :
  forall sig162 pkobj msg32 encobj,
    cn S <= be_val (slice 130 32 sig162) -> adaptor_verify S sig162 pkobj msg32 encobj = [AInt 0].
Proof. exact (verify_rejects_dleq_s_ge_n S). Qed.
Print Assumptions verify_rejects_dleq_scalar_ge_n.
Theorem verify_rejects_zero_sigr :
  forall sig162 pkobj msg32 encobj,
    be_val (slice 1 32 sig162) mod cn S = 0 -> adaptor_verify S sig162 pkobj msg32 encobj = [AInt 0].
Proof. exact (verify_rejects_zero_sigr S). Qed.
Print Assumptions verify_rejects_zero_sigr.
Theorem verify_rejects_invalid_R :
  forall sig162 pkobj msg32 encobj,
    eckey_pubkey_parse S (slice 0 33 sig162) = None -> adaptor_verify S sig162 pkobj msg32 encobj = [AInt 0].
Proof. exact (verify_rejects_invalid_R S). Qed.
Print Assumptions verify_rejects_invalid_R.
Theorem verify_rejects_invalid_Rp :
  forall sig162 pkobj msg32 encobj,
    eckey_pubkey_parse S (slice 33 33 sig162) = None -> adaptor_verify S sig162 pkobj msg32 encobj = [AInt 0].
Proof. exact (verify_rejects_invalid_Rp S). Qed.
Print Assumptions verify_rejects_invalid_Rp.
Theorem point_field_rejects :
  forall tag xs, length xs = 32%nat ->
    (tag <> 2 /\ tag <> 3) \/ cp S <= be_val xs \/ lift_x S (be_val xs) (tag =? 3) = None ->
    eckey_pubkey_parse S (tag :: xs) = None.
Proof. exact (parse33_rejects S). Qed.
Print Assumptions point_field_rejects.
Theorem verify_rejects_bad_dleq :
  forall sig162 pkobj msg32 encobj R sigr Rp sp e s Y,
    adaptor_sig_deserialize_full S sig162 = Some (R, sigr, Rp, sp, e, s) ->
    pk_load encobj = Some Y -> dleq_verify S s e Rp Y R = false ->
    adaptor_verify S sig162 pkobj msg32 encobj = [AInt 0].
Proof. exact (verify_rejects_bad_dleq S). Qed.
Print Assumptions verify_rejects_bad_dleq.
(* an encryption key object that does not load is reported (one callback) only for well-formed strings *)
Theorem verify_bad_enckey :
  forall sig162 pkobj msg32 encobj,
    pk_load encobj = None ->
    adaptor_verify S sig162 pkobj msg32 encobj =
    match adaptor_sig_deserialize_full S sig162 with None => [AInt 0] | Some _ => [AInt 0; AIll 1] end.
Proof. exact (verify_bad_enckey S). Qed.
Print Assumptions verify_bad_enckey.

(* decrypt: failure always leaves an all-zero signature object; named causes of failure; low-S output *)
Theorem decrypt_failure_zeroes :
  forall deckey32 sig162,
    adaptor_decrypt S deckey32 sig162 = [AInt 0; ABytes (zeros 64)] \/
    exists sigr s, adaptor_decrypt S deckey32 sig162 = [AInt 1; ABytes (sig_obj sigr s)].
Proof. exact (decrypt_failure_zeroes S). Qed.
Print Assumptions decrypt_failure_zeroes.
Theorem decrypt_rejects_zero_deckey :
  forall deckey32 sig162, be_val deckey32 mod cn S = 0 -> adaptor_decrypt S deckey32 sig162 = [AInt 0; ABytes (zeros 64)].
Proof. exact (decrypt_rejects_zero_deckey S). Qed.
Print Assumptions decrypt_rejects_zero_deckey.
Theorem decrypt_rejects_deckey_ge_n :
  forall deckey32 sig162, cn S <= be_val deckey32 -> adaptor_decrypt S deckey32 sig162 = [AInt 0; ABytes (zeros 64)].
Proof. exact (decrypt_rejects_deckey_ge_n S). Qed.
Print Assumptions decrypt_rejects_deckey_ge_n.
Theorem decrypt_rejects_bad_sig :
  forall deckey32 sig162, adaptor_sig_deserialize_part S sig162 = None ->
    adaptor_decrypt S deckey32 sig162 = [AInt 0; ABytes (zeros 64)].
Proof. exact (decrypt_rejects_bad_sig S). Qed.
Print Assumptions decrypt_rejects_bad_sig.
Theorem decrypt_success_low_s :
  forall deckey32 sig162 sigr sp,
    adaptor_sig_deserialize_part S sig162 = Some (sigr, sp) ->
    be_val deckey32 < cn S -> be_val deckey32 mod cn S <> 0 ->
    let s0 := sc_mul S (sc_inv S (be_val deckey32 mod cn S)) sp in
    let s := if sc_is_high S s0 then sc_neg S s0 else s0 in
    adaptor_decrypt S deckey32 sig162 = [AInt 1; ABytes (sig_obj sigr s)] /\ sc_is_high S s = false.
Proof.
  intros. split; [exact (decrypt_success S deckey32 sig162 sigr sp H H0 H1)|exact (low_s_normalised S eq_refl _ _)].
Qed.
Print Assumptions decrypt_success_low_s.

(* recover: r mismatch => 0, whatever the other inputs; s = 0 => 0; wrong encryption key => 0 *)
Theorem recover_rejects_unrelated :
  forall sigobj sig162 encobj,
    be_val (slice 1 32 sig162) mod cn S <> be_val (firstn 32 sigobj) mod cn S ->
    ret_of (adaptor_recover S sigobj sig162 encobj) = 0.
Proof. exact (recover_rejects_unrelated S). Qed.
Print Assumptions recover_rejects_unrelated.
Theorem recover_rejects_zero_s :
  forall sigobj sig162 encobj,
    be_val (skipn 32 sigobj) mod cn S = 0 -> ret_of (adaptor_recover S sigobj sig162 encobj) = 0.
Proof. exact (recover_rejects_zero_s S). Qed.
Print Assumptions recover_rejects_zero_s.
Theorem recover_rejects_wrong_enckey :
  forall sigobj sig162 encobj sigr sp Y,
    adaptor_sig_deserialize_part S sig162 = Some (sigr, sp) -> pk_load encobj = Some Y ->
    px (pmul S (sc_mul S (sc_inv S (be_val (skipn 32 sigobj) mod cn S)) sp) (G S)) <> px Y ->
    adaptor_recover S sigobj sig162 encobj = [AInt 0].
Proof. exact (recover_rejects_wrong_enckey S). Qed.
Print Assumptions recover_rejects_wrong_enckey.
Theorem recover_success_form :
  forall sigobj sig162 encobj dk,
    adaptor_recover S sigobj sig162 encobj = [AInt 1; ABytes dk] ->
    exists sigr sp Y,
      adaptor_sig_deserialize_part S sig162 = Some (sigr, sp) /\ pk_load encobj = Some Y /\
      sigr = be_val (firstn 32 sigobj) mod cn S /\ be_val (skipn 32 sigobj) mod cn S <> 0 /\
      let y := sc_mul S (sc_inv S (be_val (skipn 32 sigobj) mod cn S)) sp in
      px (pmul S y (G S)) = px Y /\
      dk = sc_to_b32 (if Bool.eqb (Z.odd (py (pmul S y (G S)))) (Z.odd (py Y)) then y else sc_neg S y).
Proof. exact (recover_success_form S). Qed.
Print Assumptions recover_success_form.

(* encrypt: after the argument checks every failure leaves 162 zero bytes; named causes *)
Theorem encrypt_failure_zeroes :
  forall kind seckey32 encobj msg32 ndata,
    adaptor_encrypt S kind seckey32 encobj msg32 ndata = [AInt 0; AIll 1] /\ pk_load encobj = None \/
    adaptor_encrypt S kind seckey32 encobj msg32 ndata = [AInt 0; ABytes (zeros 162)] \/
    exists sig, adaptor_encrypt S kind seckey32 encobj msg32 ndata = [AInt 1; ABytes sig] /\ length sig = 162%nat.
Proof. exact (encrypt_failure_zeroes S). Qed.
Print Assumptions encrypt_failure_zeroes.
Theorem encrypt_rejects_invalid_seckey :
  forall kind seckey32 encobj msg32 ndata,
    seckey_of_b32 S seckey32 = None -> ret_of (adaptor_encrypt S kind seckey32 encobj msg32 ndata) = 0.
Proof. exact (encrypt_rejects_invalid_seckey S). Qed.
Print Assumptions encrypt_rejects_invalid_seckey.
Theorem encrypt_rejects_failing_nonce_fn :
  forall kind seckey32 encobj msg32 ndata Y,
    pk_load encobj = Some Y ->
    adaptor_nonce_fn kind msg32 seckey32 (ser33 Y) tag_adaptor_non ndata = None ->
    adaptor_encrypt S kind seckey32 encobj msg32 ndata = [AInt 0; ABytes (zeros 162)].
Proof. exact (encrypt_rejects_failing_nonce_fn S). Qed.
Print Assumptions encrypt_rejects_failing_nonce_fn.
Theorem encrypt_rejects_zero_nonce :
  forall kind seckey32 encobj msg32 ndata Y nb,
    pk_load encobj = Some Y ->
    adaptor_nonce_fn kind msg32 seckey32 (ser33 Y) tag_adaptor_non ndata = Some nb ->
    be_val nb mod cn S = 0 ->
    adaptor_encrypt S kind seckey32 encobj msg32 ndata = [AInt 0; ABytes (zeros 162)].
Proof. exact (encrypt_rejects_zero_nonce S). Qed.
Print Assumptions encrypt_rejects_zero_nonce.

(* ---- completeness, under the mathematical premises about the curve (explicit hypotheses, not axioms) ---- *)
(* [MF] An honest DLEQ proof verifies: for a base Y of order dividing n, witness sk and nonce k. *)
Theorem dleq_complete :
  MathFacts S ->
  forall Y sk k,
    ordn S Y -> 0 <= sk < cn S -> 0 <= k < cn S ->
    pmul S k (G S) <> None -> pmul S k Y <> None ->
    let P1 := pmul S sk (G S) in let P2 := pmul S sk Y in
    let e := dleq_challenge S Y (pmul S k (G S)) (pmul S k Y) P1 P2 in
    let s := sc_add S (sc_mul S e sk) k in
    dleq_verify S s e P1 Y P2 = true.
Proof. intros MF. exact (dleq_complete S MF). Qed.
Print Assumptions dleq_complete.

(* [MF, InvFacts] encrypt => verify, partial: what encrypt outputs satisfies the verification specification for the
   signer's public key d*G, the same message and encryption key - PROVIDED the 162 bytes deserialize to the values
   that were serialized.  Missing for the full statement: the byte round trip of the two compressed points
   (parse (ser33 R) = R needs Euler's criterion for p, not part of MathFacts).  Y must have order dividing n
   (true for every point of the real curve, cofactor 1 - a premise here, see DESIGN.md 2.4). *)
Theorem encrypt_verifies_partial :
  MathFacts S -> InvFacts S ->
  forall kind seckey32 encobj msg32 ndata sig Y d,
    pk_load encobj = Some Y -> ordn S Y -> seckey_of_b32 S seckey32 = Some d ->
    adaptor_encrypt S kind seckey32 encobj msg32 ndata = [AInt 1; ABytes sig] ->
    exists R Rp sp e s,
      sig = adaptor_sig_serialize R Rp sp e s /\
      (adaptor_sig_deserialize_full S sig = Some (R, fst (sc_of_b32 S (fe_to_b32 (px R))), Rp, sp, e, s) ->
       adaptor_verify_spec S sig (pmul S d (G S)) (fst (sc_of_b32 S msg32)) Y = true).
Proof. intros MF IF. exact (encrypt_verifies_partial S MF IF). Qed.
Print Assumptions encrypt_verifies_partial.

(* [MF, InvFacts] decrypt then recover - from the signature AND from its negated-s twin - returns exactly the
   decryption key; the decrypted signature is low-S.  For every string whose R.x and s' fields are in range, every
   decryption key y in [1, n), encryption key object holding y*G. *)
Theorem recover_decrypt :
  MathFacts S -> InvFacts S ->
  forall deckey32 sig162 encobj sigr sp,
    adaptor_sig_deserialize_part S sig162 = Some (sigr, sp) ->
    0 < be_val deckey32 < cn S -> pk_load encobj = Some (pmul S (be_val deckey32) (G S)) ->
    exists s, adaptor_decrypt S deckey32 sig162 = [AInt 1; ABytes (sig_obj sigr s)] /\ sc_is_high S s = false /\
      adaptor_recover S (sig_obj sigr s) sig162 encobj = [AInt 1; ABytes (sc_to_b32 (be_val deckey32))] /\
      adaptor_recover S (sig_obj sigr (sc_neg S s)) sig162 encobj = [AInt 1; ABytes (sc_to_b32 (be_val deckey32))].
Proof. intros MF IF. exact (recover_decrypt S MF IF secp_n_lt_2_256 eq_refl). Qed.
Print Assumptions recover_decrypt.

(* the premises are satisfiable: on the toy curve y^2 = x^3 + 7 over F_43 (group order 31) they are PROVED, and the
   theorems hold there unconditionally *)
Example premises_satisfiable : MathFacts toy /\ InvFacts toy.
Proof. exact (conj toy_MathFacts toy_InvFacts). Qed.
Example recover_decrypt_toy :
  forall deckey32 sig162 encobj sigr sp,
    adaptor_sig_deserialize_part toy sig162 = Some (sigr, sp) ->
    0 < be_val deckey32 < cn toy -> pk_load encobj = Some (pmul toy (be_val deckey32) (G toy)) ->
    exists s, adaptor_decrypt toy deckey32 sig162 = [AInt 1; ABytes (sig_obj sigr s)] /\ sc_is_high toy s = false /\
      adaptor_recover toy (sig_obj sigr s) sig162 encobj = [AInt 1; ABytes (sc_to_b32 (be_val deckey32))] /\
      adaptor_recover toy (sig_obj sigr (sc_neg toy s)) sig162 encobj = [AInt 1; ABytes (sc_to_b32 (be_val deckey32))].
Proof. exact (AdaptorComplete.recover_decrypt toy toy_MathFacts toy_InvFacts eq_refl eq_refl). Qed.
Example encrypt_verifies_toy :
  forall kind seckey32 encobj msg32 ndata sig Y d,
    pk_load encobj = Some Y -> ordn toy Y -> seckey_of_b32 toy seckey32 = Some d ->
    adaptor_encrypt toy kind seckey32 encobj msg32 ndata = [AInt 1; ABytes sig] ->
    exists R Rp sp e s,
      sig = adaptor_sig_serialize R Rp sp e s /\
      (adaptor_sig_deserialize_full toy sig = Some (R, fst (sc_of_b32 toy (fe_to_b32 (px R))), Rp, sp, e, s) ->
       adaptor_verify_spec toy sig (pmul toy d (G toy)) (fst (sc_of_b32 toy msg32)) Y = true).
Proof. exact (AdaptorComplete.encrypt_verifies_partial toy toy_MathFacts toy_InvFacts). Qed.
