(* C04 - Secret-key and public-key operations commute; exact failure cases; comparison and sorting.
   Statements only; proofs in Proofs/KeysProofs.v.  Model: Model/Keys.v - tied to the C code by ./check C04. *)
From Coq Require Import ZArith List Bool Lia Permutation Sorted.
Require Import Spec.Params Spec.Field Spec.Curve Spec.Bytes.
Require Import Model.Base Model.Keys.
Require Import Proofs.MathFacts Proofs.KeysProofs Proofs.SecpConsts Proofs.Toy.
Import ListNotations.
Local Open Scope Z_scope.
Notation S := secp256k1.
Notation n := (cn secp256k1).

(* Every operation succeeds exactly under its documented conditions and otherwise returns 0 with an all-zero
   output: invalid key (0 or >= n), tweak >= n, zero multiplicative tweak, result zero / point at infinity. *)
Theorem pubkey_create_exact : forall seckey,
  ec_pubkey_create S seckey =
    if validb S seckey then [AInt 1; ABytes (pk_obj (pmul S (be_val seckey) (G S)))] else [AInt 0; ABytes pk_obj_zero].
Proof. exact (pubkey_create_exact S). Qed.
Print Assumptions pubkey_create_exact.
Theorem seckey_negate_exact : forall seckey,
  ec_seckey_negate S seckey =
    if validb S seckey then [AInt 1; ABytes (sc_to_b32 ((- be_val seckey) mod n))] else [AInt 0; ABytes (zeros 32)].
Proof. exact (seckey_negate_exact S). Qed.
Print Assumptions seckey_negate_exact.
Theorem seckey_tweak_add_exact : forall seckey tweak,
  let d := be_val seckey in let t := be_val tweak in
  ec_seckey_tweak_add S seckey tweak =
    if validb S seckey && (t <? n) && negb ((d + t) mod n =? 0)
    then [AInt 1; ABytes (sc_to_b32 ((d + t) mod n))] else [AInt 0; ABytes (zeros 32)].
Proof. exact (seckey_tweak_add_exact S). Qed.
Print Assumptions seckey_tweak_add_exact.
Theorem seckey_tweak_mul_exact : forall seckey tweak,
  let d := be_val seckey in let t := be_val tweak in
  ec_seckey_tweak_mul S seckey tweak =
    if validb S seckey && (t <? n) && negb (t mod n =? 0)
    then [AInt 1; ABytes (sc_to_b32 ((d * (t mod n)) mod n))] else [AInt 0; ABytes (zeros 32)].
Proof. exact (seckey_tweak_mul_exact S). Qed.
Print Assumptions seckey_tweak_mul_exact.
Theorem pubkey_tweak_add_exact : forall obj tweak Q, pk_load obj = Some Q ->
  let t := be_val tweak in
  ec_pubkey_tweak_add S obj tweak =
    if t <? n then match padd S Q (pmul S (t mod n) (G S)) with
                   | None => [AInt 0; ABytes pk_obj_zero] | R => [AInt 1; ABytes (pk_obj R)] end
    else [AInt 0; ABytes pk_obj_zero].
Proof. exact (pubkey_tweak_add_exact S). Qed.
Print Assumptions pubkey_tweak_add_exact.
Theorem pubkey_tweak_mul_exact : forall obj tweak Q, pk_load obj = Some Q ->
  let t := be_val tweak in
  ec_pubkey_tweak_mul S obj tweak =
    if (t <? n) && negb (t mod n =? 0) then [AInt 1; ABytes (pk_obj (pmul S (t mod n) Q))] else [AInt 0; ABytes pk_obj_zero].
Proof. exact (pubkey_tweak_mul_exact S). Qed.
Print Assumptions pubkey_tweak_mul_exact.
Theorem pubkey_combine_exact : forall objs, objs <> [] ->
  ec_pubkey_combine S objs =
    match psum S (map (fun o => match pk_load o with Some Q => Q | None => None end) objs) with
    | None => [AInt 0; ABytes pk_obj_zero] | R => [AInt 1; ABytes (pk_obj R)] end.
Proof. exact (pubkey_combine_exact S). Qed.
Print Assumptions pubkey_combine_exact.

(* Comparison is the lexicographic order of compressed encodings; sorting returns a sorted permutation, for every length. *)
Theorem pubkey_cmp_is_lex_of_compressed : forall o1 o2 Q1 Q2, pk_load o1 = Some Q1 -> pk_load o2 = Some Q2 ->
  ec_pubkey_cmp o1 o2 = [AInt (bytes_cmp (ser33 Q1) (ser33 Q2))].
Proof. exact pubkey_cmp_exact. Qed.
Print Assumptions pubkey_cmp_is_lex_of_compressed.
Theorem sort_sorted_perm : forall l, Permutation (sort_objs l) l /\ Sorted key_le (sort_objs l).
Proof. intros l. split; [exact (sort_perm l)|exact (sort_sorted l)]. Qed.
Print Assumptions sort_sorted_perm.

(* [MF] Deriving the public key commutes with negation, additive and multiplicative tweaking. *)
Theorem create_commutes_with_tweaks :
  MathFacts S -> forall d t, 0 < d < n -> 0 <= t < n ->
    pmul S (madd n d t) (G S) = padd S (pmul S d (G S)) (pmul S t (G S)) /\
    pmul S (mmul n d t) (G S) = pmul S t (pmul S d (G S)) /\
    pmul S (mneg n d) (G S) = pneg S (pmul S d (G S)).
Proof.
  intros MF d t Hd Ht. split; [exact (create_tweak_add_commutes S MF d t Hd Ht)|split;
    [exact (create_tweak_mul_commutes S MF d t Hd Ht)|exact (create_negate_commutes S MF d Hd)]].
Qed.
Print Assumptions create_commutes_with_tweaks.

(* non-vacuity on the toy curve where MathFacts is proved *)
Example create_commutes_toy : pmul toy (madd 31 5 9) (G toy) = padd toy (pmul toy 5 (G toy)) (pmul toy 9 (G toy)).
Proof. exact (create_tweak_add_commutes toy toy_MathFacts 5 9 ltac:(simpl; lia) ltac:(simpl; lia)). Qed.
