(* C09 - stub, replaced once Proofs/RangeproofProofs.v is in place *)
From Coq Require Import ZArith.
Theorem c09_stub : (0 = 0)%Z. Proof. exact eq_refl. Qed.
Print Assumptions c09_stub.
