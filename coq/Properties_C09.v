(* C09 - every range proof the library creates verifies, bounds the value and rewinds.
   Only statements here; proofs are in Proofs/RangeproofProofs.v.  These theorems cover the PARAMETER
   LOGIC of proof creation for all 64-bit inputs (where a boundary slip would hide from a sweep); that
   created proofs verify and rewind is compared and asserted case by case by ./check C09 (it needs the
   completeness of Borromean ring signatures, which is not proved here). *)
From Coq Require Import ZArith List Bool Lia.
Require Import Spec.Params Spec.Field Spec.Curve Spec.Bytes.
Require Import Model.Base Model.Pedersen Model.Borromean Model.Rangeproof.
Require Import Proofs.BytesLemmas Proofs.RangeproofProofs.
Import ListNotations.
Local Open Scope Z_scope.
Notation S := secp256k1.

(* success of range_proveparams, for all value, min_value in [0,2^64), exp in [-1,18], min_bits in [0,64] *)
Theorem proveparams_sound :
  forall min_value exp min_bits value pp,
    0 <= min_value <= value -> value <= U64MAX -> -1 <= exp <= 18 -> 0 <= min_bits <= 64 ->
    range_proveparams min_value exp min_bits value = Some pp ->
    pp_v pp * pp_scale pp + pp_min_value pp = value /\
    0 <= pp_v pp /\ min_value <= pp_min_value pp <= value /\
    1 <= pp_rings pp <= 32 /\ 0 <= pp_npub pp <= 128 /\
    length (pp_rsizes pp) = Z.to_nat (pp_rings pp) /\ length (pp_secidx pp) = Z.to_nat (pp_rings pp) /\
    ((pp_mantissa pp = 0 /\ pp_v pp = 0 /\ pp_scale pp = 1 /\ pp_exp pp = 0 /\ pp_rsizes pp = [1%nat]) \/
     (1 <= pp_mantissa pp <= 64 /\ pp_v pp < 2 ^ pp_mantissa pp /\
      0 <= pp_exp pp <= 18 /\ pp_exp pp <= Z.max 0 exp /\ pp_scale pp = 10 ^ pp_exp pp /\
      pp_rings pp = (pp_mantissa pp + 1) / 2 /\ 0 <= pp_min_bits pp <= min_bits /\ pp_min_bits pp <= pp_mantissa pp)).
Proof. exact proveparams_sound. Qed.
Print Assumptions proveparams_sound.

(* it fails exactly for the documented-invalid combination: value (resp. min_value) above 2^63-1 with the other non-zero *)
Theorem proveparams_fails_iff :
  forall min_value exp min_bits value,
    range_proveparams min_value exp min_bits value = None <->
    (min_value <> U64MAX /\ 0 <= exp /\
     ((min_value <> 0 /\ INT64MAX < value) \/ (value <> 0 /\ INT64MAX <= min_value))).
Proof. exact proveparams_fails_iff. Qed.
Print Assumptions proveparams_fails_iff.

(* outside the documented domain (incl. exp = -2, 19 and min_bits = -1, 65) signing returns 0 at once *)
Theorem sign_param_gate :
  forall plen min_value commit blind nonce exp min_bits value message extra genp,
    plen < 65 \/ value < min_value \/ 64 < min_bits \/ min_bits < 0 \/ exp < -1 \/ 18 < exp ->
    rangeproof_sign_impl S plen min_value commit blind nonce exp min_bits value message extra genp = RFail.
Proof. exact (sign_param_gate S). Qed.
Print Assumptions sign_param_gate.

(* a blinding factor >= n never yields a proof *)
Theorem sign_rejects_blind_overflow :
  forall plen min_value commit blind nonce exp min_bits value message extra genp proof,
    cn S <= be_val blind ->
    rangeproof_sign_impl S plen min_value commit blind nonce exp min_bits value message extra genp <> ROk proof.
Proof. exact (sign_rejects_blind_overflow S). Qed.
Print Assumptions sign_rejects_blind_overflow.

(* a proof is only produced when the message fits into 128*(rings-1) bytes and the buffer holds the computed need *)
Theorem sign_needs_room :
  forall plen min_value commit blind nonce exp min_bits value message extra genp proof,
    rangeproof_sign_impl S plen min_value commit blind nonce exp min_bits value message extra genp = ROk proof ->
    exists pp, range_proveparams min_value exp min_bits value = Some pp /\
      Z.of_nat (length (match message with Some m => m | None => [] end)) <= Z.max 0 (128 * (pp_rings pp - 1)) /\
      Z.of_nat (length (header_bytes pp)) + 32 * (pp_npub pp + pp_rings pp - 1) + 32 + Z.shiftr (pp_rings pp + 6) 3 <= plen.
Proof. exact (sign_result_length S). Qed.
Print Assumptions sign_needs_room.

(* the advertised maximum size never exceeds 5134 bytes *)
Theorem max_size_bound :
  forall max_value min_bits, 0 <= max_value < 2 ^ 64 -> min_bits <= 64 ->
    0 <= rangeproof_max_size max_value min_bits <= 5134.
Proof. exact max_size_bound. Qed.
Print Assumptions max_size_bound.

(* non-vacuity: a concrete successful parameter derivation (value 86, min_value 10, exp 1, min_bits 5) *)
Example proveparams_example :
  exists pp, range_proveparams 10 1 5 86 = Some pp /\ pp_v pp = 7 /\ pp_scale pp = 10 /\ pp_min_value pp = 16 /\ pp_mantissa pp = 5.
Proof. eexists. split; [vm_compute; reflexivity|]. repeat split. Qed.
