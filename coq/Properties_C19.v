(* C19 - Bulletproofs++ norm argument and generators (DESIGN.md section 5, C19).
   Statements only; proofs are in Proofs/BpppProofs.v.  [rounds_of g cv] is
   max (log2 g) (log2 (length cv)); [needed_scratch g h] = 32 * (rounds + g + h + log2 g). *)
From Coq Require Import ZArith List Bool.
Require Import Spec.Params Spec.Field Spec.Curve Spec.Bytes Spec.Sha256 Model.Base Model.Bppp Proofs.BpppProofs.
Import ListNotations.
Local Open Scope Z_scope.

Theorem verify_eq_spec : forall P sm proof tr rho gens g cv C,
  norm_verify P sm proof tr rho gens g cv C = true <->
  exists nn ll lg nr xr,
    verify_pre P sm proof rho (Z.of_nat (length gens)) g (Z.of_nat (length cv)) = Some (nn, ll, lg, nr) /\
    verify_points P proof (Z.to_nat nr) = Some xr /\
    verify_equation P proof tr rho gens cv C nn ll lg nr xr = true.
Proof. exact BpppProofs.verify_eq_spec. Qed.
Print Assumptions verify_eq_spec.

Theorem verify_rejects_length : forall P sm proof tr rho gens g cv C,
  Z.of_nat (length proof) <> 65 * rounds_of g cv + 64 ->
  norm_verify P sm proof tr rho gens g cv C = false.
Proof. exact BpppProofs.verify_rejects_length. Qed.
Print Assumptions verify_rejects_length.

Theorem verify_rejects_empty : forall P sm proof tr rho gens g cv C,
  g = 0 \/ cv = [] -> norm_verify P sm proof tr rho gens g cv C = false.
Proof. exact BpppProofs.verify_rejects_empty. Qed.
Print Assumptions verify_rejects_empty.

Theorem verify_rejects_non_pow2 : forall P sm proof tr rho gens g cv C,
  (~ exists k, 0 <= k /\ g = 2 ^ k) \/ (~ exists k, 0 <= k /\ Z.of_nat (length cv) = 2 ^ k) ->
  norm_verify P sm proof tr rho gens g cv C = false.
Proof. exact BpppProofs.verify_rejects_non_pow2. Qed.
Print Assumptions verify_rejects_non_pow2.

Theorem verify_rejects_gen_count : forall P sm proof tr rho gens g cv C,
  Z.of_nat (length gens) <> g + Z.of_nat (length cv) ->
  norm_verify P sm proof tr rho gens g cv C = false.
Proof. exact BpppProofs.verify_rejects_gen_count. Qed.
Print Assumptions verify_rejects_gen_count.

Theorem verify_rejects_rho_zero : forall P sm proof tr gens g cv C,
  norm_verify P sm proof tr 0 gens g cv C = false.
Proof. exact BpppProofs.verify_rejects_rho_zero. Qed.
Print Assumptions verify_rejects_rho_zero.

Theorem verify_rejects_scalar_ge_n : forall P sm proof tr rho gens g cv C,
  cn P <= be_val (slice (Z.to_nat (65 * rounds_of g cv)) 32 proof) \/
  cn P <= be_val (slice (Z.to_nat (65 * rounds_of g cv + 32)) 32 proof) ->
  norm_verify P sm proof tr rho gens g cv C = false.
Proof. exact BpppProofs.verify_rejects_scalar_ge_n. Qed.
Print Assumptions verify_rejects_scalar_ge_n.

Theorem verify_rejects_bad_point : forall P sm proof tr rho gens g cv C i idx,
  0 <= i < rounds_of g cv ->
  parse_one_of_points P (slice (65 * Z.to_nat i) 65 proof) idx = None ->
  norm_verify P sm proof tr rho gens g cv C = false.
Proof. exact BpppProofs.verify_rejects_bad_point. Qed.
Print Assumptions verify_rejects_bad_point.

Theorem verify_rejects_sign_byte_gt_3 : forall P sm proof tr rho gens g cv C i,
  0 <= i < rounds_of g cv ->
  3 < nth (65 * Z.to_nat i) proof 0 ->
  norm_verify P sm proof tr rho gens g cv C = false.
Proof. exact BpppProofs.verify_rejects_sign_byte_gt_3. Qed.
Print Assumptions verify_rejects_sign_byte_gt_3.

Theorem verify_rejects_infinity_with_sign : forall P sm proof tr rho gens g cv C i idx,
  0 <= i < rounds_of g cv ->
  let in65 := slice (65 * Z.to_nat i) 65 proof in
  let j := if idx =? 0 then 0 else 1 in
  is_zero_bytes (slice (Z.to_nat (1 + 32 * j)) 32 in65) = true ->
  Z.land (hd 0 in65) (2 - j) <> 0 ->
  norm_verify P sm proof tr rho gens g cv C = false.
Proof. exact BpppProofs.verify_rejects_infinity_with_sign. Qed.
Print Assumptions verify_rejects_infinity_with_sign.

Theorem verify_rejects_small_scratch : forall P sm proof tr rho gens g cv C,
  sm < needed_scratch g (Z.of_nat (length cv)) ->
  norm_verify P sm proof tr rho gens g cv C = false.
Proof. exact BpppProofs.verify_rejects_small_scratch. Qed.
Print Assumptions verify_rejects_small_scratch.

Theorem verify_scratch_irrelevant : forall P sm sm' proof tr rho gens g cv C,
  needed_scratch g (Z.of_nat (length cv)) <= sm -> needed_scratch g (Z.of_nat (length cv)) <= sm' ->
  norm_verify P sm proof tr rho gens g cv C = norm_verify P sm' proof tr rho gens g cv C.
Proof. exact BpppProofs.verify_scratch_irrelevant. Qed.
Print Assumptions verify_scratch_irrelevant.

Theorem is_pow2_spec : forall x, is_pow2 x = true <-> exists k, 0 <= k /\ x = 2 ^ k.
Proof. exact BpppProofs.is_pow2_spec. Qed.
Print Assumptions is_pow2_spec.

Theorem log2_pow2 : forall k, 0 <= k -> bppp_log2 (2 ^ k) = k.
Proof. exact BpppProofs.log2_pow2. Qed.
Print Assumptions log2_pow2.

Theorem points_codec : forall P X R,
  codec_wf X -> codec_wf R ->
  parse_one_of_points P (serialize_points X R) 0 = ge_parse_ext P (ge_serialize_ext X) /\
  parse_one_of_points P (serialize_points X R) 1 = ge_parse_ext P (ge_serialize_ext R).
Proof. exact BpppProofs.points_codec. Qed.
Print Assumptions points_codec.

Theorem serialize_points_length : forall X R, length (serialize_points X R) = 65%nat.
Proof. exact BpppProofs.serialize_points_length. Qed.
Print Assumptions serialize_points_length.

Theorem serialize_points_sign_le_3 : forall X R, 0 <= hd 0 (serialize_points X R) <= 3.
Proof. exact BpppProofs.serialize_points_sign_le_3. Qed.
Print Assumptions serialize_points_sign_le_3.

Theorem parse_sign_byte_gt_3 : forall P in65 idx, 3 < hd 0 in65 -> parse_one_of_points P in65 idx = None.
Proof. exact BpppProofs.parse_sign_byte_gt_3. Qed.
Print Assumptions parse_sign_byte_gt_3.

Theorem parse_infinity_with_sign : forall P in65 idx,
  let i := if idx =? 0 then 0 else 1 in
  is_zero_bytes (slice (Z.to_nat (1 + 32 * i)) 32 in65) = true ->
  Z.land (hd 0 in65) (2 - i) <> 0 ->
  parse_one_of_points P in65 idx = None.
Proof. exact BpppProofs.parse_infinity_with_sign. Qed.
Print Assumptions parse_infinity_with_sign.

Theorem generators_prefix_consistent : forall P m k,
  (m <= k)%nat -> firstn m (gens_create P k) = gens_create P m.
Proof. exact BpppProofs.generators_prefix_consistent. Qed.
Print Assumptions generators_prefix_consistent.

Theorem generators_prefix_consistent_api : forall P m k l,
  (m <= k)%nat -> sequence (gens_create P k) = Some l ->
  sequence (gens_create P m) = Some (firstn m l).
Proof. exact BpppProofs.generators_prefix_consistent_api. Qed.
Print Assumptions generators_prefix_consistent_api.

Theorem gens_serialize_prefix : forall P m l,
  gens_serialize P (firstn m l) = firstn (33 * m) (gens_serialize P l).
Proof. exact BpppProofs.gens_serialize_prefix. Qed.
Print Assumptions gens_serialize_prefix.

Theorem generators_roundtrip_partial : forall P l,
  (forall Q, In Q l -> bp_gen_parse1 P (bp_gen_ser1 P Q) = Some Q) ->
  gens_parse P (gens_serialize P l) = (Some l, 2).
Proof. exact BpppProofs.generators_roundtrip_partial. Qed.
Print Assumptions generators_roundtrip_partial.

Theorem parse_rejects_malformed_without_leak : forall P data,
  fst (gens_parse P data) = None -> snd (gens_parse P data) = 0.
Proof. exact BpppProofs.parse_rejects_malformed_without_leak. Qed.
Print Assumptions parse_rejects_malformed_without_leak.

Theorem parse_rejects_bad_length : forall P data,
  Z.of_nat (length data) mod 33 <> 0 -> gens_parse P data = (None, 0).
Proof. exact BpppProofs.parse_rejects_bad_length. Qed.
Print Assumptions parse_rejects_bad_length.

Theorem parse_rejects_bad_member : forall P data i,
  (i < length (chunks 33 data))%nat ->
  bp_gen_parse1 P (nth i (chunks 33 data) []) = None ->
  fst (gens_parse P data) = None.
Proof. exact BpppProofs.parse_rejects_bad_member. Qed.
Print Assumptions parse_rejects_bad_member.

Theorem prove_length : forall P tr rho gens nv lv cv pf,
  is_pow2 (Z.of_nat (length nv)) = true -> is_pow2 (Z.of_nat (length lv)) = true ->
  norm_prove P tr rho gens nv lv cv = Some pf ->
  Z.of_nat (length pf) = 65 * Z.max (Z.log2 (Z.of_nat (length nv))) (Z.log2 (Z.of_nat (length lv))) + 64.
Proof. exact BpppProofs.prove_length. Qed.
Print Assumptions prove_length.

Theorem prove_total : forall P tr rho gens nv lv cv,
  is_pow2 (Z.of_nat (length nv)) = true -> is_pow2 (Z.of_nat (length lv)) = true ->
  exists pf, norm_prove P tr rho gens nv lv cv = Some pf.
Proof. exact BpppProofs.prove_total. Qed.
Print Assumptions prove_total.
