(* C18 - ECDH and ElligatorSwift.  Theorems only; proofs are in Proofs/EllswiftProofs.v.
   Models: Model/Ecdh.v, Model/Ellswift.v.
   Proved without any fact about the field or the group: the exact failure set and failure masking of
   secp256k1_ecdh and secp256k1_ellswift_xdh for EVERY hash function; a decoded point is on the curve; an
   encoding that the model outputs decodes back to the key; create fails exactly for an invalid secret;
   structure of the inverse map and of the encoding search.
   Theorems named _partial lack one ingredient that needs p prime + field reasoning: that the model's
   run-time checks (#-96) never fire, i.e. one of x1,x2,x3 is always on the curve and every t returned by
   the inverse map decodes back to x.  Those two facts are covered by the correspondence only. *)
From Coq Require Import ZArith List Bool.
Require Import Spec.Params Spec.Field Spec.Curve Spec.Bytes Spec.Sha256 Model.Base Model.Ecdh Model.Ellswift Proofs.EllswiftProofs.
Require Import Proofs.MathFacts Proofs.EcdhComplete.
Import ListNotations.
Local Open Scope Z_scope.

(* secp256k1_ecdh, any hash function h (h returns (return value, bytes written)):
   1 <= secret < n: output = h(x, y of secret*Q), return value = (h returned non-zero);
   secret = 0 or >= n: return 0, and what is left in output is h applied to 1*Q (scalar replaced by one) *)
Theorem ecdh_exact : forall P, 0 < cn P -> forall (h : ecdh_hashfn) obj seckey Q,
  pk_load obj = Some Q ->
  let v := be_val seckey in
  (1 <= v < cn P ->
     let R := pmul P v Q in
     let hr := h (fe_to_b32 (px R)) (fe_to_b32 (py R)) in
     ecdh P h obj seckey = [AInt (b2z (negb (fst hr =? 0))); ABytes (snd hr)])
  /\ (v = 0 \/ cn P <= v ->
     ecdh P h obj seckey = [AInt 0; ABytes (snd (h (fe_to_b32 (px Q)) (fe_to_b32 (py Q))))]).
Proof. exact ecdh_exact. Qed.
Print Assumptions ecdh_exact.

Theorem ecdh_default_exact : forall P, 0 < cn P -> forall obj seckey Q,
  pk_load obj = Some Q ->
  let v := be_val seckey in 0 <= v ->
  exists out, ecdh P ecdh_hash_sha256 obj seckey = [AInt (b2z ((1 <=? v) && (v <? cn P))); ABytes out] /\
    (1 <= v < cn P -> let R := pmul P v Q in
       out = sha256 (Z.lor (Z.land (last (fe_to_b32 (py R)) 0) 1) 2 :: fe_to_b32 (px R))).
Proof. exact ecdh_default_exact. Qed.
Print Assumptions ecdh_default_exact.

(* secp256k1_ellswift_xdh: the remote string is ell_a for party <> 0 and ell_b for party = 0; same masking *)
Theorem xdh_exact : forall P, 0 < cn P -> forall (h : xdh_hashfn) ell_a ell_b seckey party x y,
  lift_x P (xdh_remote_x P ell_a ell_b party) false = Some (x, y) ->
  let v := be_val seckey in
  let Q := Some (x, y) in
  (1 <= v < cn P ->
     let hr := h (fe_to_b32 (px (pmul P v Q))) ell_a ell_b in
     ellswift_xdh P h ell_a ell_b seckey party = [AInt (b2z (negb (fst hr =? 0))); ABytes (snd hr)])
  /\ (v = 0 \/ cn P <= v ->
     ellswift_xdh P h ell_a ell_b seckey party = [AInt 0; ABytes (snd (h (fe_to_b32 x) ell_a ell_b))]).
Proof. exact xdh_exact. Qed.
Print Assumptions xdh_exact.

Theorem xdh_ret_bip324 : forall P, 0 < cn P -> forall ell_a ell_b seckey party x y,
  lift_x P (xdh_remote_x P ell_a ell_b party) false = Some (x, y) ->
  let v := be_val seckey in 0 <= v ->
  exists out, ellswift_xdh P xdh_hash_bip324 ell_a ell_b seckey party = [AInt (b2z ((1 <=? v) && (v <? cn P))); ABytes out].
Proof. exact xdh_ret_bip324. Qed.
Print Assumptions xdh_ret_bip324.

(* decode never returns 0; the point it returns is on the curve.  Missing for the full statement: the
   first alternative (final check of the model fails) never happens. *)
Theorem decode_total_on_curve_partial : forall P, 0 < cp P -> forall ell64,
  ellswift_decode P ell64 = model_check_failed \/
  exists x y, decode_pt P ell64 = Some (x, y) /\
              ellswift_decode P ell64 = [AInt 1; ABytes (pk_obj (Some (x, y)))] /\
              on_curve P (Some (x, y)) = true.
Proof. exact decode_total_on_curve_partial. Qed.
Print Assumptions decode_total_on_curve_partial.

(* an encoding output by the model decodes to the key it was made for (by the model's round-trip check;
   missing: the check never fails) *)
Theorem encode_decode_partial : forall P obj rnd32 ell,
  ellswift_encode P obj rnd32 = [AInt 1; ABytes ell] ->
  exists x y, pk_load obj = Some (Some (x, y)) /\ ellswift_decode P ell = [AInt 1; ABytes (pk_obj (Some (x, y)))].
Proof. exact encode_decode_partial. Qed.
Print Assumptions encode_decode_partial.

Theorem create_exact_partial : forall P seckey32 aux,
  (seckey_of_b32 P seckey32 = None -> ellswift_create P seckey32 aux = [AInt 0; ABytes (zeros 64)]) /\
  (forall d, seckey_of_b32 P seckey32 = Some d ->
     ellswift_create P seckey32 aux = abstain \/ ellswift_create P seckey32 aux = model_check_failed \/
     exists ell, ellswift_create P seckey32 aux = [AInt 1; ABytes ell] /\ decode_pt P ell = pmul P d (G P)).
Proof. exact create_exact_partial. Qed.
Print Assumptions create_exact_partial.

(* the search returns only what the inverse map returned for some PRNG output u and a 3-bit branch value *)
Theorem search_uses_inverse : forall P fuel x tag pre cnt nleft pool u32 t,
  xelligatorswift P fuel x tag pre cnt nleft pool = Some (u32, t) ->
  exists c k, 0 <= c < 8 /\ u32 = ell_prng tag pre k /\ xswiftec_inv P x (be_val u32 mod cp P) c = Some t.
Proof. exact search_uses_inverse. Qed.
Print Assumptions search_uses_inverse.

(* what a successful inverse branch has checked (c & 2 selects the x1/x2 or the x3 formula) *)
Theorem inverse_branch_conditions : forall P x u c t,
  xswiftec_inv P x u c = Some t ->
  (Z.land c 2 = 0 ->
     x_on_curve P ((- (u + x)) mod cp P) = false /\
     fis_square P (fmul P ((- (((- (u + x)) mod cp P) * ((- (u + x)) mod cp P)) + u * x) mod cp P) ((u * u * u + cb P) mod cp P)) = true)
  /\ (Z.land c 2 <> 0 ->
     fis_square P ((x - u) mod cp P) = true /\ (x - u) mod cp P <> 0 /\
     fis_square P ((- (((x - u) mod cp P) * (4 * (u * u * u + cb P) + 3 * ((x - u) mod cp P) * u * u))) mod cp P) = true).
Proof. exact inverse_branch_conditions. Qed.
Print Assumptions inverse_branch_conditions.

(* sign fix-up: t gets the parity of y *)
Theorem sign_fix_parity : forall P t (yodd : bool), Z.odd (cp P) = true -> 0 < t < cp P ->
  Z.odd (if Bool.eqb (Z.odd t) yodd then t else fneg P t) = yodd.
Proof. exact sign_fix_parity. Qed.
Print Assumptions sign_fix_parity.

(* SYMMETRY [MF]: under the group premises both parties of an ECDH exchange on multiples of G obtain the same
   result (return value and output bytes), for every hash function.  (Example ecdh_symmetric_toy.)
   The x-only variant (xdh on ElligatorSwift strings) additionally needs square-root uniqueness in the field
   and the round trip of the map: not proved, checked on every generated pair. *)
Theorem ecdh_symmetric : forall P, MathFacts P -> forall (h : ecdh_hashfn) ka kb,
  1 <= be_val ka < cn P -> 1 <= be_val kb < cn P ->
  ecdh_pt P h (pmul P (be_val kb) (G P)) ka = ecdh_pt P h (pmul P (be_val ka) (G P)) kb.
Proof. exact ecdh_symmetric. Qed.
Print Assumptions ecdh_symmetric.
