(* C11 - Surjection proofs: complete, exact and canonically encoded.
   Theorems about the executable model Model/Surjection.v (the functions the correspondence check runs
   against the C implementation).  No premise about the curve is used by any theorem of this file.
   [MF] = stated under the explicit premise MathFacts P (group law of the curve, p and n prime) and
   n < 2^256; all other theorems need no premise about the curve. *)
From Coq Require Import ZArith List Bool.
Require Import Spec.Params Spec.Curve Spec.Bytes Model.Base Model.Borromean Model.Surjection Proofs.MathFacts Proofs.SurjectionProofs.
Import ListNotations.
Local Open Scope Z_scope.

(* parsing accepts EXACTLY the canonical encodings: n_inputs <= 256, exact length
   2 + ceil(n/8) + 32*(1 + popcount(bitmap)), no bit set in the last bitmap byte at a position >= n *)
Theorem parse_exact : forall input : bytes,
  (exists pr, parse input = Some pr) <->
  (let len := Z.of_nat (length input) in
   let n := nth 1 input 0 * 256 + nth 0 input 0 in
   2 <= len /\ n <= 256 /\
   len = 2 + (n + 7) / 8 + 32 * (1 + count_bits (firstn (Z.to_nat ((n + 7) / 8)) (skipn 2 input))) /\
   (forall j, n mod 8 <> 0 -> n mod 8 <= j < 8 -> Z.testbit (nth (Z.to_nat (2 + (n + 7) / 8 - 1)) input 0) j = false)).
Proof. exact parse_some_iff. Qed.
Print Assumptions parse_exact.

(* the parsed object holds the count, the bitmap and the signature bytes of the input, nothing else *)
Theorem parse_result_fields : forall input pr, parse input = Some pr ->
  sp_n pr = n_field input /\ sp_used pr = bitmap_of input /\
  sp_data pr = skipn (Z.to_nat (2 + bitmap_len (n_field input))) input /\
  Z.of_nat (length input) = 2 + bitmap_len (n_field input) + 32 * (1 + count_bits (bitmap_of input)) /\
  2 <= Z.of_nat (length input) /\ n_field input <= 256.
Proof. exact parse_result. Qed.
Print Assumptions parse_result_fields.

(* round trip 1: serializing a parsed proof gives back the input, and serialized_size is its length *)
Theorem serialize_parse : forall input pr, bytes_ok input = true -> parse input = Some pr ->
  serialize_bytes pr = input /\ serialized_size pr = Z.of_nat (length input).
Proof. exact serialize_parse_lemma. Qed.
Print Assumptions serialize_parse.

(* round trip 2: the serialization of a well-formed object (n <= 256, arrays long enough, no padding bit)
   parses, to the observable part of the same object *)
Theorem parse_serialize : forall pr, wf_proof pr ->
  parse (serialize_bytes pr) = Some (mkProof (sp_n pr) (used_prefix pr) (firstn (Z.to_nat (sig_len pr)) (sp_data pr))).
Proof. exact parse_serialize_lemma. Qed.
Print Assumptions parse_serialize.

(* verification rejects: empty selection, tag-count mismatch, more used than total, a scalar >= n *)
Theorem verify_rejects_empty : forall P pr in_tags out_tag,
  n_used_inputs pr = 0 -> verify P pr in_tags out_tag = false.
Proof. exact verify_rejects_empty_lemma. Qed.
Print Assumptions verify_rejects_empty.

Theorem verify_rejects_count_mismatch : forall P pr in_tags out_tag,
  sp_n pr <> Z.of_nat (length in_tags) -> verify P pr in_tags out_tag = false.
Proof. exact verify_rejects_count_mismatch_lemma. Qed.
Print Assumptions verify_rejects_count_mismatch.

Theorem verify_rejects_more_used_than_total : forall P pr in_tags out_tag,
  sp_n pr < n_used_inputs pr -> verify P pr in_tags out_tag = false.
Proof. exact verify_rejects_more_used_than_total_lemma. Qed.
Print Assumptions verify_rejects_more_used_than_total.

Theorem verify_rejects_scalar_ge_n : forall P pr in_tags out_tag i,
  (i < Z.to_nat (n_used_inputs pr))%nat -> cn P <= be_val (proof_scalar_bytes pr i) ->
  verify P pr in_tags out_tag = false.
Proof. exact verify_rejects_scalar_ge_n_lemma. Qed.
Print Assumptions verify_rejects_scalar_ge_n.

(* verification returns 1 EXACTLY when the counts are consistent, every stored ring scalar is < n, and the
   Borromean ring signature (Model/Borromean.v) over the keys output - selected input_i holds *)
Theorem verify_exact : forall P pr in_tags out_tag,
  verify P pr in_tags out_tag = true <->
  (n_used_inputs pr <> 0 /\ n_used_inputs pr <= sp_n pr /\ n_used_inputs pr <= 256 /\
   sp_n pr = Z.of_nat (length in_tags) /\
   (forall i, (i < Z.to_nat (n_used_inputs pr))%nat -> be_val (proof_scalar_bytes pr i) < cn P) /\
   borromean_verify P (firstn 32 (sp_data pr))
     (map (fun c => be_val c mod cn P) (data_chunks (sp_data pr) (Z.to_nat (n_used_inputs pr))))
     (fst (compute_public_keys P in_tags 0 (sp_used pr) (tag_load out_tag) 0 0))
     [Z.to_nat (n_used_inputs pr)] 1 (genmessage in_tags out_tag) = true).
Proof. exact verify_iff_lemma. Qed.
Print Assumptions verify_exact.

(* initialize: success => the reported index is selected in the bitmap, its tag IS the output tag, it is a
   valid index, and the return value (iterations) is in 1 .. max(1, n_max_iterations) *)
Theorem initialize_sound : forall tags n_to_use out n_max seed it idx used,
  (0 < length tags <= 256)%nat ->
  initialize tags n_to_use out n_max seed = InitOk it idx used ->
  bit_test used idx = true /\ nth (Z.to_nat idx) tags [] = out /\
  0 <= idx < Z.of_nat (length tags) /\ 1 <= it <= Z.max 1 n_max /\ length used = 32%nat.
Proof. exact initialize_sound_lemma. Qed.
Print Assumptions initialize_sound.

(* ... and exactly n_to_use bits are set in the bitmap *)
Theorem initialize_selects_n_to_use : forall tags n_to_use out n_max seed it idx used,
  (0 < length tags <= 256)%nat -> 0 <= n_to_use ->
  initialize tags n_to_use out n_max seed = InitOk it idx used -> count_bits used = n_to_use.
Proof. exact initialize_count_lemma. Qed.
Print Assumptions initialize_selects_n_to_use.

(* the iteration limit is modelled exactly: the model can abstain only inside the rejection-sampling loops *)
Theorem initialize_abstains_only_inner : forall tags k out n_max seed,
  initialize tags k out n_max seed = InitOutOfFuel ->
  exists c, pick_n (Z.to_nat k) c (Z.of_nat (length tags)) tags out (zeros 32) None = None.
Proof. exact initialize_abstains_only_inner_lemma. Qed.
Print Assumptions initialize_abstains_only_inner.

(* [MF] completeness of one Borromean ring (the way this module and the whitelist module use it): a signature
   made for the ring s_pre ++ [signer] ++ s_suf with secret sec, nonce k and non-zero forged scalars over
   keys of which none is the point at infinity verifies; the signer's scalar it writes is in (0, n) *)
Theorem borromean_single_ring_sign_verifies : forall P, MathFacts P -> forall m s_pre sx s_suf p_pre p_suf k sec e0 s',
  length s_pre = length p_pre -> length s_suf = length p_suf ->
  0 <= k < cn P -> 0 <= sec < cn P ->
  forallb nz s_pre = true -> forallb nz s_suf = true ->
  forallb ninf p_pre = true -> forallb ninf p_suf = true ->
  is_inf (Curve.pmul P sec (Curve.G P)) = false ->
  borromean_sign P (s_pre ++ sx :: s_suf) (p_pre ++ Curve.pmul P sec (Curve.G P) :: p_suf) [k] [sec]
                 [length (s_pre ++ sx :: s_suf)] [length s_pre] 1 m = Some (e0, s') ->
  borromean_verify P e0 s' (p_pre ++ Curve.pmul P sec (Curve.G P) :: p_suf) [length (s_pre ++ sx :: s_suf)] 1 m = true /\
  exists snew, s' = s_pre ++ snew :: s_suf /\ 0 < snew < cn P /\ length e0 = 32%nat.
Proof. exact ring1_sign_verifies. Qed.
Print Assumptions borromean_single_ring_sign_verifies.

(* [MF] generate => verify: if generation succeeds with a blinding-key difference bkey that matches the ring
   key at the signer's position (output - input_index = bkey*G), the proof it writes verifies against the same
   ephemeral tags.  Further premises: one ring key per set bitmap bit (bitmaps without padding bits), no ring
   key at infinity (no selected input equals the output), hash-derived forged scalars non-zero. *)
Theorem generate_verifies : forall P, MathFacts P -> cn P < 2 ^ 256 ->
  forall pr in_tags out_tag input_index in_key out_key pr' pubs ridx bkey,
  sp_n pr <= 256 ->
  compute_public_keys P in_tags 0 (sp_used pr) (tag_load out_tag) input_index 0 = (pubs, ridx) ->
  bkey = sc_add P (fst (sc_of_b32 P out_key)) (sc_neg P (fst (sc_of_b32 P in_key))) ->
  length pubs = Z.to_nat (n_used_inputs pr) -> 0 <= ridx < n_used_inputs pr ->
  nth (Z.to_nat ridx) pubs None = Curve.pmul P bkey (Curve.G P) ->
  forallb ninf pubs = true ->
  (forall bs, genrand P (Z.to_nat (n_used_inputs pr)) bkey = Some bs -> forallb nz bs = true) ->
  generate P pr in_tags out_tag input_index in_key out_key = Some pr' ->
  verify P pr' in_tags out_tag = true.
Proof. exact generate_verifies_lemma. Qed.
Print Assumptions generate_verifies.
