(* C17 - Schnorr half-aggregation: exact length, incremental = one-shot over any split, rejection clauses.
   Theorems only; proofs are in Proofs/HalfaggProofs.v.  Model: Model/Halfagg.v.
   The premises 0 < cn P <= 2^256 say that a scalar fits its 32-byte encoding (true for secp256k1 and for the
   order-13 / order-199 groups: Examples premises_secp256k1, premises_order13).  No group law is needed. *)
From Coq Require Import ZArith List Bool.
Require Import Spec.Params Spec.Field Spec.Curve Spec.Bytes Model.Base Model.Schnorr Model.Halfagg Proofs.HalfaggProofs.
Require Import Proofs.MathFacts Proofs.HalfaggComplete.
Import ListNotations.
Local Open Scope Z_scope.

(* every call either succeeds with *aggsig_len = 32*(n+1) exactly (and had room for it), or returns 0 and
   leaves *aggsig_len and the buffer untouched; n = n_before + n_new in size_t arithmetic *)
Theorem aggregate_length : forall P aggsig alen pks msgs sigs nb nn,
  let r := halfagg_inc P aggsig alen pks msgs sigs nb nn in
  let n := (nb + nn) mod size_max in
  (ret_of r = 1 /\ exists agg len out, aggsig = Some agg /\ alen = Some len /\ 32 * (n + 1) <= len /\
                     r = [AInt 1; AInt (32 * (n + 1)); ABytes out])
  \/ (ret_of r = 0 /\ exists tl, r = AInt 0 :: match alen with Some l => AInt l | None => ANone end
                                        :: match aggsig with Some a => ABytes a | None => ANone end :: tl).
Proof. exact aggregate_length. Qed.
Print Assumptions aggregate_length.

(* on well-formed input with enough room the call succeeds and the buffer keeps its size *)
Theorem aggregate_bytes_length : forall P agg len (d w : list trip),
  Forall (wf_trip) d -> Forall (wf_trip) w ->
  Z.of_nat (length d + length w) < size_max ->
  32 * (Z.of_nat (length d + length w) + 1) <= len -> len <= Z.of_nat (length agg) ->
  exists out, halfagg_inc P (Some agg) (Some len) (Some (map t_pk (d ++ w))) (Some (map t_msg (d ++ w))) (Some (map t_sig w))
                          (Z.of_nat (length d)) (Z.of_nat (length w))
              = [AInt 1; AInt (32 * (Z.of_nat (length d + length w) + 1)); ABytes out]
              /\ length out = length agg.
Proof. exact aggregate_bytes_length. Qed.
Print Assumptions aggregate_bytes_length.

(* HEADLINE: for every split  w0, parts  of a sequence of (key, message, signature) triples, the chain of
   incremental calls (each started on the buffer the previous call left, n_before = number done so far)
   succeeds and leaves the same buffer, byte for byte, as ONE call of schnorrsig_aggregate on the whole
   sequence; parts may be empty lists.  api_chain is defined in Proofs/HalfaggProofs.v. *)
Theorem inc_aggregate_assoc : forall P, 0 < cn P -> cn P <= 2 ^ 256 ->
  forall parts (w0 : list trip) agg cap,
  let all := w0 ++ concat parts in
  Forall wf_trip w0 -> Forall (Forall wf_trip) parts ->
  Z.of_nat (length all) < size_max ->
  32 * (Z.of_nat (length all) + 1) <= cap -> cap <= Z.of_nat (length agg) ->
  exists out,
    api_chain P cap agg [] (w0 :: parts) = Some out /\
    halfagg_aggregate P (Some agg) (Some cap) (Some (map t_pk all)) (Some (map t_msg all)) (Some (map t_sig all))
                      (Z.of_nat (length all))
      = [AInt 1; AInt (32 * (Z.of_nat (length all) + 1)); ABytes out] /\
    length out = length agg.
Proof. exact inc_aggregate_assoc. Qed.
Print Assumptions inc_aggregate_assoc.

(* two-call form, with any admissible *aggsig_len for the second call *)
Theorem inc_aggregate_assoc2 : forall P, 0 < cn P -> cn P <= 2 ^ 256 ->
  forall agg len len2 (d w : list trip) l1 out1,
  Forall wf_trip d -> Forall wf_trip w ->
  Z.of_nat (length d + length w) < size_max ->
  32 * (Z.of_nat (length d + length w) + 1) <= len -> len <= Z.of_nat (length agg) ->
  32 * (Z.of_nat (length d + length w) + 1) <= len2 ->
  halfagg_aggregate P (Some agg) (Some len) (Some (map t_pk d)) (Some (map t_msg d)) (Some (map t_sig d)) (Z.of_nat (length d))
    = [AInt 1; AInt l1; ABytes out1] ->
  halfagg_inc P (Some out1) (Some len2) (Some (map t_pk (d ++ w))) (Some (map t_msg (d ++ w))) (Some (map t_sig w))
              (Z.of_nat (length d)) (Z.of_nat (length w))
  = halfagg_aggregate P (Some agg) (Some len) (Some (map t_pk (d ++ w))) (Some (map t_msg (d ++ w))) (Some (map t_sig (d ++ w)))
                      (Z.of_nat (length (d ++ w))).
Proof. exact inc_aggregate_assoc2. Qed.
Print Assumptions inc_aggregate_assoc2.

(* the same on the data path, from ANY starting point (b0 = pairs already inside the aggregate) *)
Theorem inc_chain_eq_oneshot : forall P, 0 < cn P -> cn P <= 2 ^ 256 ->
  forall parts agg b0 l0,
  Forall wf_item l0 -> Forall (Forall wf_item) parts ->
  (32 * (length b0 + length l0 + length (concat parts) + 1) <= length agg)%nat ->
  inc_chain P (inc_items P agg b0 l0) (b0 ++ map item_km l0) parts = inc_items P agg b0 (l0 ++ concat parts).
Proof. exact inc_chain_eq_oneshot. Qed.
Print Assumptions inc_chain_eq_oneshot.

(* ---- verification: rejection clauses (ret_of = the returned int; NULL arguments also give 0) ---- *)
Theorem aggverify_rejects_length : forall P pks msgs n aggsig len,
  len <> 32 * (n + 1) -> ret_of (halfagg_aggverify P pks msgs n aggsig len) = 0.
Proof. exact aggverify_rejects_length. Qed.
Print Assumptions aggverify_rejects_length.

Theorem aggverify_rejects_r_ge_p : forall P pks msgs n agg len i,
  (i < Z.to_nat n)%nat -> (Z.to_nat n <= length pks)%nat -> (Z.to_nat n <= length msgs)%nat ->
  cp P <= be_val (slice (32 * i) 32 agg) ->
  ret_of (halfagg_aggverify P (Some pks) (Some msgs) n (Some agg) len) = 0.
Proof. exact aggverify_rejects_r_ge_p. Qed.
Print Assumptions aggverify_rejects_r_ge_p.

Theorem aggverify_rejects_offcurve : forall P pks msgs n agg len i,
  (i < Z.to_nat n)%nat -> (Z.to_nat n <= length pks)%nat -> (Z.to_nat n <= length msgs)%nat ->
  lift_x P (be_val (slice (32 * i) 32 agg)) false = None ->
  ret_of (halfagg_aggverify P (Some pks) (Some msgs) n (Some agg) len) = 0.
Proof. exact aggverify_rejects_offcurve. Qed.
Print Assumptions aggverify_rejects_offcurve.

Theorem aggverify_rejects_s_ge_n : forall P pks msgs n aggsig len,
  (forall agg, aggsig = Some agg -> cn P <= be_val (slice (32 * Z.to_nat n) 32 agg)) ->
  ret_of (halfagg_aggverify P pks msgs n aggsig len) = 0.
Proof. exact aggverify_rejects_s_ge_n. Qed.
Print Assumptions aggverify_rejects_s_ge_n.

Theorem aggverify_ret_bool : forall P pks msgs n aggsig len,
  let r := ret_of (halfagg_aggverify P pks msgs n aggsig len) in r = 0 \/ r = 1.
Proof. exact aggverify_ret_bool. Qed.
Print Assumptions aggverify_ret_bool.

(* closed form of the one-shot aggregate: the r_i in order, then s = sum_i z_i*s_i mod n with z_0 = 1 and
   z_i = int(TaggedHash("HalfAgg/randomizer", r_0||pk_0||m_0|| ... ||r_i||pk_i||m_i)) mod n (agg_sum in
   Proofs/HalfaggProofs.v; the s_i are taken as the integers of their 32 bytes, i.e. silently reduced) *)
Theorem aggregate_bytes_spec : forall P, 0 < cn P -> forall agg new,
  inc_items P agg [] new =
  flat_map item_r new ++ sc_to_b32 (agg_sum P new [] 0 mod cn P) ++ skipn (32 * (length new + 1)) agg.
Proof. exact aggregate_bytes_spec. Qed.
Print Assumptions aggregate_bytes_spec.

(* COMPLETENESS [MF]: under the group premises (MathFacts: p, n prime, the chord-and-tangent law is an abelian
   group law on the curve, n*G = infinity) the one-shot aggregate of signatures that satisfy the BIP-340
   equation in its lifted form  s*G = lift_x(r) + e*P  (sig_valid in Proofs/HalfaggComplete.v) is produced
   successfully and accepted by aggregate verification for the same keys and messages, with the returned
   length.  By inc_aggregate_assoc every incrementally built aggregate is the same byte string.
   Non-vacuity: Examples toy_sig_valid / toy_aggregate_verifies on the toy curve where MathFacts is proved. *)
Theorem aggregate_verifies : forall P, MathFacts P -> cn P <= 2 ^ 256 ->
  forall (w : list trip) agg len,
  Forall (sig_valid P) w ->
  Z.of_nat (length w) < size_max ->
  32 * (Z.of_nat (length w) + 1) <= len -> len <= Z.of_nat (length agg) ->
  exists out,
    halfagg_aggregate P (Some agg) (Some len) (Some (map t_pk w)) (Some (map t_msg w)) (Some (map t_sig w)) (Z.of_nat (length w))
      = [AInt 1; AInt (32 * (Z.of_nat (length w) + 1)); ABytes out] /\
    halfagg_aggverify P (Some (map t_pk w)) (Some (map t_msg w)) (Z.of_nat (length w)) (Some out) (32 * (Z.of_nat (length w) + 1))
      = [AInt 1].
Proof. exact aggregate_verifies. Qed.
Print Assumptions aggregate_verifies.

(* EXACTNESS: for non-NULL arguments verification returns 1 exactly when the length is 32*(n+1), every key
   object loads, every r_i is < p and lifts to a curve point, s < n, and the half-aggregation equation
   -(s*G) + sum_i z_i*(e_i*P_i + lift_x(r_i)) = infinity holds (spec_rhs/spec_term in Proofs/HalfaggProofs.v
   compute that sum with no check inside; z_0 = 1) *)
Theorem aggverify_eq_spec : forall P pks msgs n agg len,
  let nn := Z.to_nat n in
  let its := combine (combine (firstn nn pks) (firstn nn msgs)) (chunks32 nn agg) in
  let sv := be_val (slice (32 * nn) 32 agg) in
  ret_of (halfagg_aggverify P (Some pks) (Some msgs) n (Some agg) len) = 1 <->
  (len = 32 * (n + 1) /\ 0 <= n /\ Forall (item_ok P) its /\ sv < cn P /\
   padd P (pneg P (pmul P (sv mod cn P) (G P))) (spec_rhs P its [] 0 None) = None).
Proof. exact aggverify_eq_spec. Qed.
Print Assumptions aggverify_eq_spec.
