(* C02 - BIP-340 Schnorr signing and verification are exact.
   Statements only; proofs in Proofs/SchnorrProofs.v.  Spec: Spec/Bip340.v (transcription of the BIP's
   pseudo-code).  Model: Model/Schnorr.v - tied to the C code by ./check C02. *)
From Coq Require Import ZArith List Bool Lia.
Require Import Spec.Params Spec.Field Spec.Curve Spec.Bytes Spec.Sha256 Spec.Bip340.
Require Import Model.Base Model.Keys Model.Schnorr.
Require Import Proofs.BytesLemmas Proofs.MathFacts Proofs.SchnorrProofs Proofs.SecpConsts Proofs.Toy.
Import ListNotations.
Local Open Scope Z_scope.
Notation S := secp256k1.
Lemma secp_n_le_2_256 : cn S <= 2 ^ 256. Proof. vm_compute. discriminate. Qed.
Lemma secp_p_le_2_256 : cp S <= 2 ^ 256. Proof. vm_compute. discriminate. Qed.

(* [MF] For every message of every length and every 64-byte string, verification on the object of an
   x-only key equals BIP-340 Verify on the key's encoding (R = s*G - e*P, even y, x(R) = r, r < p, s < n). *)
Theorem verify_eq_bip340 :
  MathFacts S ->
  forall x Q sig64 msg, lift_x S x false = Some Q -> x <> 0 ->
    bytes_okP sig64 -> length sig64 = 64%nat ->
    schnorrsig_verify S sig64 msg (pk_obj (Some Q)) = [AInt (b2z (bip340_verify S (be_enc 32 x) msg sig64))].
Proof. intros MF. exact (verify_eq_bip340 S MF secp_p_le_2_256). Qed.
Print Assumptions verify_eq_bip340.

(* Non-canonical encodings are rejected outright (no premise). *)
Theorem verify_rejects_r_ge_p :
  forall sig64 msg xobj, cp S <= be_val (firstn 32 sig64) -> schnorrsig_verify S sig64 msg xobj = [AInt 0].
Proof. exact (verify_rejects_r_ge_p S). Qed.
Print Assumptions verify_rejects_r_ge_p.
Theorem verify_rejects_s_ge_n :
  forall sig64 msg xobj, cn S <= be_val (skipn 32 sig64) -> schnorrsig_verify S sig64 msg xobj = [AInt 0].
Proof. exact (verify_rejects_s_ge_n S). Qed.
Print Assumptions verify_rejects_s_ge_n.

(* Only 0 or 1, and no callback, for any loadable key object. *)
Theorem verify_outcomes :
  forall sig64 msg xobj Q, pk_load xobj = Some Q ->
    schnorrsig_verify S sig64 msg xobj = [AInt 0] \/ schnorrsig_verify S sig64 msg xobj = [AInt 1].
Proof. exact (verify_outcomes S). Qed.
Print Assumptions verify_outcomes.

(* Absent auxiliary randomness behaves as 32 zero bytes. *)
Theorem aux_none_eq_zero_aux :
  forall msg32 kp, schnorrsig_sign32 S msg32 kp None = schnorrsig_sign32 S msg32 kp (Some (zeros 32)).
Proof. exact (aux_none_eq_zero_aux S). Qed.
Print Assumptions aux_none_eq_zero_aux.

(* Signing with a consistent keypair reproduces BIP-340 default signing byte for byte, for every key,
   message (any length) and auxiliary randomness (absent = 32 zero bytes).  Only premise: G has order n. *)
Theorem sign_eq_bip340_default :
  (forall k, 0 < k < cn S -> pmul S k (G S) <> None) ->
  forall d0 xP yP msg aux,
    0 < d0 < cn S -> pmul S d0 (G S) = Some (xP, yP) -> 0 < xP < cp S -> 0 <= yP < cp S ->
    schnorrsig_sign_internal S msg (keypair_obj d0 (Some (xP, yP))) 0 aux =
      match bip340_sign S (be_enc 32 d0) msg (match aux with Some a => a | None => zeros 32 end) with
      | Some sig => [AInt 1; ABytes sig]
      | None => [AInt 0; ABytes (zeros 64)]
      end.
Proof. intros HG. exact (sign_eq_bip340_default S secp_n_pos secp_n_le_2_256 secp_p_le_2_256 HG). Qed.
Print Assumptions sign_eq_bip340_default.

(* non-vacuity of the [MF] theorem: it instantiates on the toy curve where MathFacts is proved *)
Example verify_eq_bip340_toy :
  forall x Q sig64 msg, lift_x toy x false = Some Q -> x <> 0 -> bytes_okP sig64 -> length sig64 = 64%nat ->
    schnorrsig_verify toy sig64 msg (pk_obj (Some Q)) = [AInt (b2z (bip340_verify toy (be_enc 32 x) msg sig64))].
Proof. apply (Proofs.SchnorrProofs.verify_eq_bip340 toy toy_MathFacts). vm_compute. discriminate. Qed.
